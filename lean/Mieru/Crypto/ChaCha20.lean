/-!
# ChaCha20 (RFC 8439) and HChaCha20 / XChaCha20 (draft-irtf-cfrg-xchacha), executable, core only

Not proved: validated by RFC 8439 and XChaCha draft vectors (`crypto-selftest`) and
differentially against Go's `x/crypto/chacha20` by the C09 harness scenario.
-/
namespace Mieru.Crypto.ChaCha20

structure St where
  x0 : UInt32
  x1 : UInt32
  x2 : UInt32
  x3 : UInt32
  x4 : UInt32
  x5 : UInt32
  x6 : UInt32
  x7 : UInt32
  x8 : UInt32
  x9 : UInt32
  x10 : UInt32
  x11 : UInt32
  x12 : UInt32
  x13 : UInt32
  x14 : UInt32
  x15 : UInt32

@[inline] def rotl (x : UInt32) (n : UInt32) : UInt32 := (x <<< n) ||| (x >>> (32 - n))

/-- `n` double rounds (column round + diagonal round) -/
def doubleRounds : Nat → (x0 x1 x2 x3 x4 x5 x6 x7 x8 x9 x10 x11 x12 x13 x14 x15 : UInt32) → St
  | 0, x0, x1, x2, x3, x4, x5, x6, x7, x8, x9, x10, x11, x12, x13, x14, x15 => ⟨x0, x1, x2, x3, x4, x5, x6, x7, x8, x9, x10, x11, x12, x13, x14, x15⟩
  | n + 1, x0, x1, x2, x3, x4, x5, x6, x7, x8, x9, x10, x11, x12, x13, x14, x15 =>
    let x0 := x0 + x4
    let x12 := rotl (x12 ^^^ x0) 16
    let x8 := x8 + x12
    let x4 := rotl (x4 ^^^ x8) 12
    let x0 := x0 + x4
    let x12 := rotl (x12 ^^^ x0) 8
    let x8 := x8 + x12
    let x4 := rotl (x4 ^^^ x8) 7
    let x1 := x1 + x5
    let x13 := rotl (x13 ^^^ x1) 16
    let x9 := x9 + x13
    let x5 := rotl (x5 ^^^ x9) 12
    let x1 := x1 + x5
    let x13 := rotl (x13 ^^^ x1) 8
    let x9 := x9 + x13
    let x5 := rotl (x5 ^^^ x9) 7
    let x2 := x2 + x6
    let x14 := rotl (x14 ^^^ x2) 16
    let x10 := x10 + x14
    let x6 := rotl (x6 ^^^ x10) 12
    let x2 := x2 + x6
    let x14 := rotl (x14 ^^^ x2) 8
    let x10 := x10 + x14
    let x6 := rotl (x6 ^^^ x10) 7
    let x3 := x3 + x7
    let x15 := rotl (x15 ^^^ x3) 16
    let x11 := x11 + x15
    let x7 := rotl (x7 ^^^ x11) 12
    let x3 := x3 + x7
    let x15 := rotl (x15 ^^^ x3) 8
    let x11 := x11 + x15
    let x7 := rotl (x7 ^^^ x11) 7
    let x0 := x0 + x5
    let x15 := rotl (x15 ^^^ x0) 16
    let x10 := x10 + x15
    let x5 := rotl (x5 ^^^ x10) 12
    let x0 := x0 + x5
    let x15 := rotl (x15 ^^^ x0) 8
    let x10 := x10 + x15
    let x5 := rotl (x5 ^^^ x10) 7
    let x1 := x1 + x6
    let x12 := rotl (x12 ^^^ x1) 16
    let x11 := x11 + x12
    let x6 := rotl (x6 ^^^ x11) 12
    let x1 := x1 + x6
    let x12 := rotl (x12 ^^^ x1) 8
    let x11 := x11 + x12
    let x6 := rotl (x6 ^^^ x11) 7
    let x2 := x2 + x7
    let x13 := rotl (x13 ^^^ x2) 16
    let x8 := x8 + x13
    let x7 := rotl (x7 ^^^ x8) 12
    let x2 := x2 + x7
    let x13 := rotl (x13 ^^^ x2) 8
    let x8 := x8 + x13
    let x7 := rotl (x7 ^^^ x8) 7
    let x3 := x3 + x4
    let x14 := rotl (x14 ^^^ x3) 16
    let x9 := x9 + x14
    let x4 := rotl (x4 ^^^ x9) 12
    let x3 := x3 + x4
    let x14 := rotl (x14 ^^^ x3) 8
    let x9 := x9 + x14
    let x4 := rotl (x4 ^^^ x9) 7
    doubleRounds n x0 x1 x2 x3 x4 x5 x6 x7 x8 x9 x10 x11 x12 x13 x14 x15

@[inline] def le32 (b : ByteArray) (i : Nat) : UInt32 :=
  (b.get! i).toUInt32 ||| ((b.get! (i + 1)).toUInt32 <<< 8) |||
  ((b.get! (i + 2)).toUInt32 <<< 16) ||| ((b.get! (i + 3)).toUInt32 <<< 24)

@[inline] def push32le (o : ByteArray) (x : UInt32) : ByteArray :=
  (((o.push x.toUInt8).push (x >>> 8).toUInt8).push (x >>> 16).toUInt8).push (x >>> 24).toUInt8

def c0 : UInt32 := 0x61707865
def c1 : UInt32 := 0x3320646e
def c2 : UInt32 := 0x79622d32
def c3 : UInt32 := 0x6b206574

/-- key words -/
structure Key where
  k0 : UInt32
  k1 : UInt32
  k2 : UInt32
  k3 : UInt32
  k4 : UInt32
  k5 : UInt32
  k6 : UInt32
  k7 : UInt32

def Key.ofBytes (k : ByteArray) : Key :=
  ⟨le32 k 0, le32 k 4, le32 k 8, le32 k 12, le32 k 16, le32 k 20, le32 k 24, le32 k 28⟩

/-- one 64-byte keystream block XORed onto `src[off ..]` (up to 64 bytes), appended to `out` -/
def xorBlock (k : Key) (ctr n0 n1 n2 : UInt32) (src : ByteArray) (off : Nat) (out : ByteArray) : ByteArray :=
  let r := doubleRounds 10 c0 c1 c2 c3 k.k0 k.k1 k.k2 k.k3 k.k4 k.k5 k.k6 k.k7 ctr n0 n1 n2
  let w : Array UInt32 := #[r.x0 + c0, r.x1 + c1, r.x2 + c2, r.x3 + c3,
    r.x4 + k.k0, r.x5 + k.k1, r.x6 + k.k2, r.x7 + k.k3, r.x8 + k.k4, r.x9 + k.k5, r.x10 + k.k6, r.x11 + k.k7,
    r.x12 + ctr, r.x13 + n0, r.x14 + n1, r.x15 + n2]
  if off + 64 ≤ src.size then Id.run do
    let mut o := out
    for j in [0:16] do
      o := push32le o (w[j]! ^^^ le32 src (off + 4 * j))
    return o
  else Id.run do
    let mut o := out
    for j in [0 : src.size - off] do
      let ks := (w[j / 4]! >>> (UInt32.ofNat (8 * (j % 4)))).toUInt8
      o := o.push (src.get! (off + j) ^^^ ks)
    return o

def xorBlocks (k : Key) (n0 n1 n2 : UInt32) (src : ByteArray) : Nat → UInt32 → Nat → ByteArray → ByteArray
  | 0, _, _, out => out
  | nb + 1, ctr, off, out => xorBlocks k n0 n1 n2 src nb (ctr + 1) (off + 64) (xorBlock k ctr n0 n1 n2 src off out)

/-- IETF ChaCha20: 32-byte key, 12-byte nonce, 32-bit initial block counter -/
def xor (key nonce : ByteArray) (counter : UInt32) (src : ByteArray) : ByteArray :=
  xorBlocks (Key.ofBytes key) (le32 nonce 0) (le32 nonce 4) (le32 nonce 8) src
    ((src.size + 63) / 64) counter 0 (ByteArray.emptyWithCapacity src.size)

/-- HChaCha20: 32-byte key, 16-byte nonce → 32-byte subkey -/
def hchacha20 (key nonce16 : ByteArray) : ByteArray :=
  let k := Key.ofBytes key
  let r := doubleRounds 10 c0 c1 c2 c3 k.k0 k.k1 k.k2 k.k3 k.k4 k.k5 k.k6 k.k7
    (le32 nonce16 0) (le32 nonce16 4) (le32 nonce16 8) (le32 nonce16 12)
  push32le (push32le (push32le (push32le (push32le (push32le (push32le (push32le
    (ByteArray.emptyWithCapacity 32) r.x0) r.x1) r.x2) r.x3) r.x12) r.x13) r.x14) r.x15

/-- the 12-byte ChaCha20 nonce of XChaCha20: four zero bytes then nonce[16:24] -/
def xnonce12 (nonce24 : ByteArray) : ByteArray :=
  (ByteArray.mk #[0, 0, 0, 0]) ++ nonce24.extract 16 24

/-- XChaCha20: 32-byte key, 24-byte nonce -/
def xxor (key nonce24 : ByteArray) (counter : UInt32) (src : ByteArray) : ByteArray :=
  xor (hchacha20 key (nonce24.extract 0 16)) (xnonce12 nonce24) counter src

end Mieru.Crypto.ChaCha20
