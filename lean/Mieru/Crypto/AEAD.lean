import Mieru.Crypto.Poly1305
/-!
# AEAD_CHACHA20_POLY1305 (RFC 8439 §2.8) and XChaCha20-Poly1305 (draft-irtf-cfrg-xchacha §2)

`sealWith`/`openWith` take the (sub)key and the 12-byte nonce; the `x…` versions derive them
with HChaCha20 from a 24-byte nonce.  Output of `seal` is ciphertext ‖ 16-byte tag.
Not proved: validated by the RFC / draft vectors and differentially against Go's x/crypto.
-/
namespace Mieru.Crypto.AEAD
open Mieru.Crypto

def pad16 (o : ByteArray) (n : Nat) : ByteArray := Id.run do
  let mut t := o
  for _ in [0 : (16 - n % 16) % 16] do
    t := t.push 0
  return t

def macData (aad ct : ByteArray) : ByteArray :=
  let o := ByteArray.emptyWithCapacity (aad.size + ct.size + 48)
  let o := pad16 (o ++ aad) aad.size
  let o := pad16 (o ++ ct) ct.size
  o ++ Poly1305.natLE aad.size 8 ++ Poly1305.natLE ct.size 8

def zeros32 : ByteArray := ByteArray.mk (Array.replicate 32 0)

def tagFor (key nonce12 aad ct : ByteArray) : ByteArray :=
  let otk := ChaCha20.xor key nonce12 0 zeros32
  Poly1305.mac otk (macData aad ct)

def sealWith (key nonce12 plaintext aad : ByteArray) : ByteArray :=
  let ct := ChaCha20.xor key nonce12 1 plaintext
  ct ++ tagFor key nonce12 aad ct

def bytesEq (a b : ByteArray) : Bool := a.data == b.data

def openWith (key nonce12 sealed aad : ByteArray) : Option ByteArray :=
  if sealed.size < 16 then none else
  let ct := sealed.extract 0 (sealed.size - 16)
  let tag := sealed.extract (sealed.size - 16) sealed.size
  if bytesEq (tagFor key nonce12 aad ct) tag then some (ChaCha20.xor key nonce12 1 ct) else none

/-- XChaCha20-Poly1305: 32-byte key, 24-byte nonce -/
def xseal (key nonce24 plaintext aad : ByteArray) : ByteArray :=
  sealWith (ChaCha20.hchacha20 key (nonce24.extract 0 16)) (ChaCha20.xnonce12 nonce24) plaintext aad

def xopen (key nonce24 sealed aad : ByteArray) : Option ByteArray :=
  openWith (ChaCha20.hchacha20 key (nonce24.extract 0 16)) (ChaCha20.xnonce12 nonce24) sealed aad

end Mieru.Crypto.AEAD
