/-!
# Deadlines of a proxy connection (pkg/protocol/session.go SetDeadline* / Read / Write / writeChunk)

`net.Conn` contract: a deadline, once set, bounds every later `Read` (resp. `Write`) until it is
changed; zero clears it.

What the code does (after the `fix:` commits, see docs/notes/C15.md):
* `SetDeadline` / `SetReadDeadline` / `SetWriteDeadline` store the value in `readDeadline` /
  `writeDeadline`; the two that set the read side also clear `respDeadline`.
* nothing else stores to `readDeadline` / `writeDeadline`.
* a client session stores `now + 10 s` into `respDeadline` at the end of every `writeChunk` (the
  server must answer a write within `serverRespTimeout`); `Read` clears `respDeadline` when it returns.
* `Read` arms one timer at its start from the earlier of `readDeadline` and `respDeadline`;
  `writeChunk` arms one from `writeDeadline`; every wait of the call selects on that timer.

`Legacy` is the code before the fix: `Read` cleared `readDeadline` and `Write` cleared `writeDeadline`
on return, and the client's 10 s went into `readDeadline` itself.  It is kept for the regression
examples in Props/C15 (the three-step witness).

Time is in milliseconds on an arbitrary clock; `0` means "no deadline" exactly as in the code.
-/
namespace Mieru.Deadline

def respTimeout : Nat := 10000

structure St where
  rd : Nat
  wd : Nat
  resp : Nat
deriving DecidableEq, Repr

def St.init : St := ⟨0, 0, 0⟩

/-- the earlier of two deadlines, `0` = none -/
def minNZ (a b : Nat) : Nat := if a = 0 then b else if b = 0 then a else min a b

inductive Op
  | setR (t : Nat)
  | setW (t : Nat)
  | setRW (t : Nat)
  /-- `env`: the instant the environment (data, close, error, queue space) lets the call return;
      `none` = never -/
  | read (start : Nat) (env : Option Nat)
  /-- `chunk`: the write goes through `writeChunk` (false for an empty write and for a first client
      write that is piggybacked on the open-session request) -/
  | write (start : Nat) (env : Option Nat) (chunk : Bool)
deriving DecidableEq, Repr

inductive Ret
  | unit                          -- a Set*Deadline call
  | at (t : Nat) (timedOut : Bool)
  | never                         -- blocks for ever
deriving DecidableEq, Repr

/-- when a call that starts at `start` with timer `armed` returns -/
def finish (start armed : Nat) (env : Option Nat) : Ret :=
  match env with
  | none => if armed = 0 then .never else .at (max start armed) true
  | some e =>
    if armed = 0 then .at (max start e) false
    else if max start e ≤ max start armed then .at (max start e) false
    else .at (max start armed) true

def armedRead (s : St) : Nat := minNZ s.rd s.resp

/-- one call on the code's deadline state -/
def step (client : Bool) (s : St) : Op → St × Ret
  | .setR t => ({ s with rd := t, resp := 0 }, .unit)
  | .setW t => ({ s with wd := t }, .unit)
  | .setRW t => ({ rd := t, wd := t, resp := 0 }, .unit)
  | .read start env => ({ s with resp := 0 }, finish start (armedRead s) env)
  | .write start env chunk =>
    let r := finish start s.wd env
    match r with
    | .at t _ => (if client && chunk then { s with resp := t + respTimeout } else s, r)
    | _ => (s, r)

def run (client : Bool) (s : St) : List Op → St
  | [] => s
  | o :: os => run client (step client s o).1 os

/-- the contract's bookkeeping: only the Set calls change the deadlines -/
structure Spec where
  rd : Nat
  wd : Nat
deriving DecidableEq, Repr

def specStep (p : Spec) : Op → Spec
  | .setR t => { p with rd := t }
  | .setW t => { p with wd := t }
  | .setRW t => ⟨t, t⟩
  | _ => p

def specRun (p : Spec) : List Op → Spec
  | [] => p
  | o :: os => specRun (specStep p o) os

/-- the contract for one call: with deadline `d ≠ 0` in force the call has returned by `max start d` -/
def boundedBy (start d : Nat) : Ret → Prop
  | .at t _ => t ≤ max start d
  | _ => False

instance (start d : Nat) (r : Ret) : Decidable (boundedBy start d r) := by
  cases r <;> simp only [boundedBy] <;> infer_instance

/-! ## Calls that are loops of calls

`Session.Write` cuts its buffer into chunks of at most `maxPDU` bytes and runs `writeChunk` for each; every
`writeChunk` arms its own timer from the stored `writeDeadline`, and on a client stores a new
`respDeadline` when it returns.  `io.ReadFull`, `io.Copy`, the SOCKS5 parser of `apis/server Accept` issue
`Read`s back to back under one deadline. -/

/-- `Write` of a buffer that needs one chunk per entry of `envs` (when the environment lets that chunk
    through); it stops at the first chunk that times out or never returns -/
def writeChunks (client : Bool) (s : St) (start : Nat) : List (Option Nat) → St × Ret
  | [] => (s, .at start false)
  | env :: rest =>
    match step client s (.write start env true) with
    | (s', .at t false) => writeChunks client s' t rest
    | r => r

/-- `Read`s issued back to back (each starts when the previous one returned) until one fails -/
def readLoop (client : Bool) (s : St) (start : Nat) : List (Option Nat) → St × Ret
  | [] => (s, .at start false)
  | env :: rest =>
    match step client s (.read start env) with
    | (s', .at t false) => readLoop client s' t rest
    | r => r

/-! ## The code before the fix -/
namespace Legacy

def step (client : Bool) (s : St) : Op → St × Ret
  | .setR t => ({ s with rd := t }, .unit)
  | .setW t => ({ s with wd := t }, .unit)
  | .setRW t => ({ s with rd := t, wd := t }, .unit)
  | .read start env => ({ s with rd := 0 }, finish start s.rd env)
  | .write start env chunk =>
    let r := finish start s.wd env
    match r with
    | .at t _ => (if client && chunk then { s with rd := t + respTimeout, wd := 0 } else { s with wd := 0 }, r)
    | _ => ({ s with wd := 0 }, r)

/-- returns of a whole history -/
def rets (client : Bool) (s : St) : List Op → List Ret
  | [] => []
  | o :: os => (step client s o).2 :: rets client (step client s o).1 os

end Legacy

def rets (client : Bool) (s : St) : List Op → List Ret
  | [] => []
  | o :: os => (step client s o).2 :: rets client (step client s o).1 os

/-! ## Acceptor for observed histories (one end of one connection, calls issued one after another) -/

inductive Kind | data | ok | eof | ueof | closedpipe | timeout | other | blocked
deriving DecidableEq, Repr

inductive ObsOp
  | setR (t : Nat) | setW (t : Nat) | setRW (t : Nat)
  | read | write (chunk : Bool)
deriving DecidableEq, Repr

/-- one observed call.  For `kind = blocked`, `ret` is the instant the harness stopped watching. -/
structure Obs where
  op : ObsOp
  start : Nat
  ret : Nat
  kind : Kind
  n : Nat
deriving DecidableEq, Repr

structure Tol where
  eps : Nat     -- a timeout may be reported this much before the deadline (clock granularity)
  slack : Nat   -- a call bounded by a deadline may return this much after it (scheduling)
deriving DecidableEq, Repr

/-- is the observed return consistent with a timer armed at `armed`? -/
def okWith (tol : Tol) (armed : Nat) (o : Obs) : Bool :=
  match o.kind with
  | .timeout => armed != 0 && armed ≤ o.ret + tol.eps && o.ret ≤ max o.start armed + tol.slack
  | _ => armed == 0 || o.ret ≤ max o.start armed + tol.slack

/-- `none` = the model cannot explain the call -/
def acceptObs (client : Bool) (tol : Tol) (s : St) (o : Obs) : Option St :=
  match o.op with
  | .setR t => some { s with rd := t, resp := 0 }
  | .setW t => some { s with wd := t }
  | .setRW t => some { rd := t, wd := t, resp := 0 }
  | .read => if okWith tol (armedRead s) o then some { s with resp := 0 } else none
  | .write chunk =>
    if okWith tol s.wd o then
      some (if client && chunk && (o.kind == .ok || o.n > 0) then { s with resp := o.ret + respTimeout } else s)
    else none

/-- run the acceptor; `inr i` = index of the first call the model rejects -/
def acceptAll (client : Bool) (tol : Tol) : St → Nat → List Obs → St ⊕ Nat
  | s, _, [] => .inl s
  | s, i, o :: os =>
    match acceptObs client tol s o with
    | none => .inr i
    | some s' => acceptAll client tol s' (i + 1) os

def accepts (client : Bool) (tol : Tol) (s : St) (os : List Obs) : Bool :=
  match acceptAll client tol s 0 os with
  | .inl _ => true
  | .inr _ => false

/-- the contract's bookkeeping over observed calls -/
def specObs (p : Spec) (o : Obs) : Spec :=
  match o.op with
  | .setR t => { p with rd := t }
  | .setW t => { p with wd := t }
  | .setRW t => ⟨t, t⟩
  | _ => p

/-- the contract on an observed history: every read (write) made while a read (write) deadline `d ≠ 0`
    is in force is over — returned, or at least no longer watched as blocked — by `max start d + slack` -/
def meetsContract (slack : Nat) : Spec → List Obs → Prop
  | _, [] => True
  | p, o :: os =>
    (match o.op with
      | .read => p.rd ≠ 0 → o.ret ≤ max o.start p.rd + slack
      | .write _ => p.wd ≠ 0 → o.ret ≤ max o.start p.wd + slack
      | _ => True) ∧ meetsContract slack (specObs p o) os

end Mieru.Deadline
