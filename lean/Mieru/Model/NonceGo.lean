import Mieru.Model.Bits
/-!
# Model of `aeadBlockCipher.increaseNonce` (pkg/cipher/cipher.go), core Lean only

```go
for i := range c.implicitNonce {
    j := len(c.implicitNonce) - 1 - i
    c.implicitNonce[j] += 1
    if c.implicitNonce[j] != 0 { break }
}
```
The loop walks from the last byte towards the first, adding one and stopping at the first byte
that does not wrap to zero.  On the reversed list (least significant byte first) that is `incrLE`.
`Mieru.Props.C09.incrGo_eq_spec` proves it equal to the document's "+1" on the big-endian number.
-/
namespace Mieru.NonceGo
open Mieru

/-- the loop on the byte list in reverse order (last byte of the nonce first) -/
def incrLE : Bytes → Bytes
  | [] => []
  | b :: bs => if b + 1 ≠ 0 then (b + 1) :: bs else (b + 1) :: incrLE bs

def incrGo (n : Bytes) : Bytes := (incrLE n.reverse).reverse

end Mieru.NonceGo
