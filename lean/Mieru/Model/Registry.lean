/-!
# Concurrent registration of one metric (C19: "sessions opened concurrently with accounting")

`metrics.RegisterMetric(group, name, type)` as the sessions use it: `Session.input` registers the
user's `UploadBytes` / `DownloadBytes` and KEEPS the returned pointer; `Read` / `Write` add to that
pointer. Several sessions of one user run `input` on their own goroutines, so the calls interleave.

```go
var m Metric = &Counter{name: metricName, timeSeries: true}        // alloc
metric, _ := metricGroup.metrics.LoadOrStore(metricName, m)        // loadOrStore (atomic, sync.Map)
return metric.(Metric)
```
A transition system over ONE registry slot: every call is a little program of atomic steps
(`Instr`), a schedule picks which thread performs its next step; after its call has returned a
thread adds `k` bytes to the counter it got (one more step). The program is a parameter, so that the
shape the code has (`codeShape`, tied to the regenerated facts in Props/C19) and the check-then-store
shape (`racyShape`: `Load`, allocate, `Store`, return the own object) live in the same system.
Core Lean only.
-/
namespace Mieru.Registry

/-- the atomic steps a `RegisterMetric` call can perform on the slot `metricGroup.metrics[name]` -/
inductive Instr where
  /-- `metric, ok := metrics.Load(name)`; on a hit the call returns it -/
  | load
  /-- `m = &Counter{…}`: a fresh object -/
  | alloc
  /-- `metric, _ := metrics.LoadOrStore(name, m); return metric` -/
  | loadOrStore
  /-- `metrics.Store(name, m); return m` -/
  | storeOwn
deriving DecidableEq, Repr

/-- the shape of the code -/
def codeShape : List Instr := [.alloc, .loadOrStore]

/-- check-then-store ("fast path") -/
def racyShape : List Instr := [.load, .alloc, .storeOwn]

structure Thread where
  pc : Nat
  /-- the object this call allocated -/
  own : Option Nat
  /-- the object the call returned -/
  ret : Option Nat
  /-- the caller has added its bytes to the returned object -/
  added : Bool
deriving DecidableEq, Repr

structure State where
  /-- the registry slot: the published object -/
  slot : Option Nat
  /-- next fresh object id -/
  next : Nat
  threads : List Thread
  /-- the objects that received an `Add(k)`, one entry per caller that has added -/
  addsTo : List Nat
deriving DecidableEq, Repr

def init (n : Nat) : State := ⟨none, 0, List.replicate n ⟨0, none, none, false⟩, []⟩

/-- thread `tid` performs its next atomic step -/
def step (prog : List Instr) (st : State) (tid : Nat) : State :=
  match st.threads[tid]? with
  | none => st
  | some t =>
    match t.ret with
    | some r =>
      if t.added then st
      else { st with addsTo := r :: st.addsTo, threads := st.threads.set tid { t with added := true } }
    | none =>
      match prog[t.pc]? with
      | none => st
      | some .load =>
        match st.slot with
        | some x => { st with threads := st.threads.set tid { t with ret := some x } }
        | none => { st with threads := st.threads.set tid { t with pc := t.pc + 1 } }
      | some .alloc =>
        { st with next := st.next + 1, threads := st.threads.set tid { t with own := some st.next, pc := t.pc + 1 } }
      | some .loadOrStore =>
        match st.slot with
        | some x => { st with threads := st.threads.set tid { t with ret := some x } }
        | none => { st with slot := t.own, threads := st.threads.set tid { t with ret := t.own } }
      | some .storeOwn =>
        { st with slot := t.own, threads := st.threads.set tid { t with ret := t.own } }

def run (prog : List Instr) (st : State) (sched : List Nat) : State := sched.foldl (step prog) st

/-- number of callers whose `Add` reached the published counter: what the registry, the dump and
    `checkQuota` see is `k` times this -/
def visibleAdds (st : State) : Nat := (st.addsTo.filter fun r => st.slot = some r).length

/-- number of callers that have added their bytes -/
def doneAdds (st : State) : Nat := st.addsTo.length

/-- the program reads the regenerated list of `sync.Map` method names `RegisterMetric` calls on
    `metricGroup.metrics` (in source order; the allocation sits between a `Load` and the publication) -/
def shapeOfCalls : List String → Option (List Instr)
  | ["LoadOrStore"] => some [.alloc, .loadOrStore]
  | ["Load", "Store"] => some [.load, .alloc, .storeOwn]
  | ["Load", "LoadOrStore"] => some [.load, .alloc, .loadOrStore]
  | ["Store"] => some [.alloc, .storeOwn]
  | _ => none

end Mieru.Registry
