/-!
# Go fixed-width word operations the regenerated definitions refer to (core Lean only)

`tools/goextract/lowentropy.go` translates Go `uint64` / `uint32` / `uint8` expressions to Lean's
`UInt64` / `UInt32` / `UInt8` (same wrap-around arithmetic, same bitwise operators).  The few Go
operations that have no one-symbol Lean counterpart are defined here, following the Go language
specification and the source of `math/bits` / `encoding/binary`:

* shifts by a run-time count: Go yields 0 for counts ≥ 64 (Lean's `<<<` on `UInt64` reduces the count
  modulo 64);
* `bits.RotateLeft64(x, k)`: `s := uint(k) & 63; return x<<s | x>>(64-s)` (math/bits/bits.go);
* `bits.OnesCount32`;
* `binary.BigEndian.Uint64` / `PutUint64` on byte lists (stated through the big-endian number).

These are TRUSTED readings of the Go library; `mieru-gen` evaluates the regenerated definitions that
use them and the harness compares the results with the real Go functions on every run.
-/
namespace Mieru.GoWord

/-- `x << n` for a non-negative run-time count `n` (Go: 0 once `n ≥ 64`) -/
def shl (x : UInt64) (n : Nat) : UInt64 := if n ≥ 64 then 0 else x <<< UInt64.ofNat n

/-- `x >> n` for a non-negative run-time count `n` (Go: 0 once `n ≥ 64`) -/
def shr (x : UInt64) (n : Nat) : UInt64 := if n ≥ 64 then 0 else x >>> UInt64.ofNat n

/-- `x << n` with `n` an `int` (a negative count panics in Go; totalised to 0, never reached by the
    translated callers: they guard `n` first) -/
def shlInt (x : UInt64) (n : Int) : UInt64 := if n < 0 then 0 else shl x n.toNat

/-- `bits.RotateLeft64(x, k)`: rotate left by `k mod 64` (right for negative `k`).
    `uint(k) & 63` on the two's-complement `k` is the Euclidean remainder. -/
def rotateLeft64 (x : UInt64) (k : Int) : UInt64 :=
  let s := (k % 64).toNat
  shl x s ||| shr x (64 - s)

/-- number of one bits among the low `n` bits of `v` -/
def onesBelow : Nat → Nat → Nat
  | 0, _ => 0
  | n + 1, v => v % 2 + onesBelow n (v / 2)

/-- `bits.OnesCount32` -/
def onesCount32 (v : UInt32) : Int := (onesBelow 32 v.toNat : Nat)

/-- the big-endian number written by a byte list -/
def beNat (b : List UInt8) : Nat := b.foldl (fun acc x => acc * 256 + x.toNat) 0

/-- `binary.BigEndian.Uint64(b)`: the big-endian value of the 8 bytes (the callers always pass 8) -/
def beUint64 (b : List UInt8) : UInt64 := UInt64.ofNat (beNat b)

/-- the `n` low-order bytes of `v`, least significant first -/
def leBytes : Nat → Nat → List UInt8
  | 0, _ => []
  | n + 1, v => UInt8.ofNat (v % 256) :: leBytes n (v / 256)

/-- `binary.BigEndian.PutUint64`: the 8 bytes of `w`, most significant first -/
def bePutUint64 (w : UInt64) : List UInt8 := (leBytes 8 w.toNat).reverse

end Mieru.GoWord
