import Mieru.Model.Base64
/-!
# Share links (pkg/appctl/url.go): escaping, query strings, decimal integers, link structure

Strings are byte lists.  `net/url`'s `Parse` (splitting a URL text into scheme / userinfo / host /
query) is library code: the link parsers below take its RESULT (`ParsedUrl`) as input; what they do
with it — and `QueryEscape`/`QueryUnescape`, userinfo escaping, `Values.Encode`, `ParseQuery`,
`strconv.Atoi`/`Itoa`, `base64.StdEncoding` — is modelled here and compared with the real functions.
Protobuf (un)marshalling is abstract: a traffic pattern travels as its marshalled bytes and the
outcome of `proto.Unmarshal` is a parameter.

`urlToClientConfig` follows the code after `fix: URLToClientConfig rejects URLs without the mieru://
prefix instead of slicing out of range`.
-/
namespace Mieru.Url
open Mieru.Base64 (Bytes)

/-! ## percent-escaping (net/url `escape` / `unescape`) -/

inductive Mode where
  | query         -- encodeQueryComponent: QueryEscape / QueryUnescape
  | userPassword  -- encodeUserPassword: userinfo in URL.String() / Parse
deriving DecidableEq, Repr

def isAlnum (n : Nat) : Bool := (48 ≤ n && n ≤ 57) || (65 ≤ n && n ≤ 90) || (97 ≤ n && n ≤ 122)

/-- `-` `_` `.` `~` -/
def isMark (n : Nat) : Bool := n == 45 || n == 95 || n == 46 || n == 126

/-- `$ & + , ; =` — reserved characters userinfo may carry unescaped -/
def isUserinfoSafe (n : Nat) : Bool := n == 36 || n == 38 || n == 43 || n == 44 || n == 59 || n == 61

/-- `shouldEscape(c, mode)` -/
def shouldEscape (m : Mode) (c : UInt8) : Bool :=
  let n := c.toNat
  if isAlnum n || isMark n then false
  else match m with
    | .query => true
    | .userPassword => !isUserinfoSafe n

def hexUpper (n : Nat) : UInt8 := if n < 10 then UInt8.ofNat (48 + n) else UInt8.ofNat (55 + n)

def unhex (c : UInt8) : Option Nat :=
  let n := c.toNat
  if 48 ≤ n ∧ n ≤ 57 then some (n - 48)
  else if 97 ≤ n ∧ n ≤ 102 then some (n - 87)
  else if 65 ≤ n ∧ n ≤ 70 then some (n - 55)
  else none

def escape (m : Mode) : Bytes → Bytes
  | [] => []
  | c :: rest =>
    if shouldEscape m c then
      if c = 32 ∧ m = .query then 43 :: escape m rest
      else 37 :: hexUpper (c.toNat / 16) :: hexUpper (c.toNat % 16) :: escape m rest
    else c :: escape m rest

/-- `unescape(s, mode)`; `none` = EscapeError -/
def unescape (m : Mode) : Bytes → Option Bytes
  | [] => some []
  | c :: rest =>
    if c = 37 then
      match rest with
      | h :: l :: rest' =>
        match unhex h, unhex l with
        | some a, some b => (unescape m rest').map (UInt8.ofNat (a * 16 + b) :: ·)
        | _, _ => none
      | _ => none
    else if c = 43 ∧ m = .query then (unescape m rest).map (32 :: ·)
    else (unescape m rest).map (c :: ·)

/-! ## query strings (`url.Values.Encode`, `url.ParseQuery`) -/

/-- pieces of `s` separated by `sep` (always at least one piece) -/
def splitOn (sep : UInt8) : Bytes → List Bytes
  | [] => [[]]
  | c :: rest =>
    if c = sep then [] :: splitOn sep rest
    else match splitOn sep rest with
      | [] => [[c]]
      | s :: ss => (c :: s) :: ss

/-- `strings.Cut(s, sep)` for a one-byte separator: (before, after), `after = none` if not found -/
def cut (sep : UInt8) : Bytes → Bytes × Option Bytes
  | [] => ([], none)
  | c :: rest =>
    if c = sep then ([], some rest)
    else let r := cut sep rest; (c :: r.1, r.2)

def segment (k v : Bytes) : Bytes := escape .query k ++ 61 :: escape .query v

/-- `Values.Encode` on (key, value) pairs already ordered the way `Encode` orders them -/
def encodePairs : List (Bytes × Bytes) → Bytes
  | [] => []
  | [(k, v)] => segment k v
  | (k, v) :: rest => segment k v ++ 38 :: encodePairs rest

def parseSegment (seg : Bytes) : Option (Bytes × Bytes) :=
  if seg.contains 59 then none  -- ';'
  else
    let (k, v) := cut 61 seg
    match unescape .query k, unescape .query (v.getD []) with
    | some k', some v' => some (k', v')
    | _, _ => none

/-- `url.ParseQuery`: `none` if any segment is malformed (the code keeps going but returns the error) -/
def parseQuery (q : Bytes) : Option (List (Bytes × Bytes)) :=
  ((splitOn 38 q).filter (· ≠ [])).mapM parseSegment

/-- `q[key]` -/
def getAll (k : Bytes) (q : List (Bytes × Bytes)) : List Bytes := (q.filter (·.1 = k)).map (·.2)
/-- `q.Get(key)` -/
def get (k : Bytes) (q : List (Bytes × Bytes)) : Bytes := (getAll k q).headD []

/-! ## decimal integers (`strconv.Itoa`, `strconv.Atoi` on a 64-bit platform) -/

def revDigits (fuel n : Nat) : List Nat :=
  match fuel with
  | 0 => []
  | fuel + 1 => if n < 10 then [n] else (n % 10) :: revDigits fuel (n / 10)

def natDigits (n : Nat) : Bytes := ((revDigits (n + 1) n).reverse).map fun d => UInt8.ofNat (48 + d)

/-- `strconv.Itoa` / `%d` -/
def itoa (n : Int) : Bytes := if n < 0 then 45 :: natDigits n.natAbs else natDigits n.natAbs

def isDigit (c : UInt8) : Bool := 48 ≤ c.toNat && c.toNat ≤ 57

def parseNat (s : Bytes) : Nat := s.foldl (fun acc c => acc * 10 + (c.toNat - 48)) 0

/-- `strconv.Atoi`: optional sign, at least one digit, only digits, value in the int64 range -/
def atoi (s : Bytes) : Option Int :=
  let (neg, ds) : Bool × Bytes :=
    match s with
    | c :: r => if c = 43 then (false, r) else if c = 45 then (true, r) else (false, s)
    | [] => (false, [])
  if ds = [] ∨ !ds.all isDigit then none
  else
    let v := parseNat ds
    if neg then (if v ≤ 2 ^ 63 then some (-(v : Int)) else none)
    else (if v < 2 ^ 63 then some (v : Int) else none)

/-- Go's `int32(x)` conversion -/
def wrap32 (x : Int) : Int := (x + 2 ^ 31) % 2 ^ 32 - 2 ^ 31

/-! ## constants -/

def kProfile : Bytes := [112, 114, 111, 102, 105, 108, 101]  -- "profile"
def kMtu : Bytes := [109, 116, 117]  -- "mtu"
def kMultiplexing : Bytes := [109, 117, 108, 116, 105, 112, 108, 101, 120, 105, 110, 103]  -- "multiplexing"
def kHandshake : Bytes := [104, 97, 110, 100, 115, 104, 97, 107, 101, 45, 109, 111, 100, 101]  -- "handshake-mode"
def kTrafficPattern : Bytes := [116, 114, 97, 102, 102, 105, 99, 45, 112, 97, 116, 116, 101, 114, 110]  -- "traffic-pattern"
def kPort : Bytes := [112, 111, 114, 116]  -- "port"
def kProtocol : Bytes := [112, 114, 111, 116, 111, 99, 111, 108]  -- "protocol"
def sMierus : Bytes := [109, 105, 101, 114, 117, 115]  -- "mierus"
def sMieru : Bytes := [109, 105, 101, 114, 117]  -- "mieru"
def sPrefix : Bytes := [109, 105, 101, 114, 117, 58, 47, 47]  -- "mieru://"

/-- enum value names, index = number -/
def muxNames : List Bytes := [[77, 85, 76, 84, 73, 80, 76, 69, 88, 73, 78, 71, 95, 68, 69, 70, 65, 85, 76, 84],
  [77, 85, 76, 84, 73, 80, 76, 69, 88, 73, 78, 71, 95, 79, 70, 70],
  [77, 85, 76, 84, 73, 80, 76, 69, 88, 73, 78, 71, 95, 76, 79, 87],
  [77, 85, 76, 84, 73, 80, 76, 69, 88, 73, 78, 71, 95, 77, 73, 68, 68, 76, 69],
  [77, 85, 76, 84, 73, 80, 76, 69, 88, 73, 78, 71, 95, 72, 73, 71, 72]]
def hsNames : List Bytes := [[72, 65, 78, 68, 83, 72, 65, 75, 69, 95, 68, 69, 70, 65, 85, 76, 84],
  [72, 65, 78, 68, 83, 72, 65, 75, 69, 95, 83, 84, 65, 78, 68, 65, 82, 68],
  [72, 65, 78, 68, 83, 72, 65, 75, 69, 95, 78, 79, 95, 87, 65, 73, 84]]
def trNames : List Bytes := [[85, 78, 75, 78, 79, 87, 78, 95, 84, 82, 65, 78, 83, 80, 79, 82, 84, 95, 80, 82, 79, 84, 79, 67, 79, 76],
  [85, 68, 80],
  [84, 67, 80]]

/-- `Enum.String()`: the name, or the decimal number for an unknown value -/
def enumName (names : List Bytes) (v : Int) : Bytes :=
  if 0 ≤ v then (names[v.toNat]?).getD (itoa v) else itoa v

/-- `Enum_value[name]`, 0 when absent -/
def enumValue (names : List Bytes) (name : Bytes) : Int :=
  match names.idxOf? name with
  | some i => i
  | none => 0

/-! ## the two link forms -/

structure Binding where
  port : Option Int := none
  portRange : Option Bytes := none
  protocol : Option Int := none
deriving DecidableEq, Repr

structure Server where
  ipAddress : Option Bytes := none
  domainName : Option Bytes := none
  bindings : List Binding := []
deriving DecidableEq, Repr

/-- the part of `ClientProfile` a `mierus://` link carries -/
structure Profile where
  profileName : Option Bytes := none
  userName : Option Bytes := none
  password : Option Bytes := none
  servers : List Server := []
  mtu : Option Int := none
  /-- `Multiplexing` sub-message present? and its `level` -/
  multiplexing : Option (Option Int) := none
  handshakeMode : Option Int := none
  /-- marshalled `TrafficPattern`, if the sub-message is present -/
  trafficPattern : Option Bytes := none
deriving DecidableEq, Repr

/-- what `url.Parse` returned -/
structure ParsedUrl where
  scheme : Bytes
  opaquePart : Bytes
  hasUser : Bool
  userName : Bytes
  password : Bytes
  hostname : Bytes
  rawQuery : Bytes
deriving DecidableEq, Repr

inductive LinkErr where
  | scheme | isOpaque | noPrefix | base64 | pbUnmarshal
  | noUserInfo | noUserName | noPassword | noHost | query | noProfile | badMtu | tpBase64 | tpUnmarshal
  | portProtocolMismatch | badPort | badRangeBegin | badRangeEnd | badBeginPort | badEndPort | beginGtEnd | badPortNumber
  | nameEmpty | userEmpty | passwordEmpty | noServers | serverNoHost | serverNoBindings
deriving DecidableEq, Repr

def toLowerAscii (c : UInt8) : UInt8 := if 65 ≤ c.toNat ∧ c.toNat ≤ 90 then UInt8.ofNat (c.toNat + 32) else c

/-- `URLToClientConfig` after `url.Parse` succeeded: returns the protobuf bytes to unmarshal.
    `pbOK` is the outcome of `proto.Unmarshal` on them. -/
def urlToClientConfig (scheme opaquePart s : Bytes) (pbOK : Bytes → Bool) : Except LinkErr Bytes :=
  if scheme ≠ sMieru then .error .scheme
  else if opaquePart ≠ [] then .error .isOpaque
  else if s.length < 8 ∨ (s.take 8).map toLowerAscii ≠ sPrefix then .error .noPrefix
  else match Mieru.Base64.decode (s.drop 8) with
    | none => .error .base64
    | some b => if pbOK b then .ok b else .error .pbUnmarshal

def parseBinding (port proto : Bytes) : Except LinkErr Binding :=
  let protocol := some (enumValue trNames proto)
  match atoi port with
  | some n =>
    if n < 1 ∨ n > 65535 then .error .badPortNumber
    else .ok { port := some n, protocol := protocol }
  | none =>
    match splitOn 45 port with
    | [a, b] =>
      match atoi a with
      | none => .error .badRangeBegin
      | some x =>
        match atoi b with
        | none => .error .badRangeEnd
        | some y =>
          if x < 1 ∨ x > 65535 then .error .badBeginPort
          else if y < 1 ∨ y > 65535 then .error .badEndPort
          else if x > y then .error .beginGtEnd
          else .ok { portRange := some (itoa x ++ 45 :: itoa y), protocol := protocol }
    | _ => .error .badPort

def parseBindings : List Bytes → List Bytes → Except LinkErr (List Binding)
  | p :: ps, r :: rs =>
    match parseBinding p r with
    | .error e => .error e
    | .ok b => match parseBindings ps rs with
      | .error e => .error e
      | .ok bs => .ok (b :: bs)
  | _, _ => .ok []

/-- `proto.Unmarshal` fails on the decoded traffic pattern -/
def tpRejected (tpOK : Bytes → Bool) : Option Bytes → Bool
  | some b => !tpOK b
  | none => false

/-- `URLToClientProfile` after `url.Parse` succeeded.  `isIP` = `net.ParseIP(host) != nil`,
    `tpOK` = outcome of `proto.Unmarshal` on the decoded traffic pattern. -/
def urlToProfile (isIP : Bytes → Bool) (tpOK : Bytes → Bool) (u : ParsedUrl) : Except LinkErr Profile :=
  if u.scheme ≠ sMierus then .error .scheme
  else if u.opaquePart ≠ [] then .error .isOpaque
  else if !u.hasUser then .error .noUserInfo
  else if u.userName = [] then .error .noUserName
  else if u.password = [] then .error .noPassword
  else if u.hostname = [] then .error .noHost
  else match parseQuery u.rawQuery with
  | none => .error .query
  | some q =>
    if get kProfile q = [] then .error .noProfile else
    let mtuS := get kMtu q
    match (if mtuS = [] then some none else (atoi mtuS).map some) with
    | none => .error .badMtu
    | some mtu =>
      let mux := if get kMultiplexing q = [] then none else some (some (enumValue muxNames (get kMultiplexing q)))
      let hs := if get kHandshake q = [] then none else some (enumValue hsNames (get kHandshake q))
      let tpS := get kTrafficPattern q
      match (if tpS = [] then some none else (Mieru.Base64.decode tpS).map some) with
      | none => .error .tpBase64
      | some tp =>
        if tpRejected tpOK tp then .error .tpUnmarshal else
        let ports := getAll kPort q
        let protos := getAll kProtocol q
        if ports.length ≠ protos.length then .error .portProtocolMismatch else
        match parseBindings ports protos with
        | .error e => .error e
        | .ok bs =>
          .ok { profileName := some (get kProfile q)
                userName := some u.userName
                password := some u.password
                servers := [{ ipAddress := if isIP u.hostname then some u.hostname else none
                              domainName := if isIP u.hostname then none else some u.hostname
                              bindings := bs }]
                mtu := mtu.map wrap32
                multiplexing := mux
                handshakeMode := hs
                trafficPattern := tp }

/-- the (key, value) pairs `ClientProfileToMultiURLs` adds for one server, in `Values.Encode` order
    (keys sorted: handshake-mode, mtu, multiplexing, port…, profile, protocol…, traffic-pattern) -/
def profileQuery (p : Profile) (s : Server) : List (Bytes × Bytes) :=
  (match p.handshakeMode with | some h => [(kHandshake, enumName hsNames h)] | none => []) ++
  (match p.mtu with | some m => [(kMtu, itoa m)] | none => []) ++
  (match p.multiplexing with | some (some l) => [(kMultiplexing, enumName muxNames l)] | _ => []) ++
  s.bindings.map (fun b => (kPort, if b.portRange.getD [] ≠ [] then b.portRange.getD [] else itoa (b.port.getD 0))) ++
  [(kProfile, p.profileName.getD [])] ++
  s.bindings.map (fun b => (kProtocol, enumName trNames (b.protocol.getD 0))) ++
  (match p.trafficPattern with | some tp => [(kTrafficPattern, Mieru.Base64.encode tp)] | none => [])

/-- what one exported `mierus://` link carries: the userinfo as written, the host the code chose,
    and the raw query -/
structure LinkParts where
  userinfo : Bytes
  host : Bytes
  rawQuery : Bytes
deriving DecidableEq, Repr

def serverHost (s : Server) : Bytes :=
  if s.domainName.getD [] ≠ [] then s.domainName.getD [] else s.ipAddress.getD []

/-- `ClientProfileToMultiURLs` for one server (the error checks in the code's order) -/
def profileToLink (p : Profile) (s : Server) : Except LinkErr LinkParts :=
  if p.profileName.getD [] = [] then .error .nameEmpty
  else if p.userName.getD [] = [] then .error .userEmpty
  else if p.password.getD [] = [] then .error .passwordEmpty
  else if serverHost s = [] then .error .serverNoHost
  else if s.bindings = [] then .error .serverNoBindings
  else .ok { userinfo := escape .userPassword (p.userName.getD []) ++ 58 :: escape .userPassword (p.password.getD [])
             host := serverHost s
             rawQuery := encodePairs (profileQuery p s) }

def profileToLinks (p : Profile) : Except LinkErr (List LinkParts) :=
  if p.profileName.getD [] = [] then .error .nameEmpty
  else if p.userName.getD [] = [] then .error .userEmpty
  else if p.password.getD [] = [] then .error .passwordEmpty
  else if p.servers = [] then .error .noServers
  else p.servers.mapM (profileToLink p)

end Mieru.Url
