import Mieru.Model.Spec
/-!
# A reference SERVER built only from the reference codec (core Lean only)

`Mieru.Model.Spec` is direction-agnostic: a `Segment` is any metadata with any payload and
paddings.  This file adds what a third-party *server* needs on top of the codec, again from
docs/protocol.md only:

* constructors for the segments the document gives to the server direction — open-session
  response (type 3), data server→client (7), ack server→client (9), low-entropy data
  server→client (11), close request / response (4, 5) — which fill in the three length fields
  from the payload and the paddings the caller chose ("`suffix length` determines the length of
  `padding 2`", "`prefix length` determines the length of `padding 1`", "`payload length`
  includes the low entropy padding, while `extracted payload length` records the payload size
  after the padding is removed");
* how the server chooses its key.  The document gives the server three candidate keys ("The
  server needs to try maximum 3 different `timeSalt` to decrypt it successfully") and does not
  say under which key it answers; the client has a single key (its own clock), so the only
  answer every client can read is one under the key that opened the client's segment:
  `replyTx` (TCP: the key the receiver of the client's direction settled on) and
  `udpOpenCands` (UDP: the first candidate whose metadata authenticates, per datagram).

The harness stage `harness/props/c09_server.go` runs exactly these definitions through
`Mieru.Driver.SpecServer` next to the Go reference codec (`harness/wire`) while a REAL mieru
client talks to the reference server.
-/
namespace Mieru.Spec.Srv
open Mieru Mieru.Spec

/-- what the reference server knows when it builds a segment of a session: the minute stamp of
    its clock, the session, its own next sequence number, what it has received so far
    (`unAck` = next sequence number it expects) and the window it advertises -/
structure Ctx where
  timestamp : Nat
  sessionID : Nat
  seq : Nat
  unAck : Nat
  window : Nat
deriving DecidableEq, Repr

/-- every number fits the width of its field -/
def Ctx.ok (c : Ctx) : Prop :=
  c.timestamp < 2 ^ 32 ∧ c.sessionID < 2 ^ 32 ∧ c.seq < 2 ^ 32 ∧ c.unAck < 2 ^ 32 ∧ c.window < 2 ^ 16

instance (c : Ctx) : Decidable c.ok := by unfold Ctx.ok; infer_instance

/-- openSessionResponse = 3, optionally carrying up to 1024 bytes, with `padding 2` -/
def openResp (c : Ctx) (payload pad2 : Bytes) : Segment :=
  ⟨.session ⟨3, c.timestamp, c.sessionID, c.seq, 0, payload.length, pad2.length⟩, payload, [], pad2⟩

/-- closeSessionRequest = 4 -/
def closeReq (c : Ctx) (status : Nat) (pad2 : Bytes) : Segment :=
  ⟨.session ⟨4, c.timestamp, c.sessionID, c.seq, status, 0, pad2.length⟩, [], [], pad2⟩

/-- closeSessionResponse = 5 -/
def closeResp (c : Ctx) (pad2 : Bytes) : Segment :=
  ⟨.session ⟨5, c.timestamp, c.sessionID, c.seq, 0, 0, pad2.length⟩, [], [], pad2⟩

/-- dataServerToClient = 7 with `padding 1` and `padding 2` -/
def data (c : Ctx) (fragment : Nat) (payload pad1 pad2 : Bytes) : Segment :=
  ⟨.data ⟨7, c.timestamp, c.sessionID, c.seq, c.unAck, c.window, fragment, pad1.length, payload.length,
    pad2.length⟩, payload, pad1, pad2⟩

/-- ackServerToClient = 9: no payload, paddings allowed -/
def ack (c : Ctx) (pad1 pad2 : Bytes) : Segment :=
  ⟨.data ⟨9, c.timestamp, c.sessionID, c.seq, c.unAck, c.window, 0, pad1.length, 0, pad2.length⟩, [], pad1, pad2⟩

/-- dataServerToClientLowEntropy = 11: `payload length` = ceil(N / C) · 8, `extracted payload
    length` = N; refused when N = 0 or the encoded length does not fit the 16-bit field -/
def dataLE (c : Ctx) (fragment mode mask rot : Nat) (payload pad1 pad2 : Bytes) : Option Segment :=
  (LowEntropy.encodedLen payload.length mode).map fun el =>
    ⟨.le ⟨11, mode, c.timestamp, c.sessionID, c.seq, c.unAck, c.window, fragment, pad1.length, el,
      pad2.length, mask, payload.length, rot⟩, payload, pad1, pad2⟩

/-- TCP: the sender of the server's direction uses the key the receiver of the client's
    direction settled on, and a fresh 24-byte nonce -/
def replyTx (r : Rx) (nonce0 : Bytes) : Option Tx := r.key.map fun k => ⟨k, nonce0, false⟩

/-- UDP: open a datagram under the first candidate key whose metadata authenticates; the
    result names that key (the one to answer under) -/
def udpOpenCands (A : AeadFns) (d : Bytes) : List Bytes → Option (Bytes × Except Err (Meta × Bytes))
  | [] => none
  | k :: ks =>
    match udpOpen A k d with
    | .error .auth => udpOpenCands A d ks
    | r => some (k, r)

/-- position of the key in the candidate list (for the driver's reply) -/
def keyIndex (k : Bytes) (cands : List Bytes) : Nat := (cands.findIdx? (· == k)).getD cands.length

end Mieru.Spec.Srv
