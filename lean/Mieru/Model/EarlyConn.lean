import Mieru.Model.TcpSession

/-!
# The API handshake: `apis/client` DialContext in HANDSHAKE_STANDARD and HANDSHAKE_NO_WAIT (0-RTT)

What sits between the application and the session of `Mieru.Model.TcpSession` on the client side
(`apis/internal/early_conn.go`, `apis/internal/handshake.go`, `apis/client/client.go`) and on the
server side (`apis/server/server.go` `Accept`, then the proxy application's reply):

* HANDSHAKE_STANDARD — `DialContext` calls `PostDialHandshake`: `req.WriteToSocks5(conn)` (ONE
  `Write` of the SOCKS5 request), `resp.ReadFromSocks5(conn)`; the application gets the session.
* HANDSHAKE_NO_WAIT — `DialContext` returns an `EarlyConn` and sends nothing.  The application's
  first `Write(b)` runs `doHandshakeAndWrite`: ONE `Write` of request ++ b, then
  `resp.ReadFromSocks5(conn)`; later writes go straight to the session.  `Read` waits on the
  `handshaked` channel, which only a `Write` (or `Close`) closes: an application that reads first
  waits for ever — the documented requirement "the client writes first".
* the server: `Accept` reads the request with `Request.ReadFromSocks5` (exact `io.ReadFull`s: 3
  header bytes, address type, address, port), the proxy application writes the response, then relays.
  The server cannot tell the two modes apart.

`msgLen` is what `ReadFromSocks5` consumes from the bytes in front of it; the point of the model is
that this does not depend on what FOLLOWS the message (`msgLen_append` in Proofs/EarlyConn), so the
application bytes piggybacked behind the request, and the server's first application bytes behind
the response, stay in the session for the application's own `Read`.
-/

namespace Mieru.EarlyConn
open Mieru

/-- bytes consumed from the address type on: type, address, port -/
def addrLen : Bytes → Option Nat
  | [] => none
  | t :: r =>
    if t = 1 then some 7 else
    if t = 4 then some 19 else
    if t = 3 then
      match r with
      | [] => none
      | n :: _ => some (4 + n.toNat)
    else none

/-- `Request.ReadFromSocks5` / `Response.ReadFromSocks5` on the bytes `b` waiting in the session:
    the number of bytes consumed; `none` = the call fails (version, address type) or still waits -/
def msgLen : Bytes → Option Nat
  | v :: _ :: _ :: rest =>
    if v ≠ 5 then none else
    match addrLen rest with
    | some n => if n ≤ rest.length then some (3 + n) else none
    | none => none
  | _ => none

/-- a complete SOCKS5 request / response as `WriteToSocks5` writes it -/
def Wf (m : Bytes) : Prop := msgLen m = some m.length
instance (m : Bytes) : Decidable (Wf m) := by unfold Wf; infer_instance

inductive Mode where
  | standard | noWait
deriving DecidableEq, Repr

/-- the application's calls on the `net.Conn` that `DialContext` returned; `read k`: a `Read` that
    returns `k` bytes (fewer if the stream holds fewer) -/
inductive Call where
  | write (b : Bytes)
  | read (k : Nat)
deriving DecidableEq, Repr

/-- what reaches the session underneath: `Write` calls, the handshake's `ReadFromSocks5`, `Read`s -/
inductive Act where
  | write (b : Bytes)
  | handshake
  | read (k : Nat)
deriving DecidableEq, Repr

/-- `done` = the `handshaked` channel is closed -/
structure Conn where
  mode : Mode
  done : Bool
deriving DecidableEq, Repr

/-- `DialContext` after `mux.DialContext`: `PostDialHandshake` or `NewEarlyConn` + `SetRequest` -/
def dial (m : Mode) (req : Bytes) : List Act × Conn :=
  match m with
  | .standard => ([.write req, .handshake], ⟨m, true⟩)
  | .noWait => ([], ⟨m, false⟩)

/-- one application call; `none`: the call never returns (`Read` before the handshake) -/
def call (req : Bytes) (c : Conn) : Call → Option (List Act × Conn)
  | .write b =>
    if c.done then some ([.write b], c)
    else some ([.write (req ++ b), .handshake], { c with done := true })
  | .read k => if c.done then some ([.read k], c) else none

def calls (req : Bytes) : Conn → List Call → Option (List Act)
  | _, [] => some []
  | c, x :: xs =>
    match call req c x with
    | none => none
    | some r => (calls req r.2 xs).map (r.1 ++ ·)

/-- everything the client side does to the session for an application program -/
def acts (m : Mode) (req : Bytes) (prog : List Call) : Option (List Act) :=
  (calls req (dial m req).2 prog).map ((dial m req).1 ++ ·)

def toAct : Call → Act
  | .write b => .write b
  | .read k => .read k

/-- the session-level `Write` calls, in order -/
def writesOf : List Act → List Bytes
  | [] => []
  | .write b :: as => b :: writesOf as
  | _ :: as => writesOf as

/-- the bytes the application wrote, call by call -/
def appWrites : List Call → List Bytes
  | [] => []
  | .write b :: cs => b :: appWrites cs
  | _ :: cs => appWrites cs

/-- "the client writes first" -/
def WritesFirst : List Call → Prop
  | .write _ :: _ => True
  | _ => False
instance : (p : List Call) → Decidable (WritesFirst p)
  | [] => isFalse (by simp [WritesFirst])
  | .write _ :: _ => isTrue (by simp [WritesFirst])
  | .read _ :: _ => isFalse (by simp [WritesFirst])

/-- run the session-level actions against the server→client byte stream `inb` of the session
    (everything the peer will ever write): what the application's reads return, and what is left -/
def exec : List Act → Bytes → Option (List Bytes × Bytes)
  | [], inb => some ([], inb)
  | .write _ :: as, inb => exec as inb
  | .handshake :: as, inb =>
    match msgLen inb with
    | some n => exec as (inb.drop n)
    | none => none
  | .read k :: as, inb => (exec as (inb.drop k)).map fun r => (inb.take k :: r.1, r.2)

/-- the same reads on the server APPLICATION's byte stream, no handshake anywhere: the reference
    behaviour both modes must show -/
def appReads : List Call → Bytes → List Bytes × Bytes
  | [], sv => ([], sv)
  | .write _ :: cs, sv => appReads cs sv
  | .read k :: cs, sv => (sv.take k :: (appReads cs (sv.drop k)).1, (appReads cs (sv.drop k)).2)

/-- the server side: what is left for the application after `Accept` consumed the request -/
def afterAccept (stream : Bytes) : Option Bytes := (msgLen stream).map stream.drop

/-- the session program of the client side: one `Write` per session-level write, with the
    low-entropy decisions `d` the session takes at each of them -/
def toOps : List Bytes → List (Option TcpSession.LE × (Nat → Option TcpSession.LE)) → List TcpSession.Op
  | b :: bs, (lo, les) :: ds => .write lo les b :: toOps bs ds
  | b :: bs, [] => .write none (fun _ => none) b :: toOps bs []
  | [], _ => []

end Mieru.EarlyConn
