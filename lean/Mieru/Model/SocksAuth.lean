/-!
# SOCKS5 method negotiation and RFC 1929 sub-negotiation (pkg/socks5/auth.go), and where it runs
(pkg/socks5/socks5.go clientServeConn / serverServeConn)

`negotiate cfg transcript` mirrors `(*Server).handleAuthentication` statement by statement over the
bytes the application sends (`transcript`; the end of the list is end-of-stream, i.e. what
`io.ReadFull` reports as EOF / unexpected EOF).  It returns every byte written back to the
application, the outcome, and the number of transcript bytes consumed.

The model follows the REPAIRED code (repo commit "fix: socks5 never selects no-authentication when
credentials are configured"): with credentials configured the no-authentication method is never
selected; user/password is selected when offered, otherwise the reply is `05 FF`.
-/
namespace Mieru.SocksAuth

/-- one configured user/password pair (`socks5.Credential`; Go compares the strings bytewise) -/
structure Cred where
  user : List UInt8
  pass : List UInt8
deriving DecidableEq, Repr

/-- `Auth.IngressCredentials` -/
structure Config where
  creds : List Cred
deriving Repr

/-- every way `handleAuthentication` returns an error, in source order -/
inductive Refusal
  | eofVersion        -- "get socks version failed"
  | badVersion        -- "unsupported socks version"
  | eofNMethods       -- "get number of authentication method failed"
  | zeroMethods       -- "number of authentication method is 0"
  | eofMethods        -- "get authentication method failed"
  | noAcceptable      -- reply 05 FF
  | noRegisteredUser  -- only user/pass offered but no credentials configured (no reply)
  | eofSubVersion | badSubVersion | eofUserLen | eofUser | eofPassLen | eofPass
  | badCredentials    -- reply 01 01
deriving DecidableEq, Repr

inductive Outcome
  | served (rest : List UInt8)   -- `handleAuthentication` returned nil; `rest` is what is still unread
  | refused (why : Refusal)
deriving DecidableEq, Repr

structure Result where
  replies : List UInt8
  outcome : Outcome
  consumed : Nat
deriving Repr

def socksVersion : UInt8 := 5
def noAuth : UInt8 := 0
def userPassAuth : UInt8 := 2
def noAcceptableAuth : UInt8 := 0xFF
def userPassVersion : UInt8 := 1
def authSuccess : UInt8 := 0
def authFailure : UInt8 := 1

/-- the loop `for _, c := range IngressCredentials { if c.User == user && c.Password == password` -/
def credMatch (creds : List Cred) (user pass : List UInt8) : Bool :=
  creds.any fun c => c.user = user ∧ c.pass = pass

/-- the `else if requestUserPassAuth` branch after `05 02` has been written; `t` is what follows the
    method list, `base` the bytes consumed so far, `all` the transcript length (an `io.ReadFull`
    that hits end-of-stream has consumed everything) -/
def userPass (cfg : Config) (t : List UInt8) (base all : Nat) : Result :=
  let sel := [socksVersion, userPassAuth]
  match t with
  | [] => ⟨sel, .refused .eofSubVersion, all⟩
  | sv :: u1 =>
    if sv ≠ userPassVersion then ⟨sel, .refused .badSubVersion, base + 1⟩ else
    match u1 with
    | [] => ⟨sel, .refused .eofUserLen, all⟩
    | ul :: u2 =>
      if u2.length < ul.toNat then ⟨sel, .refused .eofUser, all⟩ else
      let user := u2.take ul.toNat
      match u2.drop ul.toNat with
      | [] => ⟨sel, .refused .eofPassLen, all⟩
      | pl :: u4 =>
        if u4.length < pl.toNat then ⟨sel, .refused .eofPass, all⟩ else
        let pass := u4.take pl.toNat
        let rest := u4.drop pl.toNat
        if credMatch cfg.creds user pass then
          ⟨sel ++ [userPassVersion, authSuccess], .served rest, base + 3 + ul.toNat + pl.toNat⟩
        else
          ⟨sel ++ [userPassVersion, authFailure], .refused .badCredentials, base + 3 + ul.toNat + pl.toNat⟩

/-- `handleAuthentication` -/
def negotiate (cfg : Config) (t : List UInt8) : Result :=
  match t with
  | [] => ⟨[], .refused .eofVersion, 0⟩
  | v :: t1 =>
    if v ≠ socksVersion then ⟨[], .refused .badVersion, 1⟩ else
    match t1 with
    | [] => ⟨[], .refused .eofNMethods, 1⟩
    | n :: t2 =>
      if n = 0 then ⟨[], .refused .zeroMethods, 2⟩ else
      if t2.length < n.toNat then ⟨[], .refused .eofMethods, t.length⟩ else
      let methods := t2.take n.toNat
      let t3 := t2.drop n.toNat
      -- with credentials configured, no-authentication is never selected
      let requestNoAuth := methods.contains noAuth && cfg.creds.isEmpty
      let requestUserPass := methods.contains userPassAuth
      if !requestNoAuth && !requestUserPass then
        ⟨[socksVersion, noAcceptableAuth], .refused .noAcceptable, 2 + n.toNat⟩
      else if requestNoAuth then
        ⟨[socksVersion, noAuth], .served t3, 2 + n.toNat⟩
      else if cfg.creds.isEmpty then
        ⟨[], .refused .noRegisteredUser, 2 + n.toNat⟩
      else
        userPass cfg t3 (2 + n.toNat) t.length

/-! ## placement: `Server.ServeConn` -/

/-- the part of `socks5.Config` that decides where authentication runs -/
structure Endpoint where
  useProxy : Bool           -- true: proxy client (`clientServeConn`), false: proxy server
  clientSideAuth : Bool     -- `Auth.ClientSideAuthentication`
  cfg : Config

/-- this endpoint runs `handleAuthentication` itself: the client when `ClientSideAuthentication`,
    the server when not -/
def Endpoint.authHere (e : Endpoint) : Bool := e.useProxy == e.clientSideAuth

structure Served where
  replies : List UInt8                 -- written to the application by the authentication step
  dialed : Bool                        -- `ProxyDialer.DialContext` reached (client only)
  requestInput : Option (List UInt8)   -- the stream handed to the request reader; `none`: not reached
  consumed : Nat
deriving Repr

/-- `ServeConn` up to the point where the request is read.  When this endpoint does not
    authenticate, the client dials at once (and relays the negotiation to the server, not modelled:
    `requestInput = none`), the server reads the request at once. -/
def serveConn (e : Endpoint) (t : List UInt8) : Served :=
  if e.authHere then
    let r := negotiate e.cfg t
    match r.outcome with
    | .served rest => ⟨r.replies, e.useProxy, some rest, r.consumed⟩
    | .refused _ => ⟨r.replies, false, none, r.consumed⟩
  else if e.useProxy then ⟨[], true, none, 0⟩
  else ⟨[], false, some t, 0⟩

/-! ## the client daemon: how the listener's credentials come out of the configuration

`clientRunFunc` (pkg/cli/client.go, the body of `mieru run`):
```
var socks5IngressCredentials []socks5.Credential
for _, auth := range config.GetSocks5Authentication() {
    socks5IngressCredentials = append(socks5IngressCredentials, socks5.Credential{User: auth.GetUser(), Password: auth.GetPassword()})
}
socks5Config := &socks5.Config{UseProxy: true, AuthOpts: socks5.Auth{ClientSideAuthentication: true, IngressCredentials: socks5IngressCredentials}, …}
```
-/

/-- the loop above: start from the nil slice, append one `Credential` per configured pair -/
def ingressCredentials (configured : List Cred) : List Cred :=
  configured.foldl (fun acc a => acc ++ [⟨a.user, a.pass⟩]) []

/-- the SOCKS5 listener `mieru run` starts for a configuration with these `socks5Authentication` pairs -/
def daemonEndpoint (configured : List Cred) : Endpoint :=
  ⟨true, true, ⟨ingressCredentials configured⟩⟩

end Mieru.SocksAuth
