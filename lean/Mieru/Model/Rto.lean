import Mieru.Model.Retx
/-!
# Retransmission timeout and back-off arithmetic (pkg/congestion/rtt.go `RTTStats.RTO`,
pkg/protocol/session.go `runOutputOncePacket`)

Durations are `time.Duration` = int64 nanoseconds in the code, `Nat` nanoseconds here.

**Modelling assumption (explicit):** every duration that reaches `RTO()` is below 2^52 ns (≈ 52 days).
Below that bound `float64(rto) * 1.5` is exact (3·rto < 2^54 and the product has at most one fractional
bit) and `time.Duration(float)` truncates, so the code's `time.Duration(float64(rto) * rtoMultiplier)`
with `rtoMultiplier = 1.5` is the integer `(3 * rto) / 2`.

`math.Pow(1.5, float64(k))` is exact in float64 while 3^k < 2^53 (k ≤ 33), and the code converts it to
`time.Duration` BEFORE multiplying: the back-off factor is the integer ⌊1.5^k⌋ = 3^k / 2^k
(1, 1, 2, 3, 5, 7, 11, 17, 25, 38, 57, …), not the real 1.5^k.

`UpdateRTT` (float32 smoothing) is NOT modelled: `srtt` and `mdev` are arbitrary inputs of `rto`.
-/
namespace Mieru.Rto

/-- one millisecond, in ns -/
def ms : Nat := 1000000
/-- one second, in ns -/
def sec : Nat := 1000000000

/-- `defaultInitialRTT` (rtt.go) -/
def defaultInitialRTT : Nat := sec
/-- the literal `10*time.Millisecond` of `RTO()`: floor of the variance term -/
def minVarTerm : Nat := 10 * ms
/-- the literal `4` of `RTO()` -/
def devFactor : Nat := 4
/-- `periodicOutputInterval`: what NewSession passes to `SetMaxAckDelay` -/
def maxAckDelay : Nat := ms
/-- `maxBackOffDuration` -/
def maxBackOff : Nat := 10 * sec
/-- `txCountLimit` -/
def txCountLimit : Nat := 20
/-- `txTimeoutBackOff` = `rtoMultiplier` = 1.5 as a fraction -/
def backOffNum : Nat := 3
def backOffDen : Nat := 2

/-- `rto` of the code before the multiplier: `srtt + max(4*meanDeviation, 10ms) + maxAckDelay` -/
def rtoBase (srtt mdev mad : Nat) : Nat := srtt + max (devFactor * mdev) minVarTerm + mad

/-- `RTTStats.RTO()` with `rtoMultiplier = 1.5`. No RTT sample (`smoothedRTT == 0`): `2 * defaultInitialRTT`,
    NOT multiplied. -/
def rto (srtt mdev mad : Nat) : Nat :=
  if srtt = 0 then 2 * defaultInitialRTT else backOffNum * rtoBase srtt mdev mad / backOffDen

/-- `time.Duration(math.Pow(1.5, float64(k)))`: the integer part of 1.5^k -/
def factor (k : Nat) : Nat := backOffNum ^ k / backOffDen ^ k

/-- `txTimeout` stored at the k-th transmission (k = `txCount` AFTER the increment), `r` = `RTO()` read then -/
def txTimeout (r k : Nat) : Nat := min (r * factor k) maxBackOff

/-- the lowest value `RTO()` can return with the session's settings: 3·(0 + 10 ms + 1 ms)/2 = 16.5 ms -/
def rtoMin : Nat := 16500000

/-- `RTO()` when there is no RTT sample -/
def rtoInitial : Nat := 2 * defaultInitialRTT

/-! ## The retransmission scan's decision for one segment, with explicit times

`txTime` and `now` are `UnixMicro()` values (µs), `txTimeout` is a `time.Duration` (ns) compared through
`.Microseconds()` (integer division by 1000). Go computes `now − txTime` in int64; a negative difference
(wall clock stepping back) is not `>` anything non-negative, which is what truncated subtraction gives. -/

structure TSeg where
  r : Retx.Seg        -- txCount / ackCount bookkeeping shared with `Mieru.Retx`
  txTimeUs : Nat
  txTimeoutNs : Nat
deriving DecidableEq, Repr

inductive Decision where
  | abandon | early | timeout | keep
deriving DecidableEq, Repr

def timedOut (nowUs : Nat) (s : TSeg) : Bool := decide (nowUs - s.txTimeUs > s.txTimeoutNs / 1000)

def decision (nowUs : Nat) (s : TSeg) : Decision :=
  if s.r.txCount ≥ txCountLimit then .abandon
  else if s.r.ackCount ≥ 3 ∧ s.r.txCount ≤ 1 then .early
  else if timedOut nowUs s then .timeout
  else .keep

/-- the scan's effect on the segment (`rtoNow` = `RTO()` at that moment); an abandoned segment is left as it is -/
def scan (nowUs rtoNow : Nat) (s : TSeg) : TSeg :=
  match decision nowUs s with
  | .abandon | .keep => s
  | .early | .timeout =>
    { r := Retx.step 3 1 s.r (.scan (timedOut nowUs s)),
      txTimeUs := nowUs,
      txTimeoutNs := txTimeout rtoNow (s.r.txCount + 1) }

/-- first transmission (send loop): `txCount++`, `txTime = now`, `txTimeout = min(RTO·⌊1.5^txCount⌋, 10 s)` -/
def first (nowUs rtoNow : Nat) (s : Retx.Seg) : TSeg :=
  { r := Retx.step 3 1 s .first, txTimeUs := nowUs, txTimeoutNs := txTimeout rtoNow (s.txCount + 1) }

/-! ## Timeline of one segment that is never acknowledged

`Tx` = one transmission: its instant (ns) and the value `RTO()` returned at that instant (arbitrary, the RTT
estimator is driven by other segments' acks). `Valid k a rest`: `a` is transmission number `k`, `rest` the
following ones, and every gap respects the scan's rule: transmission k → k+1 happens only when
`elapsed > txTimeout_k`, except that 1 → 2 may be an early retransmission (3 duplicate acks, `txCount ≤ 1`),
which costs no time. -/

structure Tx where
  t : Nat
  r : Nat
deriving DecidableEq, Repr

def Valid : Nat → Tx → List Tx → Prop
  | _, _, [] => True
  | k, a, b :: rest => ((k = 1 ∧ a.t ≤ b.t) ∨ a.t + txTimeout a.r k < b.t) ∧ Valid (k + 1) b rest

instance decValid : (k : Nat) → (a : Tx) → (xs : List Tx) → Decidable (Valid k a xs)
  | _, _, [] => isTrue trivial
  | k, a, b :: rest =>
    match decValid (k + 1) b rest with
    | isTrue h =>
      if h' : (k = 1 ∧ a.t ≤ b.t) ∨ a.t + txTimeout a.r k < b.t then isTrue ⟨h', h⟩
      else isFalse (fun x => h' x.1)
    | isFalse h => isFalse (fun x => h x.2)

/-- instant of the last transmission -/
def lastT : Tx → List Tx → Nat
  | a, [] => a.t
  | _, b :: rest => lastT b rest

/-- Σ_{j = k}^{k+n-1} txTimeout r j -/
def sumTimeouts (r : Nat) : Nat → Nat → Nat
  | _, 0 => 0
  | k, n + 1 => txTimeout r k + sumTimeouts r (k + 1) n

/-- The least time between the first and the 20th (= `txCountLimit`-th) transmission of a segment, RTO at its
    floor all the way: gap 1→2 may be early (0), gaps k→k+1 for k = 2..19 are timeouts. The abandonment is
    noticed by a scan at or after the 20th transmission. -/
def abandonLowerBound : Nat := sumTimeouts rtoMin 2 (txCountLimit - 2)

/-- the same with no RTT sample at all (`RTO() = 2 s` throughout) -/
def abandonLowerBoundInitial : Nat := sumTimeouts rtoInitial 2 (txCountLimit - 2)

/-- the tight schedule: transmission k+1 exactly `txTimeout r k + 1` after transmission k (gap 1→2 early) -/
def tight (r : Nat) : Nat → Nat → Nat → List Tx
  | _, _, 0 => []
  | k, t, n + 1 =>
    let t' := if k = 1 then t else t + txTimeout r k + 1
    ⟨t', r⟩ :: tight r (k + 1) t' n

end Mieru.Rto
