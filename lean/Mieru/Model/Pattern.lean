/-!
# Traffic-pattern configuration (apis/trafficpattern/config.go, pkg/cipher/cipher.go nonce rewriting,
# pkg/protocol/session.go lowEntropySendConfig)

The `TrafficPattern` protobuf message is a structure of `Option` fields (proto3 `optional` = explicit
presence; sub-messages are optional too).  Enums are their wire numbers (`Int`: proto3 enums are
open).  Strings are byte lists.

`rng.FixedInt(n, hint)` is a parameter `fixedInt : Nat → String → Nat`; the theorems assume only
`0 < n → fixedInt n h < n`.  Go's `FixedInt` returns 0 for `n ≤ 0`; that convention is `fixedIntGo`.
The hint strings are the code's: `fmt.Sprintf("%d:<field>", seed)`.

The model follows the code AFTER the repair `fix: clamp implicit nonce minLen to an explicit maxLen`.
-/
namespace Mieru.Pattern

abbrev Bytes := List UInt8

structure TcpFragment where
  enable : Option Bool := none
  maxSleepMs : Option Int := none
deriving DecidableEq, Repr, Inhabited

structure NoncePattern where
  type : Option Int := none
  applyToAll : Option Bool := none
  minLen : Option Int := none
  maxLen : Option Int := none
  customHex : List Bytes := []
deriving DecidableEq, Repr, Inhabited

structure PaddingPattern where
  maxMiddle : Option Int := none
  maxEnd : Option Int := none
deriving DecidableEq, Repr, Inhabited

structure LowEntropyPattern where
  mode : Option Int := none
  maskRotation : Option Int := none
deriving DecidableEq, Repr, Inhabited

structure TrafficPattern where
  seed : Option Int := none
  unlockAll : Option Bool := none
  tcpFragment : Option TcpFragment := none
  nonce : Option NoncePattern := none
  padding : Option PaddingPattern := none
  lowEntropy : Option LowEntropyPattern := none
deriving DecidableEq, Repr, Inhabited

/-! ## Validate -/

inductive VErr where
  | tcpSleepNegative | tcpSleepTooBig
  | nonceMinNegative | nonceMinTooBig | nonceMaxNegative | nonceMaxTooBig | nonceMinGtMax
  | nonceHexInvalid (i : Nat) | nonceHexTooLong (i : Nat)
  | padMiddleNegative | padMiddleTooBig | padEndNegative | padEndTooBig
  | leModeInvalid | leRotationInvalid
deriving DecidableEq, Repr

def maxPaddingLen : Int := 255
def maxNonceLen : Int := 12
/-- `len(appctlpb.LowEntropyMode_name)` -/
def modeCount : Nat := 5
/-- `len(appctlpb.LowEntropyMaskRotation_name)` -/
def rotationCount : Nat := 31

/-- membership in `appctlpb.LowEntropyMode_name` -/
def validMode (m : Int) : Prop := 0 ≤ m ∧ m ≤ 4
instance (m : Int) : Decidable (validMode m) := by unfold validMode; exact inferInstance

/-- membership in `appctlpb.LowEntropyMaskRotation_name`: 0, 1..15 (right), 16·(1..15) (left) -/
def validRotation (r : Int) : Prop := (0 ≤ r ∧ r ≤ 15) ∨ (16 ≤ r ∧ r ≤ 240 ∧ r % 16 = 0)
instance (r : Int) : Decidable (validRotation r) := by unfold validRotation; exact inferInstance

def isHexDigit (b : UInt8) : Bool :=
  (48 ≤ b && b ≤ 57) || (97 ≤ b && b ≤ 102) || (65 ≤ b && b ≤ 70)

/-- `hex.DecodeString` succeeds -/
def validHex (s : Bytes) : Bool := s.length % 2 == 0 && s.all isHexDigit

def validateTcpFragment : Option TcpFragment → Except VErr Unit
  | none => .ok ()
  | some f =>
    match f.maxSleepMs with
    | none => .ok ()
    | some v => if v < 0 then .error .tcpSleepNegative else if v > 100 then .error .tcpSleepTooBig else .ok ()

def validateHexList : List Bytes → Nat → Except VErr Unit
  | [], _ => .ok ()
  | s :: rest, i =>
    if !validHex s then .error (.nonceHexInvalid i)
    else if s.length / 2 > 12 then .error (.nonceHexTooLong i)
    else validateHexList rest (i + 1)

def validateNonce : Option NoncePattern → Except VErr Unit
  | none => .ok ()
  | some n => do
    match n.minLen with
    | none => pure ()
    | some v => if v < 0 then throw .nonceMinNegative else if v > maxNonceLen then throw .nonceMinTooBig else pure ()
    match n.maxLen with
    | none => pure ()
    | some v => if v < 0 then throw .nonceMaxNegative else if v > maxNonceLen then throw .nonceMaxTooBig else pure ()
    match n.minLen, n.maxLen with
    | some a, some b => if a > b then throw .nonceMinGtMax else pure ()
    | _, _ => pure ()
    validateHexList n.customHex 0

def validatePadding : Option PaddingPattern → Except VErr Unit
  | none => .ok ()
  | some p => do
    match p.maxMiddle with
    | none => pure ()
    | some v => if v < 0 then throw .padMiddleNegative else if v > maxPaddingLen then throw .padMiddleTooBig else pure ()
    match p.maxEnd with
    | none => pure ()
    | some v => if v < 0 then throw .padEndNegative else if v > maxPaddingLen then throw .padEndTooBig else pure ()

def validateLowEntropy : Option LowEntropyPattern → Except VErr Unit
  | none => .ok ()
  | some l => do
    match l.mode with
    | none => pure ()
    | some m => if validMode m then pure () else throw .leModeInvalid
    match l.maskRotation with
    | none => pure ()
    | some r => if validRotation r then pure () else throw .leRotationInvalid

/-- `trafficpattern.Validate` (the order of the checks is the code's) -/
def validate (p : TrafficPattern) : Except VErr Unit := do
  validateTcpFragment p.tcpFragment
  validateNonce p.nonce
  validatePadding p.padding
  validateLowEntropy p.lowEntropy

/-! ## Implicit generation -/

/-- Go's `rng.FixedInt`: 0 when `n ≤ 0` -/
def fixedIntGo (fi : Nat → String → Nat) (n : Int) (h : String) : Int :=
  if n ≤ 0 then 0 else (fi n.toNat h : Nat)

/-- `fmt.Sprintf("%d:name", seed)` -/
def hint (seed : Int) (name : String) : String := toString seed ++ ":" ++ name

/-- the ten seed-scoped hint names, in the order the code draws them -/
def hintNames : List String :=
  ["tcpFragment.enable", "tcpFragment.maxSleepMs", "nonce.type", "nonce.applyToAllUDPPacket",
   "nonce.minLen", "nonce.maxLen", "padding.maxMiddlePaddingLen", "padding.maxEndPaddingLen",
   "lowEntropy.mode", "lowEntropy.maskRotation"]

def orElse {α} (explicit : Option α) (gen : α) : Option α :=
  match explicit with
  | some v => some v
  | none => some gen

def genTcpFragment (fi : Nat → String → Nat) (seed : Int) (ua : Bool) (o : Option TcpFragment) : TcpFragment :=
  let f := o.getD {}
  { enable := orElse f.enable (if ua then fixedIntGo fi 2 (hint seed "tcpFragment.enable") == 1 else false)
    maxSleepMs := orElse f.maxSleepMs (if ua then fixedIntGo fi 100 (hint seed "tcpFragment.maxSleepMs") + 1 else 0) }

/-- the implicitly generated `minLen`, before and after the clamp to an explicit `maxLen` -/
def genMinLenRaw (fi : Nat → String → Nat) (seed : Int) (ua : Bool) : Int :=
  if ua then fixedIntGo fi 13 (hint seed "nonce.minLen") else fixedIntGo fi 7 (hint seed "nonce.minLen") + 6

def genMinLen (fi : Nat → String → Nat) (seed : Int) (ua : Bool) (explicitMax : Option Int) : Int :=
  let g := genMinLenRaw fi seed ua
  match explicitMax with
  | some m => if g > m then m else g
  | none => g

def genNonce (fi : Nat → String → Nat) (seed : Int) (ua : Bool) (o : Option NoncePattern) : NoncePattern :=
  let n := o.getD {}
  let minLen := orElse n.minLen (genMinLen fi seed ua n.maxLen)
  let m := minLen.getD 0
  { type := orElse n.type (if ua then fixedIntGo fi 3 (hint seed "nonce.type") else fixedIntGo fi 2 (hint seed "nonce.type") + 1)
    applyToAll := orElse n.applyToAll (fixedIntGo fi 2 (hint seed "nonce.applyToAllUDPPacket") == 1)
    minLen := minLen
    maxLen := orElse n.maxLen (m + fixedIntGo fi (13 - m) (hint seed "nonce.maxLen"))
    customHex := n.customHex }

def genPadding (fi : Nat → String → Nat) (seed : Int) (ua : Bool) (o : Option PaddingPattern) : PaddingPattern :=
  let p := o.getD {}
  let mid := fixedIntGo fi 256 (hint seed "padding.maxMiddlePaddingLen") - 128
  { maxMiddle := orElse p.maxMiddle (if mid ≤ 0 then 0 else mid)
    maxEnd := orElse p.maxEnd (if ua then fixedIntGo fi 256 (hint seed "padding.maxEndPaddingLen") else 255) }

/-- rotation index 0..30 → enum number -/
def rotationOfIndex (i : Int) : Int := if i ≤ 15 then i else (i - 15) * 16

def genLowEntropy (fi : Nat → String → Nat) (seed : Int) (ua : Bool) (o : Option LowEntropyPattern) : LowEntropyPattern :=
  let l := o.getD {}
  { mode := orElse l.mode (if ua then fixedIntGo fi modeCount (hint seed "lowEntropy.mode") else 0)
    maskRotation := orElse l.maskRotation (rotationOfIndex (fixedIntGo fi rotationCount (hint seed "lowEntropy.maskRotation"))) }

/-- the seed the hints are scoped by: the explicit one, else the host-derived `rng.FixedIntVH(MaxInt32)` -/
def seedOf (p : TrafficPattern) (hostSeed : Int) : Int := p.seed.getD hostSeed

/-- `Config.Effective()` after `NewConfig` -/
def effective (fi : Nat → String → Nat) (hostSeed : Int) (p : TrafficPattern) : TrafficPattern :=
  let seed := seedOf p hostSeed
  let ua := p.unlockAll.getD false
  { seed := p.seed
    unlockAll := p.unlockAll
    tcpFragment := some (genTcpFragment fi seed ua p.tcpFragment)
    nonce := some (genNonce fi seed ua p.nonce)
    padding := some (genPadding fi seed ua p.padding)
    lowEntropy := some (genLowEntropy fi seed ua p.lowEntropy) }

/-- `NewConfig`: validation gates generation -/
def newConfig (fi : Nat → String → Nat) (hostSeed : Int) (p : TrafficPattern) : Except VErr TrafficPattern :=
  match validate p with
  | .ok _ => .ok (effective fi hostSeed p)
  | .error e => .error e

/-! ## Nonce rewriting (pkg/cipher/cipher.go) -/

/-- `nonceRewriteLen`: the inclusive range the length is drawn from -/
def nonceRewriteRange (minLen maxLen nonceSize : Int) : Int × Int :=
  let hi := if maxLen > nonceSize then nonceSize else maxLen
  let lo := if minLen > hi then hi else minLen
  (lo, hi)

/-- `nonceRewriteLen` with the `mrand.Intn` draw `r` made explicit (reduced into the range) -/
def nonceRewriteLen (minLen maxLen nonceSize : Int) (r : Nat) : Int :=
  let (lo, hi) := nonceRewriteRange minLen maxLen nonceSize
  if lo = hi then lo else lo + ((r : Int) % (hi - lo + 1))

/-- `newNonceTo`: is the pattern applied to this nonce?  `stateless` = UDP cipher (no implicit nonce),
    `applied` = the cipher's `noncePatternApplied` flag. -/
def nonceApplies (stateless applied applyToAll : Bool) : Bool := !(stateless && applied && !applyToAll)

/-- which of `n` successive nonces of one cipher are rewritten, starting from flag `applied` -/
def rewriteFlags (stateless applyToAll : Bool) : Nat → Bool → List Bool
  | 0, _ => []
  | n + 1, applied =>
    let a := nonceApplies stateless applied applyToAll
    a :: rewriteFlags stateless applyToAll n (applied || a)

/-- what `newNonceTo` does to the fresh random nonce, by `noncePattern.GetType()` -/
inductive NonceAction where
  | none        -- left random (type RANDOM / unknown, or the pattern was not applied)
  | printable   -- `nonceRewriteLen` + `common.ToPrintableChar`
  | subset      -- `nonceRewriteLen` + `common.ToCommon64Set`
  | fixed       -- copy of one decoded custom hex string
deriving DecidableEq, Repr

def actionOfType (ty : Int) : NonceAction :=
  if ty = 1 then .printable else if ty = 2 then .subset else if ty = 3 then .fixed else .none

/-- outcome of one `newNonceTo` call -/
structure NonceStep where
  reached : Bool          -- the type switch was reached (the pattern was applied to this nonce)
  action : NonceAction
  applied : Bool          -- `noncePatternApplied` afterwards
deriving DecidableEq, Repr

/-- `newNonceTo` as a decision function.  `pat = none`: `c.noncePattern == nil` — the code returns BEFORE the
    skip test and never sets `noncePatternApplied`; `some (type, applyToAllUDPPacket)` otherwise. -/
def newNonceStep (pat : Option (Int × Bool)) (stateless applied : Bool) : NonceStep :=
  match pat with
  | none => ⟨false, .none, applied⟩
  | some (ty, all) =>
    if nonceApplies stateless applied all then ⟨true, actionOfType ty, true⟩ else ⟨false, .none, applied⟩

/-- the `reached` flags of `n` successive `newNonceTo` calls on one cipher object -/
def stepFlags (pat : Option (Int × Bool)) (stateless : Bool) : Nat → Bool → List Bool
  | 0, _ => []
  | n + 1, applied =>
    let r := newNonceStep pat stateless applied
    r.reached :: stepFlags pat stateless n r.applied

/-! ## Low-entropy send decision (pkg/protocol/session.go, low_entropy.go) -/

/-- `extractLowEntropyConfig` -/
def extractLowEntropyConfig (p : Option TrafficPattern) : Int × Int × Bool :=
  match p with
  | none => (0, 0, false)
  | some tp =>
    match tp.lowEntropy with
    | none => (0, 0, false)
    | some l =>
      let mode := l.mode.getD 0
      if mode = 0 then (0, 0, false) else (mode, l.maskRotation.getD 0, true)

/-- `Session.lowEntropySendConfig` -/
def lowEntropySendConfig (p : Option TrafficPattern) (isClient clientUsedLowEntropy : Bool) : Int × Int × Bool :=
  let (mode, rot, enabled) := extractLowEntropyConfig p
  if !enabled then (0, 0, false)
  else if !isClient && !clientUsedLowEntropy then (0, 0, false)
  else (mode, rot, true)

end Mieru.Pattern
