/-!
# Model of `pkg/replay/replay.go` (C06): the two-generation replay cache

Exact functional model of `ReplayCache.IsDuplicate(data, tag)` with the clock made an explicit
argument `now` (nanoseconds on the process's monotonic clock, a `Nat`).

```go
if c == nil || c.capacity == 0 { return false }
signature := fnv1a64(data)
if time.Since(c.expireTime) > c.expireInterval { current, previous = {}, {}; expireTime = now + interval }
if len(c.current) >= c.capacity || time.Now().After(c.expireTime) { previous = current; current = {}; expireTime = now + interval }
if existingTag, ok := c.current[signature]; ok { return existingTag == "" || tag == "" || existingTag != tag }
if existingTag, ok := c.previous[signature]; ok {
    c.current[signature] = existingTag   // the first sighting's tag survives the rotation
    return existingTag == "" || tag == "" || existingTag != tag
}
c.current[signature] = tag
return false
```

The Go maps are association lists here.  Entries are only ever inserted when the key is absent, so
`cur.length` is the map size (`Mieru.Proofs.Replay.run_keys_nodup`).  The code reads the clock up to
four times inside one call; the model uses one instant for all of them (the correspondence run keeps
every operation ≥ 50 ms away from the two deadlines a call compares against).

Core Lean only.
-/
namespace Mieru.Replay

/-- a signature: the value of the `uint64` FNV-1a hash -/
abbrev Sig := Nat
/-- a tag: the bytes of the Go string; `EmptyTag = ""` -/
abbrev Tag := List UInt8

def emptyTag : Tag := []

def fnvOffset64 : Nat := 14695981039346656037
def fnvPrime64 : Nat := 1099511628211

/-- `hash/fnv` `New64a().Write(data).Sum64()`: xor the byte in, multiply by the prime, mod 2^64 -/
def fnv1a64 (data : List UInt8) : Sig :=
  data.foldl (fun h b => ((h ^^^ b.toNat) * fnvPrime64) % 2 ^ 64) fnvOffset64

structure Cache where
  cap : Nat
  /-- `expireInterval`, ns -/
  iv : Nat
  /-- `expireTime`, ns -/
  exp : Nat
  cur : List (Sig × Tag)
  prev : List (Sig × Tag)
deriving Repr

/-- `NewCache(capacity, interval)` called at instant `now` -/
def init (cap iv now : Nat) : Cache := { cap := cap, iv := iv, exp := now + iv, cur := [], prev := [] }

/-- the lazy full expiry followed by the rotation (by size or by time) -/
def rot (c : Cache) (now : Nat) : Cache :=
  let c1 := if now > c.exp + c.iv then { c with cur := [], prev := [], exp := now + c.iv } else c
  if c1.cur.length ≥ c1.cap ∨ now > c1.exp
  then { c1 with prev := c1.cur, cur := [], exp := now + c1.iv } else c1

/-- map lookup -/
def find (m : List (Sig × Tag)) (s : Sig) : Option Tag := (m.find? (fun p => p.1 == s)).map (·.2)

/-- the tag rule: a stored tag `a` makes a call with tag `b` a duplicate -/
def tagConflict (a b : Tag) : Bool := a == emptyTag || b == emptyTag || a != b

/-- the lookup / insert-if-absent part.  A signature found only in the previous generation is
    re-inserted into the current one WITH THE PREVIOUS GENERATION'S TAG (the tag of the first sighting
    is kept across a rotation; repaired code, project commit "fix: replay cache keeps the tag of the
    first sighting across a rotation") -/
def lookup (c : Cache) (s : Sig) (tag : Tag) : Cache × Bool :=
  match find c.cur s with
  | some t => (c, tagConflict t tag)
  | none =>
    match find c.prev s with
    | some t => ({ c with cur := (s, t) :: c.cur }, tagConflict t tag)
    | none => ({ c with cur := (s, tag) :: c.cur }, false)

/-- the signature is stored in neither generation -/
def Fresh (c : Cache) (e : Sig) : Prop := find c.cur e = none ∧ find c.prev e = none

/-- one `IsDuplicate` call on an enabled cache, by signature -/
def step (c : Cache) (s : Sig) (tag : Tag) (now : Nat) : Cache × Bool := lookup (rot c now) s tag

/-- `IsDuplicate(data, tag)` at instant `now` -/
def isDuplicate (c : Cache) (data : List UInt8) (tag : Tag) (now : Nat) : Cache × Bool :=
  if c.cap = 0 then (c, false) else step c (fnv1a64 data) tag now

/-- `Clear()` -/
def clear (c : Cache) : Cache := { c with cur := [], prev := [] }

/-- `Sizes()` -/
def sizes (c : Cache) : Nat × Nat := (c.cur.length, c.prev.length)

/-! ## Specification level: a history is a list of calls (signature, tag, instant) -/

structure Call where
  sig : Sig
  tag : Tag
  time : Nat
deriving Repr, DecidableEq

def run (c : Cache) : List Call → Cache
  | [] => c
  | p :: rest => run (step c p.sig p.tag p.time).1 rest

/-- the answers of the calls of a history, in order -/
def answers (c : Cache) : List Call → List Bool
  | [] => []
  | p :: rest => (step c p.sig p.tag p.time).2 :: answers (step c p.sig p.tag p.time).1 rest

/-- "the calls `mid` carry fewer than `cap` distinct signatures other than `e`": every duplicate-free
    list of such signatures is shorter than `cap` -/
def FewOthers (cap : Nat) (e : Sig) (mid : List Call) : Prop :=
  ∀ l : List Sig, l.Nodup → (∀ x ∈ l, x ∈ mid.map (·.sig) ∧ x ≠ e) → l.length < cap

/-- A chain of further presentations of `e`: each round is some other traffic `mid` followed by a
    presentation of `e` with tag `tag` at instant `time`. -/
structure Round where
  mid : List Call
  tag : Tag
  time : Nat

/-- every link of the chain is inside the bounds RELATIVE TO THE PREVIOUS PRESENTATION (at `t`):
    instants within `[t, t + interval]`, fewer than `capacity` distinct other signatures -/
def ChainOK (cap iv : Nat) (e : Sig) : Nat → List Round → Prop
  | _, [] => True
  | t, r :: rest =>
    (∀ p ∈ r.mid, t ≤ p.time ∧ p.time ≤ t + iv) ∧ t ≤ r.time ∧ r.time ≤ t + iv ∧ FewOthers cap e r.mid ∧
    ChainOK cap iv e r.time rest

/-- the answers to the presentations of `e` along a chain -/
def chainAnswers (c : Cache) (e : Sig) : List Round → List Bool
  | [] => []
  | r :: rest =>
    let c1 := run c r.mid
    (step c1 e r.tag r.time).2 :: chainAnswers (step c1 e r.tag r.time).1 e rest

/-- duplicate-free list of the members of a list (first occurrences from the right) -/
def distinct : List Sig → List Sig
  | [] => []
  | a :: l => if a ∈ distinct l then distinct l else a :: distinct l

/-- the number of distinct signatures other than `e` among the calls `mid` (executable form of
    `FewOthers`, see `Mieru.Proofs.Replay.fewOthers_iff`) -/
def distinctOthers (e : Sig) (mid : List Call) : Nat :=
  (distinct ((mid.map (·.sig)).filter (· ≠ e))).length

/-- instants of a history never go backwards -/
def NonDecreasing : List Nat → Prop
  | [] => True
  | [_] => True
  | a :: b :: rest => a ≤ b ∧ NonDecreasing (b :: rest)

/-! ## The validity window of a unit on the wire (receiver side), in nanoseconds of Unix time

`metadata.go Unmarshal`: `WithinRange(uint32(now.Unix()/60), originalTimestamp, 1)`;
`cipher/keygen.go saltFromTime`: keys for `now.Round(I) - I`, `now.Round(I)`, `now.Round(I) + I`. -/

def nsPerSec : Int := 1000000000

/-- `uint32(time.Unix()/60)` for instants after the epoch and before the uint32 minute counter wraps -/
def minuteOf (ts : Int) : Int := ts / (60 * nsPerSec)

/-- the ±1 minute timestamp rule: a unit stamped with minute `m` passes at receiver instant `ts` -/
def tsAccept (m ts : Int) : Prop := m - 1 ≤ minuteOf ts ∧ minuteOf ts ≤ m + 1

/-- `time.Round(I)` for instants after the epoch: nearest multiple, halfway rounds up -/
def roundTo (I ts : Int) : Int := (ts + I / 2) / I * I

/-- the 3-slot key rule: a unit sealed under the key of slot `k` opens at receiver instant `ts` -/
def keyAccept (I k ts : Int) : Prop :=
  k = roundTo I ts - I ∨ k = roundTo I ts ∨ k = roundTo I ts + I

end Mieru.Replay
