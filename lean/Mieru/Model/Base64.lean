/-!
# `encoding/base64` `StdEncoding` (RFC 4648 alphabet, `=` padding, non-strict) as the code uses it

`Encode`: 3 bytes → 4 characters, final group padded with `=`.
`Decode` (Go semantics): `\r` and `\n` are ignored anywhere; the rest must be groups of four
alphabet characters, the last group may end in `=` or `==`; nothing may follow the padding; an
incomplete unpadded final group is an error; unused trailing bits are NOT checked (non-strict).
-/
namespace Mieru.Base64

abbrev Bytes := List UInt8

def b64Char (n : Nat) : UInt8 :=
  if n < 26 then UInt8.ofNat (65 + n)
  else if n < 52 then UInt8.ofNat (97 + (n - 26))
  else if n < 62 then UInt8.ofNat (48 + (n - 52))
  else if n = 62 then 43 else 47

def b64Val (c : UInt8) : Option Nat :=
  let n := c.toNat
  if 65 ≤ n ∧ n ≤ 90 then some (n - 65)
  else if 97 ≤ n ∧ n ≤ 122 then some (n - 97 + 26)
  else if 48 ≤ n ∧ n ≤ 57 then some (n - 48 + 52)
  else if n = 43 then some 62
  else if n = 47 then some 63
  else none

/-- `=` -/
def padChar : UInt8 := 61

def encode : Bytes → Bytes
  | [] => []
  | [a] =>
    let x := a.toNat
    [b64Char (x / 4), b64Char (x % 4 * 16), padChar, padChar]
  | [a, b] =>
    let x := a.toNat; let y := b.toNat
    [b64Char (x / 4), b64Char (x % 4 * 16 + y / 16), b64Char (y % 16 * 4), padChar]
  | a :: b :: c :: rest =>
    let x := a.toNat; let y := b.toNat; let z := c.toNat
    b64Char (x / 4) :: b64Char (x % 4 * 16 + y / 16) :: b64Char (y % 16 * 4 + z / 64) :: b64Char (z % 64) :: encode rest

/-- decoding of input from which `\r`, `\n` were removed -/
def decodeCore : Bytes → Option Bytes
  | [] => some []
  | a :: b :: c :: d :: rest =>
    match b64Val a, b64Val b with
    | some v0, some v1 =>
      let b1 := UInt8.ofNat (v0 * 4 + v1 / 16)
      if c = padChar then
        if d = padChar ∧ rest = [] then some [b1] else none
      else
        match b64Val c with
        | none => none
        | some v2 =>
          let b2 := UInt8.ofNat (v1 % 16 * 16 + v2 / 4)
          if d = padChar then
            if rest = [] then some [b1, b2] else none
          else
            match b64Val d with
            | none => none
            | some v3 =>
              match decodeCore rest with
              | none => none
              | some tl => some (b1 :: b2 :: UInt8.ofNat (v2 % 4 * 64 + v3) :: tl)
    | _, _ => none
  | _ => none

def isNewline (c : UInt8) : Bool := c == 10 || c == 13

/-- `base64.StdEncoding.DecodeString` -/
def decode (s : Bytes) : Option Bytes := decodeCore (s.filter fun c => !isNewline c)

end Mieru.Base64
