import Mieru.Model.Close
/-!
# The writer's side of a graceful close on the stream transport

`Session.Write / writeChunk`, `runOutputOnceStream` and `closeWithError` of pkg/protocol/session.go as a
transition system over the session's send queue, its output lock `oLock` and what it has written to
the TCP connection (`wire`, in order — the underlay serialises whole segments).

* `write`        `writeChunk` queues the fragments of one chunk under `oLock`, after waiting until the
                 queue has room for them AND one more slot ("reserve one slot for Close()");
* `outLock`      `runOutputOnceStream` takes `oLock`;
* `outDequeue`   `sendQueue.DeleteMin()` under the lock: the segment is now in flight;
* `outWrite`     `s.output(seg)` → `writeOneSegment`: the in-flight segment is on the wire. In the code as
                 it is this happens while `oLock` is still held (`drainLocked`);
* `outUnlock`    the queue is empty: the drain ends and `oLock` is released;
* `outUnlockEarly`  only in the hypothetical variant `drainLocked = false` (lock held for the dequeue
                 only): the lock is released with a segment still in flight;
* `outFail…`     `output` fails (`wr = false` only): `outputHasErr`, the lock is released and
                 `closeWithError(err)` runs — not graceful: the close request is written directly;
* `closeQueued`  `Close()` → `closeWithError(nil)`: under `oLock` the close request is inserted at the
                 tail of `sendQueue`; then the bounded wait `1000 × 1 ms` for `lastSend ≥ closeRequestSeq`;
* `closeInsertFails`  `sendQueue.Insert` refuses the close request (queue full) — unreachable, see
                 `Proofs/CloseWriter.winv` (`capI`), thanks to the slot `writeChunk` reserves;
* `waitDone`     the close request has been written by the output loop: the wait ends;
* `waitExpire`   the wait expires first; `closeWithError` now wants `oLock` for a direct write;
* `forceOut`     … gets it (`olock = false`) and writes the close request out directly;
* `discard`      `sendQueue.DeleteAll(); sendBuf.DeleteAll(); close(closedChan)` — without `oLock`;
* `respOut`      the peer's session answers our close request with a response and closes, which sends a
                 close request of its own; our `inputClose` answers THAT with a close response, written
                 directly under `oLock`. The peer application does not close on its own in the property's
                 scenario (it reads), so this happens only once our close request is on the wire.

`WEnv` names what the writer-side theorem assumes (`Props/C03.tcp_writer_wire_order`):
`sched` — the bounded wait does not expire while the output loop is IDLE (neither holding `oLock` nor
with a segment in flight) although the queue is not empty, i.e. the output-loop goroutine is not
starved for a thousand sleeps; `wr` — writes to the underlay do not fail; `drainLocked` — a fact about
the code, regenerated from the source (`Gen.CloseFacts.lockScope`, `Props/C03.close_lock_scope`):
`oLock` is held from before `DeleteMin` until after `output` returned and the queue is empty.
-/
namespace Mieru.CloseStream
open Mieru

structure WEnv where
  sched : Bool
  wr : Bool
  drainLocked : Bool
deriving DecidableEq, Repr

inductive Phase where
  | idle          -- Close has not been called
  | waiting       -- close request queued, bounded wait running
  | forcing       -- wait expired (or Insert failed): wants oLock for the direct write
  | discarding    -- about to DeleteAll
  | done          -- closedChan closed
deriving DecidableEq, Repr

structure WSt where
  frags : List Bytes       -- ghost: payload of every data segment `Write` has queued, in order
  queue : List Item        -- sendQueue (ascending sequence numbers)
  inflight : Option Item   -- dequeued by the output loop, not yet written
  wire : List Item         -- written to the connection by this session, in order
  olock : Bool             -- `oLock` is held by the output loop
  outErr : Bool            -- outputHasErr
  ph : Phase
  cap : Nat                -- capacity of sendQueue (segmentTreeCapacity)
deriving DecidableEq, Repr

def winit (cap : Nat) : WSt := ⟨[], [], none, [], false, false, .idle, cap⟩

inductive WStep (E : WEnv) : WSt → WSt → Prop
  | write (s : WSt) (ps : List Bytes) (hp : s.ph = .idle) (hl : s.olock = false) (he : s.outErr = false)
      (hroom : s.queue.length + ps.length < s.cap) :
      WStep E s { s with queue := s.queue ++ ps.map Item.data, frags := s.frags ++ ps }
  | outLock (s : WSt) (hl : s.olock = false) (he : s.outErr = false) (hi : s.inflight = none) :
      WStep E s { s with olock := true }
  | outDequeue (s : WSt) (x : Item) (q : List Item) (hl : s.olock = true) (hi : s.inflight = none)
      (hq : s.queue = x :: q) : WStep E s { s with queue := q, inflight := some x }
  | outWrite (s : WSt) (x : Item) (hi : s.inflight = some x) (hl : E.drainLocked = true → s.olock = true) :
      WStep E s { s with inflight := none, wire := s.wire ++ [x] }
  | outUnlock (s : WSt) (hl : s.olock = true) (hi : s.inflight = none) (hq : s.queue = []) :
      WStep E s { s with olock := false }
  | outUnlockEarly (s : WSt) (hd : E.drainLocked = false) (hl : s.olock = true) : WStep E s { s with olock := false }
  /-- `output` fails before `Close` was called: `closeWithError(err)` writes the close request directly
      (`ok`: whether that write succeeds) and discards -/
  | outFailIdle (s : WSt) (x : Item) (ok : Bool) (hw : E.wr = false) (hi : s.inflight = some x) (hp : s.ph = .idle) :
      WStep E s { s with inflight := none, olock := false, outErr := true, ph := .discarding,
                         wire := s.wire ++ (if ok then [Item.closeReq] else []) }
  /-- `output` fails while `Close` is already under way: `closeWithError(err)` returns at once -/
  | outFailClosing (s : WSt) (x : Item) (hw : E.wr = false) (hi : s.inflight = some x) (hp : s.ph ≠ .idle) :
      WStep E s { s with inflight := none, olock := false, outErr := true }
  | closeQueued (s : WSt) (hp : s.ph = .idle) (hl : s.olock = false) (hroom : s.queue.length < s.cap) :
      WStep E s { s with queue := s.queue ++ [Item.closeReq], ph := .waiting }
  | closeInsertFails (s : WSt) (hp : s.ph = .idle) (hl : s.olock = false) (hfull : s.cap ≤ s.queue.length) :
      WStep E s { s with ph := .forcing }
  | waitDone (s : WSt) (hp : s.ph = .waiting) (hw : Item.closeReq ∈ s.wire) : WStep E s { s with ph := .discarding }
  | waitExpire (s : WSt) (hp : s.ph = .waiting)
      (hs : E.sched = true → s.olock = true ∨ s.inflight ≠ none ∨ s.queue = [] ∨ s.outErr = true) :
      WStep E s { s with ph := .forcing }
  | forceOut (s : WSt) (ok : Bool) (hp : s.ph = .forcing) (hl : s.olock = false) (hw : E.wr = true → ok = true) :
      WStep E s { s with ph := .discarding, wire := s.wire ++ (if ok then [Item.closeReq] else []) }
  | discard (s : WSt) (hp : s.ph = .discarding) : WStep E s { s with queue := [], ph := .done }
  | respOut (s : WSt) (hq : Item.closeReq ∈ s.wire) (hl : s.olock = false) :
      WStep E s { s with wire := s.wire ++ [Item.closeResp] }

inductive WReach (E : WEnv) (cap : Nat) : WSt → Prop
  | init : WReach E cap (winit cap)
  | step {s t} : WReach E cap s → WStep E s t → WReach E cap t

/-- the code as it is, with no assumption on scheduling or on the underlay -/
def wAsIs : WEnv := ⟨false, false, true⟩
/-- the assumptions of the writer-side theorem -/
def wAssumed : WEnv := ⟨true, true, true⟩
/-- the hypothetical code that holds `oLock` for the dequeue only, under the same assumptions -/
def wNarrowLock : WEnv := ⟨true, true, false⟩

/-- What the receiving side needs of the session's items on the wire: a prefix of the data fragments,
    or ALL of them followed by a close request followed by anything (a second, forced close request;
    a close response; data that was in flight when the send state was discarded). -/
def WireOk (frags : List Bytes) (w : List Item) : Prop :=
  (∃ j, w = (frags.take j).map Item.data) ∨ (∃ rest, w = frags.map Item.data ++ Item.closeReq :: rest)

/-- decidable form for the driver -/
def wireOkB (frags : List Bytes) (w : List Item) : Bool :=
  let f := frags.map Item.data
  f.take w.length == w || w.take (f.length + 1) == f ++ [Item.closeReq]

/-! ### Executable acceptor for observed writer histories (correspondence)

The harness observes, on the real endpoints: the application's `Write` (fragment lengths), `Close()`
being called and returning, and every segment of the session on the TCP connection with the time of
the `net.Conn.Write` that carried it. The output loop's lock is not observable, so the acceptor tracks
queue, wire and phase only, and explains each wire emission as the head of the queue or as the forced
direct write of the close request (only possible once the bounded wait — `closeWaitMs` — is over). -/

open Mieru.Close (closeWaitMs)

inductive WEv where
  | write (lens : List Nat)
  | closeCall
  | out (x : Item) (ms : Nat)     -- a segment of the session was written; `ms` since `Close()` was called (0 before)
  | closeRet
deriving Repr

structure WAcc where
  frags : List Bytes := []
  queue : List Item := []
  wire : List Item := []
  ph : Phase := .idle
  sched : Bool := true     -- no forced close request while data was still queued
  late : Nat := 0          -- segments written after `Close()` returned
deriving Repr

def waccept (c : WAcc) : WEv → Option WAcc
  | .write lens =>
    if c.ph ≠ .idle then none else
    let ps := lens.map (fun n => List.replicate n (0 : UInt8))
    some { c with frags := c.frags ++ ps, queue := c.queue ++ ps.map Item.data }
  | .closeCall => if c.ph ≠ .idle then none else some { c with queue := c.queue ++ [Item.closeReq], ph := .waiting }
  | .out x ms =>
    match c.queue with
    | y :: q =>
      if x = y then some { c with queue := q, wire := c.wire ++ [x] }
      else if x = Item.closeReq ∧ c.ph = .waiting ∧ closeWaitMs ≤ ms then
        -- forced direct write with data still queued: the output loop was idle for the whole wait
        some { c with wire := c.wire ++ [x], ph := .discarding, sched := false }
      else none
    | [] =>
      if x = Item.closeResp ∧ Item.closeReq ∈ c.wire then
        -- `inputClose` answering the close request the peer's session sent when it closed in turn
        some { c with wire := c.wire ++ [x] }
      else if x = Item.closeReq ∧ c.ph = .waiting ∧ closeWaitMs ≤ ms then
        some { c with wire := c.wire ++ [x], ph := .discarding }
      else if c.ph = .done ∧ c.late = 0 then
        -- the one segment the output loop had already dequeued when `DeleteAll` ran
        some { c with wire := c.wire ++ [x], late := 1 }
      else none
  | .closeRet =>
    if c.ph = .waiting ∧ Item.closeReq ∈ c.wire then some { c with queue := [], ph := .done }
    else if c.ph = .discarding then some { c with queue := [], ph := .done }
    else none

def wacceptAll (c : WAcc) : List WEv → Option WAcc
  | [] => some c
  | e :: es => match waccept c e with
    | none => none
    | some c' => wacceptAll c' es

end Mieru.CloseStream
