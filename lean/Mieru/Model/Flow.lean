import Mieru.Model.Arq
import Mieru.Model.Retx
/-!
# UDP transport with flow control, bounded buffers and the retransmission budget
(pkg/protocol/session.go, packet transport)

`Mieru.Arq` abstracts three things away that can actually stop a transfer; this model has them:

* **receive capacity** — `recvBuf` and `recvQueue` are `segmentTree`s of capacity `cap`
  (`segmentTreeCapacity`). `inputData` drops an arriving segment when
  `receiveWindowSize() = max(0, cap − recvBuf.Len − recvQueue.Len) ≤ 0`; `moveRecvBufToRecvQueue`
  stops when `recvQueue.Remaining() ≤ 0`; the application empties `recvQueue` by `Read`.
  `recvBuf` holds at most one segment per sequence number (`ReplaceOrInsert`).
* **remote window** — every ack carries `windowSize = receiveWindowSize()`; the sender stores it
  in `remoteWindowSize` and `sendWindowSize() = max(0, min(cwnd − sendBuf.Len, remoteWindowSize))`
  gates first transmissions (never retransmissions). A first transmission also needs
  `sendBuf.Remaining() > 1`, and a write needs `sendQueue.Remaining() > nFragment`.
* **retransmission budget** — `txCount` per segment of sendBuf; the retransmission scan abandons the
  session when it meets a segment with `txCount ≥ txCountLimit` (checked before retransmitting).

`delivered` is what has been moved to `recvQueue` so far, `read` how many of those segments the
application has consumed: `recvQueue = delivered.drop read`.
Timers stay nondeterministic; `cwnd` is chosen per step in `[minW, maxW]` (CUBIC's clamp).
-/
namespace Mieru.Flow
open Mieru.Arq (Msg)

structure Params where
  cap : Nat      -- segmentTreeCapacity
  minW : Nat     -- minWindowSize
  maxW : Nat     -- maxWindowSize
  limit : Nat    -- txCountLimit
deriving DecidableEq, Repr

/-- an acknowledgement: cumulative `unAckSeq` and the advertised `windowSize` -/
structure Ack where
  una : Nat
  wnd : Nat
deriving DecidableEq, Repr

structure St where
  segs : List Nat
  qLo : Nat
  lo : Nat
  tx : List Nat         -- txCount of every sequence number transmitted so far (length = qLo)
  rwnd : Nat            -- remoteWindowSize
  dead : Bool           -- abandoned: a segment reached txCountLimit
  nextRecv : Nat
  recvBuf : List Msg
  delivered : List Nat
  read : Nat
  netData : List Msg
  netAck : List Ack
  sent : List Msg
  acked : List Ack
  ackIn : List Nat      -- every cumulative ack the sender has processed
deriving DecidableEq, Repr

/-- `remoteWindowSize.Store(minWindowSize)` in `newSessionWithServerUserPolicy` -/
def init (P : Params) : St := ⟨[], 0, 0, [], P.minW, false, 0, [], [], 0, [], [], [], [], []⟩

/-- `recvQueue.Len()` -/
def qlen (s : St) : Nat := s.delivered.length - s.read

/-- `receiveWindowSize()` -/
def rwin (P : Params) (s : St) : Nat := P.cap - s.recvBuf.length - qlen s

/-- `moveRecvBufToRecvQueue`: stop when recvQueue is full, else move the segment numbered `nextRecv` -/
def drain (P : Params) : Nat → St → St
  | 0, s => s
  | fuel+1, s =>
    if P.cap ≤ qlen s then s else
    match s.recvBuf.find? (fun m => m.seq == s.nextRecv) with
    | some m => drain P fuel { s with nextRecv := s.nextRecv + 1, delivered := s.delivered ++ [m.pay],
                                       recvBuf := s.recvBuf.filter (fun x => x.seq != s.nextRecv) }
    | none => s

/-- `inputData` (packet transport): drop when the receive window is closed; otherwise insert
    (replacing an entry with the same sequence number; a stale segment is removed again by the
    drain loop, here it is not inserted) and drain. -/
def recv (P : Params) (s : St) (m : Msg) : St :=
  if rwin P s = 0 then { s with netData := s.netData.erase m }
  else drain P (s.recvBuf.length + 2)
    { s with netData := s.netData.erase m,
             recvBuf := if m.seq < s.nextRecv then s.recvBuf
                        else m :: s.recvBuf.filter (fun x => x.seq != m.seq) }

/-- bump the transmission count of sequence number `k` -/
def bump (tx : List Nat) (k : Nat) : List Nat := tx.set k (tx.getD k 0 + 1)

inductive Step (P : Params) : St → St → Prop
  /-- `writeChunk` waits until `sendQueue.Remaining() > nFragment` (here one segment) -/
  | write (s : St) (p : Nat) (hq : s.segs.length - s.qLo + 1 < P.cap) :
      Step P s { s with segs := s.segs ++ [p] }
  /-- first transmission: `sendWindowSize() > 0` (congestion window `w` not used up, remote window
      open) and `sendBuf.Remaining() > 1` -/
  | sendNew (s : St) (w p : Nat) (hd : s.dead = false) (h : s.segs[s.qLo]? = some p)
      (hw : P.minW ≤ w ∧ w ≤ P.maxW) (hc : s.qLo - s.lo < w) (hr : 0 < s.rwnd)
      (hb : s.qLo - s.lo + 1 < P.cap) :
      Step P s { s with qLo := s.qLo + 1, tx := s.tx ++ [1],
                        netData := ⟨s.qLo, p⟩ :: s.netData, sent := ⟨s.qLo, p⟩ :: s.sent }
  /-- retransmission (timeout or duplicate acks) of a segment of sendBuf whose budget is not used
      up; not limited by any window -/
  | retransmit (s : St) (k p n : Nat) (hd : s.dead = false) (hk : s.lo ≤ k ∧ k < s.qLo)
      (h : s.segs[k]? = some p) (hn : s.tx[k]? = some n) (hl : n < P.limit) :
      Step P s { s with tx := bump s.tx k, netData := ⟨k, p⟩ :: s.netData, sent := ⟨k, p⟩ :: s.sent }
  /-- the scan meets a segment of sendBuf with `txCount ≥ txCountLimit`: the session is closed -/
  | abandon (s : St) (k n : Nat) (hd : s.dead = false) (hk : s.lo ≤ k ∧ k < s.qLo)
      (hn : s.tx[k]? = some n) (hl : P.limit ≤ n) : Step P s { s with dead := true }
  | dropData (s : St) (m : Msg) : Step P s { s with netData := s.netData.erase m }
  | dupData (s : St) (m : Msg) (h : m ∈ s.netData) : Step P s { s with netData := m :: s.netData }
  | recvData (s : St) (m : Msg) (h : m ∈ s.netData) : Step P s (recv P s m)
  /-- any emitted datagram carries `unAckSeq = nextRecv` and `windowSize = receiveWindowSize()` -/
  | sendAck (s : St) :
      Step P s { s with netAck := ⟨s.nextRecv, rwin P s⟩ :: s.netAck, acked := ⟨s.nextRecv, rwin P s⟩ :: s.acked }
  | dropAck (s : St) (a : Ack) : Step P s { s with netAck := s.netAck.erase a }
  | dupAck (s : St) (a : Ack) (h : a ∈ s.netAck) : Step P s { s with netAck := a :: s.netAck }
  /-- `inputAck` / the ack half of `inputData`: discard `seq < unAckSeq`, store the window -/
  | recvAck (s : St) (a : Ack) (hd : s.dead = false) (h : a ∈ s.netAck) :
      Step P s { s with netAck := s.netAck.erase a, lo := max s.lo (min a.una s.qLo), rwnd := a.wnd,
                        ackIn := a.una :: s.ackIn }
  /-- `moveRecvBufToRecvQueue` also stores the window field of every data segment it releases: a
      window value advertised earlier may be applied again later -/
  | staleWnd (s : St) (a : Ack) (hd : s.dead = false) (h : a ∈ s.acked) : Step P s { s with rwnd := a.wnd }
  /-- `Read`: the application takes one segment out of recvQueue -/
  | appRead (s : St) (h : s.read < s.delivered.length) : Step P s { s with read := s.read + 1 }

inductive Reach (P : Params) : St → Prop
  | init : Reach P (init P)
  | step {s t} : Reach P s → Step P s t → Reach P t

inductive Steps (P : Params) : St → St → Prop
  | refl (s) : Steps P s s
  | cons {s t u} : Step P s t → Steps P t u → Steps P s u

/-- forget flow control: the state of `Mieru.Arq` this state stands for -/
def toArq (s : St) : Arq.St :=
  ⟨s.segs, s.qLo, s.lo, s.nextRecv, s.recvBuf, s.delivered, s.netData, s.netAck.map (·.una), s.sent,
   s.acked.map (·.una)⟩

/-! ## The receiver alone, as the harness drives it against the real `Session.inputData` / `Read` -/

inductive RecvOp where
  | data (seq pay : Nat)   -- a data segment arrives
  | read                   -- the application consumes one segment
deriving Repr

/-- one receiver operation; the reply is `(nextRecv, recvBuf.Len, recvQueue.Len, receiveWindowSize)` -/
def recvOp (P : Params) (s : St) : RecvOp → St
  | .data k p => recv P { s with netData := [⟨k, p⟩] } ⟨k, p⟩
  | .read => if s.read < s.delivered.length then { s with read := s.read + 1 } else s

def recvObs (P : Params) (s : St) : Nat × Nat × Nat × Nat := (s.nextRecv, s.recvBuf.length, qlen s, rwin P s)

/-! ## The sender alone, one output round at a time, as the harness drives it against the real
`Session.runOutputOncePacket` / `inputAck` (the clock is an input: which segments have timed out) -/

/-- one entry of sendBuf: sequence number and the retransmission bookkeeping of `Mieru.Retx` -/
structure SSeg where
  seq : Nat
  r : Retx.Seg
deriving DecidableEq, Repr

structure Snd where
  buf : List SSeg       -- sendBuf, ascending
  queue : List Nat      -- sendQueue, ascending
  rwnd : Nat            -- remoteWindowSize
  dead : Bool
deriving DecidableEq, Repr

/-- the retransmission scan (`sendBuf.Ascend`): stop at the first segment that has used up its budget
    (the session is closed), otherwise apply `Retx.step (.scan timedOut)` to every segment in order.
    Returns the new buffer, the number of retransmissions and whether the session was abandoned. -/
def scan (limit earlyRetx earlyLimit : Nat) (expired : Nat → Bool) : List SSeg → List SSeg × Nat × Bool
  | [] => ([], 0, false)
  | g :: rest =>
    if limit ≤ g.r.txCount then (g :: rest, 0, true)
    else
      let r' := Retx.step earlyRetx earlyLimit g.r (.scan (expired g.seq))
      let (b, c, d) := scan limit earlyRetx earlyLimit expired rest
      (⟨g.seq, r'⟩ :: b, c + (r'.txCount - g.r.txCount), d)

/-- `sendWindowSize()` -/
def sendWindow (cwnd bufLen rwnd : Nat) : Nat := min (cwnd - bufLen) rwnd

/-- the loop that moves segments from sendQueue to sendBuf: while `sendBuf.Remaining() > 1`, the queue is
    not empty and `totalTransmissionCount < sendWindowSize()` -/
def sendLoop (cap cwnd rwnd : Nat) : Nat → List SSeg → List Nat → Nat → List SSeg × List Nat × Nat
  | 0, buf, q, total => (buf, q, total)
  | fuel+1, buf, q, total =>
    match q with
    | [] => (buf, q, total)
    | k :: q' =>
      if buf.length + 1 < cap ∧ total < sendWindow cwnd buf.length rwnd then
        sendLoop cap cwnd rwnd fuel (buf ++ [⟨k, { txCount := 1 }⟩]) q' (total + 1)
      else (buf, q, total)

/-- one `runOutputOncePacket` (without the ack it may append): `cwnd` is the congestion window after
    the congestion event of this round, `expired` tells which segments' timers have run out.
    Returns the new state and the number of datagrams carrying numbered segments. -/
def round (P : Params) (earlyRetx earlyLimit cwnd : Nat) (expired : Nat → Bool) (s : Snd) : Snd × Nat :=
  if s.dead then (s, 0) else
  let (b, c, d) := scan P.limit earlyRetx earlyLimit expired s.buf
  if d then ({ s with buf := [], queue := [], dead := true }, c)
  else
    let (b', q', total) := sendLoop P.cap cwnd s.rwnd (s.queue.length + 1) b s.queue c
    ({ s with buf := b', queue := q' }, total)

/-- `inputAck`: discard `seq < unAckSeq`, store the advertised window — for EVERY ack — and count a
    duplicate ack on the segment numbered `unAckSeq` -/
def sndAck (s : Snd) (una wnd : Nat) : Snd :=
  if s.dead then s else
  { s with buf := (s.buf.dropWhile (fun g => g.seq < una)).map
                    (fun g => if g.seq = una then ⟨g.seq, Retx.step 0 0 g.r .dupAck⟩ else g),
           rwnd := wnd }

/-- the ack half of `inputData`: discard and store the window, no duplicate-ack counting -/
def sndDataAck (s : Snd) (una wnd : Nat) : Snd :=
  if s.dead then s else { s with buf := s.buf.dropWhile (fun g => g.seq < una), rwnd := wnd }

end Mieru.Flow
