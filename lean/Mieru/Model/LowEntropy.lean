import Mieru.Model.Bits
/-!
# Low-entropy payload codec — bit-by-bit reference written from docs/protocol.md

"Each source chunk is interpreted in big-endian byte order and placed in the low-order source
bits. The sender deposits those bits into the 1-bit positions of the current mask. Every other
position is filled with one uniform padding bit. … In the final partial chunk, unused positions
selected by the mask are padding too."

64-bit words are `List Bool`, least significant bit first.  Everything is total and executable;
the driver (`Mieru.Driver.LowEntropy`) runs exactly these definitions.
-/
namespace Mieru.LowEntropy
open Mieru

/-- source bytes `C` per 8-byte encoded chunk, by mode number -/
def sourceBytes : Nat → Option Nat
  | 1 => some 4 | 2 => some 5 | 3 => some 6 | 4 => some 7 | _ => none

/-- 1-bits required in the 32-bit half mask, by mode number -/
def halfOnes : Nat → Option Nat
  | 1 => some 16 | 2 => some 20 | 3 => some 24 | 4 => some 28 | _ => none

/-- rotation byte: 0, 1..15 (right), 16·(1..15) (left) -/
def validRotation (r : Nat) : Bool :=
  r == 0 || (1 ≤ r && r ≤ 15) || (16 ≤ r && r ≤ 240 && r % 16 == 0)

/-- the 64-bit mask: the half mask repeated -/
def fullMask (half : Nat) : List Bool := Bits.ofNat 32 half ++ Bits.ofNat 32 half

/-- Mask of chunk `i`: the initial mask rotated by `i * R` in the encoded direction, always
    computed from the initial mask.  Rotating a 64-bit word right by k moves bit (j+k) to j,
    which on an LSB-first list moves the first k elements to the end (`rotl`). -/
def rotl (l : List Bool) (k : Nat) : List Bool := l.drop (k % l.length) ++ l.take (k % l.length)

def chunkMask (m : List Bool) (r i : Nat) : List Bool :=
  if r == 0 || i == 0 then m
  else if r ≤ 15 then rotl m ((i * r) % 64)
  else rotl m ((64 - (i * (r / 16)) % 64) % 64)

/-- Deposit source bits into the 1-positions of the mask, padding bit everywhere else
    (including mask positions left over once the source is exhausted). -/
def deposit : List Bool → List Bool → Bool → List Bool
  | [], _, _ => []
  | true :: m, s :: ss, pad => s :: deposit m ss pad
  | true :: m, [], pad => pad :: deposit m [] pad
  | false :: m, ss, pad => pad :: deposit m ss pad

/-- Split a received word into (the first `n` mask-selected bits, all other bits). -/
def split : List Bool → List Bool → Nat → List Bool × List Bool
  | [], _, _ => ([], [])
  | _ :: _, [], _ => ([], [])
  | true :: m, c :: cs, n + 1 => let r := split m cs n; (c :: r.1, r.2)
  | true :: m, c :: cs, 0 => let r := split m cs 0; (r.1, c :: r.2)
  | false :: m, c :: cs, n => let r := split m cs n; (r.1, c :: r.2)

def byteBits (b : UInt8) : List Bool := Bits.ofNat 8 b.toNat
def bitsByte (l : List Bool) : UInt8 := UInt8.ofNat (Bits.toNat l)

/-- big-endian bytes → bits of the number, least significant first -/
def bytesToBits (bs : Bytes) : List Bool := bs.reverse.flatMap byteBits

def bitsToBytesLE : Nat → List Bool → Bytes
  | 0, _ => []
  | n + 1, l => bitsByte (l.take 8) :: bitsToBytesLE n (l.drop 8)

/-- bits (LSB first) → `n` big-endian bytes -/
def bitsToBytes (n : Nat) (l : List Bool) : Bytes := (bitsToBytesLE n l).reverse

/-- encode one source chunk (1..C bytes) under the chunk's mask -/
def encodeChunk (mask : List Bool) (src : Bytes) (pad : Bool) : Bytes :=
  bitsToBytes 8 (deposit mask (bytesToBits src) pad)

/-- decode one 8-byte chunk carrying `n` source bytes; returns the bytes and the padding bits -/
def decodeChunk (mask : List Bool) (chunk : Bytes) (n : Nat) : Bytes × List Bool :=
  let r := split mask (bytesToBits chunk) (n * 8)
  (bitsToBytes n r.1, r.2)

/-- cut a byte string into pieces of `c` bytes (last one possibly shorter); `fuel ≥ length` -/
def chunksOf (c : Nat) : Nat → Bytes → List Bytes
  | 0, _ => []
  | fuel + 1, bs => if bs = [] then [] else bs.take c :: chunksOf c fuel (bs.drop c)

def ceilDiv (n c : Nat) : Nat := (n + c - 1) / c

/-- `payload length` for an extracted body of `n` bytes: ceil(n / C) * 8; the chunk count must
    fit the 16-bit field (≤ 8191 chunks) and the body must be non-empty. -/
def encodedLen (n mode : Nat) : Option Nat :=
  match sourceBytes mode with
  | none => none
  | some c => if n = 0 then none else
      if ceilDiv n c > 65535 / 8 then none else some (ceilDiv n c * 8)

/-- mode / mask weight / rotation validity -/
def validParams (mode half rot : Nat) : Bool :=
  match halfOnes mode with
  | none => false
  | some k => Bits.popcount (Bits.ofNat 32 half) == k && validRotation rot

def encodeFrom (m : List Bool) (rot : Nat) (pad : Bool) : Nat → List Bytes → Bytes
  | _, [] => []
  | i, c :: cs => encodeChunk (chunkMask m rot i) c pad ++ encodeFrom m rot pad (i + 1) cs

/-- The encoder.  `none` = the parameters are rejected. -/
def encode (src : Bytes) (mode half rot : Nat) (pad : Bool) : Option Bytes :=
  if !validParams mode half rot then none else
  match sourceBytes mode, encodedLen src.length mode with
  | some c, some _ => some (encodeFrom (fullMask half) rot pad 0 (chunksOf c src.length src))
  | _, _ => none

/-- Decode chunks `i, i+1, …`; `remaining` source bytes still expected.  The polarity is
    fixed by the caller (inferred from chunk 0). -/
def decodeFrom (m : List Bool) (rot c : Nat) (pol : Bool) : Nat → Nat → List Bytes → Option Bytes
  | _, _, [] => some []
  | i, remaining, ch :: chs =>
    let n := min c remaining
    let r := decodeChunk (chunkMask m rot i) ch n
    if r.2.all (· == pol) then
      match decodeFrom m rot c pol (i + 1) (remaining - n) chs with
      | some rest => some (r.1 ++ rest)
      | none => none
    else none

/-- polarity inferred from the padding positions of chunk 0 (all zero ⇒ 0, all one ⇒ 1) -/
def inferPolarity (padBits : List Bool) : Option Bool :=
  if padBits.all (· == false) then some false
  else if padBits.all (· == true) then some true
  else none

/-- The decoder.  `none` = rejected. -/
def decode (enc : Bytes) (n mode half rot : Nat) : Option Bytes :=
  if !validParams mode half rot then none else
  match sourceBytes mode, encodedLen n mode with
  | some c, some el =>
    if enc.length ≠ el then none else
    let chunks := chunksOf 8 enc.length enc
    match chunks with
    | [] => none
    | ch0 :: _ =>
      match inferPolarity (decodeChunk (fullMask half) ch0 (min c n)).2 with
      | none => none
      | some pol => decodeFrom (fullMask half) rot c pol 0 n chunks
  | _, _ => none

/-! ## PDEP / PEXT on naturals (specification of `mathext.PDEP/PEXT` on 64-bit words) -/

/-- deposit the low bits of `x` into the set positions of `mask`; all other positions 0 -/
def pdep (x mask : Nat) : Nat :=
  Bits.toNat (deposit (Bits.ofNat 64 mask) (Bits.ofNat 64 x) false)

/-- all mask-selected bits of `x`, packed into the low bits -/
def pext (x mask : Nat) : Nat :=
  Bits.toNat (split (Bits.ofNat 64 mask) (Bits.ofNat 64 x) 64).1

/-! ## The portable Go loops, transcribed on 64-bit naturals

```go
for srcBit := uint64(1); mask != 0; srcBit <<= 1 {
    maskBit := mask & -mask
    if x&srcBit != 0 { result |= maskBit }
    mask &= mask - 1
}
```
`mask & -mask` is the lowest set bit, `mask & (mask-1)` clears it.  On naturals below 2^64 both
are computed with `Nat` bit operations (negation modulo 2^64). -/
def lowestBit (mask : Nat) : Nat := mask &&& ((2 ^ 64 - mask) % 2 ^ 64)

/-- `none` = the fuel ran out (never happens with 65: `pdepGo_eq_spec`) -/
def pdepLoop : Nat → Nat → Nat → Nat → Nat → Option Nat
  | 0, _, _, _, _ => none
  | fuel + 1, x, mask, srcBit, result =>
    if mask = 0 then some result else
    let maskBit := lowestBit mask
    let result := if x &&& srcBit ≠ 0 then result ||| maskBit else result
    pdepLoop fuel x (mask &&& (mask - 1)) ((srcBit <<< 1) % 2 ^ 64) result

def pextLoop : Nat → Nat → Nat → Nat → Nat → Option Nat
  | 0, _, _, _, _ => none
  | fuel + 1, x, mask, resultBit, result =>
    if mask = 0 then some result else
    let maskBit := lowestBit mask
    let result := if x &&& maskBit ≠ 0 then result ||| resultBit else result
    pextLoop fuel x (mask &&& (mask - 1)) ((resultBit <<< 1) % 2 ^ 64) result

def pdepGo (x mask : Nat) : Option Nat := pdepLoop 65 x mask 1 0
def pextGo (x mask : Nat) : Option Nat := pextLoop 65 x mask 1 0

end Mieru.LowEntropy

namespace Mieru.LowEntropy

/-- `validateLowEntropyDataAckMetadata`: how mode, mask weight, rotation, `payload length` and
    `extracted payload length` are tied together (protocol type must be 10 or 11). -/
def metaValid (proto mode half rot payloadLen extractedLen : Nat) : Bool :=
  (proto == 10 || proto == 11) &&
  extractedLen ≤ 32768 &&
  payloadLen % 8 == 0 &&
  validParams mode half rot &&
  (if extractedLen == 0 then payloadLen == 0
   else match encodedLen extractedLen mode with
     | none => false
     | some el => payloadLen == el)

/-! ## The wire-level wrappers (pkg/protocol/underlay_base.go)

The AEAD output of a data payload is `ciphertext body ‖ 16-byte tag`.  Only the body is expanded; the tag
travels verbatim after the encoded body.  `extractedLen` = length of the ciphertext body, `payloadLen` =
length of the encoded body (both metadata fields). -/

/-- AEAD tag length (`cipher.DefaultOverhead`) -/
def tagLen : Nat := 16

/-- `encodeLowEntropyEncryptedPayload` (the padding polarity is the host-stable `lowEntropyPaddingBit`) -/
def wrapEncode (ct : Bytes) (mode half rot payloadLen extractedLen : Nat) (pad : Bool) : Option Bytes :=
  if ct.length ≠ extractedLen + tagLen then none else
  match encode (ct.take extractedLen) mode half rot pad with
  | none => none
  | some body => if body.length ≠ payloadLen then none else some (body ++ ct.drop extractedLen)

/-- `decodeLowEntropyEncryptedPayload`: metadata validation, length check, decode the body, keep the tag -/
def wrapDecode (wire : Bytes) (proto mode half rot payloadLen extractedLen : Nat) : Option Bytes :=
  if !metaValid proto mode half rot payloadLen extractedLen then none else
  if wire.length ≠ payloadLen + tagLen then none else
  match decode (wire.take payloadLen) extractedLen mode half rot with
  | none => none
  | some body => some (body ++ wire.drop payloadLen)

end Mieru.LowEntropy
