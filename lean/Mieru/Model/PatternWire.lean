import Mieru.Model.Pattern
/-!
# What a traffic pattern makes the endpoints EMIT (C16 wire clauses) — small emission models

Core Lean only.  Each section models one piece of code that turns the effective pattern into bytes /
write calls / segment types:

* §1 the per-session low-entropy machine of pkg/protocol/session.go (`clientUseLowEntropy`: initially
  false, set only in `Session.input` on a `dataClientToServerLowEntropy` segment in server role; read by
  `lowEntropySendConfig` once per `writeChunk`, which then emits its fragments with one protocol type);
* §2 `aeadBlockCipher.Encrypt` as far as nonces are concerned (pkg/cipher/cipher.go): which calls put a
  nonce on the wire and which of those nonces carry the pattern; and how cipher OBJECTS map to packets;
* §3 the byte classes: `common.ToCommon64Set`, `common.ToPrintableChar` (its random draws explicit), the
  FIXED copy, the user hint suffix;
* §4 `StreamUnderlay.writeWithPossibleFragment`: the pieces written for an arbitrary sequence of draws.
-/
namespace Mieru.PatternWire
open Mieru.Pattern

/-! ## §1 low entropy: the per-session machine -/

def dataClientToServer : Int := 6
def dataServerToClient : Int := 7
def dataClientToServerLowEntropy : Int := 10
def dataServerToClientLowEntropy : Int := 11

structure LESession where
  isClient : Bool
  pattern : Option TrafficPattern
  clientUsedLE : Bool := false
deriving Repr

inductive LEEvent where
  /-- `Session.input` of a segment with this protocol type -/
  | recv (protocol : Int)
  /-- `Session.writeChunk`: ONE `lowEntropySendConfig` snapshot, then `n` data segments -/
  | sendChunk (n : Nat)
deriving DecidableEq, Repr

/-- one emitted data segment: protocol type and, for low entropy, the metadata's mode / rotation -/
structure Emit where
  protocol : Int
  mode : Int
  rotation : Int
deriving DecidableEq, Repr

/-- protocol type chosen by `writeChunk` -/
def dataProtocolOf (isClient sendLowEntropy : Bool) : Int :=
  if isClient then (if sendLowEntropy then dataClientToServerLowEntropy else dataClientToServer)
  else (if sendLowEntropy then dataServerToClientLowEntropy else dataServerToClient)

def step (s : LESession) : LEEvent → LESession × List Emit
  | .recv p =>
    (if !s.isClient && p == dataClientToServerLowEntropy then { s with clientUsedLE := true } else s, [])
  | .sendChunk n =>
    let r := lowEntropySendConfig s.pattern s.isClient s.clientUsedLE
    (s, List.replicate n ⟨dataProtocolOf s.isClient r.2.2, r.1, r.2.1⟩)

/-- the state after a history -/
def runState (s : LESession) : List LEEvent → LESession
  | [] => s
  | e :: es => runState (step s e).1 es

/-- everything emitted during a history, in order -/
def runEmits (s : LESession) : List LEEvent → List Emit
  | [] => []
  | e :: es => (step s e).2 ++ runEmits (step s e).1 es

def Emit.isLE (e : Emit) : Bool := e.protocol == dataClientToServerLowEntropy || e.protocol == dataServerToClientLowEntropy

/-! ## §2 nonces: Encrypt calls on one cipher object, cipher objects on the wire -/

/-- the nonce-relevant state of an `aeadBlockCipher` -/
structure CipherObj where
  implicitMode : Bool            -- enableImplicitNonce (TCP)
  hasImplicitNonce : Bool := false  -- len(implicitNonce) != 0
  applied : Bool := false        -- noncePatternApplied
deriving DecidableEq, Repr

/-- what one `Encrypt` call does with nonces -/
structure EncOut where
  sentNonce : Bool      -- nonce bytes are part of the output (`needSendNonce`)
  step : Option NonceStep   -- the `newNonceTo` call made, if any
deriving DecidableEq, Repr

/-- `Encrypt`: implicit mode → the first call draws a nonce with `newNonce()` and sends it, later calls
    `increaseNonce()` and send nothing; stateless → every call draws with `newNonceTo` and sends. -/
def encrypt (pat : Option (Int × Bool)) (c : CipherObj) : CipherObj × EncOut :=
  if c.implicitMode then
    if c.hasImplicitNonce then (c, ⟨false, none⟩)
    else
      let r := newNonceStep pat false c.applied
      ({ c with hasImplicitNonce := true, applied := r.applied }, ⟨true, some r⟩)
  else
    let r := newNonceStep pat true c.applied
    ({ c with applied := r.applied }, ⟨true, some r⟩)

def encryptN (pat : Option (Int × Bool)) : Nat → CipherObj → List EncOut
  | 0, _ => []
  | n + 1, c => (encrypt pat c).2 :: encryptN pat n (encrypt pat c).1

/-- does this Encrypt output carry a nonce to which the pattern was applied? -/
def EncOut.patterned (o : EncOut) : Bool := o.sentNonce && (o.step.map (·.reached)).getD false

/-- `Clone()`: copies the pattern and the implicit-nonce state but NOT `noncePatternApplied` -/
def clone (c : CipherObj) : CipherObj := { c with applied := false }

/-- Packets on one UDP socket, each encrypted (one `Encrypt` = one nonce per datagram) by the cipher object
    with the given identity; objects are stateless, created with `applied = false`.  `seen` = identities
    already used.  Result: per packet, was the pattern applied to its nonce? -/
def wireFlags (pat : Option (Int × Bool)) : List Nat → List Nat → List Bool
  | [], _ => []
  | id :: rest, seen =>
    (newNonceStep pat true (seen.contains id)).reached ::
      wireFlags pat rest (if (newNonceStep pat true (seen.contains id)).applied then id :: seen else seen)

/-! ## §3 byte classes -/

abbrev Bytes := List UInt8

/-- `common.Common64Set` -/
def common64Set : Bytes :=
  [65, 55, 107, 57, 109, 80, 50, 118, 88, 53, 98, 87, 49, 113, 82, 116, 78, 56, 122, 76, 52, 102, 74, 121, 72, 99, 86, 115, 68,
   119, 81, 120, 80, 108, 75, 122, 77, 98, 82, 116, 78, 106, 70, 102, 71, 121, 72, 99, 86, 115, 68, 119, 81, 120, 80, 108, 75,
   122, 77, 98, 82, 116, 78, 106]

/-- one byte of `ToCommon64Set`: `Common64Set[b & 0x3f]` -/
def toCommon64 (b : UInt8) : UInt8 := common64Set.getD (b &&& 0x3f).toNat 0

def isPrintable (b : UInt8) : Bool := 0x20 ≤ b && b ≤ 0x7e

/-- the deterministic part of `ToPrintableChar` on one byte: already printable → kept; high bit set and
    the low seven bits printable → the low seven bits; otherwise `none`: a random printable is drawn -/
def printableDet (b : UInt8) : Option UInt8 :=
  if isPrintable b then some b
  else if b &&& 0x80 > 0 && isPrintable (b &&& 0x7f) then some (b &&& 0x7f)
  else none

/-- an accepted 16-bit draw `r` becomes `r % 95 + 0x20` -/
def drawByte (r : Nat) : UInt8 := UInt8.ofNat (r % 95 + 32)

/-- `ToPrintableChar(b, 0, len b)`; `draws` = the accepted random values, consumed left to right by the
    bytes that need one (a missing draw counts as 0: the class membership does not depend on it) -/
def toPrintable : Bytes → List Nat → Bytes
  | [], _ => []
  | b :: bs, ds =>
    match printableDet b with
    | some b' => b' :: toPrintable bs ds
    | none => drawByte (ds.headD 0) :: toPrintable bs ds.tail

/-- how many draws `toPrintable` consumes -/
def drawsNeeded (bs : Bytes) : Nat := (bs.filter fun b => (printableDet b).isNone).length

/-- the FIXED branch: `copy(nonce[:copyLen], prefix[:copyLen])`, `copyLen = min(len(prefix), NonceSize)` -/
def applyFixed (nonce pre : Bytes) (size : Nat) : Bytes :=
  let k := min pre.length size
  pre.take k ++ nonce.drop k

/-- the nonce after the type switch of `newNonceTo` (`rewriteLen` = `nonceRewriteLen()`, `pre` = the chosen
    decoded hex string, `none` when the list is empty) -/
def rewriteNonce (a : NonceAction) (nonce : Bytes) (rewriteLen : Nat) (draws : List Nat) (pre : Option Bytes) : Bytes :=
  match a with
  | .none => nonce
  | .printable => toPrintable (nonce.take rewriteLen) draws ++ nonce.drop rewriteLen
  | .subset => (nonce.take rewriteLen).map toCommon64 ++ nonce.drop rewriteLen
  | .fixed => match pre with
    | some p => applyFixed nonce p nonce.length
    | none => nonce

/-- `addUserHintToNonce`: the last 4 bytes are overwritten (by 4 bytes derived from the user name and the
    first 16 bytes) -/
def withHint (nonce hint4 : Bytes) : Bytes := nonce.take (nonce.length - 4) ++ hint4

/-! ## §4 TCP fragmentation -/

/-- length of the next piece (`writeWithPossibleFragment`'s loop body): a draw reduced into
    `[minLenToSend, maxLenToSend]`, clamped to what remains -/
def fragLen (total remaining sqrtTotal draw : Nat) : Nat :=
  let lo := sqrtTotal + 1
  let hi := max lo (total / 2)
  min (draw % (hi - lo + 1) + lo) remaining

/-- the pieces written for `remaining`, the k-th piece using `draws k`; `fuel` ≥ the number of pieces -/
def pieces {α} (total sqrtTotal : Nat) (draws : Nat → Nat) : Nat → Nat → List α → List (List α)
  | 0, _, _ => []
  | fuel + 1, k, remaining =>
    if remaining.isEmpty then []
    else
      let n := fragLen total remaining.length sqrtTotal (draws k)
      remaining.take n :: pieces total sqrtTotal draws fuel (k + 1) (remaining.drop n)

/-- the `Write` calls of `writeWithPossibleFragment` (`disabled` = its first guard) -/
def writes {α} (disabled : Bool) (data : List α) (draws : Nat → Nat) : List (List α) :=
  if disabled then [data] else pieces data.length (Nat.sqrt data.length) draws data.length 0 data

/-- acceptor used by the correspondence: can these write sizes be produced for `total` bytes?
    every piece but the last lies in `[lo, hi]`; the last is `≤ hi`, non-empty, and finishes the data -/
def sizesOK (total sqrtTotal : Nat) : Nat → List Nat → Bool
  | remaining, [] => remaining == 0
  | remaining, n :: rest =>
    let lo := sqrtTotal + 1
    let hi := max lo (total / 2)
    0 < n && n ≤ hi && n ≤ remaining && (lo ≤ n || n == remaining) && sizesOK total sqrtTotal (remaining - n) rest

def writeSizesOK (disabled : Bool) (total : Nat) (sizes : List Nat) : Bool :=
  if disabled then sizes == [total] else sizesOK total (Nat.sqrt total) total sizes

end Mieru.PatternWire
