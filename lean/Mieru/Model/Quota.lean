import Mieru.Model.Counter
/-!
# Model of the quota decision (C19): `pkg/protocol/session.go checkQuota` and its call in `inputData`

```go
policy := s.userPolicy.Load()
if policy == nil { return true, err }
if policy.Name() != userName { return true, err }
if len(policy.Quotas()) == 0 { return true, nil }
... metric group / UploadBytes / DownloadBytes of THIS user missing → return true, err
for _, quota := range policy.Quotas() {
    now := time.Now(); then := now.Add(-time.Duration(quota.Days()) * 24 * time.Hour)
    totalBytes := upload.DeltaBetween(then, now) + download.DeltaBetween(then, now)
    if totalBytes/1048576 > int64(quota.Megabytes()) { return false, nil }
}
return true, nil
```
and in `inputData` (server side, open-session request, session attached):
`if userName := s.UserName(); userName != "" { if !quotaOK { s.status = statusQuotaExhausted; s.Close(); return nil } }`.

The code reads the clock once per quota; the model uses one `now`. The code clamps `days` into
`[0, MaxInt64/(24 h)] = [0, 106751]` before multiplying (repo commit "fix: keep the quota lookback
period inside the range of time.Duration"); `clampDays` below. Core Lean only.
-/
namespace Mieru.Quota
open Mieru.Counter

structure Quota where
  days : Int
  megabytes : Int
deriving Repr, DecidableEq

structure Policy where
  name : String
  quotas : List Quota
deriving Repr

/-- the histories of the user's `UploadBytes` and `DownloadBytes` time-series counters -/
structure UserMetrics where
  up : List Entry
  down : List Entry
deriving Repr

def nsPerDay : Int := 24 * 3600 * 1000000000
def bytesPerMB : Int := 1048576

/-- `math.MaxInt64 / (24 * time.Hour)` -/
def maxDays : Int := 106751

/-- `days := int64(quota.Days()); if days < 0 { days = 0 }; if days > maxDays { days = maxDays }` -/
def clampDays (d : Int) : Int := if d < 0 then 0 else if d > maxDays then maxDays else d

/-- `totalBytes` of one loop iteration -/
def totalBytes (q : Quota) (m : UserMetrics) (now : Int) : Int :=
  window m.up (now - clampDays q.days * nsPerDay) now + window m.down (now - clampDays q.days * nsPerDay) now

/-- `totalBytes/1048576 > int64(quota.Megabytes())` (Go's `/` truncates toward zero) -/
def exceeded (q : Quota) (m : UserMetrics) (now : Int) : Prop :=
  Int.tdiv (totalBytes q m now) bytesPerMB > q.megabytes

instance (q : Quota) (m : UserMetrics) (now : Int) : Decidable (exceeded q m now) := by
  unfold exceeded; infer_instance

/-- `checkQuota(userName)`; `policy` is the session's retained policy snapshot, `metrics u` is the
    pair of per-user counters registered for `u` (`none` if the group or one of the two is missing) -/
def checkQuota (policy : Option Policy) (userName : String) (metrics : String → Option UserMetrics)
    (now : Int) : Bool :=
  match policy with
  | none => true
  | some p =>
    if p.name ≠ userName then true
    else if p.quotas.isEmpty then true
    else match metrics userName with
      | none => true
      | some m => !(p.quotas.any fun q => decide (exceeded q m now))

/-- what the server knows: the policy of every registered user and the per-user counters -/
structure Server where
  policies : String → Option Policy
  metrics : String → Option UserMetrics

/-- the refusal decision of `inputData` for an open-session request authenticated as `user` -/
def refused (sv : Server) (user : String) (now : Int) : Bool :=
  user ≠ "" && !(checkQuota (sv.policies user) user sv.metrics now)

/-- `statusQuotaExhausted` (tied to the regenerated constant in Props/C19) -/
def statusQuotaExhausted : Nat := 1

/-! The order of effects of an open-session request in `inputData` (quota evaluated BEFORE anything is
queued; on refusal status, close, return) is modelled in `Mieru.Acct.inputOn` (Model/Acct.lean), as
part of the session-level transition system. -/

end Mieru.Quota
