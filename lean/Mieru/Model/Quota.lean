import Mieru.Model.Counter
/-!
# Model of the quota decision (C19): `pkg/protocol/session.go checkQuota` and its call in `inputData`

```go
policy := s.userPolicy.Load()
if policy == nil { return true, err }
if policy.Name() != userName { return true, err }
if len(policy.Quotas()) == 0 { return true, nil }
... metric group / UploadBytes / DownloadBytes of THIS user missing → return true, err
for _, quota := range policy.Quotas() {
    now := time.Now(); then := now.Add(-time.Duration(quota.Days()) * 24 * time.Hour)
    totalBytes := upload.DeltaBetween(then, now) + download.DeltaBetween(then, now)
    if totalBytes/1048576 > int64(quota.Megabytes()) { return false, nil }
}
return true, nil
```
and in `inputData` (server side, open-session request, session attached):
`if userName := s.UserName(); userName != "" { if !quotaOK { s.status = statusQuotaExhausted; s.Close(); return nil } }`.

The code reads the clock once per quota; the model uses one `now`. `days ≥ 0` is assumed where the
model is compared with the code (`DeltaBetween` panics when `then` is after `now`; the configuration
validator rejects `days ≤ 0`). Core Lean only.
-/
namespace Mieru.Quota
open Mieru.Counter

structure Quota where
  days : Int
  megabytes : Int
deriving Repr, DecidableEq

structure Policy where
  name : String
  quotas : List Quota
deriving Repr

/-- the histories of the user's `UploadBytes` and `DownloadBytes` time-series counters -/
structure UserMetrics where
  up : List Entry
  down : List Entry
deriving Repr

def nsPerDay : Int := 24 * 3600 * 1000000000
def bytesPerMB : Int := 1048576

/-- `totalBytes` of one loop iteration -/
def totalBytes (q : Quota) (m : UserMetrics) (now : Int) : Int :=
  window m.up (now - q.days * nsPerDay) now + window m.down (now - q.days * nsPerDay) now

/-- `totalBytes/1048576 > int64(quota.Megabytes())` (Go's `/` truncates toward zero) -/
def exceeded (q : Quota) (m : UserMetrics) (now : Int) : Prop :=
  Int.tdiv (totalBytes q m now) bytesPerMB > q.megabytes

instance (q : Quota) (m : UserMetrics) (now : Int) : Decidable (exceeded q m now) := by
  unfold exceeded; infer_instance

/-- `checkQuota(userName)`; `policy` is the session's retained policy snapshot, `metrics u` is the
    pair of per-user counters registered for `u` (`none` if the group or one of the two is missing) -/
def checkQuota (policy : Option Policy) (userName : String) (metrics : String → Option UserMetrics)
    (now : Int) : Bool :=
  match policy with
  | none => true
  | some p =>
    if p.name ≠ userName then true
    else if p.quotas.isEmpty then true
    else match metrics userName with
      | none => true
      | some m => !(p.quotas.any fun q => decide (exceeded q m now))

/-- what the server knows: the policy of every registered user and the per-user counters -/
structure Server where
  policies : String → Option Policy
  metrics : String → Option UserMetrics

/-- the refusal decision of `inputData` for an open-session request authenticated as `user` -/
def refused (sv : Server) (user : String) (now : Int) : Bool :=
  user ≠ "" && !(checkQuota (sv.policies user) user sv.metrics now)

/-! ## What a server session does with an open-session request (order of effects in `inputData`)

`StreamUnderlay/PacketUnderlay.onOpenSessionRequest` creates the session, delivers the request segment
to it and hands the session to `Accept` (`readySessions <- session`) unconditionally.
`Session.input → inputData` FIRST inserts the segment — with the payload the client piggy-backed on
the request, at most `MaxSessionOpenPayload` bytes — into `recvQueue`, and only THEN, for an
open-session request on an attached server session, evaluates `checkQuota`; on refusal it sets
`status = statusQuotaExhausted` and calls `Close()`, which deliberately keeps `recvQueue`
("read is allowed after the session is closed"); `Session.Read` drains `recvQueue` before it looks at
`closedChan`.  So the application that accepted the session can read the piggy-backed payload of a
refused session.  (Not tied to the code by a run yet: needs the integrator's in-memory network.) -/

structure OpenOutcome where
  /-- handed to the application by `Accept` -/
  accepted : Bool
  refused : Bool
  /-- close status sent to the client: 1 = quota exhausted, 0 = OK / still open -/
  status : Nat
  /-- bytes the server application can `Read` from the session because of this request -/
  readable : List UInt8
deriving Repr

def statusQuotaExhausted : Nat := 1

def onOpenRequest (sv : Server) (user : String) (payload : List UInt8) (now : Int) : OpenOutcome :=
  let r := refused sv user now
  -- the quota is evaluated BEFORE the piggy-backed payload is queued for the application
  -- (repo commit "fix: check user quota before queueing the payload of an open session request")
  { accepted := true, refused := r, status := if r then statusQuotaExhausted else 0, readable := if r then [] else payload }

end Mieru.Quota
