import Mieru.Model.Spec
import Mieru.Crypto.HMAC
import Mieru.Crypto.AEAD
/-!
# The reference codec's cryptographic half, written ONLY from docs/protocol.md § Key Generation
Method (core Lean only; executable crypto from `Mieru.Crypto`, validated not proved)

* `hashedPassword` = SHA-256(password ‖ 0x00 ‖ username)
* `timeSalt` = SHA-256(8-byte big-endian uint64 of unixTime rounded to the nearest 2 minutes)
* key = PBKDF2-HMAC-SHA256(hashedPassword, timeSalt, 64 iterations, 32 bytes)
* "The server needs to try maximum 3 different timeSalt": previous, current and next slot
* user hint: last 4 nonce bytes := first 4 bytes of SHA-256(username ‖ nonce[0:16])
* AEAD: XChaCha20-Poly1305, 24-byte nonce, no associated data
-/
namespace Mieru.Spec
open Mieru.Crypto

def toBA (l : Bytes) : ByteArray := ByteArray.mk l.toArray

def hashedPassword (user pass : ByteArray) : ByteArray :=
  SHA256.hash ((pass.push 0) ++ user)

/-- unixTime rounded to the nearest 2 minutes (a tie rounds up) -/
def roundedTime (unix : Int) : Int := (unix + 60) / 120 * 120

/-- 8-byte big-endian string "from uint64" (two's complement for instants before 1970) -/
def timeBytes (t : Int) : ByteArray := toBA (be 8 (t % 2 ^ 64).toNat)

def timeSalt (rounded : Int) : ByteArray := SHA256.hash (timeBytes rounded)

def keyForSlot (hashedPw : ByteArray) (rounded : Int) : ByteArray :=
  HMAC.pbkdf2 hashedPw (timeSalt rounded) 64 32

/-- the three candidate keys at `unix`: previous, current, next slot -/
def candidateKeys (hashedPw : ByteArray) (unix : Int) : List ByteArray :=
  let r := roundedTime unix
  [keyForSlot hashedPw (r - 120), keyForSlot hashedPw r, keyForSlot hashedPw (r + 120)]

/-- the 4 hint bytes for a user and a nonce (needs at least 16 nonce bytes) -/
def hintBytes (user nonce : ByteArray) : ByteArray :=
  (SHA256.hash (user ++ nonce.extract 0 16)).extract 0 4

/-- nonce with its last 4 bytes replaced by the user hint -/
def withHint (user nonce : ByteArray) : ByteArray :=
  nonce.extract 0 (nonce.size - 4) ++ hintBytes user nonce

def hintMatches (user nonce : ByteArray) : Bool :=
  nonce.size ≥ 20 && (nonce.extract (nonce.size - 4) nonce.size).data == (hintBytes user nonce).data

/-- the executable XChaCha20-Poly1305 as the codec's AEAD; wrong key/nonce sizes never open -/
def realAead : AeadFns where
  sealF k n p := (AEAD.xseal (toBA k) (toBA n) (toBA p) ByteArray.empty).toList
  openF k n c :=
    if k.length ≠ 32 ∨ n.length ≠ 24 then none
    else (AEAD.xopen (toBA k) (toBA n) (toBA c) ByteArray.empty).map (·.toList)

end Mieru.Spec
