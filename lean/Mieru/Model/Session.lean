import Mieru.Model.Discovery
/-!
# The SERVER BRANCH of `readOneSegment`: "existing-session match ∨ Discover"
# (pkg/protocol/underlay_packet.go `readOneSegment` / `tryDecryptExistingSession` /
#  `onOpenSessionRequest`; pkg/protocol/underlay_stream.go `readOneSegment` /
#  `serverInitRecvBlockCipherAndDecryptMetadata` / `onOpenSessionRequest` /
#  `commitServerUserAuthentication`; pkg/protocol/mux.go `SetServerUsers`)

What decides to WHOM a session the server accepts is attributed.

* UDP (one shared socket): a datagram is first tried with the cipher of every live session whose
  remote address (ip:port) equals the datagram's source (`tryDecryptExistingSession`; the order
  in which `sync.Map.Range` visits the sessions is unspecified — `Seg.pick`).  If one opens it, the
  segment carries THAT session's cipher and policy snapshot and the registry is not consulted; an
  `openSessionRequest` then creates a new session with them.  Only if none opens it does
  `Registry.Discover` (no `requireCurrent`) run on the published generation.
* TCP (one underlay per connection): the first segment of a connection goes through
  `Registry.Discover` (`requireCurrent`); it must be a valid `openSessionRequest`, else the
  connection is closed.  The receive cipher and (at the commit point) the policy are then fixed
  for the life of the connection: every later segment must open under that cipher (else the
  connection is closed) and every later `openSessionRequest` creates a session with that policy,
  again without consulting the registry.
* `SetServerUsers` swaps the registry's generation; it closes no session and no connection.

The cryptography is the symbolic ideal of DESIGN §5: a segment is sealed under at most one
credential's key (`Seg.key`); a cipher opens exactly what its own key sealed.  Key rotation by time
(C08) and the replay caches (C06) are outside this model.  A reload is an atomic event between two
segments here; its interleaving with ONE discovery is `Mieru.Reload`.
-/
namespace Mieru.Session
open Mieru.Discovery

/-- a registered user of one generation -/
structure User where
  name : Nat        -- the user's name (persistent across generations)
  cred : Nat        -- the credential (token for the key material derived from it)
  deriving DecidableEq, Repr

/-- one immutable generation: users in name order, id = position + 1 -/
abbrev Gen := List User

/-- the facts about one received segment the server branches on -/
structure Seg where
  addr : Nat            -- UDP: source ip:port; TCP: the connection it arrives on
  key : Option Nat      -- the credential whose key sealed the metadata (none: nobody's — garbage)
  hinted : List Nat     -- the user names the nonce's 4-byte hint matches (several: colliding names)
  openReq : Bool        -- an openSessionRequest (else data / ack / close)
  sid : Nat             -- session id
  cached : List Nat     -- what the source-user cache returns for this source right now (arbitrary)
  pick : Nat            -- which matching live session `sync.Map.Range` happens to visit first
  deriving DecidableEq, Repr

def userAt (g : Gen) (id : Nat) : Option User := if id = 0 then none else g[id - 1]?

/-- `cipher.CheckUserFromHint(user.name, nonce)` for the user with this id -/
def hintOf (g : Gen) (s : Seg) (id : Nat) : Bool :=
  match userAt g id with
  | some u => s.hinted.contains u.name
  | none => false

/-- that user's `TryDecrypt` succeeds -/
def authOf (g : Gen) (s : Seg) (id : Nat) : Bool :=
  match userAt g id with
  | some u => s.key == some u.cred
  | none => false

/-- `Registry.Discover` on generation `g` -/
def discover (g : Gen) (mandatory : Bool) (s : Seg) : Option User :=
  match (tryState g.length (hintOf g s) (authOf g s) s.cached mandatory).user with
  | some (id, _) => userAt g id
  | none => none

/-- the published generation (`gens` = every generation ever published, oldest first) -/
def current (gens : List Gen) : Gen := gens.getLast?.getD []

/-- a session the server holds -/
structure Sess where
  sid : Nat
  addr : Nat
  key : Nat             -- key of the cipher the session holds
  user : Nat            -- `UserName()` / name of the policy snapshot
  gen : Nat             -- index (in `gens`) of the generation the attribution was derived from
  viaDiscover : Bool    -- its first segment went through `Registry.Discover`
  deriving DecidableEq, Repr

inductive Out
  | quiet                                             -- no segment (reload, removal)
  | dropped                                           -- nothing decrypts it / invalid: no session
  | accepted (user gen : Nat) (viaDiscover : Bool)    -- a new session, attributed to `user`
  | passed (user : Nat)                               -- a non-open segment, dispatched as `user`'s
  deriving DecidableEq, Repr

inductive Ev
  | reload (g : Gen)          -- `SetServerUsers`
  | seg (s : Seg)             -- one received segment
  | gone (addr sid : Nat)     -- a session is removed (closed, idle timeout); `addr` matters on TCP only
  | connClosed (addr : Nat)   -- TCP only: the connection ends (UDP: no effect)
  deriving DecidableEq, Repr

/-! ## UDP -/

structure UServer where
  gens : List Gen
  mandatory : Bool
  sessions : List Sess
  deriving DecidableEq, Repr

/-- the live sessions `tryDecryptExistingSession` can open the segment with: same ip:port, and the
    session's cipher has the key the segment was sealed under -/
def matching (ss : List Sess) (s : Seg) : List Sess :=
  ss.filter fun x => x.addr == s.addr && s.key == some x.key

def pickOne (l : List Sess) (pick : Nat) : Option Sess :=
  if l.isEmpty then none else l[pick % l.length]?

/-- `onOpenSessionRequest`: session id 0 is reserved; an id already in use creates nothing -/
def uOpen (st : UServer) (s : Seg) (key user gen : Nat) (via : Bool) : UServer × Out :=
  if s.sid = 0 then (st, .dropped)
  else if st.sessions.any (fun x => x.sid == s.sid) then (st, .dropped)
  else ({ st with sessions := st.sessions ++ [⟨s.sid, s.addr, key, user, gen, via⟩] }, .accepted user gen via)

def udpSeg (st : UServer) (s : Seg) : UServer × Out :=
  match pickOne (matching st.sessions s) s.pick with
  | some x =>
    if s.openReq then uOpen st s x.key x.user x.gen false else (st, .passed x.user)
  | none =>
    match discover (current st.gens) st.mandatory s with
    | some u =>
      if s.openReq then uOpen st s u.cred u.name (st.gens.length - 1) true else (st, .passed u.name)
    | none => (st, .dropped)

def udpStep (st : UServer) : Ev → UServer × Out
  | .reload g => ({ st with gens := st.gens ++ [g] }, .quiet)
  | .seg s => udpSeg st s
  | .gone _ sid => ({ st with sessions := st.sessions.filter fun x => x.sid != sid }, .quiet)
  | .connClosed _ => (st, .quiet)

def udpRun (st : UServer) (evs : List Ev) : UServer := evs.foldl (fun st e => (udpStep st e).1) st

/-- the outputs of a run, in order -/
def udpOuts : UServer → List Ev → List Out
  | _, [] => []
  | st, e :: es => (udpStep st e).2 :: udpOuts (udpStep st e).1 es

/-! ## TCP -/

inductive CState
  | est (key user gen : Nat)    -- receive cipher and policy fixed by the connection's first segment
  | dead                        -- closed by the server after an error
  deriving DecidableEq, Repr

structure TServer where
  gens : List Gen
  mandatory : Bool
  conns : List (Nat × CState)   -- the FIRST entry for an address is the connection's state
  sessions : List Sess
  deriving DecidableEq, Repr

/-- an error return of the event loop closes the underlay and every session on it -/
def tKill (st : TServer) (addr : Nat) : TServer × Out :=
  ({ st with conns := (addr, .dead) :: st.conns, sessions := st.sessions.filter fun x => x.addr != addr }, .dropped)

def tOpen (st : TServer) (s : Seg) (key user gen : Nat) (via : Bool) : TServer × Out :=
  if st.sessions.any (fun x => x.addr == s.addr && x.sid == s.sid) then (st, .dropped)
  else ({ st with sessions := st.sessions ++ [⟨s.sid, s.addr, key, user, gen, via⟩] }, .accepted user gen via)

def tcpSeg (st : TServer) (s : Seg) : TServer × Out :=
  match st.conns.lookup s.addr with
  | some .dead => (st, .dropped)
  | some (.est k u g) =>
    if s.key = some k then
      if s.openReq then (if s.sid = 0 then tKill st s.addr else tOpen st s k u g false)
      else (st, .passed u)
    else tKill st s.addr
  | none =>
    match discover (current st.gens) st.mandatory s with
    | some u =>
      if s.openReq ∧ s.sid ≠ 0 then
        -- a new underlay has an empty session table: the id cannot be in use
        ({ st with conns := (s.addr, .est u.cred u.name (st.gens.length - 1)) :: st.conns,
                   sessions := st.sessions ++ [⟨s.sid, s.addr, u.cred, u.name, st.gens.length - 1, true⟩] },
          .accepted u.name (st.gens.length - 1) true)
      else tKill st s.addr
    | none => tKill st s.addr

def tcpStep (st : TServer) : Ev → TServer × Out
  | .reload g => ({ st with gens := st.gens ++ [g] }, .quiet)
  | .seg s => tcpSeg st s
  | .gone a sid => ({ st with sessions := st.sessions.filter fun x => !(x.addr == a && x.sid == sid) }, .quiet)
  | .connClosed a =>
    ({ st with conns := st.conns.filter (fun c => c.1 != a), sessions := st.sessions.filter fun x => x.addr != a }, .quiet)

def tcpRun (st : TServer) (evs : List Ev) : TServer := evs.foldl (fun st e => (tcpStep st e).1) st

def tcpOuts : TServer → List Ev → List Out
  | _, [] => []
  | st, e :: es => (tcpStep st e).2 :: tcpOuts (tcpStep st e).1 es

end Mieru.Session
