import Mieru.Model.Arq
import Mieru.Model.StreamWire
/-!
# Graceful close (pkg/protocol/session.go closeWithError / Close / inputClose / Read)

## Packet transport

One direction of one session — the `Mieru.Arq` sender / receiver / network — extended with what
`Close` does on the writer's side and what the reader's side does with a close request:

* `closeCall`   `Close()` → `closeWithError(nil)`: `closeRequested` is set (no further `Write`), the
                close request is queued at the tail of `sendQueue`, behind the pending data;
* `sendClose`   the output loop (`runOutputOncePacket`) reaches the close request: everything queued
                before it has been transmitted at least once (`qLo = |segs|`);
* `forceClose`  the bounded wait of `closeWithError` (1000 × 1 ms) expired first: the close request is
                written directly (`s.output(seg)`), overtaking whatever is still in `sendQueue`;
* `discard`     `sendQueue.DeleteAll(); sendBuf.DeleteAll(); close(closedChan)`: from here on the
                writer transmits and retransmits nothing (`wClosed`); `abandon` is the same without
                the close request ever having been transmitted (the wait is satisfied spuriously —
                `lastSend` is also advanced by pure acks — or output failed);
* `underlayClose` once the writer's session is gone its underlay answers any segment of that session
                with a close request of its own;
* `recvClose`   the reader's `input` dispatches a close request / response to `inputClose` AS SOON AS
                IT ARRIVES — there is no comparison with `nextRecv` — which closes the session;
* `recvData`    after that the reader's input loop has exited: later data is ignored;
* `read` / `readEOF`  `Read` hands out the in-order receive queue (`Arq.St.delivered`) and reports
                `io.EOF` only when that queue is empty and the session is closed. Segments waiting in
                `recvBuf` behind a gap are never looked at.

* `localClose`  the reader's session is closed WITHOUT any close request having been delivered: the
                packet underlay removes a session that has received nothing for `idleSessionTimeout`
                (60 s; `cleanSessions → RemoveSession → s.Close()`), an underlay that is torn down
                closes every session gracefully (`baseUnderlay.Close → s.Close()`), and the reader's
                own output failing ends in `closeWithError`. All of them end in `close(closedChan)`,
                on which `Read` reports a clean `io.EOF` once the in-order queue is drained.

`Env` names the three assumptions under which the property holds (all `false` = the code as it is):
`ordered` constrains the network at the moment it hands a close request to the reader, `patient`
constrains the writer's bounded wait, `kept` says the reader's session is closed by nothing but a
delivered close request.

The window is not modelled here (it is irrelevant to safety; `Mieru.Arq` / C02 cover it), acks are
any value not ahead of receipt (C13), and the network may re-deliver anything ever transmitted.
-/
namespace Mieru.Close
open Mieru

structure Env where
  ordered : Bool
  patient : Bool
  kept : Bool
deriving DecidableEq, Repr

structure St where
  a : Arq.St
  closeReq : Bool     -- Close() has been called
  closeSent : Bool    -- the close request has been transmitted at least once
  wClosed : Bool      -- writer side closed: send state discarded
  netClose : Nat      -- close requests in flight towards the reader
  rClosed : Bool      -- reader side closed
  handed : List Nat   -- ghost: sequence numbers handed to the reader's input while it was open
  readPos : Nat       -- number of in-order segments the application has read
  eof : Bool          -- the application has seen io.EOF
deriving DecidableEq, Repr

def init : St := ⟨Arq.init, false, false, false, 0, false, [], 0, false⟩

/-- what the reader application has read so far -/
def St.readLog (s : St) : List Nat := s.a.delivered.take s.readPos

inductive Step (E : Env) : St → St → Prop
  | write (s : St) (p : Nat) (h : s.closeReq = false) :
      Step E s { s with a := { s.a with segs := s.a.segs ++ [p] } }
  | sendNew (s : St) (p : Nat) (hc : s.wClosed = false) (h : s.a.segs[s.a.qLo]? = some p) :
      Step E s { s with a := { s.a with qLo := s.a.qLo + 1, netData := ⟨s.a.qLo, p⟩ :: s.a.netData,
                                         sent := ⟨s.a.qLo, p⟩ :: s.a.sent } }
  | retransmit (s : St) (k p : Nat) (hc : s.wClosed = false) (hk : s.a.lo ≤ k ∧ k < s.a.qLo)
      (h : s.a.segs[k]? = some p) :
      Step E s { s with a := { s.a with netData := ⟨k, p⟩ :: s.a.netData, sent := ⟨k, p⟩ :: s.a.sent } }
  | dropData (s : St) (m : Arq.Msg) :
      Step E s { s with a := { s.a with netData := s.a.netData.erase m } }
  /-- the network delivers (again) anything that was ever transmitted: duplication and delay -/
  | replay (s : St) (m : Arq.Msg) (h : m ∈ s.a.sent) :
      Step E s { s with a := { s.a with netData := m :: s.a.netData } }
  | recvData (s : St) (m : Arq.Msg) (h : m ∈ s.a.netData) :
      Step E s (if s.rClosed then { s with a := { s.a with netData := s.a.netData.erase m } }
                else { s with a := Arq.recv s.a m, handed := m.seq :: s.handed })
  | ack (s : St) (a : Nat) (h : a ≤ s.a.nextRecv) :
      Step E s { s with a := { s.a with netAck := a :: s.a.netAck, acked := a :: s.a.acked } }
  | dropAck (s : St) (a : Nat) :
      Step E s { s with a := { s.a with netAck := s.a.netAck.erase a } }
  | recvAck (s : St) (a : Nat) (h : a ∈ s.a.acked) :
      Step E s { s with a := { s.a with lo := max s.a.lo (min a s.a.qLo) } }
  | closeCall (s : St) (h : s.closeReq = false) : Step E s { s with closeReq := true }
  | sendClose (s : St) (h : s.closeReq = true) (hc : s.wClosed = false)
      (hq : s.a.qLo = s.a.segs.length) :
      Step E s { s with closeSent := true, netClose := s.netClose + 1 }
  | forceClose (s : St) (hp : E.patient = false) (h : s.closeReq = true) (hc : s.wClosed = false) :
      Step E s { s with closeSent := true, netClose := s.netClose + 1 }
  | discard (s : St) (h : s.closeSent = true) : Step E s { s with wClosed := true }
  | abandon (s : St) (hp : E.patient = false) (h : s.closeReq = true) : Step E s { s with wClosed := true }
  | underlayClose (s : St) (h : s.wClosed = true) : Step E s { s with netClose := s.netClose + 1 }
  | dropClose (s : St) (h : 0 < s.netClose) : Step E s { s with netClose := s.netClose - 1 }
  /-- the network duplicates / delays any close request that was ever transmitted -/
  | dupClose (s : St) (h : s.closeSent = true) : Step E s { s with netClose := s.netClose + 1 }
  | recvClose (s : St) (h : 0 < s.netClose)
      (ho : E.ordered = true → ∀ j, j < s.a.qLo → j ∈ s.handed) :
      Step E s { s with netClose := s.netClose - 1, rClosed := true }
  /-- idle timeout / underlay teardown / reader-side output failure: closed with no close request -/
  | localClose (s : St) (hk : E.kept = false) : Step E s { s with rClosed := true }
  | read (s : St) (h : s.readPos < s.a.delivered.length) : Step E s { s with readPos := s.readPos + 1 }
  | readEOF (s : St) (h : s.readPos = s.a.delivered.length) (hc : s.rClosed = true) :
      Step E s { s with eof := true }

inductive Reach (E : Env) : St → Prop
  | init : Reach E init
  | step {s t} : Reach E s → Step E s t → Reach E t

/-- the code as it is: no assumption on the network or on the bounded wait -/
def asIs : Env := ⟨false, false, false⟩
/-- the three assumptions of the partial theorem -/
def assumed : Env := ⟨true, true, true⟩

/-! ### Executable acceptor (correspondence)

The harness replays what it observed: application calls (`closeCall`, `closeRet`), every datagram
emitted / handed to an endpoint (decoded), and the reader's final result. Every event must be a step
(or two) of the model in its current state; the acceptor also records whether the run stayed inside
the three assumptions. -/

/-- `idleSessionTimeout` of pkg/protocol/underlay_packet.go in milliseconds (tied to the source by
    `Props/C03.close_wait_and_idle_constants`) -/
def idleTimeoutMs : Nat := 60000

/-- the bounded wait of `closeWithError`: 1000 iterations of `time.Sleep(time.Millisecond)` (tied to
    the source by `Props/C03.close_wait_and_idle_constants`) -/
def closeWaitMs : Nat := 1000

inductive Ev where
  | arq (e : Arq.Ev)
  | closeCall
  | closeSend (ms : Nat)  -- a close request for the session left the writer's endpoint, `ms` after `Close()` was called
  | closeRet           -- Close() returned
  | closeDeliver       -- a close request / response for the session was handed to the reader's endpoint
  | localClose (idleMs : Nat)  -- the reader's session was closed with no close request delivered, after
                       -- its endpoint had been handed nothing for `idleMs` milliseconds
  | readAll            -- the reader application consumes everything that is readable
  | readEOF            -- … and then sees io.EOF
deriving Repr

structure Acc where
  s : St
  ordered : Bool := true   -- every close delivery so far found all transmitted data handed over
  patient : Bool := true   -- no forced close, no abandon
  kept : Bool := true      -- the reader's session was closed only by a delivered close request
deriving Repr

def allHanded (s : St) : Bool := (List.range s.a.qLo).all (fun j => s.handed.contains j)

def accept (c : Acc) : Ev → Option Acc
  | .arq (.write p) => if c.s.closeReq then none else
      some { c with s := { c.s with a := { c.s.a with segs := c.s.a.segs ++ [p] } } }
  | .arq (.send k p) =>
      if c.s.wClosed then none else
      match Arq.accept c.s.a (.send k p) with
      | none => none
      | some a' => some { c with s := { c.s with a := a' } }
  | .arq (.deliver k p) =>
      let m : Arq.Msg := ⟨k, p⟩
      if m ∈ c.s.a.sent then
        if c.s.rClosed then some c
        else
          let a1 : Arq.St := { c.s.a with netData := m :: c.s.a.netData }
          some { c with s := { c.s with a := Arq.recv a1 m, handed := k :: c.s.handed } }
      else none
  | .arq (.ack a) => match Arq.accept c.s.a (.ack a) with
      | none => none
      | some a' => some { c with s := { c.s with a := a' } }
  | .arq (.ackIn a) => match Arq.accept c.s.a (.ackIn a) with
      | none => none
      | some a' => some { c with s := { c.s with a := a' } }
  | .closeCall => if c.s.closeReq then none else some { c with s := { c.s with closeReq := true } }
  | .closeSend ms =>
      if !c.s.closeReq then none
      else if c.s.wClosed then some { c with s := { c.s with netClose := c.s.netClose + 1 } }
      else if c.s.a.qLo = c.s.a.segs.length then
        some { c with s := { c.s with closeSent := true, netClose := c.s.netClose + 1 } }
      else if ms < closeWaitMs then none   -- written out directly before the bounded wait can have expired
      else some { c with s := { c.s with closeSent := true, netClose := c.s.netClose + 1 }, patient := false }
  | .closeRet =>
      -- `Close()` returns only after its close request has left (queued or forced); the model's
      -- `abandon` (output failing) has no counterpart on the simulated network
      if c.s.closeReq && c.s.closeSent then some { c with s := { c.s with wClosed := true } } else none
  | .closeDeliver =>
      if c.s.closeSent || c.s.wClosed then
        some { c with s := { c.s with rClosed := true }, ordered := c.ordered && allHanded c.s }
      else none
  | .localClose idleMs =>
      if idleMs < idleTimeoutMs then none
      else some { c with s := { c.s with rClosed := true }, kept := false }
  | .readAll => some { c with s := { c.s with readPos := max c.s.readPos c.s.a.delivered.length } }
  | .readEOF =>
      if c.s.rClosed && c.s.readPos == c.s.a.delivered.length then some { c with s := { c.s with eof := true } }
      else none

def acceptAll (c : Acc) : List Ev → Option Acc
  | [] => some c
  | e :: es => match accept c e with
    | none => none
    | some c' => acceptAll c' es

end Mieru.Close

/-!
## Stream transport

On TCP the writer's output loop (`runOutputOnceStream`) drains `sendQueue` in sequence order while
holding `oLock`, so the bytes of the close request follow the bytes of every data segment queued
before it; the receiving underlay parses the byte stream in order and hands each session its segments
through one FIFO channel; `input` puts data into `recvQueue` and closes the session on a close
request / response. `Read` drains `recvQueue` and then reports `io.EOF`.
-/
namespace Mieru.CloseStream
open Mieru

inductive Item where
  | data (p : Bytes)
  | closeReq
  | closeResp
  | other             -- acks, segments of other sessions' bookkeeping
deriving DecidableEq, Repr

/-- the receiving side of one stream session -/
structure SRx where
  queue : List Bytes   -- everything ever put into recvQueue, in order
  closed : Bool
deriving DecidableEq, Repr

def SRx.init : SRx := ⟨[], false⟩

/-- `Session.input` on the stream transport -/
def input (r : SRx) : Item → SRx
  | .data p => if r.closed then r else { r with queue := r.queue ++ [p] }
  | .closeReq => { r with closed := true }
  | .closeResp => { r with closed := true }
  | .other => r

def run (r : SRx) (items : List Item) : SRx := items.foldl input r

/-- The reader's session is closed locally, with no close request on the wire: the underlay the session
    is attached to is torn down (`RunEventLoop` returns on a reset / read error / failed open of ANY
    session's segment → `baseUnderlay.Close()` → `s.Close()` on every session — a GRACEFUL close) or the
    session is removed. `Read` then drains the queue and reports a clean `io.EOF`. Outside the faults
    C03 quantifies over (the TCP connection must die), modelled so that what the stream-transport
    theorems assume — the connection survives — is explicit. -/
def localClose (r : SRx) : SRx := { r with closed := true }

inductive RdEv where
  | got (p : Bytes)
  | eof
  | block
deriving DecidableEq, Repr

/-- one `Read` by an application that has consumed `pos` segments so far -/
def readOnce (r : SRx) (pos : Nat) : RdEv :=
  match r.queue[pos]? with
  | some p => .got p
  | none => if r.closed then .eof else .block

/-- the items of session `sid` among the (metadata, payload) pairs the underlay parsed; `cls` reads
    session id and kind off the metadata -/
def sessionItems (cls : StreamWire.Md → Nat × (Bytes → Item)) (sid : Nat) (evs : List (StreamWire.Md × Bytes)) : List Item :=
  (evs.filter (fun e => (cls e.1).1 == sid)).map (fun e => (cls e.1).2 e.2)

end Mieru.CloseStream
