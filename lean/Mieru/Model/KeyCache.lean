import Mieru.Model.Time
/-!
# The cipher cache of pkg/cipher (cache.go `getCachedCiphers`, api.go
# `StatelessDecryptor.tryDecryptAt`) as a state machine (core Lean only)

`K` is whatever `newBlockCipherList` produces; it depends on the instant only through
`saltFromTime(now)`, i.e. through `now.Round(KeyRefreshInterval)`, so the model derives it as
`derive (epoch now)` for an abstract `derive`.  The state is per password (the real
`blockCipherCache` is a map keyed by password whose entries never interact).
The jitter drawn by `mrand.Intn(cacheValidMaxJitterMs)` is an explicit argument in milliseconds.
-/
namespace Mieru.KeyCache
open Mieru.Time

/-- `cacheValidInterval` (KeyRefreshInterval / 4 in the current source), in ns.  The model and
    every theorem take the validity interval as a parameter `validNs`: the property does not
    depend on its value, and the harness passes the value compiled from the source. -/
def cacheValidNs : Int := 30000000000

structure Entry (K : Type) where
  keys : K
  createTime : Int
  epoch : Int

/-- per-password state: the cache slot and what one `StatelessDecryptor` holds -/
structure State (K : Type) where
  cache : Option (Entry K)
  held : Option (Entry K)

def State.empty {K : Type} : State K := ⟨none, none⟩

/-- `entry.epoch != cipherKeyEpoch(now) || entry.createTime.Add(cacheValidInterval-jitter).Before(now)` -/
def expired {K : Type} (validNs : Int) (e : Entry K) (now jitterMs : Int) : Prop :=
  e.epoch ≠ epoch now ∨ e.createTime + (validNs - jitterMs * 1000000) < now

instance {K : Type} (validNs : Int) (e : Entry K) (now j : Int) : Decidable (expired validNs e now j) := by
  unfold expired; infer_instance

def fresh {K : Type} (derive : Int → K) (now : Int) : Entry K :=
  ⟨derive (epoch now), now, epoch now⟩

/-- `getCachedCiphers(password, now)`: the entry returned and the new cache slot -/
def getCached {K : Type} (validNs : Int) (derive : Int → K) (cache : Option (Entry K)) (now jitterMs : Int) :
    Entry K × Option (Entry K) :=
  match cache with
  | some e => if expired validNs e now jitterMs then (fresh derive now, some (fresh derive now)) else (e, some e)
  | none => (fresh derive now, some (fresh derive now))

/-- the entry `tryDecryptAt` decrypts with, and the state afterwards -/
def tryEntry {K : Type} (validNs : Int) (derive : Int → K) (s : State K) (now jitterMs : Int) : Entry K × State K :=
  match s.held with
  | some h =>
    if h.epoch = epoch now then (h, s)
    else
      let r := getCached validNs derive s.cache now jitterMs
      (r.1, ⟨r.2, some r.1⟩)
  | none =>
    let r := getCached validNs derive s.cache now jitterMs
    (r.1, ⟨r.2, some r.1⟩)

inductive Op where
  | lookup (now jitterMs : Int)      -- getCachedCiphers (BlockCipherFromPassword, TryDecrypt, …)
  | tryDecrypt (now jitterMs : Int)  -- StatelessDecryptor.tryDecryptAt

def Op.now : Op → Int
  | .lookup n _ => n
  | .tryDecrypt n _ => n

/-- one operation: the entry it uses and the next state -/
def step {K : Type} (validNs : Int) (derive : Int → K) (s : State K) : Op → Entry K × State K
  | .lookup now j =>
    let r := getCached validNs derive s.cache now j
    (r.1, { s with cache := r.2 })
  | .tryDecrypt now j => tryEntry validNs derive s now j

/-- run a history; returns, per operation, the instant and the entry used -/
def run {K : Type} (validNs : Int) (derive : Int → K) : State K → List Op → List (Int × Entry K)
  | _, [] => []
  | s, op :: ops =>
    let r := step validNs derive s op
    (op.now, r.1) :: run validNs derive r.2 ops

/-- the three keys of an entry when keys are indexed by the slot they were derived for:
    previous, current, next slot (newBlockCipherList over saltFromTime) -/
def slotKeys (e : Int) : List Int := [e - keyRefreshSec, e, e + keyRefreshSec]

end Mieru.KeyCache
