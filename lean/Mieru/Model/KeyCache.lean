import Mieru.Model.Time
/-!
# The cipher cache of pkg/cipher (cache.go `getCachedCiphers`, api.go
# `StatelessDecryptor.tryDecryptAt`) as a state machine (core Lean only)

`K` is whatever `newBlockCipherList` produces; it depends on the instant only through
`saltFromTime(now)`, i.e. through `now.Round(KeyRefreshInterval)`, so the model derives it as
`derive (epoch now.wall)` for an abstract `derive`.  The state is per password (the real
`blockCipherCache` is a map keyed by password whose entries never interact): ONE cache slot and ANY
NUMBER of `StatelessDecryptor`s for that password (the server keeps one per user per configuration
generation; each holds its own `ciphers` pointer), indexed by a natural number.
The jitter drawn by `mrand.Intn(cacheValidMaxJitterMs)` is an explicit argument in milliseconds.

Instants are Go `time.Time` values: a wall-clock reading and, for values that come from `time.Now()`,
a monotonic reading.  `cipherKeyEpoch` / `saltFromTime` use the wall clock (`Round` strips the monotonic
reading); `createTime.Add(…).Before(now)` compares MONOTONIC readings when both operands carry one and
wall readings otherwise (package `time`).  After a step of the wall clock the two disagree; the model keeps
both so that such histories are inside the theorems' quantifier.
-/
namespace Mieru.KeyCache
open Mieru.Time

/-- `cacheValidInterval` (KeyRefreshInterval / 4 in the current source), in ns.  The model and
    every theorem take the validity interval as a parameter `validNs`: the property does not
    depend on its value, and the harness passes the value compiled from the source. -/
def cacheValidNs : Int := 30000000000

/-- a `time.Time`: Unix nanoseconds of the wall clock, and the monotonic reading if there is one -/
structure Instant where
  wall : Int
  mono : Option Int := none
deriving DecidableEq, Repr

/-- `t.Add(d)`: both readings move -/
def Instant.add (t : Instant) (d : Int) : Instant := ⟨t.wall + d, t.mono.map (· + d)⟩

/-- `a.Before(b)`: monotonic readings if both have one, else wall readings -/
def Instant.before (a b : Instant) : Prop :=
  match a.mono, b.mono with
  | some x, some y => x < y
  | _, _ => a.wall < b.wall

instance (a b : Instant) : Decidable (a.before b) := by
  unfold Instant.before; split <;> infer_instance

/-- an instant without monotonic reading (`time.Unix(0, ns)`) -/
instance : Coe Int Instant := ⟨fun w => ⟨w, none⟩⟩

structure Entry (K : Type) where
  keys : K
  createTime : Instant
  epoch : Int

/-- per-password state: the cache slot and what each `StatelessDecryptor` for the password holds -/
structure State (K : Type) where
  cache : Option (Entry K)
  held : Nat → Option (Entry K)

def State.empty {K : Type} : State K := ⟨none, fun _ => none⟩

/-- `entry.epoch != cipherKeyEpoch(now) || entry.createTime.Add(cacheValidInterval-jitter).Before(now)` -/
def expired {K : Type} (validNs : Int) (e : Entry K) (now : Instant) (jitterMs : Int) : Prop :=
  e.epoch ≠ epoch now.wall ∨ (e.createTime.add (validNs - jitterMs * 1000000)).before now

instance {K : Type} (validNs : Int) (e : Entry K) (now : Instant) (j : Int) : Decidable (expired validNs e now j) := by
  unfold expired; infer_instance

def fresh {K : Type} (derive : Int → K) (now : Instant) : Entry K :=
  ⟨derive (epoch now.wall), now, epoch now.wall⟩

/-- `getCachedCiphers(password, now)`: the entry returned and the new cache slot -/
def getCached {K : Type} (validNs : Int) (derive : Int → K) (cache : Option (Entry K)) (now : Instant) (jitterMs : Int) :
    Entry K × Option (Entry K) :=
  match cache with
  | some e => if expired validNs e now jitterMs then (fresh derive now, some (fresh derive now)) else (e, some e)
  | none => (fresh derive now, some (fresh derive now))

/-- `entry == nil || entry.epoch != epoch` of `tryDecryptAt`: the decryptor goes back to the cache -/
def refetch {K : Type} (held : Option (Entry K)) (now : Instant) : Prop :=
  match held with
  | none => True
  | some h => h.epoch ≠ epoch now.wall

instance {K : Type} (held : Option (Entry K)) (now : Instant) : Decidable (refetch held now) := by
  unfold refetch; split <;> infer_instance

/-- `d.ciphers.Store(entry)` for decryptor `dec` -/
def setHeld {K : Type} (held : Nat → Option (Entry K)) (dec : Nat) (e : Entry K) : Nat → Option (Entry K) :=
  fun i => if i = dec then some e else held i

/-- the entry decryptor `dec`'s `tryDecryptAt` decrypts with, and the state afterwards -/
def tryEntry {K : Type} (validNs : Int) (derive : Int → K) (s : State K) (dec : Nat) (now : Instant) (jitterMs : Int) :
    Entry K × State K :=
  match s.held dec with
  | some h =>
    if h.epoch = epoch now.wall then (h, s)
    else
      let r := getCached validNs derive s.cache now jitterMs
      (r.1, ⟨r.2, setHeld s.held dec r.1⟩)
  | none =>
    let r := getCached validNs derive s.cache now jitterMs
    (r.1, ⟨r.2, setHeld s.held dec r.1⟩)

inductive Op where
  | lookup (now : Instant) (jitterMs : Int)                 -- getCachedCiphers (BlockCipherFromPassword, TryDecrypt, …)
  | tryDecrypt (dec : Nat) (now : Instant) (jitterMs : Int) -- StatelessDecryptor.tryDecryptAt of decryptor `dec`

def Op.now : Op → Instant
  | .lookup n _ => n
  | .tryDecrypt _ n _ => n

/-- one operation: the entry it uses and the next state -/
def step {K : Type} (validNs : Int) (derive : Int → K) (s : State K) : Op → Entry K × State K
  | .lookup now j =>
    let r := getCached validNs derive s.cache now j
    (r.1, { s with cache := r.2 })
  | .tryDecrypt dec now j => tryEntry validNs derive s dec now j

/-- run a history; returns, per operation, the instant and the entry used -/
def run {K : Type} (validNs : Int) (derive : Int → K) : State K → List Op → List (Instant × Entry K)
  | _, [] => []
  | s, op :: ops =>
    let r := step validNs derive s op
    (op.now, r.1) :: run validNs derive r.2 ops

/-- Concurrent use.  `blockCipherCache` is a `sync.Map` and `StatelessDecryptor.ciphers` an
    `atomic.Pointer`: each Load returns SOME value stored earlier (or nothing), not necessarily the
    latest one, and another goroutine may store between an operation's Load and its Store.  A
    concurrent history is therefore a sequence of operations each of which sees an ARBITRARY pair of
    previously stored entries (`pool` = everything ever stored) as cache slot and held entry, and whose
    result joins the pool.  (Assumes what the Go memory model gives for these two types: a Load
    returns a value that was stored, whole.) -/
inductive ConcRun {K : Type} (validNs : Int) (derive : Int → K) : List (Entry K) → List (Instant × Entry K) → Prop
  | nil : ConcRun validNs derive [] []
  | op (pool : List (Entry K)) (used : List (Instant × Entry K)) (c h : Option (Entry K))
      (hc : ∀ e, c = some e → e ∈ pool) (hh : ∀ e, h = some e → e ∈ pool) (o : Op)
      (prev : ConcRun validNs derive pool used) :
      ConcRun validNs derive ((step validNs derive ⟨c, fun _ => h⟩ o).1 :: pool)
        ((o.now, (step validNs derive ⟨c, fun _ => h⟩ o).1) :: used)

/-- the three keys of an entry when keys are indexed by the slot they were derived for:
    previous, current, next slot (newBlockCipherList over saltFromTime) -/
def slotKeys (e : Int) : List Int := [e - keyRefreshSec, e, e + keyRefreshSec]

end Mieru.KeyCache
