/-!
# Closing an underlay and a mux (pkg/protocol underlay_base.go / underlay_stream.go / underlay_packet.go / mux.go)

A transition system of ONE underlay with everything that lives on it:

* its sessions (`closeRequested`, `closedChan`, the two loop goroutines counted in `s.wg`; a loop can be
  blocked in a network write under `sendMutex`),
* the event-loop goroutine (`RunEventLoop` → `readOneSegment` → dispatch, `cleanSessions`,
  `drainAfterError`, its deferred `conn.Close()`, and the `underlay.Close()` the goroutine calls after the
  loop returns), at every one of its blocking sites,
* the connection's read deadline as the event loop's reads see it (`SetReadTimeout`, the two pokes of
  `Close`, the deferred reset of the stream transport) and whether its write deadline is in the past,
* any number of concurrent callers of `StreamUnderlay.Close` / `PacketUnderlay.Close` under `closeMutex`
  (`baseUnderlay.Close`: close every session, wait for its loops, close `done`),
* one caller of `Mux.Close` (cancel the master context, close the underlay, wait for
  `serverUnderlayLoopWG`).

`OwnStep` are the steps the goroutines of the transport take by themselves; `EnvStep` is everything
that depends on somebody else: the network (data, errors, timers of tens of seconds, buffer space),
the applications (reading, calling `Close`, dialling), tickers, and the decision to call `Close` at all.
The theorems (Mieru/Proofs/UnderlayClose*.lean, Props/C15.lean) are about every interleaving of both.

Times are not modelled: a read deadline is `past` (a read returns at once), `future` (tens of seconds
away: the read is parked as far as "prompt" is concerned) or `none`.
-/
namespace Mieru.UClose

/-- function update (sessions and closer slots are indexed by `Nat`) -/
def upd {α : Type} (f : Nat → α) (i : Nat) (v : α) : Nat → α := fun j => if j = i then v else f j

/-- read deadline of the underlay's connection -/
inductive Dl | none | future | past
deriving DecidableEq, Repr

/-- where the event-loop goroutine is -/
inductive LoopPC
  | top                  -- `select` at the head of `for` in RunEventLoop (polls ctx / done / ticker)
  | pre                  -- packet transport: readOneSegment polls `done` once before it arms the timeout
  | arm                  -- entering readOneSegment: about to `SetReadTimeout(conn, readOneSegmentTimeout)`
  | check                -- timeout armed, about to poll `done`
  | read                 -- parked in the first read of a segment (`io.ReadFull` / `ReadFrom`)
  | readMore             -- parked in a later read of the same segment (payload, padding; stream only)
  | errc (crypto : Bool) -- the read failed: RunEventLoop's error branch is about to poll `done`
  | drainArm             -- drainAfterError: about to set its own 1–60 s read deadline
  | drain                -- parked in `io.ReadAtLeast` of drainAfterError
  | deliver (i : Nat)    -- parked in deliverSegmentToSession(session i): `recvChan <- seg` / closedChan / done
  | ready                -- parked in onOpenSessionRequest: `readySessions <- s` / done
  | clean (ret : Bool)   -- cleanSessions (RemoveSession waits `s.wg` of closed sessions); then return or loop
  | ctxClose             -- packet server, master context cancelled: about to call `u.Close()` inline
  | retn                 -- RunEventLoop returns: the deferred `conn.Close()`
  | ownClose             -- the goroutine that ran the loop calls `underlay.Close()`
  | inClose (after : LoopPC) -- inside that call (closer slot 0)
  | exited               -- goroutine gone (server: `serverUnderlayLoopWG.Done()`)
deriving DecidableEq, Repr

/-- a caller of `underlay.Close()` -/
inductive CPC
  | idle                 -- has not called
  | lock                 -- `closeMutex.Lock()`
  | chk                  -- holds the mutex: `select { case <-done: return nil; default: }`
  | poke1                -- `conn.SetDeadline(now)` (stream) / `conn.SetReadDeadline(now)` (packet)
  | sess (i b : Nat)     -- baseUnderlay.Close, Range over the `b` sessions present when it started: `s_i.Close()`
  | wait (i b : Nat)     -- `s_i.wg.Wait()`
  | closeDone            -- `close(b.done)`
  | poke2                -- `conn.SetReadDeadline(now)` again
  | unlock               -- deferred `closeMutex.Unlock()`
  | ret                  -- returned
deriving DecidableEq, Repr

/-- the caller of `Mux.Close` (as far as this underlay is concerned) -/
inductive MuxPC
  | idle
  | cancel               -- `close(m.done); m.ctxCancelFunc()`
  | call                 -- `underlay.Close()` (closer slot 1)
  | closing
  | wait                 -- `<-m.maintenanceDone; m.serverUnderlayLoopWG.Wait()`
  | ret
deriving DecidableEq, Repr

/-- what the current source does at the places where the model branches on the shape of the code
    (read off the regenerated facts, see Props/C15 `underlay_shape_matches_model`) -/
structure Shape where
  /-- readOneSegment polls `done` after arming its read timeout -/
  checkAfterArm : Bool
  /-- underlay `Close` resets the read deadline again after `done` is closed -/
  pokeAfterDone : Bool
  /-- drainAfterError polls `done` after arming its own read deadline -/
  drainChecked : Bool
deriving DecidableEq, Repr

structure St where
  stream : Bool          -- StreamUnderlay (TCP) / PacketUnderlay (UDP)
  server : Bool          -- server underlay: ctx is the mux master context, the loop is counted in serverUnderlayLoopWG
  n : Nat                -- sessions ever attached: 0 … n-1
  req : Nat → Bool       -- closeRequested (some closeWithError won the CAS)
  closed : Nat → Bool    -- closedChan is closed
  run : Nat → Nat        -- loops of the session that are running
  net : Nat → Nat        -- loops of the session that are blocked in a network write
  loop : LoopPC
  dl : Dl
  wpast : Bool           -- the connection's write deadline is in the past (nothing ever moves it forward again)
  done : Bool
  ctx : Bool             -- the context RunEventLoop got is cancelled
  sock : Bool            -- `conn.Close()` executed
  holder : Option Nat    -- who holds closeMutex
  m : Nat                -- closer slots 0 … m-1; 0 = the event-loop goroutine, 1 = Mux.Close
  cl : Nat → CPC
  mux : MuxPC
  snap : Nat             -- ghost: number of sessions when the closing Range started
  poked2 : Bool          -- ghost: the second poke has been executed

def init (stream server : Bool) (m : Nat) : St :=
  { stream := stream, server := server, n := 0, req := fun _ => false, closed := fun _ => false,
    run := fun _ => 0, net := fun _ => 0, loop := .top, dl := .none, wpast := false, done := false,
    ctx := false, sock := false, holder := none, m := m, cl := fun _ => .idle, mux := .idle, snap := 0,
    poked2 := false }

/-- the read deadline after a stream `readOneSegment` returns (`defer SetReadTimeout(conn, 0)`) -/
def afterRead (s : St) : Dl := if s.stream then .none else s.dl

/-- every session that is closed has no loop left (what `cleanSessions` waits for) -/
def cleanable (s : St) : Prop := ∀ i, i < s.n → s.closed i = true → s.run i = 0 ∧ s.net i = 0

/-- steps the transport's own goroutines take without anybody's help -/
inductive OwnStep (sh : Shape) : St → St → Prop
  -- sessions -------------------------------------------------------------------------------------
  /-- the closeWithError that won the CAS finishes (Props/C15 `closers_all_return`) -/
  | finClose (s : St) (i : Nat) (hi : i < s.n) (h : s.req i = true) (hc : s.closed i = false) :
      OwnStep sh s { s with closed := upd s.closed i true }
  /-- a session loop sees `closedChan` at its next select (Props/C15 `every_wait_has_close_exit`) -/
  | loopExit (s : St) (i : Nat) (hi : i < s.n) (h : s.closed i = true) (hr : 0 < s.run i) :
      OwnStep sh s { s with run := upd s.run i (s.run i - 1) }
  /-- a network write fails at once when the write deadline is in the past -/
  | netWake (s : St) (i : Nat) (hi : i < s.n) (h : 0 < s.net i) (hw : s.wpast = true) :
      OwnStep sh s { s with net := upd s.net i (s.net i - 1), run := upd s.run i (s.run i + 1) }
  -- callers of underlay.Close() ------------------------------------------------------------------
  | lock (s : St) (k : Nat) (hk : k < s.m) (h : s.cl k = .lock) (hh : s.holder = none) :
      OwnStep sh s { s with holder := some k, cl := upd s.cl k .chk }
  | chkDone (s : St) (k : Nat) (hk : k < s.m) (h : s.cl k = .chk) (hd : s.done = true) :
      OwnStep sh s { s with cl := upd s.cl k .unlock }
  | chkOpen (s : St) (k : Nat) (hk : k < s.m) (h : s.cl k = .chk) (hd : s.done = false) :
      OwnStep sh s { s with cl := upd s.cl k .poke1 }
  | poke1 (s : St) (k : Nat) (hk : k < s.m) (h : s.cl k = .poke1) :
      OwnStep sh s { s with dl := .past, wpast := s.wpast || s.stream, snap := s.n, cl := upd s.cl k (.sess 0 s.n) }
  | sessClose (s : St) (k i b : Nat) (hk : k < s.m) (h : s.cl k = .sess i b) (hi : i < b) :
      OwnStep sh s { s with req := upd s.req i true, cl := upd s.cl k (.wait i b) }
  | sessEnd (s : St) (k i b : Nat) (hk : k < s.m) (h : s.cl k = .sess i b) (hi : b ≤ i) :
      OwnStep sh s { s with cl := upd s.cl k .closeDone }
  | wgWait (s : St) (k i b : Nat) (hk : k < s.m) (h : s.cl k = .wait i b) (hi : i < b)
      (hc : s.closed i = true) (hr : s.run i = 0) (hn : s.net i = 0) :
      OwnStep sh s { s with cl := upd s.cl k (.sess (i + 1) b) }
  | closeDone (s : St) (k : Nat) (hk : k < s.m) (h : s.cl k = .closeDone) :
      OwnStep sh s { s with done := true, cl := upd s.cl k (if sh.pokeAfterDone then .poke2 else .unlock) }
  | poke2 (s : St) (k : Nat) (hk : k < s.m) (h : s.cl k = .poke2) :
      OwnStep sh s { s with dl := .past, poked2 := true, cl := upd s.cl k .unlock }
  | unlock (s : St) (k : Nat) (hk : k < s.m) (h : s.cl k = .unlock) :
      OwnStep sh s { s with holder := none, cl := upd s.cl k .ret }
  -- Mux.Close ---------------------------------------------------------------------------------------
  | muxCancel (s : St) (h : s.mux = .cancel) :
      OwnStep sh s { s with ctx := s.ctx || s.server, mux := .call }
  | muxCall (s : St) (hm : 1 < s.m) (h : s.mux = .call) (hc : s.cl 1 = .idle) :
      OwnStep sh s { s with cl := upd s.cl 1 .lock, mux := .closing }
  | muxClosed (s : St) (h : s.mux = .closing) (hc : s.cl 1 = .ret) :
      OwnStep sh s { s with mux := .wait }
  | muxWait (s : St) (h : s.mux = .wait) (hl : s.server = false ∨ s.loop = .exited) :
      OwnStep sh s { s with mux := .ret }
  -- the event loop ------------------------------------------------------------------------------
  | topCtxStream (s : St) (h : s.loop = .top) (hc : s.ctx = true) (hs : s.stream = true) :
      OwnStep sh s { s with loop := .clean true }
  | topCtxPacket (s : St) (h : s.loop = .top) (hc : s.ctx = true) (hs : s.stream = false) :
      OwnStep sh s { s with loop := .ctxClose }
  | topDone (s : St) (h : s.loop = .top) (hc : s.ctx = false) (hd : s.done = true) :
      OwnStep sh s { s with loop := .clean true }
  | topRead (s : St) (h : s.loop = .top) (hc : s.ctx = false) (hd : s.done = false) :
      OwnStep sh s { s with loop := if s.stream then .arm else .pre }
  | cleanDone (s : St) (r : Bool) (h : s.loop = .clean r) (hcl : cleanable s) :
      OwnStep sh s { s with loop := if r then .retn else .top }
  | ctxCloseCall (s : St) (hm : 0 < s.m) (h : s.loop = .ctxClose) (hc : s.cl 0 = .idle) :
      OwnStep sh s { s with cl := upd s.cl 0 .lock, loop := .inClose (.clean true) }
  | closeReturned (s : St) (a : LoopPC) (hm : 0 < s.m) (h : s.loop = .inClose a) (hc : s.cl 0 = .ret) :
      OwnStep sh s { s with cl := upd s.cl 0 .idle, loop := a }
  | preClosed (s : St) (h : s.loop = .pre) (hd : s.done = true) :
      OwnStep sh s { s with loop := .errc false }
  | preOpen (s : St) (h : s.loop = .pre) (hd : s.done = false) :
      OwnStep sh s { s with loop := .arm }
  | arm (s : St) (h : s.loop = .arm) :
      OwnStep sh s { s with dl := .future, loop := if sh.checkAfterArm then .check else .read }
  | checkDone (s : St) (h : s.loop = .check) (hd : s.done = true) :
      OwnStep sh s { s with dl := afterRead s, loop := .errc false }
  | checkOpen (s : St) (h : s.loop = .check) (hd : s.done = false) :
      OwnStep sh s { s with loop := .read }
  /-- a read with a deadline in the past returns a timeout with nothing read: the loop goes round -/
  | readTimeout (s : St) (h : s.loop = .read) (hp : s.dl = .past) :
      OwnStep sh s { s with dl := afterRead s, loop := .top }
  /-- … with part of a segment read: a network error -/
  | readMoreTimeout (s : St) (h : s.loop = .readMore) (hp : s.dl = .past) :
      OwnStep sh s { s with dl := afterRead s, loop := .errc false }
  | errDone (s : St) (c : Bool) (h : s.loop = .errc c) (hd : s.done = true) :
      OwnStep sh s { s with loop := .clean true }
  | errDrain (s : St) (h : s.loop = .errc true) (hd : s.done = false) (hs : s.stream = true) :
      OwnStep sh s { s with loop := .drainArm }
  | errReturn (s : St) (c : Bool) (h : s.loop = .errc c) (hd : s.done = false) (hs : c = false ∨ s.stream = false) :
      OwnStep sh s { s with loop := .retn }
  | drainArm (s : St) (h : s.loop = .drainArm) :
      OwnStep sh s { s with dl := .future, loop := if sh.drainChecked && s.done then .retn else .drain }
  | drainTimeout (s : St) (h : s.loop = .drain) (hp : s.dl = .past) :
      OwnStep sh s { s with loop := .retn }
  | deliverGiveUp (s : St) (i : Nat) (h : s.loop = .deliver i) (hc : s.closed i = true ∨ s.done = true) :
      OwnStep sh s { s with loop := .top }
  | readyGiveUp (s : St) (h : s.loop = .ready) (hd : s.done = true) :
      OwnStep sh s { s with loop := if s.stream then .retn else .top }
  | returned (s : St) (h : s.loop = .retn) :
      OwnStep sh s { s with sock := true, loop := .ownClose }
  | ownCloseCall (s : St) (hm : 0 < s.m) (h : s.loop = .ownClose) (hc : s.cl 0 = .idle) :
      OwnStep sh s { s with cl := upd s.cl 0 .lock, loop := .inClose .exited }

/-- steps that depend on somebody else -/
inductive EnvStep : St → St → Prop
  /-- a session is attached (server: an open-session request; client: DialContext), at any time -/
  | addSession (s : St) :
      EnvStep s { s with n := s.n + 1, req := upd s.req s.n false, closed := upd s.closed s.n false,
                         run := upd s.run s.n 2, net := upd s.net s.n 0 }
  /-- some closeWithError of session `i` wins the CAS (the application's Close, the peer's close
      request, an input or output error) -/
  | sessCloseStart (s : St) (i : Nat) (hi : i < s.n) :
      EnvStep s { s with req := upd s.req i true }
  /-- a session loop enters a network write that blocks (TCP back-pressure) -/
  | netBlock (s : St) (i : Nat) (hi : i < s.n) (hs : s.stream = true) (hr : 0 < s.run i) :
      EnvStep s { s with run := upd s.run i (s.run i - 1), net := upd s.net i (s.net i + 1) }
  /-- … and the network lets it go -/
  | netDrain (s : St) (i : Nat) (hi : i < s.n) (hn : 0 < s.net i) :
      EnvStep s { s with net := upd s.net i (s.net i - 1), run := upd s.run i (s.run i + 1) }
  /-- somebody calls `underlay.Close()` (cleanUnderlay, a second Mux.Close, …): slots 2 … -/
  | call (s : St) (k : Nat) (hk : k < s.m) (h2 : 2 ≤ k) (h : s.cl k = .idle) :
      EnvStep s { s with cl := upd s.cl k .lock }
  | muxClose (s : St) (h : s.mux = .idle) :
      EnvStep s { s with mux := .cancel }
  /-- the context is cancelled without this model's Mux.Close (another caller) -/
  | cancel (s : St) (hs : s.server = true) :
      EnvStep s { s with ctx := true }
  | tick (s : St) (h : s.loop = .top) :
      EnvStep s { s with loop := .clean false }
  /-- the network delivers to a parked read: a whole segment (dispatched to a session, an
      open-session request, ignored), part of one, an error, or the read's own distant timeout -/
  | readTo (s : St) (to : LoopPC) (h : s.loop = .read ∨ s.loop = .readMore)
      (ht : (∃ i, i < s.n ∧ to = .deliver i) ∨ to = .ready ∨ to = .top ∨ to = .retn ∨ (∃ c, to = .errc c) ∨
            (to = .readMore ∧ s.stream = true)) :
      EnvStep s { s with dl := if to = .readMore then s.dl else afterRead s, loop := to }
  | drainEnds (s : St) (h : s.loop = .drain) :
      EnvStep s { s with loop := .retn }
  /-- the session's input loop takes a segment from `recvChan`: the delivery goes through -/
  | delivered (s : St) (i : Nat) (h : s.loop = .deliver i) :
      EnvStep s { s with loop := .top }
  | accepted (s : St) (h : s.loop = .ready) :
      EnvStep s { s with loop := .top }

inductive Step (sh : Shape) : St → St → Prop
  | own {s t : St} : OwnStep sh s t → Step sh s t
  | env {s t : St} : EnvStep s t → Step sh s t

inductive Reach (sh : Shape) (stream server : Bool) (m : Nat) : St → Prop
  | init : Reach sh stream server m (init stream server m)
  | step {s t : St} : Reach sh stream server m s → Step sh s t → Reach sh stream server m t

/-- nothing can move without outside help -/
def Quiescent (sh : Shape) (s : St) : Prop := ∀ t, ¬ OwnStep sh s t

/-- the shape of the current source (after the `fix:` commits) -/
def current : Shape := ⟨true, true, true⟩

/-! ## Measure: every own step decreases it -/

def sumTo (f : Nat → Nat) : Nat → Nat
  | 0 => 0
  | k + 1 => sumTo f k + f k

/-- steps a caller of `Close` still has to take (`n`: sessions attached now) -/
def crank (n : Nat) : CPC → Nat
  | .idle => 0
  | .ret => 0
  | .unlock => 1
  | .poke2 => 2
  | .closeDone => 3
  | .sess i b => 4 + 2 * (b - i)
  | .wait i b => 3 + 2 * (b - i)
  | .poke1 => 5 + 2 * n
  | .chk => 6 + 2 * n
  | .lock => 7 + 2 * n

/-- what one call of `Close` costs at most, in units of the measure -/
def callCost (n : Nat) : Nat := 16 * (8 + 2 * n)

/-- steps the event loop still has to take; a read deadline in the past is worth one more round -/
def lbase (dl : Dl) : LoopPC → Nat
  | .exited => 0
  | .inClose a => 1 + lbase dl a
  | .ownClose => 2
  | .retn => 3
  | .drain => if dl = .past then 5 else 4
  | .clean true => 4
  | .drainArm => 6
  | .ctxClose => 6
  | .errc _ => 7
  | .check => if dl = .past then 13 else 8
  | .read => if dl = .past then 12 else 7
  | .readMore => if dl = .past then 12 else 7
  | .arm => 9
  | .pre => 10
  | .top => 11
  | .deliver _ => 12
  | .ready => 12
  | .clean false => 12

/-- how many more times the event-loop goroutine may call `Close` -/
def lcalls : LoopPC → Nat
  | .exited => 0
  | .inClose a => lcalls a
  | .ownClose => 1
  | .retn => 1
  | .clean true => 1
  | .drain => 1
  | .drainArm => 1
  | .errc _ => 2
  | _ => 2

def lrank (n : Nat) (dl : Dl) (l : LoopPC) : Nat := lbase dl l + lcalls l * callCost n

def mrank (n : Nat) : MuxPC → Nat
  | .idle => 0
  | .ret => 0
  | .wait => 1
  | .closing => 2
  | .call => 3 + callCost n
  | .cancel => 4 + callCost n

def srank (s : St) (i : Nat) : Nat :=
  2 * s.run i + 3 * s.net i + (if s.req i = true ∧ s.closed i = false then 1 else 0)

def measure (s : St) : Nat :=
  16 * sumTo (fun k => crank s.n (s.cl k)) s.m + lrank s.n s.dl s.loop + sumTo (srank s) s.n + mrank s.n s.mux

/-! ## Executable scheduler (for the driver): run own steps chosen by a schedule until nothing moves -/

/-- the own steps enabled in `s`, as successor states, in a fixed order; `cleanable` is decided over `0…n-1` -/
def cleanableB (s : St) : Bool :=
  (List.range s.n).all fun i => !(s.closed i) || (s.run i == 0 && s.net i == 0)

def closerNext (sh : Shape) (s : St) (k : Nat) : Option St :=
  match s.cl k with
  | .lock => if s.holder = none then some { s with holder := some k, cl := upd s.cl k .chk } else none
  | .chk => some { s with cl := upd s.cl k (if s.done then .unlock else .poke1) }
  | .poke1 => some { s with dl := .past, wpast := s.wpast || s.stream, snap := s.n, cl := upd s.cl k (.sess 0 s.n) }
  | .sess i b =>
    if i < b then some { s with req := upd s.req i true, cl := upd s.cl k (.wait i b) }
    else some { s with cl := upd s.cl k .closeDone }
  | .wait i b =>
    if i < b ∧ s.closed i = true ∧ s.run i = 0 ∧ s.net i = 0 then some { s with cl := upd s.cl k (.sess (i + 1) b) } else none
  | .closeDone => some { s with done := true, cl := upd s.cl k (if sh.pokeAfterDone then .poke2 else .unlock) }
  | .poke2 => some { s with dl := .past, poked2 := true, cl := upd s.cl k .unlock }
  | .unlock => some { s with holder := none, cl := upd s.cl k .ret }
  | _ => none

def sessNext (s : St) (i : Nat) : Option St :=
  if s.req i = true ∧ s.closed i = false then some { s with closed := upd s.closed i true }
  else if s.closed i = true ∧ 0 < s.run i then some { s with run := upd s.run i (s.run i - 1) }
  else if 0 < s.net i ∧ s.wpast = true then some { s with net := upd s.net i (s.net i - 1), run := upd s.run i (s.run i + 1) }
  else none

def muxNext (s : St) : Option St :=
  match s.mux with
  | .cancel => some { s with ctx := s.ctx || s.server, mux := .call }
  | .call => if 1 < s.m ∧ s.cl 1 = .idle then some { s with cl := upd s.cl 1 .lock, mux := .closing } else none
  | .closing => if s.cl 1 = .ret then some { s with mux := .wait } else none
  | .wait => if s.server = false ∨ s.loop = .exited then some { s with mux := .ret } else none
  | _ => none

def loopNext (sh : Shape) (s : St) : Option St :=
  match s.loop with
  | .top =>
    if s.ctx then some { s with loop := if s.stream then .clean true else .ctxClose }
    else if s.done then some { s with loop := .clean true }
    else some { s with loop := if s.stream then .arm else .pre }
  | .clean r => if cleanableB s then some { s with loop := if r then .retn else .top } else none
  | .ctxClose => if 0 < s.m ∧ s.cl 0 = .idle then some { s with cl := upd s.cl 0 .lock, loop := .inClose (.clean true) } else none
  | .inClose a => if 0 < s.m ∧ s.cl 0 = .ret then some { s with cl := upd s.cl 0 .idle, loop := a } else none
  | .pre => if s.done then some { s with loop := .errc false } else some { s with loop := .arm }
  | .arm => some { s with dl := .future, loop := if sh.checkAfterArm then .check else .read }
  | .check => if s.done then some { s with dl := afterRead s, loop := .errc false } else some { s with loop := .read }
  | .read => if s.dl = .past then some { s with dl := afterRead s, loop := .top } else none
  | .readMore => if s.dl = .past then some { s with dl := afterRead s, loop := .errc false } else none
  | .errc c =>
    if s.done then some { s with loop := .clean true }
    else if c ∧ s.stream then some { s with loop := .drainArm }
    else some { s with loop := .retn }
  | .drainArm => some { s with dl := .future, loop := if sh.drainChecked && s.done then .retn else .drain }
  | .drain => if s.dl = .past then some { s with loop := .retn } else none
  | .deliver i => if s.closed i = true ∨ s.done = true then some { s with loop := .top } else none
  | .ready => if s.done then some { s with loop := if s.stream then .retn else .top } else none
  | .retn => some { s with sock := true, loop := .ownClose }
  | .ownClose => if 0 < s.m ∧ s.cl 0 = .idle then some { s with cl := upd s.cl 0 .lock, loop := .inClose .exited } else none
  | .exited => none

/-- actor `a` of the schedule: `0` the event loop, `1` Mux.Close, `2 + k` closer slot `k` (for `k < m`),
    `2 + m + i` session `i` -/
def actorNext (sh : Shape) (s : St) (a : Nat) : Option St :=
  if a = 0 then loopNext sh s
  else if a = 1 then muxNext s
  else if a < 2 + s.m then closerNext sh s (a - 2)
  else if a < 2 + s.m + s.n then sessNext s (a - 2 - s.m)
  else none

def actors (s : St) : Nat := 2 + s.m + s.n

/-- first enabled actor at or after `a` (cyclically) -/
def pick (sh : Shape) (s : St) (a : Nat) : Option St :=
  ((List.range (actors s)).map fun d => actorNext sh s ((a + d) % actors s)).findSome? id

/-- run to quiescence under a schedule (each entry names the actor tried first), then round robin;
    `fuel` bounds the number of steps (the measure bounds it in the proofs) -/
def runSched (sh : Shape) : Nat → St → List Nat → St
  | 0, s, _ => s
  | fuel + 1, s, sched =>
    let a := sched.headD 0
    match pick sh s (a % actors s) with
    | none => s
    | some t => runSched sh fuel t sched.tail

/-! ## Executable environment steps and traces (for the driver and for the witnesses in Props/C15) -/

inductive EnvAct
  | addSession | sessCloseStart (i : Nat) | netBlock (i : Nat) | netDrain (i : Nat) | call (k : Nat)
  | muxClose | cancel | tick | readTo (to : LoopPC) | drainEnds | delivered | accepted
deriving DecidableEq, Repr

/-- where a parked read may go when the network delivers -/
def okReadTarget (s : St) : LoopPC → Bool
  | .deliver i => decide (i < s.n)
  | .ready | .top | .retn | .errc _ => true
  | .readMore => s.stream
  | _ => false

def envNext (s : St) : EnvAct → Option St
  | .addSession =>
    some { s with n := s.n + 1, req := upd s.req s.n false, closed := upd s.closed s.n false,
                  run := upd s.run s.n 2, net := upd s.net s.n 0 }
  | .sessCloseStart i => if i < s.n then some { s with req := upd s.req i true } else none
  | .netBlock i =>
    if i < s.n ∧ s.stream = true ∧ 0 < s.run i then
      some { s with run := upd s.run i (s.run i - 1), net := upd s.net i (s.net i + 1) } else none
  | .netDrain i =>
    if i < s.n ∧ 0 < s.net i then some { s with net := upd s.net i (s.net i - 1), run := upd s.run i (s.run i + 1) } else none
  | .call k => if k < s.m ∧ 2 ≤ k ∧ s.cl k = .idle then some { s with cl := upd s.cl k .lock } else none
  | .muxClose => if s.mux = .idle then some { s with mux := .cancel } else none
  | .cancel => if s.server = true then some { s with ctx := true } else none
  | .tick => if s.loop = .top then some { s with loop := .clean false } else none
  | .readTo to =>
    if (s.loop = .read ∨ s.loop = .readMore) ∧ okReadTarget s to = true then
      some { s with dl := if to = .readMore then s.dl else afterRead s, loop := to } else none
  | .drainEnds => if s.loop = .drain then some { s with loop := .retn } else none
  | .delivered => match s.loop with
    | .deliver _ => some { s with loop := .top }
    | _ => none
  | .accepted => if s.loop = .ready then some { s with loop := .top } else none

/-- one entry of a trace: an own step of actor `a` (numbering of `actorNext`) or an environment step -/
inductive Act
  | own (a : Nat)
  | env (e : EnvAct)
deriving DecidableEq, Repr

def actNext (sh : Shape) (s : St) : Act → Option St
  | .own a => actorNext sh s a
  | .env e => envNext s e

/-- run a trace; `none` if some entry is not enabled -/
def runActs (sh : Shape) : St → List Act → Option St
  | s, [] => some s
  | s, a :: as => match actNext sh s a with
    | none => none
    | some t => runActs sh t as

/-- the components of a state that the driver reports and the witnesses in Props/C15 are about -/
structure Sig where
  loop : LoopPC
  dl : Dl
  done : Bool
  mux : MuxPC
  server : Bool
  n : Nat
  poked2 : Bool
  sock : Bool
  cl0 : CPC
  cl1 : CPC
  cl2 : CPC
deriving DecidableEq, Repr

def sig (s : St) : Sig := ⟨s.loop, s.dl, s.done, s.mux, s.server, s.n, s.poked2, s.sock, s.cl 0, s.cl 1, s.cl 2⟩

/-- no actor can move -/
def quiescentB (sh : Shape) (s : St) : Bool := (List.range (actors s)).all fun a => (actorNext sh s a).isNone

end Mieru.UClose
