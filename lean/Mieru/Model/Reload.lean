import Mieru.Model.Session
/-!
# `SetUsers` ‖ `discoverUser` (pkg/protocol/serveruser/registry.go) as a transition system — WITH the
# user sets

`Registry.users` is an atomic pointer to an immutable generation.  `gens` lists every generation
ever published, oldest first; the LAST one is the published one, and a generation is identified by
its position (Go: by the address of its `state`, which the running discovery keeps alive, so an
address is never reused while it is being compared).  One discovery thread

    for {
        state := publisher.Load()
        if state == nil || len(state.users) == 0 { return error }
        result := tryState(state, …)            // cached ids: whatever that generation's cache returns
        [afterAttempt seam]
        if requireCurrent && publisher.Load() != state { continue }
        if result.block == nil { return error }
        return result (generation = state)
    }

runs against any number of `SetUsers` calls (the swap is the atomic step; Go atomics are assumed
sequentially consistent).  `Registry.Discover` is `requireCurrent = true` on TCP, `false` on UDP.

`run` is the same loop as a FUNCTION of a schedule (what each attempt's cache lookup returns, which
reloads happen in the seam after each attempt); `run_reach` (Props/C07.lean) shows its results are
reachable in the relation, so the theorems about `Reach` apply to what the harness compares with
`discoverUser` attempt by attempt (driver op `reload-run`).
-/
namespace Mieru.Reload
open Mieru.Discovery Mieru.Session

inductive DPhase
  | idle                                        -- before `publisher.Load()` (also after a discarded attempt)
  | tried (gen : Nat) (res : Option User)       -- `tryState` done on generation `gen`; not yet re-checked
  | returned (gen : Nat) (res : Option User)    -- handed to the caller: `some u` = attributed to `u` of `gen`
  deriving DecidableEq, Repr

structure Sys where
  gens : List Gen
  disc : DPhase
  deriving DecidableEq, Repr

/-- index of the published generation -/
def Sys.published (s : Sys) : Nat := s.gens.length - 1

inductive Step (rc mand : Bool) (seg : Seg) : Sys → Sys → Prop
  /-- `SetUsers`: publish a new generation -/
  | reload (s : Sys) (g : Gen) : Step rc mand seg s { s with gens := s.gens ++ [g] }
  /-- `publisher.Load()` finds no usable user: the error is returned at once -/
  | loadEmpty (s : Sys) (h : s.disc = .idle) (he : current s.gens = []) :
      Step rc mand seg s { s with disc := .returned s.published none }
  /-- `state := publisher.Load(); result := tryState(state, …)` -/
  | load (s : Sys) (h : s.disc = .idle) (hne : current s.gens ≠ []) (cached : List Nat) :
      Step rc mand seg s
        { s with disc := .tried s.published (discover (current s.gens) mand { seg with cached := cached }) }
  /-- `if requireCurrent && publisher.Load() != state { continue }` -/
  | retry (s : Sys) (gi : Nat) (res : Option User) (h : s.disc = .tried gi res) (hr : rc = true)
      (hne : s.published ≠ gi) : Step rc mand seg s { s with disc := .idle }
  /-- otherwise the outcome is returned, attributed to the generation it was computed on -/
  | ret (s : Sys) (gi : Nat) (res : Option User) (h : s.disc = .tried gi res)
      (hok : rc = false ∨ s.published = gi) : Step rc mand seg s { s with disc := .returned gi res }

inductive Reach (rc mand : Bool) (seg : Seg) : Sys → Sys → Prop
  | refl (s : Sys) : Reach rc mand seg s s
  | step {a b c : Sys} : Reach rc mand seg a b → Step rc mand seg b c → Reach rc mand seg a c

/-! ## the loop as a function of a schedule -/

/-- one iteration of the loop, as the harness observes it -/
structure Attempt where
  gen : Nat               -- generation the attempt ran on
  tried : List Nat        -- ids (of that generation) whose decryptor ran, in order
  res : Option User
  deriving DecidableEq, Repr

def attempt (mand : Bool) (seg : Seg) (gens : List Gen) (cached : List Nat) : Attempt :=
  let g := current gens
  { gen := gens.length - 1,
    tried := (tryState g.length (hintOf g seg) (authOf g seg) cached mand).tried,
    res := discover g mand { seg with cached := cached } }

/-- `sched`: per attempt, what the cache lookup returns and the generations published (in order) by
    `SetUsers` calls between its `tryState` and its `requireCurrent` re-check.  Result: the
    generations at the end, the attempts made, and the outcome (`none`: the schedule ended first) -/
def run (rc mand : Bool) (seg : Seg) :
    List Gen → List (List Nat × List Gen) → List Attempt → List Gen × List Attempt × Option (Nat × Option User)
  | gens, [], acc => (gens, acc, none)
  | gens, (cached, seam) :: rest, acc =>
    if current gens = [] then (gens, acc, some (gens.length - 1, none))
    else
      let a := attempt mand seg gens cached
      if rc = true ∧ (gens ++ seam).length - 1 ≠ a.gen then run rc mand seg (gens ++ seam) rest (acc ++ [a])
      else (gens ++ seam, acc ++ [a], some (a.gen, a.res))

end Mieru.Reload
