import Mieru.Model.Url
import Mieru.Model.Config
/-!
# The configuration validators as total decidable functions

`pkg/appctl/appctlcommon/port_binding.go` (`FlatPortBindings`), `appctlcommon/server.go`
(`ValidateServerConfigSingleUser`), `appctlcommon/client.go` (`ValidateClientConfigSingleProfile`,
`validateClientProfileDialer`), `pkg/appctl/server.go` (`ValidateServerConfigPatch`,
`ValidateFullServerConfig`), `pkg/appctl/client.go` (`ValidateClientConfigPatch`,
`ValidateFullClientConfig`) — statement by statement, the checks in the code's order; every function
returns `none` (accepted) or the FIRST error the code returns.

Library outcomes are inputs: `isIP s` = `net.ParseIP(s) != nil`; a rule's IP range carries the outcome of
`net.ParseCIDR`; `dnsOK` = `TransformDNSHosts` succeeded; `intervalNs` = what `time.ParseDuration`
returned (`none` = error); `tpValid` = `trafficpattern.Validate` succeeded (C16's subject);
`isEmptyMsg` = `proto.Equal(config, &pb.ServerConfig{})`.
-/
namespace Mieru.Validate
open Mieru.Url (Binding Server Profile atoi cut isDigit)
open Mieru.Base64 (Bytes)

inductive VErr where
  -- FlatPortBindings
  | protoUnset | portInvalid | protoUnknown | rangeUnparsable | rangeBeginNotInt | rangeEndNotInt
  | rangeBeginInvalid | rangeEndInvalid | rangeBeginGtEnd
  -- ValidateServerConfigSingleUser / the user part of a client profile
  | userNameEmpty | userPasswordUnset | userNameTooLong | userPasswordTooLong | quotaDays | quotaMegabytes
  -- ValidateClientConfigSingleProfile
  | profileNameEmpty | quotaUnsupported | serversEmpty | serverNoHost | serverBadIP | serverNoBindings
  | mtuOutOfRange | trafficPattern
  | dialerProtocol | dialerHost | dialerPort | dialerAuthUser | dialerAuthPassword
  -- ValidateServerConfigPatch
  | proxyNameEmpty | proxyNameDup | proxyProtoUnset | proxyHostEmpty | proxyPort | proxyAuthUser | proxyAuthPassword
  | ruleCIDR | ruleDomainEmpty | ruleDomainLeadingDot | ruleDomainTrailingDot
  | ruleProxyListEmpty | ruleProxyUndefined | ruleProxyListNotEmpty
  | dns | intervalInvalid | intervalTooShort
  -- ValidateFullServerConfig
  | serverConfigEmpty | serverNoPortBinding
  -- ValidateClientConfigPatch / ValidateFullClientConfig
  | authUserEmpty | authPasswordEmpty | profilesEmpty | activeUnset | activeNotFound
  | rpcPort | socks5Port | rpcEqSocks5 | httpPort | httpEqRpc | httpEqSocks5
deriving DecidableEq, Repr

/-- first error of a list of checks, in order -/
def firstErr {α} (f : α → Option VErr) : List α → Option VErr
  | [] => none
  | x :: xs => match f x with
    | some e => some e
    | none => firstErr f xs

/-! ## FlatPortBindings -/

/-- `validPortRange = ^(\d+)-(\d+)$`: both groups, `none` if the text does not match.  The first group holds
    digits only, so it ends at the FIRST `-`. -/
def rangeMatch (s : Bytes) : Option (Bytes × Bytes) :=
  match cut 45 s with
  | (a, some c) => if a ≠ [] ∧ a.all isDigit ∧ c ≠ [] ∧ c.all isDigit then some (a, c) else none
  | (_, none) => none

def tcp : Int := 2
def udp : Int := 1

/-- the body of the loop over the bindings: the error it returns for this binding, if any -/
def bindingErr (b : Binding) : Option VErr :=
  let proto := b.protocol.getD 0
  let port := b.port.getD 0
  if proto = 0 then some .protoUnset
  else if port ≠ 0 then
    if port < 1 ∨ port > 65535 then some .portInvalid
    else if proto = tcp ∨ proto = udp then none else some .protoUnknown
  else match rangeMatch (b.portRange.getD []) with
    | none => some .rangeUnparsable
    | some (a, c) =>
      match atoi a with
      | none => some .rangeBeginNotInt
      | some small =>
        match atoi c with
        | none => some .rangeEndNotInt
        | some big =>
          if small < 1 ∨ small > 65535 then some .rangeBeginInvalid
          else if big < 1 ∨ big > 65535 then some .rangeEndInvalid
          else if small > big then some .rangeBeginGtEnd
          else if proto = tcp ∨ proto = udp then none else some .protoUnknown

/-- the ports one binding puts into its protocol's set: `[lo, hi]` (a non-zero `port` wins over `portRange`) -/
def span (b : Binding) : Option (Int × Int) :=
  if b.port.getD 0 ≠ 0 then some (b.port.getD 0, b.port.getD 0)
  else match rangeMatch (b.portRange.getD []) with
    | some (a, c) => match atoi a, atoi c with
      | some lo, some hi => some (lo, hi)
      | _, _ => none
    | none => none

def covers (proto : Int) (p : Int) (b : Binding) : Bool :=
  b.protocol.getD 0 = proto && match span b with
    | some (lo, hi) => decide (lo ≤ p) && decide (p ≤ hi)
    | none => false

/-- the sorted keys of the `tcp` / `udp` map -/
def portsOf (proto : Int) (bs : List Binding) : List Int :=
  ((List.range 65536).map Int.ofNat).filter fun p => bs.any (covers proto p)

/-- `FlatPortBindings`: the error, or the TCP ports followed by the UDP ports, each ascending without
    repetition (the result's bindings are `{port, TCP}`… then `{port, UDP}`…) -/
def flatPortBindings (bs : List Binding) : Except VErr (List Int × List Int) :=
  match firstErr bindingErr bs with
  | some e => .error e
  | none => .ok (portsOf tcp bs, portsOf udp bs)

/-! ## users -/

structure VUser where
  u : Mieru.Config.User := {}
  /-- (days, megabytes) of every quota -/
  quotas : List (Int × Int) := []
deriving DecidableEq, Repr

def quotaErr (q : Int × Int) : Option VErr :=
  if q.1 ≤ 0 then some .quotaDays else if q.2 ≤ 0 then some .quotaMegabytes else none

/-- the four checks shared by `ValidateServerConfigSingleUser` and `ValidateClientConfigSingleProfile` -/
def credErr (name password hashed : Bytes) : Option VErr :=
  if name = [] then some .userNameEmpty
  else if password = [] ∧ hashed = [] then some .userPasswordUnset
  else if name.length > 64 then some .userNameTooLong
  else if password ≠ [] ∧ password.length > 64 then some .userPasswordTooLong
  else none

/-- `ValidateServerConfigSingleUser` -/
def userErr (v : VUser) : Option VErr :=
  match credErr v.u.getName (v.u.password.getD []) (v.u.hashedPassword.getD []) with
  | some e => some e
  | none => firstErr quotaErr v.quotas

/-! ## client profile -/

structure Dialer where
  protocol : Int := 0
  host : Bytes := []
  port : Int := 0
  /-- `Socks5Authentication` sub-message, if present: (user, password) -/
  auth : Option (Bytes × Bytes) := none
deriving DecidableEq, Repr

structure VProfile where
  /-- profile name, user name and password, servers, MTU, … (the part a share link carries) -/
  p : Profile := {}
  hashedPassword : Option Bytes := none
  quotaCount : Nat := 0
  dialer : Option Dialer := none
  /-- `trafficpattern.Validate(profile.TrafficPattern) == nil` -/
  tpValid : Bool := true
deriving DecidableEq, Repr

/-- `validateClientProfileDialer` -/
def dialerErr : Option Dialer → Option VErr
  | none => none
  | some d =>
    if d.protocol ≠ 1 then some .dialerProtocol
    else if d.host = [] then some .dialerHost
    else if d.port < 1 ∨ d.port > 65535 then some .dialerPort
    else match d.auth with
      | none => none
      | some (u, pw) => if u = [] then some .dialerAuthUser else if pw = [] then some .dialerAuthPassword else none

/-- the body of the loop over a profile's servers -/
def serverErr (isIP : Bytes → Bool) (s : Server) : Option VErr :=
  if s.ipAddress.getD [] = [] ∧ s.domainName.getD [] = [] then some .serverNoHost
  else if s.ipAddress.getD [] ≠ [] ∧ !isIP (s.ipAddress.getD []) then some .serverBadIP
  else if s.bindings = [] then some .serverNoBindings
  else firstErr bindingErr s.bindings

def mtuErr (mtu : Int) : Option VErr :=
  if mtu ≠ 0 ∧ (mtu < 1280 ∨ mtu > 1500) then some .mtuOutOfRange else none

/-- `ValidateClientConfigSingleProfile` -/
def profileErr (isIP : Bytes → Bool) (v : VProfile) : Option VErr :=
  if v.p.profileName.getD [] = [] then some .profileNameEmpty
  else match credErr (v.p.userName.getD []) (v.p.password.getD []) (v.hashedPassword.getD []) with
  | some e => some e
  | none =>
    if v.quotaCount ≠ 0 then some .quotaUnsupported
    else if v.p.servers = [] then some .serversEmpty
    else match firstErr (serverErr isIP) v.p.servers with
    | some e => some e
    | none =>
      match mtuErr (v.p.mtu.getD 0) with
      | some e => some e
      | none => if !v.tpValid then some .trafficPattern else dialerErr v.dialer

/-! ## server configuration -/

structure Proxy where
  name : Bytes := []
  protocol : Int := 0
  host : Bytes := []
  port : Int := 0
  authUser : Bytes := []
  authPassword : Bytes := []
deriving DecidableEq, Repr

structure Rule where
  /-- every IP range with the outcome of `net.ParseCIDR` on it -/
  ipRanges : List (Bytes × Bool) := []
  domainNames : List Bytes := []
  /-- `EgressAction`: PROXY = 0, DIRECT = 1, REJECT = 2 -/
  action : Int := 0
  proxyNames : List Bytes := []
deriving DecidableEq, Repr

structure VServer where
  bindings : List Binding := []
  users : List VUser := []
  mtu : Int := 0
  proxies : List Proxy := []
  rules : List Rule := []
  dnsOK : Bool := true
  interval : Bytes := []
  /-- `time.ParseDuration(interval)` in nanoseconds, `none` = error -/
  intervalNs : Option Int := none
  tpValid : Bool := true
  isEmptyMsg : Bool := false
deriving DecidableEq, Repr

def proxyErr (used : List Bytes) (p : Proxy) : Option VErr :=
  if p.name = [] then some .proxyNameEmpty
  else if used.contains p.name then some .proxyNameDup
  else if p.protocol = 0 then some .proxyProtoUnset
  else if p.host = [] then some .proxyHostEmpty
  else if p.port < 1 ∨ p.port > 65535 then some .proxyPort
  else if p.authUser = [] ∧ p.authPassword ≠ [] then some .proxyAuthUser
  else if p.authUser ≠ [] ∧ p.authPassword = [] then some .proxyAuthPassword
  else none

/-- the loop over the egress proxies: the error, or the names defined (`usedProxyNames`) -/
def proxiesCheck (used : List Bytes) : List Proxy → Except VErr (List Bytes)
  | [] => .ok used
  | p :: ps => match proxyErr used p with
    | some e => .error e
    | none => proxiesCheck (p.name :: used) ps

def star : Bytes := [42]

def ipRangeErr (r : Bytes × Bool) : Option VErr := if r.1 ≠ star ∧ !r.2 then some .ruleCIDR else none

def domainErr (d : Bytes) : Option VErr :=
  if d = [] then some .ruleDomainEmpty
  else if d.head? = some 46 then some .ruleDomainLeadingDot
  else if d.getLast? = some 46 then some .ruleDomainTrailingDot
  else none

def ruleErr (used : List Bytes) (r : Rule) : Option VErr :=
  match firstErr ipRangeErr r.ipRanges with
  | some e => some e
  | none => match firstErr domainErr r.domainNames with
    | some e => some e
    | none =>
      if r.action = 0 then
        if r.proxyNames = [] then some .ruleProxyListEmpty
        else firstErr (fun n => if used.contains n then none else some .ruleProxyUndefined) r.proxyNames
      else if r.proxyNames ≠ [] then some .ruleProxyListNotEmpty else none

def intervalErr (interval : Bytes) (ns : Option Int) : Option VErr :=
  if interval = [] then none
  else match ns with
    | none => some .intervalInvalid
    | some d => if d < 1000000000 then some .intervalTooShort else none

/-- `ValidateServerConfigPatch` -/
def serverPatchErr (c : VServer) : Option VErr :=
  match firstErr bindingErr c.bindings with
  | some e => some e
  | none => match firstErr userErr c.users with
    | some e => some e
    | none => match mtuErr c.mtu with
      | some e => some e
      | none => match proxiesCheck [] c.proxies with
        | .error e => some e
        | .ok used => match firstErr (ruleErr used) c.rules with
          | some e => some e
          | none =>
            if !c.dnsOK then some .dns
            else match intervalErr c.interval c.intervalNs with
              | some e => some e
              | none => if !c.tpValid then some .trafficPattern else none

/-- `ValidateFullServerConfig` -/
def fullServerErr (c : VServer) : Option VErr :=
  match serverPatchErr c with
  | some e => some e
  | none => if c.isEmptyMsg then some .serverConfigEmpty else if c.bindings = [] then some .serverNoPortBinding else none

/-! ## client configuration -/

structure VClient where
  profiles : List VProfile := []
  auths : List (Bytes × Bytes) := []
  interval : Bytes := []
  intervalNs : Option Int := none
  /-- `GetActiveProfile()`, `GetRpcPort()`, `GetSocks5Port()` (zero values when unset) -/
  activeProfile : Bytes := []
  rpcPort : Int := 0
  socks5Port : Int := 0
  httpProxyPort : Option Int := none
deriving DecidableEq, Repr

def authErr (a : Bytes × Bytes) : Option VErr :=
  if a.1 = [] then some .authUserEmpty else if a.2 = [] then some .authPasswordEmpty else none

/-- `ValidateClientConfigPatch` -/
def clientPatchErr (isIP : Bytes → Bool) (c : VClient) : Option VErr :=
  match firstErr (profileErr isIP) c.profiles with
  | some e => some e
  | none => match firstErr authErr c.auths with
    | some e => some e
    | none => intervalErr c.interval c.intervalNs

/-- `ValidateFullClientConfig` -/
def fullClientErr (isIP : Bytes → Bool) (c : VClient) : Option VErr :=
  match clientPatchErr isIP c with
  | some e => some e
  | none =>
    if c.profiles = [] then some .profilesEmpty
    else if c.activeProfile = [] then some .activeUnset
    else if !c.profiles.any (fun v => v.p.profileName.getD [] = c.activeProfile) then some .activeNotFound
    else if c.rpcPort < 0 ∨ c.rpcPort > 65535 then some .rpcPort
    else if c.socks5Port < 1 ∨ c.socks5Port > 65535 then some .socks5Port
    else if c.rpcPort = c.socks5Port then some .rpcEqSocks5
    else match c.httpProxyPort with
      | none => none
      | some h =>
        if h < 1 ∨ h > 65535 then some .httpPort
        else if h = c.rpcPort then some .httpEqRpc
        else if h = c.socks5Port then some .httpEqSocks5
        else none

end Mieru.Validate
