import Mieru.Model.Counter
/-!
# Model of the metrics dump / load FILE path of `pkg/metrics/export.go` (C19, round 4)

`DumpMetricsNow` (every group, every metric through `ToMetricPB`) and `LoadMetricsFromDump` (the
closure `loadFromBytes` run TWICE over the parsed dump) over a registry of named groups of named
metrics, statement by statement:

* a dump group with an empty name is skipped;
* a dump group whose name IS registered (`GetMetricGroupByName`, looked up once per dump group and
  pass): every dump metric whose name is registered in that group and is a `*Counter` goes through
  `loadCounterFromMetricPB`; gauges and unknown names are skipped;
* a dump group whose name is NOT registered: nothing is loaded in this pass; every dump metric with a
  non-empty name and type COUNTER / COUNTER_TIME_SERIES is registered (`RegisterMetric`, which keeps an
  existing metric: `LoadOrStore`) — the SECOND pass then finds the group and loads the values;
* `loadCounterFromMetricPB(dst, src)`: `dst.Name()` (op++), the type test with Go's short-circuit
  evaluation (`dst.Type()` is called — op++ — only when `src` has a counter type), and for matching
  types `dst.Load()`, `dst.Add(max(0, src.Value − value))`, then the history is REPLACED by the
  dump's (also on a plain counter);
* `ToMetricPB(c)` for a counter: `Name`, `Type`, `Load`, `Type` (4 × op++); the history is copied only
  for a time-series counter.

Not modelled: the iteration order of `sync.Map.Range` in `DumpMetricsNow` (the model dumps in registry
order; the comparison run is order-insensitive), file I/O errors, protobuf encoding.

Core Lean only.
-/
namespace Mieru.MetricsDump
open Mieru.Counter

inductive Metric where
  | counter (c : Counter)
  | gauge (v : Int)
deriving Repr

structure Group where
  name : String
  metrics : List (String × Metric)
deriving Repr

abbrev Registry := List Group

/-- `pb.Metric`; `typ`: 0 UNSPECIFIED, 1 COUNTER, 2 COUNTER_TIME_SERIES, 3 GAUGE -/
structure PbMetric where
  name : String
  typ : Nat
  value : Int
  hist : List Entry
deriving Repr

/-- `pb.MetricGroup` -/
structure PbGroup where
  name : String
  metrics : List PbMetric
deriving Repr

abbrev Dump := List PbGroup

/-! ## dump -/

/-- `ToMetricPB(src)`: the metric afterwards (operation counter) and the message -/
def toMetricPB (name : String) : Metric → Metric × PbMetric
  | .counter c => (.counter (dumped c), ⟨name, if c.ts then 2 else 1, c.value, if c.ts then c.hist else []⟩)
  | .gauge v => (.gauge v, ⟨name, 3, v, []⟩)

def dumpGroup (g : Group) : Group × PbGroup :=
  ({ g with metrics := g.metrics.map fun x => (x.1, (toMetricPB x.1 x.2).1) },
   ⟨g.name, g.metrics.map fun x => (toMetricPB x.1 x.2).2⟩)

/-- `DumpMetricsNow()`: the registry afterwards and the dump -/
def dumpAll (r : Registry) : Registry × Dump :=
  (r.map fun g => (dumpGroup g).1, r.map fun g => (dumpGroup g).2)

/-! ## load -/

/-- the body of `loadCounterFromMetricPB` once the types match -/
def loadBody (c : Counter) (src : PbMetric) (now : Int) : Counter :=
  let c := tick c 1
  let c := add c (max 0 (src.value - c.value)) now
  { c with hist := src.hist }

/-- `loadCounterFromMetricPB(dst, src)`; `name` is `dst.name` -/
def loadCounter (c : Counter) (name : String) (src : PbMetric) (now : Int) : Counter :=
  let c := tick c 1
  if src.name ≠ name then c
  else if src.typ = 1 then
    let c := tick c 1
    if c.ts = false then loadBody c src now else c
  else if src.typ = 2 then
    let c := tick c 1
    if c.ts = true then loadBody c src now else c
  else c

/-- `if counter, ok := metric.(*Counter); ok { loadCounterFromMetricPB(counter, pbMetric) }` -/
def loadMetric (name : String) (m : Metric) (src : PbMetric) (now : Int) : Metric :=
  match m with
  | .counter c => .counter (loadCounter c name src now)
  | .gauge v => .gauge v

/-- `group.GetMetric(pbMetric.GetName())` and the load of the metric found -/
def loadInGroup (now : Int) : List (String × Metric) → PbMetric → List (String × Metric)
  | [], _ => []
  | x :: rest, src =>
    if x.1 = src.name then (x.1, loadMetric x.1 x.2 src now) :: rest else x :: loadInGroup now rest src

def hasGroup (r : Registry) (g : String) : Bool := r.any (·.name == g)

/-- apply `f` to the metrics of the (first) group named `g` -/
def updGroup (f : List (String × Metric) → List (String × Metric)) (g : String) : Registry → Registry
  | [] => []
  | x :: rest => if x.name = g then { x with metrics := f x.metrics } :: rest else x :: updGroup f g rest

/-- `metricGroup.metrics.LoadOrStore(metricName, m)` -/
def addMetric (name : String) (m : Metric) : List (String × Metric) → List (String × Metric)
  | [] => [(name, m)]
  | x :: rest => if x.1 = name then x :: rest else x :: addMetric name m rest

/-- `RegisterMetric(groupName, metricName, COUNTER | COUNTER_TIME_SERIES)` -/
def register (r : Registry) (g name : String) (ts : Bool) : Registry :=
  if hasGroup r g then updGroup (addMetric name (.counter (new ts))) g r
  else r ++ [⟨g, [(name, .counter (new ts))]⟩]

/-- the "Register metrics if not exist" branch for one dump metric -/
def registerFromPb (g : String) (r : Registry) (src : PbMetric) : Registry :=
  if src.name = "" then r
  else if src.typ = 1 then register r g src.name false
  else if src.typ = 2 then register r g src.name true
  else r

/-- one iteration of the outer loop of `loadFromBytes` -/
def loadGroup (now : Int) (r : Registry) (pg : PbGroup) : Registry :=
  if pg.name = "" then r
  else if hasGroup r pg.name then updGroup (fun ms => pg.metrics.foldl (loadInGroup now) ms) pg.name r
  else pg.metrics.foldl (registerFromPb pg.name) r

/-- `loadFromBytes()` -/
def loadPass (r : Registry) (d : Dump) (now : Int) : Registry := d.foldl (loadGroup now) r

/-- `LoadMetricsFromDump()`: `loadFromBytes(); loadFromBytes()` -/
def loadAll (r : Registry) (d : Dump) (now : Int) : Registry := loadPass (loadPass r d now) d now

/-! ## observations -/

/-- the value a metric contributes to the total traffic: counters only -/
def mval : Metric → Int
  | .counter c => c.value
  | .gauge _ => 0

def sumI : List Int → Int
  | [] => 0
  | x :: r => x + sumI r

def groupTotal (g : Group) : Int := sumI (g.metrics.map fun x => mval x.2)

/-- Σ of all counter values of the registry -/
def total (r : Registry) : Int := sumI (r.map groupTotal)

/-- the metric registered as (`g`, `name`) -/
def getMetric (r : Registry) (g name : String) : Option Metric :=
  (r.find? (·.name == g)).bind fun gr => (gr.metrics.find? (·.1 == name)).map (·.2)

/-- what a dump followed by the two passes of a load does to an idle counter: 4 + 2·4 operations
    counted, value kept, history kept (a plain counter has none in a dump) -/
def reloaded (c : Counter) : Counter :=
  { c with op := c.op + 12, hist := if c.ts then c.hist else [] }

/-- every counter of the registry as plain values: (group, name, timeSeries, value, op, history) -/
def flatten (r : Registry) : List (String × String × Bool × Int × Nat × List Entry) :=
  r.flatMap fun g => g.metrics.filterMap fun x =>
    match x.2 with
    | .counter c => some (g.name, x.1, c.ts, c.value, c.op, c.hist)
    | .gauge _ => none

end Mieru.MetricsDump
