/-!
# How an application write is cut into segments (pkg/protocol/session.go `Write` / `writeChunk`)

`Write` hands `writeChunk` pieces of at most `maxPDU` bytes; `writeChunk` cuts one piece of `len` bytes
into `nFragment = (len−1)/f + 1` fragments (`f` = `maxFragmentSize`), numbered `nFragment−1 … 0`, each
`min f remaining` bytes long. Hand-written model over `Nat`; `Props/C14.lean` proves it equal to the
loop REGENERATED from the source (`Mieru.Gen.UdpWire.cut`).
-/
namespace Mieru.Chunk

/-- `nFragment := 1; if len(b) > fragmentSize { nFragment = (len(b)-1)/fragmentSize + 1 }` -/
def nFragment (len f : Nat) : Nat := if len > f then (len - 1) / f + 1 else 1

/-- the loop `for i := nFragment-1; i >= 0; i-- { partLen := min(f, len(ptr)); …; ptr = ptr[partLen:] }`:
    `(fragment number, fragment length)` in emission order; first argument = `i + 1` -/
def cutLoop (f : Nat) : Nat → Nat → List (Nat × Nat)
  | 0, _ => []
  | i+1, rem => (i, min f rem) :: cutLoop f i (rem - min f rem)

/-- what one `writeChunk(b)` with `len(b) = len` queues -/
def cut (len f : Nat) : List (Nat × Nat) := cutLoop f (nFragment len f) len

/-- `Write`'s outer loop: pieces of `min(len(b), maxPDU)` bytes until nothing is left (fuel = len) -/
def chunks (maxPDU : Nat) : Nat → Nat → List Nat
  | 0, _ => []
  | fuel+1, len => if len = 0 then [] else min len maxPDU :: chunks maxPDU fuel (len - min len maxPDU)

/-- every segment one `Write` of `len` bytes queues after the open request: `(fragment number, length)` -/
def writeSegments (maxPDU f len : Nat) : List (Nat × Nat) := (chunks maxPDU len len).flatMap (fun c => cut c f)

end Mieru.Chunk
