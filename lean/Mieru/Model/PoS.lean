/-!
# Packet-over-stream framing (apis/common/packet_over_stream.go)

    frame = 0x00 | uint16 big-endian length | data | 0xff

`posWrite` mirrors `PacketOverStreamTunnel.Write` (one datagram → one frame, or refusal above
65535 bytes).  `step`/`feed` is the reader as an incremental byte-at-a-time machine: it is what a
caller that calls `PacketOverStreamTunnel.Read` in a loop with a buffer of `cap` bytes and stops at
the first error observes (that is what `RunUDPAssociateLoop`, `RunUDPForwardingLoop` and
`BidiCopyUDP` do), independent of how the carrying stream is cut.  `finish` is what the pending
`Read` returns when the stream ends.  `readOne` mirrors ONE call of `Read` on the remaining stream
(including how many bytes it consumed when it fails — `Read` itself keeps no error state).

Everything is total and executable; the driver (`Mieru.Driver.PoS`) runs exactly these definitions.
-/
namespace Mieru.PoS

abbrev Bytes := List UInt8

/-- the largest datagram `Write` accepts -/
def maxLen : Nat := 65535

/-- `0x00 | hi | lo | data | 0xff`  (meaningful for `d.length ≤ 65535`) -/
def posFrame (d : Bytes) : Bytes :=
  (0x00 : UInt8) :: UInt8.ofNat (d.length / 256) :: UInt8.ofNat (d.length % 256) :: (d ++ [(0xff : UInt8)])

/-- `PacketOverStreamTunnel.Write`: `none` = "packet length … is larger than maximum length 65535",
    nothing is written to the stream. -/
def posWrite (d : Bytes) : Option Bytes :=
  if d.length > maxLen then none else some (posFrame d)

/-- the stream produced by writing the datagrams one after the other -/
def posEncode : List Bytes → Bytes
  | [] => []
  | d :: ds => posFrame d ++ posEncode ds

/-- errors `Read` reports for a malformed stream -/
inductive Err
  | badPrefix     -- "packet prefix 0x.. is not 0x00"
  | shortBuffer   -- io.ErrShortBuffer: length field above the caller's buffer
  | badSuffix     -- "packet suffix 0x.. is not 0xff"
  deriving DecidableEq, Repr

/-- where inside a frame the reader is -/
inductive Phase
  | start                                   -- before the 0x00 marker
  | lenHi                                   -- marker read, no length byte yet
  | lenLo (hi : Nat)                        -- one length byte read
  | data (need : Nat) (racc : Bytes)        -- `need` ≥ 1 more data bytes; `racc` = data so far, reversed
  | suffix (racc : Bytes)                   -- all data read, before the 0xff marker
  | failed (e : Err)                        -- the loop stopped: nothing further is delivered
  deriving DecidableEq, Repr

structure St where
  cap : Nat                 -- len(p) of the caller's buffer
  phase : Phase
  rout : List Bytes         -- datagrams returned so far, most recent first
  deriving DecidableEq, Repr

def init (cap : Nat) : St := { cap := cap, phase := .start, rout := [] }

/-- the datagrams returned so far, in order -/
def St.out (s : St) : List Bytes := s.rout.reverse

def step (s : St) (b : UInt8) : St :=
  match s.phase with
  | .start => if b = 0x00 then { s with phase := .lenHi } else { s with phase := .failed .badPrefix }
  | .lenHi => { s with phase := .lenLo b.toNat }
  | .lenLo hi =>
    let n := hi * 256 + b.toNat
    if n > s.cap then { s with phase := .failed .shortBuffer }
    else if n = 0 then { s with phase := .suffix [] }
    else { s with phase := .data n [] }
  | .data need racc =>
    if need ≤ 1 then { s with phase := .suffix (b :: racc) }
    else { s with phase := .data (need - 1) (b :: racc) }
  | .suffix racc =>
    if b = 0xff then { s with phase := .start, rout := racc.reverse :: s.rout }
    else { s with phase := .failed .badSuffix }
  | .failed _ => s

def feed (s : St) (bs : Bytes) : St := bs.foldl step s

/-- what the pending `Read` returns when the carrying stream ends here -/
inductive End
  | eof             -- io.EOF (io.ReadFull read nothing)
  | unexpectedEOF   -- io.ErrUnexpectedEOF (io.ReadFull read a part)
  | err (e : Err)
  deriving DecidableEq, Repr

def finish (s : St) : End :=
  match s.phase with
  | .start => .eof
  | .lenHi => .eof
  | .lenLo _ => .unexpectedEOF
  | .data _ racc => if racc.isEmpty then .eof else .unexpectedEOF
  | .suffix _ => .eof
  | .failed e => .err e

/-- result of ONE `Read` call -/
inductive ReadRes
  | ok (d : Bytes)
  | fail (e : End)
  deriving DecidableEq, Repr

/-- One call of `PacketOverStreamTunnel.Read(p)` with `len(p) = cap` on a stream whose remaining
    content is `s` (then EOF): the result and the part of the stream it left unread. -/
def readOne (cap : Nat) (s : Bytes) : ReadRes × Bytes :=
  match s with
  | [] => (.fail .eof, [])
  | m :: s1 =>
    if m ≠ 0x00 then (.fail (.err .badPrefix), s1) else
    match s1 with
    | [] => (.fail .eof, [])
    | [_] => (.fail .unexpectedEOF, [])
    | hi :: lo :: s2 =>
      let n := hi.toNat * 256 + lo.toNat
      if n > cap then (.fail (.err .shortBuffer), s2)
      else if s2.length < n then
        (.fail (if s2.isEmpty then .eof else .unexpectedEOF), [])
      else
        match s2.drop n with
        | [] => (.fail .eof, [])
        | e :: s3 => if e = 0xff then (.ok (s2.take n), s3) else (.fail (.err .badSuffix), s3)

/-- calling `Read` until the first error: datagrams returned and the error that ended the loop
    (`fuel` bounds the number of calls; `s.length + 1` always suffices) -/
def readLoop (cap : Nat) : Nat → Bytes → List Bytes × End
  | 0, _ => ([], .eof)
  | fuel + 1, s =>
    match readOne cap s with
    | (.ok d, rest) => let r := readLoop cap fuel rest; (d :: r.1, r.2)
    | (.fail e, _) => ([], e)

end Mieru.PoS
