import Mieru.Model.PoS
/-!
# SOCKS5 UDP request header and address (apis/model/addr.go, pkg/socks5/udp.go,
# apis/common/udp_associate_wrapper.go)

    +-----+-----+------+------+----------+----------+----------+
    | RSV | RSV | FRAG | ATYP | DST.ADDR | DST.PORT |   DATA   |
    +-----+-----+------+------+----------+----------+----------+
       0     0     0     1/3/4  4 | 1+n | 16   2

* `parseAddr` / `buildAddr`  — `AddrSpec.ReadFromSocks5` / `AddrSpec.WriteToSocks5`
* `parseUDP`                 — `parseSocks5UDPDatagram`
* `headerOf`                 — `udpAddrToHeader` (header the relay invents for a host it has no
                               remembered header for)
* `dest`                     — `resolveSocks5UDPAddr` before the resolver is consulted
* `wrapRead` / `wrapWrite`   — `UDPAssociateWrapper.ReadFrom` / `WriteTo` (after the `fix:` commit:
                               an empty payload is an empty datagram, not io.EOF)
* `Assoc`                    — the relay logic of `RunUDPAssociateLoop`: per tunnel datagram the
                               action taken, per reply the frame written back

All functions are total: every byte string gets a result or a named error.
-/
namespace Mieru.SocksMsg
open Mieru.PoS (Bytes)

inductive Addr
  | ip4 (b : Bytes)        -- 4 bytes
  | ip6 (b : Bytes)        -- 16 bytes
  | domain (n : Bytes)     -- 0..255 bytes as parsed
  deriving DecidableEq, Repr

structure AddrPort where
  addr : Addr
  port : Nat
  deriving DecidableEq, Repr

/-- what a parse produces: byte counts fixed by the address type, port below 2^16 -/
def AddrPort.wf (a : AddrPort) : Prop :=
  a.port < 65536 ∧
  match a.addr with
  | .ip4 b => b.length = 4
  | .ip6 b => b.length = 16
  | .domain n => n.length ≤ 255

inductive AErr
  | short           -- io.EOF / io.ErrUnexpectedEOF from io.ReadFull
  | unrecognized    -- model.ErrUnrecognizedAddrType
  deriving DecidableEq, Repr

def portOf (hi lo : UInt8) : Nat := hi.toNat * 256 + lo.toNat

/-- read the two port bytes after an address -/
def parsePort (a : Addr) (r : Bytes) : Except AErr (AddrPort × Bytes) :=
  match r with
  | hi :: lo :: rest => .ok ({ addr := a, port := portOf hi lo }, rest)
  | _ => .error .short

/-- `AddrSpec.ReadFromSocks5` on a reader holding `r`: the address and what is left unread -/
def parseAddr (r : Bytes) : Except AErr (AddrPort × Bytes) :=
  match r with
  | [] => .error .short
  | t :: r1 =>
    if t = 0x01 then
      if r1.length < 4 then .error .short else parsePort (.ip4 (r1.take 4)) (r1.drop 4)
    else if t = 0x04 then
      if r1.length < 16 then .error .short else parsePort (.ip6 (r1.take 16)) (r1.drop 16)
    else if t = 0x03 then
      match r1 with
      | [] => .error .short
      | l :: r2 =>
        if r2.length < l.toNat then .error .short
        else parsePort (.domain (r2.take l.toNat)) (r2.drop l.toNat)
    else .error .unrecognized

/-- the IPv4-mapped prefix `::ffff:0:0/96` that `net.IP.To4` recognises -/
def v4Prefix : Bytes := [0, 0, 0, 0, 0, 0, 0, 0, 0, 0, 0xff, 0xff]

def isV4Mapped (b : Bytes) : Bool := b.length == 16 && b.take 12 == v4Prefix

def portBytes (p : Nat) : Bytes := [UInt8.ofNat (p / 256 % 256), UInt8.ofNat (p % 256)]

/-- `AddrSpec.WriteToSocks5`: `none` = ErrUnrecognizedAddrType (no IP and an empty FQDN).
    `net.IP.To4` makes a 16-byte IPv4-mapped address come out as ATYP 1. -/
def buildAddr (a : AddrPort) : Option Bytes :=
  match a.addr with
  | .ip4 b => some ((0x01 : UInt8) :: b ++ portBytes a.port)
  | .ip6 b =>
    if isV4Mapped b then some ((0x01 : UInt8) :: b.drop 12 ++ portBytes a.port)
    else some ((0x04 : UInt8) :: b ++ portBytes a.port)
  | .domain n =>
    if n.isEmpty then none
    else some ((0x03 : UInt8) :: UInt8.ofNat n.length :: n ++ portBytes a.port)

/-- a parsed address whose rebuild is byte-identical: not IPv4-mapped, not an empty domain -/
def AddrPort.canonical (a : AddrPort) : Prop :=
  match a.addr with
  | .ip4 _ => True
  | .ip6 b => isV4Mapped b = false
  | .domain n => n ≠ []

inductive UErr
  | noEnoughData        -- stderror.ErrNoEnoughData
  | invalidArgument     -- RSV ≠ 0
  | unsupported         -- FRAG ≠ 0
  | unrecognized        -- unknown ATYP
  deriving DecidableEq, Repr

structure Datagram where
  dst : AddrPort
  header : Bytes
  payload : Bytes
  deriving DecidableEq, Repr

/-- `parseSocks5UDPDatagram` -/
def parseUDP (pkt : Bytes) : Except UErr Datagram :=
  if pkt.length ≤ 6 then .error .noEnoughData else
  match pkt with
  | r0 :: r1 :: f :: rest =>
    if r0 ≠ 0x00 ∨ r1 ≠ 0x00 then .error .invalidArgument
    else if f ≠ 0x00 then .error .unsupported
    else match parseAddr rest with
      | .error .short => .error .noEnoughData
      | .error .unrecognized => .error .unrecognized
      | .ok (a, payload) =>
        .ok { dst := a, header := pkt.take (pkt.length - payload.length), payload := payload }
  | _ => .error .noEnoughData

/-- `newSocks5UDPDatagram` -/
def buildUDP (a : AddrPort) (payload : Bytes) : Option Bytes :=
  (buildAddr a).map fun h => (0x00 : UInt8) :: 0x00 :: 0x00 :: h ++ payload

/-- the IP a `net.UDPAddr` holds, as its `String()` identifies it (IPv4-mapped = IPv4) -/
def canonIP (b : Bytes) : Bytes := if isV4Mapped b then b.drop 12 else b

/-- `udpAddrToHeader` for a host with IP bytes `ip` (4 or 16) and port `p` -/
def headerOf (ip : Bytes) (p : Nat) : Bytes :=
  let c := canonIP ip
  (0x00 : UInt8) :: 0x00 :: 0x00 :: (if c.length = 4 then (0x01 : UInt8) else 0x04) :: c ++ portBytes p

/-- where `resolveSocks5UDPAddr` sends the datagram -/
inductive Dest
  | ip (ip : Bytes) (port : Nat)           -- literal address (canonical form)
  | lookup (name : Bytes) (port : Nat)     -- the resolver decides
  | none                                   -- ErrUnrecognizedAddrType: datagram skipped
  deriving DecidableEq, Repr

def dest (a : AddrPort) : Dest :=
  match a.addr with
  | .ip4 b => .ip b a.port
  | .ip6 b => .ip (canonIP b) a.port
  | .domain n => if n.isEmpty then .none else .lookup n a.port

/-! ## UDPAssociateWrapper -/

inductive WErr
  | tooShort | invalidHeader | fragment | short | unrecognized | fqdn
  deriving DecidableEq, Repr

/-- `UDPAssociateWrapper.ReadFrom(p)` with `len(p) = cap` on a received packet: source address and
    the payload copied into `p` (cut to `cap` like a UDP read). -/
def wrapRead (cap : Nat) (pkt0 : Bytes) : Except WErr (Bytes × Nat × Bytes) :=
  -- the wrapper reads the packet into a scratch buffer of len(p)+256 bytes; a longer packet is cut
  -- there by the underlying PacketConn, as a UDP socket would
  let pkt := pkt0.take (cap + 256)
  if pkt.length ≤ 6 then .error .tooShort else
  match pkt with
  | r0 :: r1 :: f :: rest =>
    if r0 ≠ 0x00 ∨ r1 ≠ 0x00 then .error .invalidHeader
    else if f ≠ 0x00 then .error .fragment
    else match parseAddr rest with
      | .error .short => .error .short
      | .error .unrecognized => .error .unrecognized
      | .ok (a, payload) =>
        match a.addr with
        | .domain n => if n.isEmpty then .ok ([], a.port, payload.take cap) else .error .fqdn
        | .ip4 b => .ok (b, a.port, payload.take cap)
        | .ip6 b => .ok (b, a.port, payload.take cap)
  | _ => .error .tooShort

/-- `UDPAssociateWrapper.WriteTo(p, addr)` for an IP address -/
def wrapWrite (ip : Bytes) (port : Nat) (p : Bytes) : Bytes :=
  headerOf ip port ++ p

/-! ## The relay of `RunUDPAssociateLoop` -/

/-- remembered header per destination (`addrMap`), resolver table (injected `DNSResolver`) -/
structure Assoc where
  headers : List ((Bytes × Nat) × Bytes)
  hosts : List (Bytes × Bytes)          -- domain name → IP bytes
  deriving Repr

inductive Up
  | send (ip : Bytes) (port : Nat) (payload : Bytes)   -- WriteToUDP(payload, ip:port)
  | skip                                               -- resolution failed: datagram dropped, loop continues
  | stop (e : UErr)                                    -- malformed datagram: the loop ends
  deriving DecidableEq, Repr

def lookupHost (hosts : List (Bytes × Bytes)) (n : Bytes) : Option Bytes :=
  (hosts.find? fun h => h.1 == n).map (·.2)

def setHeader (m : List ((Bytes × Nat) × Bytes)) (k : Bytes × Nat) (h : Bytes) : List ((Bytes × Nat) × Bytes) :=
  (k, h) :: m.filter fun e => !(e.1 == k)

def getHeader (m : List ((Bytes × Nat) × Bytes)) (k : Bytes × Nat) : Option Bytes :=
  (m.find? fun e => e.1 == k).map (·.2)

/-- one datagram that came out of the tunnel -/
def Assoc.up (s : Assoc) (pkt : Bytes) : Assoc × Up :=
  match parseUDP pkt with
  | .error e => (s, .stop e)
  | .ok d =>
    let target : Option (Bytes × Nat) :=
      match dest d.dst with
      | .ip ip p => some (ip, p)
      | .lookup n p => (lookupHost s.hosts n).map fun ip => (canonIP ip, p)
      | .none => none
    match target with
    | none => (s, .skip)
    | some (ip, p) => ({ s with headers := setHeader s.headers (ip, p) d.header }, .send ip p d.payload)

/-- one datagram received on the relay socket from host `ip:port`: the datagram written to the tunnel -/
def Assoc.down (s : Assoc) (ip : Bytes) (port : Nat) (payload : Bytes) : Assoc × Bytes :=
  let k := (canonIP ip, port)
  match getHeader s.headers k with
  | some h => (s, h ++ payload)
  | none =>
    let h := headerOf ip port
    ({ s with headers := setHeader s.headers k h }, h ++ payload)

/-- the reply direction of `runUDPAssociateLoop` since "fix: UDP associate drops a reply that does not fit a tunnel
    packet instead of stopping the reply direction": the header is looked up (or built and remembered) first; a
    reply whose header ++ payload exceeds the 65535 bytes one tunnel frame carries is DROPPED — nothing is written,
    the loop goes on (`none`); everything else is written as one datagram. (Before the repair the oversize reply
    made `conn.Write` fail and the goroutine return: every later reply of every host was lost while the
    association kept relaying upstream.) -/
def Assoc.downChecked (s : Assoc) (ip : Bytes) (port : Nat) (payload : Bytes) : Assoc × Option Bytes :=
  let r := s.down ip port payload
  if r.2.length > 65535 then (r.1, none) else (r.1, some r.2)

end Mieru.SocksMsg
