/-!
# Server first contact (pkg/protocol/underlay_stream.go readOneSegment / RunEventLoop,
# underlay_packet.go readOneSegment / parseSessionSegment / parseDataAckSegment / RunEventLoop,
# server_session_validation.go, metadata.go Unmarshal)

What a server does with what arrives on a port.  Lengths, protocol numbers and session ids are
concrete (the byte thresholds of the two first reads, the exact datagram size checks, the two
validation functions of server_session_validation.go are computed by the model); cryptography is
symbolic: `opens = some u` means "the metadata AEAD opens under the key of registered user u (for one
of the three tried slots)"; a party that knows no registered credential can only produce
`opens = none` (the ideal-AEAD hypothesis of DESIGN.md §5).

`out` is everything the server writes to the network for this peer (one `sessionTraffic` entry per
session created stands for everything that session writes; `closeReq` is the close request the event
loop itself sends for data addressed to an unknown session); `accepted` the sessions handed to the
proxy application.

Every constant and every protocol classification below is proved equal to the definition regenerated
from the Go source in `Mieru.Props.C05` (`server_constants_match_code`, `classification_matches_code`,
`validation_matches_code`).  Core Lean only.
-/
namespace Mieru.Server

/-! ## Constants (metadata.go, cipher) -/

def metadataLength : Nat := 32
/-- `cipher.DefaultOverhead`: the AEAD tag -/
def overhead : Nat := 16
/-- `cipher.DefaultNonceSize` -/
def nonceSize : Nat := 24
/-- first read of a stream underlay: nonce + metadata + tag -/
def firstReadLen : Nat := metadataLength + overhead + nonceSize
/-- every later read: metadata + tag (implicit nonce) -/
def laterReadLen : Nat := metadataLength + overhead
/-- `packetNonHeaderPosition`: a datagram shorter than this is dropped unread -/
def packetHeaderLen : Nat := nonceSize + metadataLength + overhead
/-- `MaxSessionOpenPayload` -/
def maxSessionOpenPayload : Nat := 1024

/-! ## Protocol numbers and their classification (metadata.go) -/

def pOpenReq : Nat := 2
def pOpenResp : Nat := 3
def pCloseReq : Nat := 4
def pCloseResp : Nat := 5

def isSession (p : Nat) : Bool := p == 2 || p == 3 || p == 4 || p == 5
def isData (p : Nat) : Bool := p == 6 || p == 7 || p == 10 || p == 11
def isAck (p : Nat) : Bool := p == 8 || p == 9
def isDataAck (p : Nat) : Bool := isData p || isAck p
def isLowEntropy (p : Nat) : Bool := p == 10 || p == 11

/-- `validateServerSegmentDirection`: the protocols a client may send -/
def clientToServer (p : Nat) : Bool := p == 2 || p == 4 || p == 5 || p == 6 || p == 10 || p == 8

/-- `validateNewServerSessionSegment`: the only segment that may create a server session -/
def validNewSession (p sid : Nat) : Bool := p == pOpenReq && sid != 0

/-- the fields of a decrypted metadata block the server branches on -/
structure Md where
  proto : Nat
  sid : Nat
  payloadLen : Nat := 0
  prefixLen : Nat := 0
  suffixLen : Nat := 0
  /-- the timestamp is within one minute of the receiver's clock (`mathext.WithinRange(…, 1)`) -/
  tsOk : Bool := true
  /-- low-entropy fields validate and the body decodes (types 10 / 11 only) -/
  leOk : Bool := true
deriving DecidableEq, Repr

/-- `sessionStruct.Unmarshal` / `dataAckStruct.Unmarshal` succeed; an undefined protocol type is
    refused before either is tried -/
def unmarshalOk (m : Md) : Bool :=
  if isSession m.proto then m.tsOk && decide (m.payloadLen ≤ maxSessionOpenPayload)
  else if isDataAck m.proto then m.tsOk && (!isLowEntropy m.proto || m.leOk)
  else false

/-- bytes a payload of `n` plaintext bytes occupies on the wire (nothing when empty) -/
def wirePayload (n : Nat) : Nat := if n > 0 then n + overhead else 0

/-- bytes `readSessionSegment` / `readDataAckSegment` read after the metadata -/
def tcpBodyNeed (m : Md) : Nat :=
  (if isSession m.proto then 0 else m.prefixLen) + wirePayload m.payloadLen + m.suffixLen

inductive Out where
  | closeReq (sid : Nat)        -- closeSessionRequest for an unknown session
  | sessionTraffic (sid : Nat)  -- anything a session writes (open response, data, acks, close)
deriving DecidableEq, Repr

/-! ## TCP: one stream underlay -/

/-- one attempt of the TCP event loop to read a segment -/
structure TcpUnit where
  /-- header bytes that arrive before the stream stalls (read timeout) or ends -/
  avail : Nat
  /-- the stream ended (peer closed) rather than stalled -/
  eof : Bool := false
  /-- registered user whose key opens the metadata -/
  opens : Option Nat
  /-- replay cache: the 16-byte signature of the header was seen before -/
  dup : Bool := false
  md : Md
  /-- bytes that arrive after the header -/
  bodyAvail : Nat := 0
  /-- the payload AEAD opens (read only when `md.payloadLen > 0`) -/
  payloadOpens : Bool := true
deriving DecidableEq, Repr

structure TcpSt where
  recv : Option Nat := none     -- authenticated user of this connection (receive cipher installed)
  sessions : List Nat := []
  accepted : List Nat := []
  out : List Out := []
  closed : Bool := false
  /-- the loop ended with a CRYPTO_ERROR or REPLAY_ERROR: `drainAfterError` keeps reading (never
      writing) for a randomised 1–60 s / up to 32 KiB before the connection is closed; every other
      error closes it at once -/
  drain : Bool := false
deriving DecidableEq, Repr

/-- the switch of `StreamUnderlay.RunEventLoop` (server) for a complete, authenticated segment -/
def tcpDispatch (s : TcpSt) (m : Md) : TcpSt :=
  if isSession m.proto then
    if m.proto = pOpenReq then
      if m.sid = 0 then { s with closed := true }                      -- onOpenSessionRequest: reserved id
      else if m.sid ∈ s.sessions then s                                -- id already used: ignored
      else { s with sessions := m.sid :: s.sessions, accepted := m.sid :: s.accepted,
                    out := s.out ++ [.sessionTraffic m.sid] }
    else if m.proto = pOpenResp then { s with closed := true }          -- ErrInvalidOperation on a server
    else s                                                              -- close request / response
  else if m.sid ∈ s.sessions then s                                     -- data / ack for a known session
  else { s with out := s.out ++ [.closeReq m.sid] }                     -- unknown session: ask the peer to close it

/-- bytes of the header read: the first read of an underlay also carries the nonce -/
def headerLen (s : TcpSt) : Nat := if s.recv.isNone then firstReadLen else laterReadLen

/-- everything after the metadata opened (`recv` is installed in `s`): Unmarshal, body, first-segment
    validation, dispatch -/
def tcpAfterOpen (s : TcpSt) (first : Bool) (u : TcpUnit) : TcpSt :=
  if !unmarshalOk u.md then { s with closed := true }                   -- PROTOCOL_ERROR
  else if u.bodyAvail < tcpBodyNeed u.md then { s with closed := true } -- NETWORK_ERROR
  else if u.md.payloadLen > 0 && !u.payloadOpens then { s with closed := true, drain := true }   -- CRYPTO_ERROR
  else if first && !validNewSession u.md.proto u.md.sid then { s with closed := true } -- PROTOCOL_ERROR
  else tcpDispatch s u.md

/-- one iteration of StreamUnderlay.RunEventLoop on the server -/
def tcpStep (s : TcpSt) (u : TcpUnit) : TcpSt :=
  if s.closed then s else
  if u.avail < headerLen s then
    if u.avail = 0 ∧ u.eof = false then s             -- read timeout with no byte: the caller retries
    else { s with closed := true }                    -- io.ReadFull fails: NETWORK_ERROR, no drain
  else match s.recv with
  | none =>
    -- first read: the replay cache is consulted, then discovery over the registered users
    match u.opens with
    | none => { s with closed := true, drain := true }               -- CRYPTO_ERROR or REPLAY_ERROR, drain, close
    | some usr =>
      if u.dup then { s with recv := some usr, closed := true, drain := true }   -- REPLAY_ERROR although it decrypts
      else tcpAfterOpen { s with recv := some usr } true u
  | some usr =>
    match u.opens with
    | none => { s with closed := true, drain := true }               -- CRYPTO_ERROR
    | some usr' =>
      if usr' ≠ usr then { s with closed := true, drain := true }    -- the implicit-nonce cipher of another key cannot open
      else tcpAfterOpen s false u

def tcpRun (s : TcpSt) (us : List TcpUnit) : TcpSt := us.foldl tcpStep s

/-! ## UDP: the shared socket of a packet underlay -/

/-- one datagram arriving at a server UDP port -/
structure UdpUnit where
  /-- datagram length -/
  len : Nat
  /-- opens under the cipher of an existing session from the same address -/
  existing : Option Nat := none
  /-- opens under a registered user's key (discovery) -/
  discover : Option Nat := none
  /-- replay cache: signature seen with a different source tag -/
  dupOther : Bool := false
  md : Md
  payloadOpens : Bool := true
deriving DecidableEq, Repr

structure UdpSt where
  sessions : List Nat := []
  accepted : List Nat := []
  out : List Out := []
deriving DecidableEq, Repr

/-- `parseSessionSegment` / `parseDataAckSegment`: the exact size checks on what follows the header
    (`rem` bytes) and the payload AEAD -/
def udpBodyOk (rem : Nat) (m : Md) (payloadOpens : Bool) : Bool :=
  if isSession m.proto then
    if m.payloadLen > 0 then
      decide (m.payloadLen + overhead ≤ rem) && payloadOpens && decide (m.payloadLen + overhead + m.suffixLen = rem)
    else decide (m.suffixLen = rem)
  else
    if m.prefixLen > rem then false else
    if m.payloadLen > 0 then
      decide (m.payloadLen + overhead ≤ rem - m.prefixLen) &&
        decide (rem - m.prefixLen = m.payloadLen + overhead + m.suffixLen) && payloadOpens
    else decide (m.suffixLen = rem - m.prefixLen)

/-- the switch of `PacketUnderlay.RunEventLoop` (server); every failure is `continue` -/
def udpDispatch (s : UdpSt) (m : Md) : UdpSt :=
  if isSession m.proto then
    if m.proto = pOpenReq then
      if m.sid = 0 ∨ m.sid ∈ s.sessions then s
      else { s with sessions := m.sid :: s.sessions, accepted := m.sid :: s.accepted,
                    out := s.out ++ [.sessionTraffic m.sid] }
    else s          -- open response: dropped (ErrInvalidOperation); close: delivered to its session or ignored
  else if m.sid ∈ s.sessions then s
  else { s with out := s.out ++ [.closeReq m.sid] }

/-- PacketUnderlay.readOneSegment + RunEventLoop for one datagram; every failure is `continue` -/
def udpStep (s : UdpSt) (u : UdpUnit) : UdpSt :=
  if u.len < packetHeaderLen then s else
  if u.existing.isNone && u.discover.isNone then s else   -- neither path decrypts
  if u.dupOther then s else                               -- replay, dropped although it decrypts (either path)
  if !unmarshalOk u.md then s else
  if !udpBodyOk (u.len - packetHeaderLen) u.md u.payloadOpens then s else
  -- only a datagram authenticated by discovery is validated as a possible new session
  if u.existing.isNone && !clientToServer u.md.proto then s else
  if u.existing.isNone && u.md.proto = pOpenReq && !validNewSession u.md.proto u.md.sid then s else
  udpDispatch s u.md

def udpRun (s : UdpSt) (us : List UdpUnit) : UdpSt := us.foldl udpStep s

/-! ## What it takes to be answered -/

/-- a complete, fresh, authenticated, well-formed open-session request with a non-zero id as the
    FIRST segment of a stream: the only unit that makes a fresh underlay do anything but close -/
def TcpUnit.validOpen (u : TcpUnit) : Bool :=
  decide (firstReadLen ≤ u.avail) && u.opens.isSome && !u.dup && unmarshalOk u.md &&
  decide (tcpBodyNeed u.md ≤ u.bodyAvail) && (u.md.payloadLen == 0 || u.payloadOpens) &&
  validNewSession u.md.proto u.md.sid

/-- a datagram that gets as far as the dispatch switch -/
def UdpUnit.effective (u : UdpUnit) : Bool :=
  decide (packetHeaderLen ≤ u.len) && (u.existing.isSome || u.discover.isSome) && !u.dupOther &&
  unmarshalOk u.md && udpBodyOk (u.len - packetHeaderLen) u.md u.payloadOpens &&
  (u.existing.isSome || (clientToServer u.md.proto && (u.md.proto != pOpenReq || validNewSession u.md.proto u.md.sid)))

end Mieru.Server
