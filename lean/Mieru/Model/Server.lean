/-!
# Server first contact (pkg/protocol/underlay_stream.go readOneSegment / RunEventLoop,
# underlay_packet.go readOneSegment / RunEventLoop, server_session_validation.go)

What a server does with what arrives on a port, abstracted to the facts the code branches on.
Cryptography is symbolic: `opens = some u` means "the metadata AEAD opens under the key of
registered user u (for one of the three tried slots)"; a party that knows no registered credential
can only produce `opens = none` (the ideal-AEAD hypothesis of DESIGN.md §5).

`out` is everything the server writes to the network for this peer; `accepted` the sessions handed
to the proxy application.
-/
namespace Mieru.Server

inductive Kind where
  | openReq (sid : Nat)       -- openSessionRequest
  | otherSession (sid : Nat)  -- openSessionResponse / closeSessionRequest / closeSessionResponse
  | dataAck (sid : Nat)       -- data or ack
  | unknown                   -- undefined protocol type
deriving DecidableEq, Repr

/-- one attempt of the TCP event loop to read a segment -/
structure TcpUnit where
  enough : Bool            -- enough bytes arrived for nonce+metadata (72 first, 48 later)
  opens : Option Nat       -- registered user whose key opens the metadata
  dup : Bool               -- replay cache: the 16-byte signature was seen before
  metaOk : Bool            -- metadata unmarshals (type known, timestamp within a minute, lengths)
  bodyOk : Bool            -- payload arrives, opens, padding arrives
  kind : Kind
deriving DecidableEq, Repr

inductive Out where
  | closeReq (sid : Nat)   -- closeSessionRequest for an unknown session
  | sessionTraffic (sid : Nat) -- anything a session writes (open response, data, acks)
deriving DecidableEq, Repr

structure TcpSt where
  recv : Option Nat := none     -- authenticated user of this connection (receive cipher installed)
  sessions : List Nat := []
  accepted : List Nat := []
  out : List Out := []
  closed : Bool := false
deriving DecidableEq, Repr

/-- one iteration of StreamUnderlay.RunEventLoop on the server -/
def tcpStep (s : TcpSt) (u : TcpUnit) : TcpSt :=
  if s.closed then s else
  if !u.enough then { s with closed := true }           -- io.ReadFull fails / times out: NETWORK_ERROR
  else match s.recv with
  | none =>
    -- first read: discovery over registered users; replay check applies whether or not it opens
    match u.opens with
    | none => { s with closed := true }                 -- CRYPTO_ERROR or REPLAY_ERROR, drain, close
    | some usr =>
      if u.dup then { s with closed := true }           -- REPLAY_ERROR although it decrypts
      else if !u.metaOk || !u.bodyOk then { s with recv := some usr, closed := true }
      else match u.kind with
        | .openReq sid =>
          if sid = 0 then { s with recv := some usr, closed := true }   -- validateNewServerSessionSegment
          else { s with recv := some usr, sessions := sid :: s.sessions, accepted := sid :: s.accepted,
                        out := s.out ++ [.sessionTraffic sid] }
        | _ => { s with recv := some usr, closed := true }              -- only an open request may be first
  | some usr =>
    match u.opens with
    | none => { s with closed := true }
    | some usr' =>
      if usr' ≠ usr then { s with closed := true }      -- implicit-nonce cipher of another key cannot open
      else if !u.metaOk || !u.bodyOk then { s with closed := true }
      else match u.kind with
        | .openReq sid =>
          if sid = 0 then { s with closed := true }
          else if sid ∈ s.sessions then s
          else { s with sessions := sid :: s.sessions, accepted := sid :: s.accepted, out := s.out ++ [.sessionTraffic sid] }
        | .otherSession _ => s
        | .dataAck sid => if sid ∈ s.sessions then s else { s with out := s.out ++ [.closeReq sid] }
        | .unknown => { s with closed := true }

def tcpRun (s : TcpSt) (us : List TcpUnit) : TcpSt := us.foldl tcpStep s

/-- one datagram arriving at a server UDP port -/
structure UdpUnit where
  long : Bool              -- at least nonce + metadata + tag (72 bytes)
  existing : Option Nat    -- opens under the cipher of an existing session from the same address
  discover : Option Nat    -- opens under a registered user's key (discovery)
  dupOtherSource : Bool    -- replay cache: signature seen with a different source tag
  metaOk : Bool
  bodyOk : Bool            -- exact size checks and payload AEAD
  kind : Kind
deriving DecidableEq, Repr

structure UdpSt where
  sessions : List Nat := []
  accepted : List Nat := []
  out : List Out := []
deriving DecidableEq, Repr

/-- PacketUnderlay.readOneSegment + RunEventLoop for one datagram; every failure is `continue` -/
def udpStep (s : UdpSt) (u : UdpUnit) : UdpSt :=
  if !u.long then s else
  match u.existing, u.discover with
  | none, none => s
  | some _, _ =>
    if !u.metaOk || !u.bodyOk then s else
    match u.kind with
    | .openReq sid => if sid = 0 ∨ sid ∈ s.sessions then s
                      else { s with sessions := sid :: s.sessions, accepted := sid :: s.accepted, out := s.out ++ [.sessionTraffic sid] }
    | .otherSession _ => s
    | .dataAck sid => if sid ∈ s.sessions then s else { s with out := s.out ++ [.closeReq sid] }
    | .unknown => s
  | none, some _ =>
    if u.dupOtherSource then s else
    if !u.metaOk || !u.bodyOk then s else
    match u.kind with
    | .openReq sid => if sid = 0 ∨ sid ∈ s.sessions then s
                      else { s with sessions := sid :: s.sessions, accepted := sid :: s.accepted, out := s.out ++ [.sessionTraffic sid] }
    | .otherSession _ => s
    | .dataAck sid => if sid ∈ s.sessions then s else { s with out := s.out ++ [.closeReq sid] }
    | .unknown => s

def udpRun (s : UdpSt) (us : List UdpUnit) : UdpSt := us.foldl udpStep s

end Mieru.Server
