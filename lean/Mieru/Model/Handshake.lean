import Mieru.Model.Spec
import Mieru.Model.SpecServer
import Mieru.Model.Time
/-!
# First contact under clock skew: the three instants of a handshake (core Lean only)

The code separates three instants that the round-1 theorem identified:

* `tk` — the KEY instant.  A client fixes its key when it creates the underlay, before dialling:
  `Mux.newUnderlay` calls `cipher.BlockCipherFromPassword(m.password, …)` (pkg/protocol/mux.go), which takes
  `cipherList[1]` — the key of `cipherKeyEpoch(time.Now())` — of the cache entry.  The key then lives as long
  as the underlay (TCP: `t.send = t.block.Clone()`; UDP with multiplexing: the whole life of `u.block`).
* `ts` — the STAMP instant.  `sessionStruct.Marshal` / `dataAckStruct.Marshal` write
  `uint32(time.Now().Unix() / 60)` when the segment is built (pkg/protocol/metadata.go).
* `tr` — the RECEIVER's instant.  The server derives the three keys of `saltFromTime(time.Now())`
  (through the cache: `Mieru.KeyCache`, whose entries never cross slots) for a connection without a key, tries
  them in list order (`selectDecryptStateless`), and `Unmarshal` compares the stamp with its own
  `uint32(time.Now().Unix() / 60)` on `int64` values, margin 1.

`recvFirstTcp` / `recvFirstUdp` compose the documented framing of `Mieru.Spec` (`parseOne` with three
candidate keys, `udpOpenCands`) with the time-dependent parts of the Go receiver: which keys are candidates
at `tr`, and the timestamp rule at `tr`.  (The Go code checks the stamp right after the metadata is opened,
before the payload is read; the model checks it after the payload.  Whether the segment is accepted is the
same, only the error that is reported for a segment wrong in two ways differs, and no theorem depends on it.)

SCOPE (property C08, "a segment whose key was derived for an instant four or more minutes away is never
accepted"): the receiver consults the clock for KEYS only while it has no key for the connection
(`Rx.key = none`; TCP first segment, UDP datagram of a new session).  An established TCP direction and an
existing UDP session keep the key they settled on for life (`recvLaterTcp`: no clock enters key selection);
from then on only the ±1-minute stamp guards staleness.
-/
namespace Mieru.Handshake
open Mieru Mieru.Spec Mieru.Time

/-- the keys a receiver whose clock shows `tr` tries, in `saltFromTime` order (previous, current,
    next slot); `keyOf` maps a slot (Unix seconds) to its key (PBKDF2 of the slot's salt) -/
def candKeys (keyOf : Int → Bytes) (tr : Int) : List Bytes := (saltTimes tr).map keyOf

/-- the timestamp rule of `Unmarshal` at receiver instant `tr` -/
def stampOk (tr : Int) (md : Meta) : Bool := tsAccept (minuteU32 tr : Int) (md.timestamp : Int)

structure Accepted where
  key : Bytes
  md : Meta
  payload : Bytes
  consumed : Nat
  nextNonce : Bytes
deriving DecidableEq, Repr

/-- first segment of a TCP direction for which the receiver has no key yet, receiver clock `tr` -/
def recvFirstTcp (A : AeadFns) (keyOf : Int → Bytes) (tr : Int) (buf : Bytes) : Option Accepted :=
  match parseOne A { Rx.new (candKeys keyOf tr) with buf := buf } with
  | .ok k md p n nn => if stampOk tr md then some ⟨k, md, p, n, nn⟩ else none
  | _ => none

/-- datagram that belongs to no existing session (UDP first contact), receiver clock `tr` -/
def recvFirstUdp (A : AeadFns) (keyOf : Int → Bytes) (tr : Int) (d : Bytes) : Option (Bytes × Meta × Bytes) :=
  match Srv.udpOpenCands A d (candKeys keyOf tr) with
  | some (k, .ok (md, p)) => if stampOk tr md then some (k, md, p) else none
  | _ => none

/-- a later segment of an established TCP direction (`r.key = some k`): the key is the one the
    direction settled on, whatever the clock shows; only the stamp is compared with `tr` -/
def recvLaterTcp (A : AeadFns) (r : Rx) (tr : Int) : Option Accepted :=
  match parseOne A r with
  | .ok k md p n nn => if stampOk tr md then some ⟨k, md, p, n, nn⟩ else none
  | _ => none

/-- the sender's first TCP segment: key of the slot of `tk`, first nonce `n0` on the wire -/
def sendFirstTcp (A : AeadFns) (keyOf : Int → Bytes) (tk : Int) (n0 : Bytes) (s : Segment) (lePad : Bool) :
    Option (Bytes × Tx) :=
  tcpSeal A ⟨keyOf (epoch tk), n0, false⟩ s lePad

/-- the sender's first datagram -/
def sendFirstUdp (A : AeadFns) (keyOf : Int → Bytes) (tk : Int) (nonce : Bytes) (s : Segment) (lePad : Bool) :
    Option Bytes :=
  udpSeal A (keyOf (epoch tk)) nonce s lePad

end Mieru.Handshake
