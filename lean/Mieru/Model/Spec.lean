import Mieru.Model.LowEntropy
/-!
# Reference codec written ONLY from docs/protocol.md (core Lean only)

Nothing in this file was transcribed from the Go sources: it is the "independent implementation"
of property C09.  Section names in comments are those of docs/protocol.md.

* big-endian integers ("Unless otherwise specified, all data is stored in big endian format")
* the three 32-byte metadata layouts (§ Metadata Format)
* the segment layout (§ Segment Format), for UDP datagrams and for the TCP stream
* TCP nonce progression ("With each encryption operation, the nonce value will increase by 1")

The AEAD is a parameter (`AeadFns`): the theorems in `Mieru.Props.C09` assume its laws as
hypotheses; the driver instantiates it with the executable XChaCha20-Poly1305 of
`Mieru.Crypto` (`Mieru.Model.SpecCrypto`).

Reading decisions (also listed in DESIGN.md §6 C09 and docs/notes/C09.md):
* `padding 0` has no length field anywhere in the document: it is always empty here.
* Session metadata has no `prefix length`: `padding 1` is empty in session segments.
* "unused" bytes are written as zero and ignored when reading.
* "increase by 1" of a 24-byte nonce is read as +1 on the big-endian number, modulo 2^192.
* "Round … to the nearest 2 minutes": a tie (exactly 60 s past an even minute) rounds up.
-/
namespace Mieru.Spec
open Mieru

/-! ## Big-endian integers -/

/-- `n` bytes, big endian, of `x mod 256^n` -/
def be : Nat → Nat → Bytes
  | 0, _ => []
  | n + 1, x => be n (x / 256) ++ [UInt8.ofNat (x % 256)]

/-- value of a big-endian byte string -/
def fromBE (bs : Bytes) : Nat := bs.foldl (fun a b => a * 256 + b.toNat) 0

/-- read a `w`-byte big-endian field from the front -/
def takeBE (w : Nat) (bs : Bytes) : Nat × Bytes := (fromBE (bs.take w), bs.drop w)

/-! ## Metadata (§ Metadata Format) -/

/-- § Session Metadata: type 1 | unused 1 | timestamp 4 | session ID 4 | sequence 4 | status 1 |
    payload length 2 | suffix length 1 | unused 14 -/
structure SessionMeta where
  protocol : Nat
  timestamp : Nat
  sessionID : Nat
  seq : Nat
  status : Nat
  payloadLen : Nat
  suffixLen : Nat
deriving DecidableEq, Repr

/-- § Data Metadata: type 1 | unused 1 | timestamp 4 | session ID 4 | sequence 4 | unack 4 |
    window 2 | fragment 1 | prefix length 1 | payload length 2 | suffix length 1 | unused 7 -/
structure DataMeta where
  protocol : Nat
  timestamp : Nat
  sessionID : Nat
  seq : Nat
  unAckSeq : Nat
  windowSize : Nat
  fragment : Nat
  prefixLen : Nat
  payloadLen : Nat
  suffixLen : Nat
deriving DecidableEq, Repr

/-- § Data Metadata (Low Entropy Extension): type 1 | mode 1 | timestamp 4 | session ID 4 |
    sequence 4 | unack 4 | window 2 | fragment 1 | prefix 1 | payload length 2 | suffix 1 |
    mask 4 | extracted payload length 2 | rotation 1 -/
structure LEMeta where
  protocol : Nat
  mode : Nat
  timestamp : Nat
  sessionID : Nat
  seq : Nat
  unAckSeq : Nat
  windowSize : Nat
  fragment : Nat
  prefixLen : Nat
  payloadLen : Nat
  suffixLen : Nat
  mask : Nat
  extractedLen : Nat
  rotation : Nat
deriving DecidableEq, Repr

def isSessionType (p : Nat) : Prop := 2 ≤ p ∧ p ≤ 5
def isDataType (p : Nat) : Prop := 6 ≤ p ∧ p ≤ 9
def isLEType (p : Nat) : Prop := 10 ≤ p ∧ p ≤ 11
instance (p : Nat) : Decidable (isSessionType p) := by unfold isSessionType; infer_instance
instance (p : Nat) : Decidable (isDataType p) := by unfold isDataType; infer_instance
instance (p : Nat) : Decidable (isLEType p) := by unfold isLEType; infer_instance

/-- every field fits its width and the type belongs to the layout -/
def SessionMeta.inRange (m : SessionMeta) : Prop :=
  isSessionType m.protocol ∧ m.timestamp < 2 ^ 32 ∧ m.sessionID < 2 ^ 32 ∧ m.seq < 2 ^ 32 ∧
  m.status < 256 ∧ m.payloadLen < 2 ^ 16 ∧ m.suffixLen < 256

def DataMeta.inRange (m : DataMeta) : Prop :=
  isDataType m.protocol ∧ m.timestamp < 2 ^ 32 ∧ m.sessionID < 2 ^ 32 ∧ m.seq < 2 ^ 32 ∧
  m.unAckSeq < 2 ^ 32 ∧ m.windowSize < 2 ^ 16 ∧ m.fragment < 256 ∧ m.prefixLen < 256 ∧
  m.payloadLen < 2 ^ 16 ∧ m.suffixLen < 256

def LEMeta.inRange (m : LEMeta) : Prop :=
  isLEType m.protocol ∧ m.mode < 256 ∧ m.timestamp < 2 ^ 32 ∧ m.sessionID < 2 ^ 32 ∧ m.seq < 2 ^ 32 ∧
  m.unAckSeq < 2 ^ 32 ∧ m.windowSize < 2 ^ 16 ∧ m.fragment < 256 ∧ m.prefixLen < 256 ∧
  m.payloadLen < 2 ^ 16 ∧ m.suffixLen < 256 ∧ m.mask < 2 ^ 32 ∧ m.extractedLen < 2 ^ 16 ∧
  m.rotation < 256

instance (m : SessionMeta) : Decidable m.inRange := by unfold SessionMeta.inRange; infer_instance
instance (m : DataMeta) : Decidable m.inRange := by unfold DataMeta.inRange; infer_instance
instance (m : LEMeta) : Decidable m.inRange := by unfold LEMeta.inRange; infer_instance

def zeros (n : Nat) : Bytes := List.replicate n 0

def SessionMeta.encode (m : SessionMeta) : Bytes :=
  be 1 m.protocol ++ (zeros 1 ++ (be 4 m.timestamp ++ (be 4 m.sessionID ++ (be 4 m.seq ++
  (be 1 m.status ++ (be 2 m.payloadLen ++ (be 1 m.suffixLen ++ zeros 14)))))))

def DataMeta.encode (m : DataMeta) : Bytes :=
  be 1 m.protocol ++ (zeros 1 ++ (be 4 m.timestamp ++ (be 4 m.sessionID ++ (be 4 m.seq ++
  (be 4 m.unAckSeq ++ (be 2 m.windowSize ++ (be 1 m.fragment ++ (be 1 m.prefixLen ++
  (be 2 m.payloadLen ++ (be 1 m.suffixLen ++ zeros 7))))))))))

def LEMeta.encode (m : LEMeta) : Bytes :=
  be 1 m.protocol ++ (be 1 m.mode ++ (be 4 m.timestamp ++ (be 4 m.sessionID ++ (be 4 m.seq ++
  (be 4 m.unAckSeq ++ (be 2 m.windowSize ++ (be 1 m.fragment ++ (be 1 m.prefixLen ++
  (be 2 m.payloadLen ++ (be 1 m.suffixLen ++ (be 4 m.mask ++ (be 2 m.extractedLen ++
  be 1 m.rotation))))))))))))

/-- layout parse; the type byte must belong to the layout, unused bytes are ignored -/
def SessionMeta.decode (bs : Bytes) : Option SessionMeta :=
  if bs.length ≠ 32 then none else
  let r0 := takeBE 1 bs
  let r1 := takeBE 1 r0.2
  let r2 := takeBE 4 r1.2
  let r3 := takeBE 4 r2.2
  let r4 := takeBE 4 r3.2
  let r5 := takeBE 1 r4.2
  let r6 := takeBE 2 r5.2
  let r7 := takeBE 1 r6.2
  if isSessionType r0.1 then some ⟨r0.1, r2.1, r3.1, r4.1, r5.1, r6.1, r7.1⟩ else none

def DataMeta.decode (bs : Bytes) : Option DataMeta :=
  if bs.length ≠ 32 then none else
  let r0 := takeBE 1 bs
  let r1 := takeBE 1 r0.2
  let r2 := takeBE 4 r1.2
  let r3 := takeBE 4 r2.2
  let r4 := takeBE 4 r3.2
  let r5 := takeBE 4 r4.2
  let r6 := takeBE 2 r5.2
  let r7 := takeBE 1 r6.2
  let r8 := takeBE 1 r7.2
  let r9 := takeBE 2 r8.2
  let r10 := takeBE 1 r9.2
  if isDataType r0.1 then some ⟨r0.1, r2.1, r3.1, r4.1, r5.1, r6.1, r7.1, r8.1, r9.1, r10.1⟩ else none

def LEMeta.decode (bs : Bytes) : Option LEMeta :=
  if bs.length ≠ 32 then none else
  let r0 := takeBE 1 bs
  let r1 := takeBE 1 r0.2
  let r2 := takeBE 4 r1.2
  let r3 := takeBE 4 r2.2
  let r4 := takeBE 4 r3.2
  let r5 := takeBE 4 r4.2
  let r6 := takeBE 2 r5.2
  let r7 := takeBE 1 r6.2
  let r8 := takeBE 1 r7.2
  let r9 := takeBE 2 r8.2
  let r10 := takeBE 1 r9.2
  let r11 := takeBE 4 r10.2
  let r12 := takeBE 2 r11.2
  let r13 := takeBE 1 r12.2
  if isLEType r0.1 then
    some ⟨r0.1, r1.1, r2.1, r3.1, r4.1, r5.1, r6.1, r7.1, r8.1, r9.1, r10.1, r11.1, r12.1, r13.1⟩
  else none

/-- any of the three layouts; the first byte selects the layout -/
inductive Meta where
  | session (m : SessionMeta)
  | data (m : DataMeta)
  | le (m : LEMeta)
deriving DecidableEq, Repr

def Meta.inRange : Meta → Prop
  | .session m => m.inRange
  | .data m => m.inRange
  | .le m => m.inRange

instance (m : Meta) : Decidable m.inRange := by cases m <;> (simp only [Meta.inRange]; infer_instance)

def Meta.encode : Meta → Bytes
  | .session m => m.encode
  | .data m => m.encode
  | .le m => m.encode

def Meta.decode (bs : Bytes) : Option Meta :=
  match bs with
  | [] => none
  | p :: _ =>
    if isSessionType p.toNat then (SessionMeta.decode bs).map .session
    else if isDataType p.toNat then (DataMeta.decode bs).map .data
    else if isLEType p.toNat then (LEMeta.decode bs).map .le
    else none

def Meta.protocol : Meta → Nat
  | .session m => m.protocol | .data m => m.protocol | .le m => m.protocol
def Meta.timestamp : Meta → Nat
  | .session m => m.timestamp | .data m => m.timestamp | .le m => m.timestamp
/-- length of `padding 1` (session metadata has no prefix length field) -/
def Meta.prefixLen : Meta → Nat
  | .session _ => 0 | .data m => m.prefixLen | .le m => m.prefixLen
def Meta.payloadLen : Meta → Nat
  | .session m => m.payloadLen | .data m => m.payloadLen | .le m => m.payloadLen
def Meta.suffixLen : Meta → Nat
  | .session m => m.suffixLen | .data m => m.suffixLen | .le m => m.suffixLen

/-- What the document says makes a parsed metadata invalid, beyond the layout:
    session payload at most 1024 bytes; low-entropy fields consistent
    ("an invalid mode or rotation, the wrong mask population, or inconsistent encoded and
    extracted lengths makes the segment invalid"). -/
def Meta.valid : Meta → Bool
  | .session m => decide (m.payloadLen ≤ 1024)
  | .data _ => true
  | .le m => LowEntropy.metaValid m.protocol m.mode m.mask m.rotation m.payloadLen m.extractedLen

/-- The (offset, width) table of the three layouts as the document's tables give them
    (cumulative sums of the widths); `Mieru.Props.C09.spec_offsets` proves the encoders above
    place every field exactly there. -/
def sessionOffsets : List (String × Nat × Nat) :=
  [("protocol", 0, 1), ("timestamp", 2, 4), ("sessionID", 6, 4), ("seq", 10, 4), ("status", 14, 1),
   ("payloadLen", 15, 2), ("suffixLen", 17, 1)]
def dataOffsets : List (String × Nat × Nat) :=
  [("protocol", 0, 1), ("timestamp", 2, 4), ("sessionID", 6, 4), ("seq", 10, 4), ("unAckSeq", 14, 4),
   ("windowSize", 18, 2), ("fragment", 20, 1), ("prefixLen", 21, 1), ("payloadLen", 22, 2), ("suffixLen", 24, 1)]
def leOffsets : List (String × Nat × Nat) :=
  [("protocol", 0, 1), ("mode", 1, 1), ("timestamp", 2, 4), ("sessionID", 6, 4), ("seq", 10, 4), ("unAckSeq", 14, 4),
   ("windowSize", 18, 2), ("fragment", 20, 1), ("prefixLen", 21, 1), ("payloadLen", 22, 2), ("suffixLen", 24, 1),
   ("mask", 25, 4), ("extractedLen", 29, 2), ("rotation", 31, 1)]

/-! ## TCP nonce progression (§ TCP Segment Rules) -/

/-- "the nonce value will increase by 1": +1 on the big-endian number, same length (mod 256^len) -/
def incr (n : Bytes) : Bytes := be n.length (fromBE n + 1)

/-- the nonce of the `i`-th encryption of a direction whose first nonce is `n0` -/
def nthNonce (n0 : Bytes) : Nat → Bytes
  | 0 => n0
  | i + 1 => incr (nthNonce n0 i)

/-! ## Segments (§ Segment Format) -/

/-- AEAD with 24-byte nonce as plain functions: key, nonce, plaintext ↦ ciphertext ‖ tag -/
structure AeadFns where
  sealF : Bytes → Bytes → Bytes → Bytes
  openF : Bytes → Bytes → Bytes → Option Bytes

structure Segment where
  md : Meta
  payload : Bytes
  pad1 : Bytes
  pad2 : Bytes

inductive Err where
  | short        -- fewer bytes than a segment header
  | auth         -- metadata does not authenticate under the key(s)
  | format       -- decrypted metadata is not one of the three layouts
  | invalid      -- layout parses but the document calls the fields invalid
  | length       -- datagram length does not match prefix + payload + suffix
  | lowEntropy   -- low-entropy body rejected
  | payloadAuth  -- payload does not authenticate
deriving DecidableEq, Repr

def Err.name : Err → String
  | .short => "short" | .auth => "auth" | .format => "format" | .invalid => "invalid"
  | .length => "length" | .lowEntropy => "low-entropy" | .payloadAuth => "payload-auth"

/-- The wire form of a non-empty payload: `sealF` output, or for types 10/11 the low-entropy
    encoding of the ciphertext body followed by the unchanged tag. -/
def sealBody (A : AeadFns) (key nonce : Bytes) (md : Meta) (payload : Bytes) (lePad : Bool) : Option Bytes :=
  if payload = [] then some [] else
  let c := A.sealF key nonce payload
  match md with
  | .le l =>
    (LowEntropy.encode (c.take (c.length - 16)) l.mode l.mask l.rotation lePad).map
      (· ++ c.drop (c.length - 16))
  | _ => some c

/-- inverse of `sealBody` on the `payloadLen + 16` wire bytes -/
def openBody (A : AeadFns) (key nonce : Bytes) (md : Meta) (body : Bytes) : Except Err Bytes :=
  let ct : Option Bytes :=
    match md with
    | .le l =>
      (LowEntropy.decode (body.take l.payloadLen) l.extractedLen l.mode l.mask l.rotation).map
        (· ++ body.drop l.payloadLen)
    | _ => some body
  match ct with
  | none => .error .lowEntropy
  | some c =>
    match A.openF key nonce c with
    | none => .error .payloadAuth
    | some p => .ok p

/-- metadata bytes → validated metadata -/
def parseMeta (mb : Bytes) : Except Err Meta :=
  match Meta.decode mb with
  | none => .error .format
  | some md => if md.valid then .ok md else .error .invalid

/-- § UDP Segment Rules: nonce 24 | metadata+tag 48 | padding 1 | payload+tag | padding 2, one nonce
    for both encryptions.  Nothing checks that the lengths in `md` describe the rest (explicit on
    purpose: the driver uses it to build malformed datagrams too). -/
def udpSeal (A : AeadFns) (key nonce : Bytes) (s : Segment) (lePad : Bool) : Option Bytes :=
  (sealBody A key nonce s.md s.payload lePad).map fun body =>
    nonce ++ (A.sealF key nonce s.md.encode ++ (s.pad1 ++ (body ++ s.pad2)))

def udpOpen (A : AeadFns) (key : Bytes) (d : Bytes) : Except Err (Meta × Bytes) :=
  if d.length < 72 then .error .short else
  let nonce := d.take 24
  match A.openF key nonce ((d.drop 24).take 48) with
  | none => .error .auth
  | some mb =>
    match parseMeta mb with
    | .error e => .error e
    | .ok md =>
      let rest := d.drop 72
      if md.payloadLen = 0 then
        if rest.length = md.prefixLen + md.suffixLen then .ok (md, []) else .error .length
      else
        if rest.length = md.prefixLen + (md.payloadLen + 16) + md.suffixLen then
          match openBody A key nonce md ((rest.drop md.prefixLen).take (md.payloadLen + 16)) with
          | .error e => .error e
          | .ok p => .ok (md, p)
        else .error .length

/-! ### TCP stream: nonce once per direction, then +1 per encryption -/

/-- sender state of one direction: key, nonce of the next encryption, whether the nonce has
    been put on the wire yet -/
structure Tx where
  key : Bytes
  nonce : Bytes
  started : Bool

/-- one segment of the stream and the sender state after it -/
def tcpSeal (A : AeadFns) (t : Tx) (s : Segment) (lePad : Bool) : Option (Bytes × Tx) :=
  let n1 := incr t.nonce
  (sealBody A t.key n1 s.md s.payload lePad).map fun body =>
    ((if t.started then [] else t.nonce) ++ (A.sealF t.key t.nonce s.md.encode ++ (s.pad1 ++ (body ++ s.pad2))),
     { t with nonce := if s.payload = [] then n1 else incr n1, started := true })

/-- receiver state of one direction.  Before the first segment `key = none` and `cands` are the
    keys to try (previous, current, next time slot). -/
structure Rx where
  cands : List Bytes
  key : Option Bytes
  nonce : Bytes
  buf : Bytes
  out : List (Meta × Bytes)
  dead : Option Err

def Rx.new (cands : List Bytes) : Rx := ⟨cands, none, [], [], [], none⟩

/-- first candidate key under which the metadata authenticates -/
def selectKey (A : AeadFns) (nonce mct : Bytes) : List Bytes → Option (Bytes × Bytes)
  | [] => none
  | k :: ks =>
    match A.openF k nonce mct with
    | some mb => some (k, mb)
    | none => selectKey A nonce mct ks

inductive Parse where
  | need
  | bad (e : Err)
  | ok (key : Bytes) (md : Meta) (payload : Bytes) (consumed : Nat) (nextNonce : Bytes)

/-- parse one segment from the front of the buffer -/
def parseOne (A : AeadFns) (r : Rx) : Parse :=
  let hdr := if r.key.isNone then 24 else 0
  if r.buf.length < hdr + 48 then .need else
  let nonce := if r.key.isNone then r.buf.take 24 else r.nonce
  let mct := (r.buf.drop hdr).take 48
  let sel : Option (Bytes × Bytes) :=
    match r.key with
    | some k => (A.openF k nonce mct).map fun mb => (k, mb)
    | none => selectKey A nonce mct r.cands
  match sel with
  | none => .bad .auth
  | some (k, mb) =>
    match parseMeta mb with
    | .error e => .bad e
    | .ok md =>
      let n1 := incr nonce
      if md.payloadLen = 0 then
        let total := hdr + 48 + md.prefixLen + md.suffixLen
        if r.buf.length < total then .need else .ok k md [] total n1
      else
        let total := hdr + 48 + md.prefixLen + (md.payloadLen + 16) + md.suffixLen
        if r.buf.length < total then .need else
        match openBody A k n1 md ((r.buf.drop (hdr + 48 + md.prefixLen)).take (md.payloadLen + 16)) with
        | .error e => .bad e
        | .ok p => .ok k md p total (incr n1)

/-- drain complete segments (fuel bounds the number of segments) -/
def drain (A : AeadFns) : Nat → Rx → Rx
  | 0, r => r
  | fuel + 1, r =>
    if r.dead.isSome then r else
    match parseOne A r with
    | .need => r
    | .bad e => { r with dead := some e }
    | .ok k md p n nn =>
      drain A fuel { r with key := some k, nonce := nn, buf := r.buf.drop n, out := r.out ++ [(md, p)] }

/-- feed bytes (any chunking) and drain; every segment consumes at least 48 bytes -/
def feed (A : AeadFns) (r : Rx) (bs : Bytes) : Rx :=
  let r := { r with buf := r.buf ++ bs }
  drain A (r.buf.length / 48 + 1) r

/-! ## UDP Associate Encapsulation: marker 0x00 | data length 2 | data | marker 0xff -/

def assocWrap (d : Bytes) : Bytes := 0x00 :: (be 2 d.length ++ (d ++ [0xff]))

inductive AssocParse where
  | need
  | bad
  | ok (d : Bytes) (rest : Bytes)
deriving DecidableEq

/-- take one encapsulated packet from the front of a stream -/
def assocUnwrap (bs : Bytes) : AssocParse :=
  match bs with
  | [] => .need
  | m :: r =>
    if m ≠ 0x00 then .bad else
    if r.length < 2 then .need else
    let n := fromBE (r.take 2)
    let r2 := r.drop 2
    if r2.length < n + 1 then .need else
    if (r2.drop n).head? = some 0xff then .ok (r2.take n) (r2.drop (n + 1)) else .bad

/-- all complete packets at the front of a stream; `none` = a marker is wrong -/
def assocUnwrapAll : Nat → Bytes → List Bytes → Option (List Bytes × Bytes)
  | 0, bs, acc => some (acc.reverse, bs)
  | fuel + 1, bs, acc =>
    match assocUnwrap bs with
    | .need => some (acc.reverse, bs)
    | .bad => none
    | .ok d rest => assocUnwrapAll fuel rest (d :: acc)

end Mieru.Spec
