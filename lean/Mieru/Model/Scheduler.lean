/-!
# Scheduling client sessions to underlays (pkg/protocol/scheduler.go, mux.go maybePickExistingUnderlay /
cleanUnderlay / DialContext)

`ScheduleController` decides whether an underlay may take another session: it is *disabled* from
`disableTime` on (set once: when it has been idle, when it has carried too much traffic, or — packet
underlays — half a key-refresh interval after creation), and *idle* when it has been disabled and unused
for `scheduleIdleTime`; the client mux closes idle underlays without sessions, never picks a closed or
disabled one, and falls back to a new underlay when `IncPending` refuses.

Times are milliseconds on one clock; `0` is the zero `time.Time` (never set). `time.Since(t) > d` is
`t + d < now`; for the zero time it is true for every `d` the code uses.
-/
namespace Mieru.Sched

structure Ctl where
  pending : Int
  last : Nat       -- lastScheduleTime
  disable : Nat    -- disableTime
deriving DecidableEq, Repr

/-- `!c.disableTime.IsZero() && time.Since(c.disableTime) > 0` -/
def isDisabled (now : Nat) (c : Ctl) : Bool := c.disable != 0 && decide (c.disable < now)

/-- `IncPending` -/
def incPending (now : Nat) (c : Ctl) : Ctl × Bool :=
  if isDisabled now c then (c, false) else ({ c with pending := c.pending + 1, last := now }, true)

/-- `DecPending` -/
def decPending (now : Nat) (c : Ctl) : Ctl := { c with pending := c.pending - 1, last := now }

/-- `Idle`: `!disableTime.IsZero() && Since(lastScheduleTime) > T && Since(disableTime) > T` -/
def idle (T now : Nat) (c : Ctl) : Bool :=
  c.disable != 0 && decide (c.last + T < now) && decide (c.disable + T < now)

/-- `TryDisableIdle` -/
def tryDisableIdle (T now : Nat) (c : Ctl) : Ctl × Bool :=
  if c.disable != 0 then (c, false)
  else if c.pending > 0 then (c, false)
  else if c.last != 0 && decide (now < c.last + T) then (c, false)
  else ({ c with disable := now }, true)

/-- `SetRemainingTime(d)` (`d` in ms, may be negative) -/
def setRemaining (now : Nat) (d : Int) (c : Ctl) : Ctl :=
  if d < 0 ∨ c.disable != 0 then c else { c with disable := now + d.toNat }

/-- one underlay as the client mux sees it -/
structure U where
  id : Nat
  done : Bool          -- `<-underlay.Done()` is ready
  ctl : Ctl
  sessions : Nat       -- SessionCount()
  overloaded : Bool    -- InBytes or OutBytes above the traffic volume limit
deriving DecidableEq, Repr

/-- `active` of maybePickExistingUnderlay: not closed, scheduling not disabled -/
def pickable (now : Nat) (u : U) : Bool := !u.done && !isDisabled now u.ctl

/-- maybePickExistingUnderlay with multiplex factor `mf` and random draw `r` -/
def pick (mf r now : Nat) (us : List U) : Option U :=
  let active := us.filter (pickable now)
  if mf = 0 then none
  else
    let f := active.length * mf
    let n := r % (f + 1)
    if n < f then active[n / mf]? else none

/-- what cleanUnderlay does to one underlay that is not closed: close it if it is idle without sessions,
    then (client) try to disable an unused one and disable an overloaded one -/
def cleanOne (T now : Nat) (also : Bool) (u : U) : U :=
  let closeIt := u.sessions == 0 && idle T now u.ctl
  let c1 := if also && u.sessions == 0 then (tryDisableIdle T now u.ctl).1 else u.ctl
  let c2 := if also && c1.disable == 0 && u.overloaded then setRemaining now 0 c1 else c1
  { u with done := closeIt, ctl := c2 }

/-- cleanUnderlay: closed underlays are dropped, idle ones are closed and dropped -/
def clean (T now : Nat) (also : Bool) (us : List U) : List U :=
  ((us.filter fun u => !u.done).map (cleanOne T now also)).filter fun u => !u.done

inductive Choice
  | reuse (u : U)   -- the session goes to this existing underlay (its IncPending succeeded)
  | fresh           -- a new underlay is dialled
deriving DecidableEq, Repr

/-- the decision of `Mux.DialContext`: `cleanUnderlay(true)` and `maybePickExistingUnderlay` at `now`
    (under `mu`), `IncPending` at `now' ≥ now` -/
def dial (T mf r now now' : Nat) (us : List U) : Choice :=
  match pick mf r now (clean T now true us) with
  | none => .fresh
  | some u => if (incPending now' u.ctl).2 then .reuse u else .fresh

end Mieru.Sched
