/-!
# Server user discovery (pkg/protocol/serveruser/registry.go `tryState` / `tryUser`)

One immutable generation holds `n` users sorted by name with dense ids `1..n` (id 0 = empty cache
slot).  The cryptography is abstract: `hint id` = `cipher.CheckUserFromHint(name, nonce)` for that
user's name, `auth id` = that user's `StatelessDecryptor.TryDecrypt` succeeds on the first
segment's metadata.  `cached` are the ids the source-user cache returned for the source address
(at most 16 in the code; possibly stale, duplicate, zero or out of range — `userByID` guards).

Candidate order, exactly as the code:
  1. cached ids whose user matches the hint          (origin cachedHint)
  2. registry users matching the hint, in name order (origin registryHint)
  — if hints are mandatory: stop —
  3. cached ids whose user does not match the hint   (origin cachedFallback)
  4. registry users not matching the hint            (origin registryFallback)
`attemptedCachedIDs` (capacity 16) remembers the users tried in the cached phases so that the
registry phases skip them.
-/
namespace Mieru.Discovery

inductive Origin
  | cachedHint | registryHint | cachedFallback | registryFallback
  deriving DecidableEq, Repr

/-- capacity of `attemptedCachedIDs` / `cachedIDs` (`sourceUserCacheUsers`) -/
def slots : Nat := 16

/-- `userByID`: ids outside `1..n` name nobody -/
def validID (n id : Nat) : Bool := decide (1 ≤ id) && decide (id ≤ n)

/-- `markUserIDAttempted` -/
def mark (att : List Nat) (id : Nat) : List Nat :=
  if att.length < slots ∧ id ∉ att then att ++ [id] else att

/-- bookkeeping carried through the four phases -/
structure Acc where
  att : List Nat        -- attemptedCachedIDs[:attemptedCachedCount]
  tried : List Nat      -- users whose decryptor was run, in order (`attempts` = its length)
  deriving DecidableEq, Repr

/-- phases 1 and 3: walk the cached ids; `want` = the hint value this phase is about -/
def cachedPhase (n : Nat) (hint auth : Nat → Bool) (want : Bool) : List Nat → Acc → Option Nat × Acc
  | [], a => (none, a)
  | id :: rest, a =>
    if validID n id = false ∨ id ∈ a.att ∨ hint id ≠ want then cachedPhase n hint auth want rest a
    else
      let a' : Acc := { att := mark a.att id, tried := a.tried ++ [id] }
      if auth id then (some id, a') else cachedPhase n hint auth want rest a'

/-- phases 2 and 4: walk the registry in name order (`ids` = `1..n`) -/
def registryPhase (hint auth : Nat → Bool) (want : Bool) : List Nat → Acc → Option Nat × Acc
  | [], a => (none, a)
  | id :: rest, a =>
    if id ∈ a.att ∨ hint id ≠ want then registryPhase hint auth want rest a
    else
      let a' : Acc := { a with tried := a.tried ++ [id] }
      if auth id then (some id, a') else registryPhase hint auth want rest a'

/-- ids of the generation in registry (name) order -/
def ids (n : Nat) : List Nat := List.range' 1 n

structure Result where
  user : Option (Nat × Origin)
  tried : List Nat
  deriving DecidableEq, Repr

/-- `tryState` -/
def tryState (n : Nat) (hint auth : Nat → Bool) (cached : List Nat) (mandatory : Bool) : Result :=
  match cachedPhase n hint auth true cached { att := [], tried := [] } with
  | (some u, a1) => { user := some (u, .cachedHint), tried := a1.tried }
  | (none, a1) =>
    match registryPhase hint auth true (ids n) a1 with
    | (some u, a2) => { user := some (u, .registryHint), tried := a2.tried }
    | (none, a2) =>
      if mandatory then { user := none, tried := a2.tried } else
      match cachedPhase n hint auth false cached a2 with
      | (some u, a3) => { user := some (u, .cachedFallback), tried := a3.tried }
      | (none, a3) =>
        match registryPhase hint auth false (ids n) a3 with
        | (some u, a4) => { user := some (u, .registryFallback), tried := a4.tried }
        | (none, a4) => { user := none, tried := a4.tried }

/-! The interleaving of `SetUsers` with `discoverUser` is `Mieru.Reload` (Model/Reload.lean). -/

end Mieru.Discovery
