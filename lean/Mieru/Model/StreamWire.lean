import Mieru.Model.Bits
/-!
# TCP transport framing (pkg/protocol/underlay_stream.go readOneSegment / writeOneSegment)

One direction of one TCP connection. The AEAD is abstract and indexed by the implicit nonce counter
(`c` = number of encryptions so far; the real nonce is n0 + c, big endian over 24 bytes). The
metadata codec is abstract too; `Mieru.Model.Spec` instantiates it with the documented layouts.
Hypotheses about them are structure fields, never axioms.
-/
namespace Mieru.StreamWire
open Mieru

/-- AEAD with an implicit counter nonce. -/
structure Aead where
  sealF : Nat → Bytes → Bytes
  openF : Nat → Bytes → Option Bytes
  seal_len : ∀ n p, (sealF n p).length = p.length + 16
  open_seal : ∀ n p, openF n (sealF n p) = some p

/-- What the receiver needs from the 32-byte metadata: the three lengths; everything else (type,
    session id, sequence number, …) is carried opaquely in `tag`. -/
structure Md where
  prefixLen : Nat
  payloadLen : Nat
  suffixLen : Nat
  tag : Nat
deriving DecidableEq, Repr

structure MetaCodec where
  enc : Md → Bytes
  dec : Bytes → Option Md
  /-- the metadata values representable in the 32-byte layout (field ranges) -/
  ok : Md → Bool
  enc_len : ∀ m, (enc m).length = 32
  dec_enc : ∀ m, ok m = true → dec (enc m) = some m

/-- A segment as the sender builds it. `payload` is what is sealed (for low-entropy segments the
    wire body is the encoded form; `Mieru.Model.LowEntropy` proves that encoding is invertible). -/
structure Seg where
  md : Md
  payload : Bytes
  pad1 : Bytes
  pad2 : Bytes

variable (A : Aead) (M : MetaCodec)

/-- the metadata's lengths describe the segment, and its fields are representable -/
def Seg.wf (s : Seg) : Prop :=
  s.md.payloadLen = s.payload.length ∧ s.md.prefixLen = s.pad1.length ∧ s.md.suffixLen = s.pad2.length ∧
  M.ok s.md = true

/-- `[meta+tag] [pad1] [payload+tag] [pad2]`; one encryption for the metadata, one more if there
    is a payload. Returns the bytes and the next counter. -/
def encodeSeg (c : Nat) (s : Seg) : Bytes × Nat :=
  let m := A.sealF c (M.enc s.md)
  if s.payload = [] then (m ++ s.pad1 ++ s.pad2, c + 1)
  else (m ++ s.pad1 ++ A.sealF (c + 1) s.payload ++ s.pad2, c + 2)

def encodeAll : Nat → List Seg → Bytes
  | _, [] => []
  | c, s :: ss => (encodeSeg A M c s).1 ++ encodeAll (encodeSeg A M c s).2 ss

inductive Res where
  | need
  | bad
  | ok (m : Md) (payload : Bytes) (consumed : Nat) (c' : Nat)

/-- Parse one segment from the front of the buffer (every length comes from opened metadata). -/
def parseOne (c : Nat) (buf : Bytes) : Res :=
  if buf.length < 48 then .need else
  match A.openF c (buf.take 48) with
  | none => .bad
  | some mb =>
    match M.dec mb with
    | none => .bad
    | some m =>
      if m.payloadLen = 0 then
        let total := 48 + m.prefixLen + m.suffixLen
        if buf.length < total then .need else .ok m [] total (c + 1)
      else
        let total := 48 + m.prefixLen + (m.payloadLen + 16) + m.suffixLen
        if buf.length < total then .need else
        match A.openF (c + 1) ((buf.drop (48 + m.prefixLen)).take (m.payloadLen + 16)) with
        | none => .bad
        | some p => .ok m p total (c + 2)

structure Rx where
  c : Nat
  buf : Bytes
  out : List (Md × Bytes)
  dead : Bool
deriving DecidableEq

/-- Drain complete segments from the buffer (fuel bounds the number of segments). -/
def drain : Nat → Rx → Rx
  | 0, r => r
  | fuel + 1, r =>
    if r.dead then r else
    match parseOne A M r.c r.buf with
    | .need => r
    | .bad => { r with dead := true }
    | .ok m p n c' => drain fuel { r with c := c', buf := r.buf.drop n, out := r.out ++ [(m, p)] }

def encLen (s : Seg) : Nat :=
  48 + s.pad1.length + (if s.payload = [] then 0 else s.payload.length + 16) + s.pad2.length

/-- Byte-at-a-time receiver: after every byte, drain whatever is complete. -/
def feedByte (fuel : Nat) (r : Rx) (b : UInt8) : Rx := drain A M fuel { r with buf := r.buf ++ [b] }
def feed (fuel : Nat) (r : Rx) (bs : Bytes) : Rx := bs.foldl (feedByte A M fuel) r

end Mieru.StreamWire

/-!
# Fragmentation of application writes (pkg/protocol/session.go Write / writeChunk)
-/
namespace Mieru.Fragment
open Mieru

/-- cut `bs` into pieces of at most `f` bytes (fuel ≥ length) -/
def pieces (f : Nat) : Nat → Bytes → List Bytes
  | 0, _ => []
  | fuel + 1, bs => if bs = [] then [] else bs.take f :: pieces f fuel (bs.drop f)

/-- `Session.Write`: chunks of at most `maxPDU` bytes, each cut by `writeChunk` into fragments of at
    most `fragSize` bytes. -/
def fragmentWrite (maxPDU fragSize : Nat) (b : Bytes) : List Bytes :=
  (pieces maxPDU b.length b).flatMap fun chunk => pieces fragSize chunk.length chunk

/-- fragment numbers written by `writeChunk` for one chunk: nFragment−1 down to 0 -/
def fragmentNumbers (n : Nat) : List Nat := (List.range n).reverse

end Mieru.Fragment

/-!
# Demultiplexing by session id (underlay RunEventLoop → session.recvQueue → Read)
-/
namespace Mieru.Demux
open Mieru

/-- the sub-sequence of segments addressed to session `sid` -/
def forSession (sid : Nat) (segs : List (Nat × Bytes)) : List Bytes :=
  (segs.filter (·.1 == sid)).map (·.2)

/-- what `Read` calls return: the concatenated payloads, cut at arbitrary read sizes -/
def readAll (payloads : List Bytes) : Bytes := payloads.flatten

/-- serve read requests of the given sizes from a stream: returns the chunks handed out -/
def reads : List Nat → Bytes → List Bytes
  | [], _ => []
  | n :: ns, s => s.take n :: reads ns (s.drop n)

end Mieru.Demux
