import Mieru.Model.Tamper
/-!
# The stream receiver against the KEY's whole sealing history (Props/C04, stream transport)

One key seals BOTH directions of EVERY connection of a user (`t.recv = t.block.Clone()`,
`t.send = t.block.Clone()`, pkg/protocol/underlay_stream.go), and the receiver takes its initial nonce
from the wire in clear text (`copy(c.implicitNonce, ciphertext[:c.NonceSize()])`, pkg/cipher/cipher.go).
So the honest set an attacker can align a receiver to is a FAMILY of streams — this direction, the
reverse direction, other connections of the user — each with its own nonce base. A nonce is the
24-byte big-endian value on the wire read as a natural number (`Nat`; the wrap at 2^192 is outside the
model).

What keeps a receiver aligned to a foreign stream from delivering anything is not the AEAD but the
session layer: the direction test at the top of `Session.input`, the dispatch by session id, the
in-order check of `Session.inputData`, the first-segment validation of a server underlay. They are
modelled here as total functions over the list of segments the underlay parser emits.

Core Lean only (the driver evaluates these definitions: ops `c04-tcpk`, `c04-sread`, `c04-leopen`).
-/
namespace Mieru.Tamper
open Mieru Mieru.StreamWire

/-! ## The receiver with a metadata-dependent payload opener

`readDataAckSegment` decodes a low-entropy body (types 10/11, parameters from the opened metadata)
BEFORE the AEAD open; for every other type the payload's wire form is opened as it stands. `openP m`
is what happens to the payload slot of a segment whose metadata is `m`. `parseOneF openF M` is
`parseOneG openF (fun _ => openF) M` (`Proofs/TamperKey.parseOneF_eq_G`). -/

def parseOneG (openF : Nat → Bytes → Option Bytes) (openP : Md → Nat → Bytes → Option Bytes)
    (M : MetaCodec) (c : Nat) (buf : Bytes) : Res :=
  if buf.length < 48 then .need else
  match openF c (buf.take 48) with
  | none => .bad
  | some mb =>
    match M.dec mb with
    | none => .bad
    | some m =>
      if m.payloadLen = 0 then
        let total := 48 + m.prefixLen + m.suffixLen
        if buf.length < total then .need else .ok m [] total (c + 1)
      else
        let total := 48 + m.prefixLen + (m.payloadLen + 16) + m.suffixLen
        if buf.length < total then .need else
        match openP m (c + 1) ((buf.drop (48 + m.prefixLen)).take (m.payloadLen + 16)) with
        | none => .bad
        | some p => .ok m p total (c + 2)

def drainG (openF : Nat → Bytes → Option Bytes) (openP : Md → Nat → Bytes → Option Bytes) (M : MetaCodec) :
    Nat → Rx → Rx
  | 0, r => r
  | fuel + 1, r =>
    if r.dead then r else
    match parseOneG openF openP M r.c r.buf with
    | .need => r
    | .bad => { r with dead := true }
    | .ok m p n c' => drainG openF openP M fuel { r with c := c', buf := r.buf.drop n, out := r.out ++ [(m, p)] }

def feedByteG (openF : Nat → Bytes → Option Bytes) (openP : Md → Nat → Bytes → Option Bytes) (M : MetaCodec)
    (fuel : Nat) (r : Rx) (b : UInt8) : Rx :=
  drainG openF openP M fuel { r with buf := r.buf ++ [b] }
def feedG (openF : Nat → Bytes → Option Bytes) (openP : Md → Nat → Bytes → Option Bytes) (M : MetaCodec)
    (fuel : Nat) (r : Rx) (bs : Bytes) : Rx :=
  bs.foldl (feedByteG openF openP M fuel) r

/-- The payload opener of the stream transport: `leOf m` gives the low-entropy parameters
    `(extractedLen, mode, half, rotation)` of a type 10/11 metadata block (`none` for the other
    types); a low-entropy body goes through `leOpen` (canonical-padding check, then the AEAD open of the
    decoded body followed by the unmodified tag). -/
def lePayOpen (leOf : Md → Option (Nat × Nat × Nat × Nat)) (openF : Nat → Bytes → Option Bytes)
    (m : Md) (n : Nat) (w : Bytes) : Option Bytes :=
  match leOf m with
  | none => openF n w
  | some (ext, mode, half, rot) => leOpen (openF n) w m.payloadLen ext mode half rot

/-! ## The key's sealing history -/

deriving instance DecidableEq for Mieru.StreamWire.Seg

/-- one stream sealed under the key: its nonce base, who sealed it, what was sealed -/
structure Stream where
  c : Nat
  fromClient : Bool
  segs : List Seg
deriving DecidableEq

/-- `(n, p)`: SOME honest holder of the key sealed plaintext `p` under nonce `n` -/
def honestK (M : MetaCodec) (K : List Stream) (n : Nat) (p : Bytes) : Prop :=
  ∃ st ∈ K, honest M st.c st.segs n p

/-- What the tamper theorems need from an honest segment: the metadata announces a payload exactly
    when there is one, and its fields are representable. (`Seg.wf` of C01 also demands
    `payloadLen = payload.length`, which a low-entropy segment does not satisfy: there `payloadLen` is
    the length of the ENCODED body.) -/
def _root_.Mieru.StreamWire.Seg.wfT (M : MetaCodec) (s : Seg) : Prop :=
  (s.md.payloadLen = 0 ↔ s.payload = []) ∧ M.ok s.md = true

/-! ## The session layer over the emitted segments -/

/-- what the dispatch reads off a metadata block: protocol type, session id, sequence number -/
structure Ids where
  proto : Nat
  sid : Nat
  seq : Nat
deriving DecidableEq, Repr

/-- the direction test at the top of `Session.input` (pkg/protocol/session.go): a client session takes
    openSessionResponse 3, dataServerToClient 7 / 11, ackServerToClient 9 and the two close types 4, 5;
    a server session openSessionRequest 2, dataClientToServer 6 / 10, ackClientToServer 8, 4, 5 -/
def dirOK (isClient : Bool) (p : Nat) : Bool :=
  if isClient then p == 3 || p == 7 || p == 11 || p == 9 || p == 4 || p == 5
  else p == 2 || p == 6 || p == 10 || p == 8 || p == 4 || p == 5

/-- the types that go through `Session.inputData` (open request / response and data) -/
def isDataBearing (p : Nat) : Bool := p == 2 || p == 3 || p == 6 || p == 7 || p == 10 || p == 11
def isClose (p : Nat) : Bool := p == 4 || p == 5

/-- What reaches a session at all (`StreamUnderlay.RunEventLoop`): the underlay ends — nothing after it
    is dispatched — at a first segment of a server underlay that is not an openSessionRequest with a
    non-zero session id (`validateNewServerSessionSegment`), at an openSessionRequest on a client or
    with session id 0 (`onOpenSessionRequest`), at an openSessionResponse on a server
    (`onOpenSessionResponse`). `first` = no segment has been dispatched yet. -/
def underlayCut (ids : Md → Ids) (isClient : Bool) : Bool → List (Md × Bytes) → List (Md × Bytes)
  | _, [] => []
  | first, e :: rest =>
    let i := ids e.1
    if isClient = false ∧ first = true ∧ (i.proto ≠ 2 ∨ i.sid = 0) then []
    else if i.proto = 2 ∧ (isClient = true ∨ i.sid = 0) then []
    else if i.proto = 3 ∧ isClient = false then []
    else e :: underlayCut ids isClient false rest

/-- What the reader of session `sid` gets (`Session.input` / `inputData` on the stream transport).
    Segments of other sessions are dispatched elsewhere. On a server the session exists only from its
    openSessionRequest on (`opened`; a second request for an id in use is ignored, a segment for an
    unknown id is not delivered). Then the direction test: a wrong-direction segment is an error that
    ends the session; a data-bearing segment must carry the next sequence number, anything else ends
    the session; a close ends it; acknowledgements carry no data. -/
def sessionRead (ids : Md → Ids) (isClient : Bool) (sid : Nat) : Bool → Nat → List (Md × Bytes) → List Bytes
  | _, _, [] => []
  | opened, next, (m, p) :: rest =>
    let i := ids m
    if i.sid ≠ sid then sessionRead ids isClient sid opened next rest
    else if i.proto = 2 ∧ isClient = false ∧ opened = true then sessionRead ids isClient sid opened next rest
    else if i.proto ≠ 2 ∧ opened = false then sessionRead ids isClient sid opened next rest
    else if dirOK isClient i.proto = false then []
    else if isDataBearing i.proto = true then
      (if i.seq = next then p :: sessionRead ids isClient sid true (next + 1) rest else [])
    else if isClose i.proto = true then []
    else sessionRead ids isClient sid opened next rest

/-- the application's reads on session `sid` of a connection whose parser emitted `out`: a client's
    session is registered when it dials, a server's by its openSessionRequest -/
def appRead (ids : Md → Ids) (isClient : Bool) (sid : Nat) (out : List (Md × Bytes)) : List Bytes :=
  sessionRead ids isClient sid isClient 0 (underlayCut ids isClient true out)

/-- the data-bearing segments of session `sid` in a stream, in order — what the peer's session wrote -/
def dataOf (ids : Md → Ids) (sid : Nat) (segs : List Seg) : List Seg :=
  segs.filter (fun s => (ids s.md).sid == sid && isDataBearing (ids s.md).proto)

/-! ## A table AEAD for a family of streams (driver + non-vacuity) -/

/-- `tables`: per stream its nonce base and, per seal, the plaintext with its acceptable ciphertexts.
    Only a listed ciphertext opens, and only under the nonce it was sealed with. -/
def tableOpenK (tables : List (Nat × List (Bytes × List Bytes))) (n : Nat) (ct : Bytes) : Option Bytes :=
  match tables.find? (fun t => decide (t.1 ≤ n ∧ n < t.1 + t.2.length)) with
  | none => none
  | some t =>
    match t.2[n - t.1]? with
    | none => none
    | some (p, forms) => if forms.contains ct then some p else none

end Mieru.Tamper
