import Mieru.Model.Server
import Mieru.Model.Replay
/-!
# First contact composed with the process-wide replay caches (C06, protocol level)

`Mieru.Server.tcpStep` / `udpStep` take the replay cache's answer as a field of the unit (`dup`,
`dupOther`).  Here that field is COMPUTED: the first read of a fresh stream underlay, and every
datagram long enough to be read, consults the cache (`Mieru.Replay.step`, the model of
`ReplayCache.IsDuplicate`) with the 16-byte signature of what arrived — before any decryption — and the
first-contact step runs on the answer.

```go
// underlay_stream.go readOneSegment            // underlay_packet.go readOneSegment
io.ReadFull(t.conn, encryptedMeta)  // 72 B     if n < packetNonHeaderPosition { continue }
if streamReplayCache.IsDuplicate(               if packetReplayCache.IsDuplicate(
     encryptedMeta[:16], replay.EmptyTag) {          encryptedMeta[:16], addr.String()) {
  if firstRead { isNewSessionReplay = true }      isNewSessionReplay = true
}                                               }
```
Core Lean only.
-/
namespace Mieru.ServerReplay
open Mieru.Server Mieru.Replay

/-- `IsDuplicate` by signature (a cache of capacity 0 is disabled) -/
def consult (c : Cache) (e : Sig) (tag : Tag) (now : Nat) : Cache × Bool :=
  if c.cap = 0 then (c, false) else step c e tag now

/-- The first read of a FRESH stream underlay at cache instant `now`; `e` is the signature of the
    first 16 bytes that arrived.  `u.dup` is ignored: it is what the cache answers.  Nothing is
    consulted (or recorded) unless the 72 bytes of the first read arrived. -/
def tcpFirstContact (c : Cache) (e : Sig) (now : Nat) (u : TcpUnit) : Cache × TcpSt :=
  if u.avail < firstReadLen then (c, tcpStep {} u)
  else ((consult c e emptyTag now).1, tcpStep {} { u with dup := (consult c e emptyTag now).2 })

/-- a whole connection: first contact, then the rest of its units (the receive cipher is installed,
    the cache's answers no longer matter for what the loop does) -/
def tcpConnection (c : Cache) (e : Sig) (now : Nat) (u : TcpUnit) (rest : List TcpUnit) : Cache × TcpSt :=
  ((tcpFirstContact c e now u).1, tcpRun (tcpFirstContact c e now u).2 rest)

/-- One datagram from source address `src` (the tag is `addr.String()`) arriving at the shared UDP
    socket in state `s`.  `u.dupOther` is ignored: it is what the cache answers. -/
def udpContact (c : Cache) (e : Sig) (src : Tag) (now : Nat) (s : UdpSt) (u : UdpUnit) : Cache × UdpSt :=
  if u.len < packetHeaderLen then (c, s)
  else ((consult c e src now).1, udpStep s { u with dupOther := (consult c e src now).2 })

/-! ## Histories over one process-wide cache (what the driver replays) -/

inductive Ev where
  /-- a fresh stream underlay whose first read carries signature `sig` -/
  | tcp (sig : Sig) (now : Nat) (u : TcpUnit) (rest : List TcpUnit)
  /-- any other consultation of the same cache (payload signatures, later headers, other peers) -/
  | other (p : Call)

/-- the cache after a history and the final state of every connection, in order -/
def runTcp (c : Cache) : List Ev → Cache × List TcpSt
  | [] => (c, [])
  | .tcp e now u rest :: evs =>
    let r := tcpConnection c e now u rest
    let q := runTcp r.1 evs
    (q.1, r.2 :: q.2)
  | .other p :: evs => runTcp (consult c p.sig p.tag p.time).1 evs

inductive UEv where
  | dgram (sig : Sig) (src : Tag) (now : Nat) (u : UdpUnit)

def runUdp (c : Cache) (s : UdpSt) : List UEv → Cache × UdpSt
  | [] => (c, s)
  | .dgram e src now u :: evs =>
    let r := udpContact c e src now s u
    runUdp r.1 r.2 evs

end Mieru.ServerReplay
