/-!
# Blocking structure of close (pkg/protocol session.go / underlay_*.go / mux.go)

Three pieces, all executable and core-only:

1. **Wait sites.**  Every `select` of the transport is a *site*: the set of events that can wake the
   goroutine parked there.  `sitesOf` turns the regenerated select table (`Mieru.Gen.Facts.selects`,
   passed in as a parameter because models do not import `Gen`) into sites; `closeEffects` says which
   events are fired — permanently, a closed channel stays ready — by `Session.Close`, by an underlay
   `Close` and by `Mux.Close`.  `released` = some wake event of the site has fired.
2. **`closeWithError` under concurrency.**  `n` closers run the CAS-guarded step sequence
   (`closeRequested.CompareAndSwap(false,true)`; the winner queues the close request, polls up to
   1000 times for it to leave, empties the queues, marks the state, closes `closedChan`); `CStep` is
   one atomic step of one closer, any interleaving.
3. **History acceptor.**  `acceptHist` takes what the harness observed on the real code — every
   Read / Write / Close / Mux.Close call at both ends with its start, its return and its return kind,
   the deadline calls and the injected network fault — and accepts it iff every return is explained
   by a wake event of the site the call was parked in and nothing stayed parked after an event that
   wakes it.
-/
namespace Mieru.Blocking

/-! ## 1. Wait sites -/

/-- events that can wake a parked goroutine -/
inductive Ev
  | sessClosed    -- `s.closedChan` is closed
  | inputErr      -- `s.inputErr` is closed
  | outputErr     -- `s.outputErr` is closed
  | timer         -- the deadline timer `timeC`
  | recvData      -- `recvQueue.chanNotEmptyEvent`
  | sendMoved     -- `sendQueue.chanEmptyEvent` / `chanNotEmptyEvent`
  | recvChan      -- a segment / a free slot in `s.recvChan`
  | underlayDone  -- `b.done` / `t.done` / `u.done` is closed
  | muxDone       -- `m.done` is closed
  | muxCtx        -- the mux master context is cancelled
  | background    -- `context.Background().Done()`: never fires
  | ready         -- traffic on `readySessions` / `chAccept`
  | tick          -- tickers and `time.After`
  | acceptErr     -- `m.acceptErr.done`
  | other
deriving DecidableEq, Repr

inductive Scope | session | underlay | mux | none
deriving DecidableEq, Repr

/-- `p` is a prefix of `s` (on character lists: `String.startsWith` does not reduce under `decide`) -/
def hasPrefix (s p : String) : Bool := p.toList.isPrefixOf s.toList

/-- which object a function belongs to: closing that object must release every wait in it -/
def scopeOf (fn : String) : Scope :=
  if hasPrefix fn "Session." then .session
  else if hasPrefix fn "baseUnderlay." || hasPrefix fn "StreamUnderlay." || hasPrefix fn "PacketUnderlay." then .underlay
  else if hasPrefix fn "Mux." || fn == "NewMux" then .mux
  else .none

/-- channel expression (as printed by goextract) → event.  `ctx.Done()` is the mux master context
    only inside `Mux.*`; the session loops are started with `context.Background()` and so is the
    client's underlay event loop, so there it never fires. -/
def evOf (fn ch : String) : Ev :=
  if ch == "<-s.closedChan" || ch == "<-session.closedChan" then .sessClosed
  else if ch == "<-s.inputErr" then .inputErr
  else if ch == "<-s.outputErr" then .outputErr
  else if ch == "<-timeC" then .timer
  else if ch == "<-s.recvQueue.chanNotEmptyEvent" then .recvData
  else if ch == "<-s.sendQueue.chanNotEmptyEvent" || ch == "<-s.sendQueue.chanEmptyEvent" then .sendMoved
  else if ch == "<-s.recvChan" || ch == "s.recvChan<-" then .recvChan
  else if ch == "<-b.done" || ch == "<-t.done" || ch == "<-u.done" || ch == "<-underlay.Done()" then .underlayDone
  else if ch == "<-m.done" || ch == "<-mux.done" then .muxDone
  else if ch == "<-ctx.Done()" then (if hasPrefix fn "Mux." then .muxCtx else .background)
  else if ch == "<-b.readySessions" || ch == "t.readySessions<-" || ch == "u.readySessions<-"
          || ch == "<-m.chAccept" || ch == "m.chAccept<-" then .ready
  else if ch == "<-ticker.C" || ch == "<-t.sessionCleanTicker.C" || ch == "<-u.sessionCleanTicker.C"
          || ch == "<-mux.cleaner.C" || ch == "<-time.After(backPressureDelay)" then .tick
  else if ch == "<-m.acceptErr.done" then .acceptErr
  else .other

structure Site where
  fn : String
  ord : Nat
  polling : Bool        -- the select has a `default` (a polling loop), else it parks
  wakes : List Ev
deriving DecidableEq, Repr

def sitesOf (tbl : List (String × Nat × Bool × List String)) : List Site :=
  tbl.map fun (fn, ord, dflt, chans) => { fn := fn, ord := ord, polling := dflt, wakes := chans.map (evOf fn) }

/-- events fired for good by closing an object of the given scope.  `baseUnderlay.Close` closes every
    session of the underlay before it closes `done`; `Mux.Close` closes `m.done`, cancels the master
    context and closes every underlay. -/
def closeEffects : Scope → List Ev
  | .session => [.sessClosed]
  | .underlay => [.sessClosed, .underlayDone]
  | .mux => [.sessClosed, .underlayDone, .muxDone, .muxCtx]
  | .none => []

def released (fired : List Ev) (s : Site) : Bool := s.wakes.any (fun e => fired.contains e)

/-- a parked goroutine of site `s` can leave after its object was closed -/
def hasCloseExit (s : Site) : Bool := released (closeEffects (scopeOf s.fn)) s

/-- number of sites of function `fn` whose wake set contains all of `evs` -/
def countWith (sites : List Site) (fn : String) (evs : List Ev) : Nat :=
  (sites.filter fun s => s.fn == fn && evs.all (fun e => s.wakes.contains e)).length

/-- the waits the property names, with the events each of them must be woken by and how many such
    selects the function has.  A site may gain cases; it must not lose one of these. -/
def requiredWaits : List (String × List Ev × Nat) := [
  ("Session.Read", [.sessClosed, .inputErr, .timer, .recvData], 1),
  ("Session.writeChunk", [.sessClosed, .outputErr, .timer], 2),
  ("Session.writeChunk", [.timer], 3),
  ("Session.waitForRecvQueueSpace", [.sessClosed], 2),
  ("Session.runInputLoop", [.sessClosed, .recvChan], 1),
  ("Session.runOutputLoop", [.sessClosed, .sendMoved], 2),
  ("baseUnderlay.Accept", [.underlayDone, .ready], 1),
  ("baseUnderlay.deliverSegmentToSession", [.sessClosed, .underlayDone, .recvChan], 1),
  ("StreamUnderlay.onOpenSessionRequest", [.underlayDone, .ready], 1),
  ("PacketUnderlay.onOpenSessionRequest", [.underlayDone, .ready], 1),
  ("StreamUnderlay.RunEventLoop", [.underlayDone], 2),
  ("PacketUnderlay.RunEventLoop", [.underlayDone], 2),
  ("StreamUnderlay.readOneSegment", [.underlayDone], 1),
  ("PacketUnderlay.readOneSegment", [.underlayDone], 3),
  ("Mux.Accept", [.muxDone, .ready], 1),
  ("NewMux", [.muxDone], 1),
  ("Mux.acceptUnderlayLoop", [.muxCtx, .ready], 2)
]

def meetsRequired (sites : List Site) : Bool :=
  requiredWaits.all fun (fn, evs, n) => n ≤ countWith sites fn evs

/-- return kinds of a call as the harness canonicalises them -/
inductive Kind | data | ok | eof | ueof | closedpipe | timeout | other | blocked
deriving DecidableEq, Repr

/-- the error a wait returns when it is woken by an event (from the `return` in the comm clause) -/
def kindOfReturn (ret : String) : Kind :=
  if ret == "return 0, io.EOF" then .eof
  else if ret == "return 0, io.ErrUnexpectedEOF" then .ueof
  else if ret == "return 0, io.ErrClosedPipe" then .closedpipe
  else if ret == "return 0, stderror.ErrTimeout" then .timeout
  else .other

/-- what `Session.Read` returns for each event that ends its wait (as the model below assumes) -/
def readKinds : List (Ev × Kind) := [(.sessClosed, .eof), (.inputErr, .ueof), (.timer, .timeout)]
/-- what `Session.writeChunk` returns for each event that ends its wait -/
def writeKinds : List (Ev × Kind) := [(.sessClosed, .eof), (.outputErr, .closedpipe), (.timer, .timeout)]

/-- the (event, kind) pairs of select `ord` of `fn` read off the regenerated clause table -/
def kindsOf (tbl : List (String × Nat × String × String)) (fn : String) (ord : Nat) : List (Ev × Kind) :=
  (tbl.filter fun (f, o, _, r) => f == fn && o == ord && r != "").map fun (f, _, ch, r) => (evOf f ch, kindOfReturn r)

/-- `a` occurs in `l`, and some occurrence of `b` comes after the first `a` -/
def after (l : List String) (a b : String) : Bool :=
  match l.findIdx? (· == a) with
  | none => false
  | some i => (l.drop (i + 1)).contains b

/-- top-level statements of a closing function in the regenerated table `closeBodies` -/
def bodyOf (tbl : List (String × List String × List String)) (fn : String) : List String :=
  match tbl.find? (·.1 == fn) with
  | some (_, items, _) => items
  | none => []

/-- the `x.Wait()` calls of a closing function in the regenerated table `closeBodies` -/
def waitsOf (tbl : List (String × List String × List String)) (fn : String) : List String :=
  match tbl.find? (·.1 == fn) with
  | some (_, _, w) => w
  | none => []

/-! ## 2. `closeWithError` run by `n` concurrent closers -/

/-- number of steps the CAS winner takes after the CAS: queue the close request, up to 1000 polls of
    `lastSend`, direct output, `DeleteAll` ×2, `forwardStateTo(sessionClosed)`; then `close(closedChan)` -/
def winnerSteps : Nat := 1006

inductive PC
  | start            -- before `closeRequested.CompareAndSwap(false, true)`
  | won (k : Nat)    -- CAS succeeded; `k` steps left before `close(s.closedChan)`
  | done             -- returned
deriving DecidableEq, Repr

structure Sys where
  requested : Bool   -- `closeRequested`
  closes : Nat       -- how many times `close(s.closedChan)` executed (2 would panic)
  pcs : List PC
deriving DecidableEq, Repr

def initSys (n : Nat) : Sys := ⟨false, 0, List.replicate n .start⟩

/-- closer `i` takes one atomic step.  A winner with `k+1` steps left may skip ahead (the poll loop
    exits as soon as the close request has left): it moves to any `j ≤ k`. -/
inductive CStep : Sys → Sys → Prop
  | casWin (s : Sys) (i : Nat) (h : s.pcs[i]? = some .start) (hr : s.requested = false) :
      CStep s { s with requested := true, pcs := s.pcs.set i (.won winnerSteps) }
  | casLose (s : Sys) (i : Nat) (h : s.pcs[i]? = some .start) (hr : s.requested = true) :
      CStep s { s with pcs := s.pcs.set i .done }
  | work (s : Sys) (i k j : Nat) (h : s.pcs[i]? = some (.won (k + 1))) (hj : j ≤ k) :
      CStep s { s with pcs := s.pcs.set i (.won j) }
  | closeChan (s : Sys) (i : Nat) (h : s.pcs[i]? = some (.won 0)) :
      CStep s { s with closes := s.closes + 1, pcs := s.pcs.set i .done }

inductive CReach (n : Nat) : Sys → Prop
  | init : CReach n (initSys n)
  | step {s t : Sys} : CReach n s → CStep s t → CReach n t

def allDone (s : Sys) : Prop := ∀ p ∈ s.pcs, p = .done

/-- executable scheduler: `sched` lists which closer moves next (indices taken modulo `n`; a closer
    that has returned is skipped).  Used by the driver to compare with real concurrent closers. -/
def stepIdx (s : Sys) (i : Nat) : Sys :=
  match s.pcs[i]? with
  | some .start =>
    if s.requested then { s with pcs := s.pcs.set i .done }
    else { s with requested := true, pcs := s.pcs.set i (.won winnerSteps) }
  | some (.won (k + 1)) => { s with pcs := s.pcs.set i (.won k) }
  | some (.won 0) => { s with closes := s.closes + 1, pcs := s.pcs.set i .done }
  | _ => s

def runSched (s : Sys) : List Nat → Sys
  | [] => s
  | i :: is => runSched (stepIdx s (if s.pcs.length = 0 then 0 else i % s.pcs.length)) is

/-- run every closer to completion, round robin -/
def finish (s : Sys) : Sys :=
  runSched s ((List.range ((winnerSteps + 2) * s.pcs.length)).flatMap fun _ => List.range s.pcs.length)

/-- sequential semantics of the three `Close` methods (what one call does when it runs alone) -/
structure Obj where
  sessClosed : Bool     -- closeRequested ∧ closedChan closed
  sessCloses : Nat
  underlayDone : Bool
  underlayCloses : Nat  -- how many times `close(b.done)` executed
  muxDone : Bool
  muxCloses : Nat
deriving DecidableEq, Repr

def closeSession (o : Obj) : Obj :=
  if o.sessClosed then o else { o with sessClosed := true, sessCloses := o.sessCloses + 1 }

/-- `StreamUnderlay.Close` / `PacketUnderlay.Close`: under `closeMutex`, return if `done` is closed,
    else close the sessions and `done` -/
def closeUnderlay (o : Obj) : Obj :=
  if o.underlayDone then o
  else { closeSession o with underlayDone := true, underlayCloses := o.underlayCloses + 1 }

/-- `Mux.Close`: under `mu`, return if `done` is closed, else close `done` and every underlay -/
def closeMux (o : Obj) : Obj :=
  if o.muxDone then o
  else { closeUnderlay o with muxDone := true, muxCloses := o.muxCloses + 1 }

/-! ## 3. History acceptor -/

inductive Side | client | server
deriving DecidableEq, Repr

def Side.other : Side → Side
  | .client => .server
  | .server => .client

inductive OpKind | read | write | close | muxClose
deriving DecidableEq, Repr

/-- one observed call.  Times are milliseconds on the scenario clock; for `kind = blocked`, `ret` is
    the instant the harness stopped watching (the call had not returned by then). -/
structure Call where
  op : OpKind
  side : Side
  sess : Nat
  start : Nat
  ret : Nat
  kind : Kind
  n : Nat
deriving DecidableEq, Repr

structure DlSet where
  side : Side
  sess : Nat
  rd : Bool         -- applies to reads
  wr : Bool         -- applies to writes
  when : Nat        -- when the call was made
  deadline : Nat    -- absolute, 0 = cleared
deriving DecidableEq, Repr

structure Hist where
  udp : Bool
  bound : Nat       -- a woken call must have returned this long after the wake event (ms)
  prop : Nat        -- allowance for a close to travel to the other end (ms)
  eps : Nat         -- clock tolerance for "not before the deadline" (ms)
  fault : Option Nat  -- instant of the injected underlay failure (TCP reset / UDP black hole)
  calls : List Call
  dls : List DlSet
  /-- the side at which an application has stopped reading a connection whose queues are full (TCP):
      the event loop of that side's underlay may be parked in `deliverSegmentToSession` (see §4) -/
  stall : Option Side := none
deriving Repr

/-- a wake cause for the session-level waits of one end of one session: when it started, and from
    when on the model guarantees that `closedChan` of that end is closed (`none`: no guarantee) -/
structure Cause where
  start : Nat
  sure : Option Nat
deriving Repr

def noFaultBefore (h : Hist) (t : Nat) : Bool :=
  match h.fault with
  | none => true
  | some f => t < f

/-- latest return among the local `Close` calls that can have won the CAS: those that started before
    the first of them returned (a loser returns only after the winner's CAS) -/
def localCloseSure (cs : List Call) : Option Nat :=
  match cs with
  | [] => none
  | c :: rest =>
    let minRet := rest.foldl (fun m x => min m x.ret) c.ret
    some (((c :: rest).filter fun x => x.start ≤ minRet).foldl (fun m x => max m x.ret) 0)

/-- does news from the network reach the sessions of this side?  Not while its TCP event loop is
    parked behind a connection whose application has stopped reading (§4). -/
def hearsNetwork (h : Hist) (side : Side) : Bool := h.udp || h.stall != some side

def causes (h : Hist) (side : Side) (sess : Nat) : List Cause :=
  let okc := h.calls.filter fun c => c.kind == .ok
  let localClose := okc.filter fun c => c.op == .close && c.side == side && c.sess == sess
  let peerClose := okc.filter fun c => c.op == .close && c.side == side.other && c.sess == sess
  let localMux := okc.filter fun c => c.op == .muxClose && c.side == side
  let peerMux := okc.filter fun c => c.op == .muxClose && c.side == side.other
  -- a Close that is still running (blocked) has at least requested the close
  let pending := (h.calls.filter fun c => c.kind == .blocked && (c.op == .close || c.op == .muxClose)).map
    fun c => ({ start := c.start, sure := none } : Cause)
  (match localCloseSure localClose with
    | none => []
    | some g => [{ start := (localClose.foldl (fun m x => min m x.start) g), sure := some g }]) ++
  (localMux.map fun c => { start := c.start, sure := some c.ret }) ++
  (peerClose.map fun c => { start := c.start, sure := if noFaultBefore h c.ret && hearsNetwork h side then some (c.ret + h.prop) else none }) ++
  (peerMux.map fun c => { start := c.start, sure := if noFaultBefore h c.ret && hearsNetwork h side then some (c.ret + h.prop) else none }) ++
  (match h.fault with
    | none => []
    | some f => [{ start := f, sure := if h.udp || !hearsNetwork h side then none else some (f + h.prop) }]) ++
  pending

/-- a timeout needs a deadline: one set by the application on that end for that direction, or (reads
    of a client) the implicit 10 s after a write -/
def timeoutExplained (h : Hist) (c : Call) : Bool :=
  (h.dls.any fun d => d.side == c.side && d.sess == c.sess && d.deadline != 0 && d.when ≤ c.ret &&
      d.deadline ≤ c.ret + h.eps && (if c.op == .read then d.rd else d.wr)) ||
  (c.op == .read && c.side == .client &&
    h.calls.any fun w => w.op == .write && w.side == .client && w.sess == c.sess && w.start ≤ c.ret &&
      w.start + 10000 ≤ c.ret + h.eps)

/-- is this observed call explained by the blocking model? -/
def checkCall (h : Hist) (c : Call) : Bool :=
  match c.op with
  | .close | .muxClose => c.kind == .ok && c.ret ≤ c.start + h.bound
  | .read | .write =>
    let cs := causes h c.side c.sess
    match c.kind with
    | .eof | .closedpipe | .ueof => cs.any fun k => k.start ≤ c.ret
    | .timeout => timeoutExplained h c
    | .blocked => cs.all fun k => match k.sure with
        | none => true
        | some g => c.ret ≤ max g c.start + h.bound
    | _ => true

/-- a history with the tolerances the harness uses (bound 15 s, propagation 2 s, clock 50 ms) -/
def hist (udp : Bool) (calls : List Call) (stall : Option Side := none) : Hist := ⟨udp, 15000, 2000, 50, none, calls, [], stall⟩

/-- index of the first call the model cannot explain -/
def firstRejected (h : Hist) : Option Nat := h.calls.findIdx? fun c => !checkCall h c

def acceptHist (h : Hist) : Bool := h.calls.all (checkCall h)

/-! ## 4. The event loop of a stream underlay: reading the network, or parked behind one session

`StreamUnderlay.RunEventLoop` alternates between `readOneSegment` (parked in `conn.Read`: woken by
data, by the end or the loss of the connection, and by the pokes of `Close`) and
`deliverSegmentToSession` (parked on `s.recvChan <- seg` of ONE session: woken by a free slot, by that
session's `closedChan`, by the underlay's `done`).  While it is parked there it does not read, so the
end or loss of the TCP connection is not noticed, and the sessions of the other connections
multiplexed on the underlay are not closed. -/

inductive LoopAt
  | reading
  | delivering (sess : Nat)
deriving DecidableEq, Repr

/-- one side of one TCP underlay -/
structure USt where
  loop : LoopAt
  netLost : Bool            -- the connection was reset, or closed by the other side
  underlayDone : Bool
  sessClosed : List Bool    -- per connection of the underlay: `closedChan` is closed
  appReads : List Bool      -- per connection: the application keeps reading (its queues drain)
deriving DecidableEq, Repr

/-- the delivery to connection `i` completes or is abandoned: the underlay or the session is closed,
    or its application keeps reading -/
def deliverable (u : USt) (i : Nat) : Bool :=
  u.underlayDone || u.sessClosed.getD i false || u.appReads.getD i false

/-- one step of the event loop, `none` = parked -/
def loopStep (u : USt) : Option USt :=
  match u.loop with
  | .reading =>
    if u.underlayDone then none
    else if u.netLost then
      -- readOneSegment fails, RunEventLoop returns, the mux goroutine calls underlay.Close()
      some { u with underlayDone := true, sessClosed := u.sessClosed.map fun _ => true }
    else none
  | .delivering i =>
    if deliverable u i then some { u with loop := .reading } else none

/-- run the loop until it parks (fuel 3 is enough: deliver → read → close) -/
def runLoop : Nat → USt → USt
  | 0, u => u
  | n + 1, u => match loopStep u with
    | none => u
    | some u' => runLoop n u'

/-- the connection is lost; what the loop does about it -/
def afterLoss (u : USt) : USt := runLoop 3 { u with netLost := true }

def allReleased (u : USt) : Bool := u.sessClosed.all id

end Mieru.Blocking
