/-!
# uint32 sequence numbers (pkg/protocol/session.go, segment.go)

The code holds `nextSend`, `nextRecv`, a segment's `seq` and `unAckSeq` as `uint32` and compares them with the
plain `<`, `<=`, `==` of Go (`seq < unAckSeq` in the discard loops of `inputAck` / `inputData`,
`seq < nextRecv`, `seq <= nextRecv` in `input` / `moveRecvBufToRecvQueue`). The models (`Mieru.Arq`,
`Mieru.Flow`, `Mieru.SegTree`) use unbounded `Nat`. `nextSend` is incremented once per numbered segment, so its
unbounded value is the number of segments created so far in this direction of the session; the code stores
`u32` of it.

A serial-number comparison (RFC 1982 style: `a` before `b` iff `0 < (b − a) mod 2^32 < 2^31`) would order
correctly any two numbers less than 2^31 apart; the session's live numbers (sendBuf ∪ sendQueue ∪ recvBuf, each
of capacity `segmentTreeCapacity` = 4096) span far less than that, so it would survive wraps. The code does not
use one, and its segment trees are keyed by the plain uint32 as well.
-/
namespace Mieru.SeqWrap

def wrapAt : Nat := 2 ^ 32

/-- what a uint32 variable holds when the unbounded counter is `n` -/
def u32 (n : Nat) : Nat := n % wrapAt

/-- the code's comparisons, on the stored values -/
def ltCode (a b : Nat) : Bool := decide (u32 a < u32 b)
def leCode (a b : Nat) : Bool := decide (u32 a ≤ u32 b)
def eqCode (a b : Nat) : Bool := decide (u32 a = u32 b)

/-- the discard predicate of `inputAck` / `inputData`: `seq < unAckSeq` -/
def discardCode (seq unAck : Nat) : Bool := ltCode seq unAck
/-- the stale-segment guard of the receiver: `seq < nextRecv` -/
def staleCode (seq nextRecv : Nat) : Bool := ltCode seq nextRecv

/-- serial-number "before", for the doc comment above (not used by the code) -/
def serialLt (a b : Nat) : Bool := decide (0 < (u32 b + wrapAt - u32 a) % wrapAt ∧ (u32 b + wrapAt - u32 a) % wrapAt < 2 ^ 31)

end Mieru.SeqWrap
