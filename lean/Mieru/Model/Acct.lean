import Mieru.Model.Quota
/-!
# Session-level accounting (C19): `Session.Read` / `Session.Write` / `Session.input` on SERVER sessions

A transition system over the receive side of every server session (`recvQueue`, `unreadBuf`), its
owner (the user name of the cipher block that authenticated its segments), its close status, and the
process-wide registry of per-user `UploadBytes` / `DownloadBytes` time-series counters
(`Mieru.Counter`) that `checkQuota` (`Mieru.Quota`) reads.

```go
// Session.Read, after the deadline set-up; `len(b) == 0` returned `0, nil` before
for {
    if len(s.unreadBuf) > 0 {
        copied := copy(b[n:], s.unreadBuf); n += copied
        if copied == len(s.unreadBuf) { s.unreadBuf = nil } else { s.unreadBuf = s.unreadBuf[copied:] }
        if n == len(b) || len(s.unreadBuf) > 0 { break }
    }
    if s.recvQueue.Len() > 0 {
        seg, _ := s.recvQueue.DeleteMin()
        copied := copy(b[n:], seg.payload); n += copied
        if copied < len(seg.payload) { s.unreadBuf = seg.payload[copied:] }
        if n == len(b) { break }
    } else {
        if n > 0 { break }
        select { closed → return 0, io.EOF | inputErr → 0, ErrUnexpectedEOF | deadline → 0, ErrTimeout | notEmpty → continue }
    }
}
if !s.isClient && s.uploadBytes != nil { s.uploadBytes.Add(int64(n)) }
return n, nil

// Session.Write (server side; the client-only open-request part is skipped)
if s.closeRequested.Load() { return 0, io.ErrClosedPipe } ... state checks ...
for len(b) > 0 {
    sizeToSend := mathext.Min(len(b), maxPDU)
    if sent, err := s.writeChunk(b[:sizeToSend]); sent == 0 || err != nil {
        if !s.isClient && s.downloadBytes != nil { s.downloadBytes.Add(int64(n)) }   // the round-3 `fix:`
        return n, err
    }
    b = b[sizeToSend:]; n += sizeToSend
}
if !s.isClient && s.downloadBytes != nil { s.downloadBytes.Add(int64(n)) }
return n, nil
```
`Session.input` (server): a segment whose cipher block names a user different from the session's
block user PANICS; the first authenticated segment stores the block, fixes `UserName()` and registers
`user - <name>` / `UploadBytes`, `DownloadBytes` (`RegisterMetric` returns the existing metric when the
group already has one); `inputData`: an open-session request on an attached session evaluates
`checkQuota` BEFORE anything is queued and on refusal sets `statusQuotaExhausted`, closes and returns;
otherwise the payload goes to `recvQueue` and an open request moves the session to established.

Out of the model (other properties): reordering/loss below `recvQueue` (C01/C02: segments reach the
queue in order, once), client sessions (the two `Add` calls are guarded by `!s.isClient`; tied as a
regenerated fact), the wall clock (one explicit `now` per operation), int64 wrap-around.
Core Lean only.
-/
namespace Mieru.Acct
open Mieru.Counter Mieru.Quota

abbrev Bytes := List UInt8

/-- what the `for` loop of `Session.Read` leaves behind -/
structure ReadRes where
  /-- `b[:n]` -/
  got : Bytes
  unread : Bytes
  queue : List Bytes
  /-- the loop reached its `select` (nothing copied, queue empty): the call returns `0, err` or waits -/
  blocked : Bool
deriving Repr, DecidableEq

/-- the loop from an iteration whose `unreadBuf` is empty; `got = b[:n]` -/
def drainQueue (cap : Nat) (got : Bytes) : List Bytes → ReadRes
  | [] => ⟨got, [], [], got.isEmpty⟩
  | seg :: rest =>
    let room := cap - got.length
    let got' := got ++ seg.take room
    if seg.length ≤ room then
      -- copied == len(seg.payload): unreadBuf stays nil
      if got'.length = cap then ⟨got', [], rest, false⟩ else drainQueue cap got' rest
    else
      -- copied < len(seg.payload): the rest of the payload is kept, and n == len(b)
      ⟨got', seg.drop room, rest, false⟩

/-- the whole loop, for `cap = len(b) ≥ 1` -/
def readLoop (cap : Nat) (unread : Bytes) (queue : List Bytes) : ReadRes :=
  if unread ≠ [] then
    -- copied = min(cap, len(unreadBuf)); `n == len(b) || len(s.unreadBuf) > 0` → break
    if (unread.take cap).length = cap ∨ unread.drop cap ≠ [] then ⟨unread.take cap, unread.drop cap, queue, false⟩
    else drainQueue cap (unread.take cap) queue
  else drainQueue cap [] queue

def stAttached : Nat := 1
def stEstablished : Nat := 2
def stClosed : Nat := 3

/-- a server session -/
structure Sess where
  /-- user name of the stored cipher block (`none`: no authenticated segment yet); this is also
      `UserName()` and the user the session's two counters were registered for -/
  block : Option String
  state : Nat
  closeRequested : Bool
  /-- 0 = OK, `statusQuotaExhausted` = 1 -/
  status : Nat
  queue : List Bytes
  unread : Bytes
deriving Repr, DecidableEq

def Sess.fresh : Sess := ⟨none, stAttached, false, 0, [], []⟩

/-- `(UploadBytes, DownloadBytes)` of one user's metric group -/
abbrev Pair := Counter × Counter

/-- the registry: `user - <name>` → its two counters, `none` = group not registered. (A structure
    around the lookup function: every update below returns DATA, so the compiled driver evaluates it
    once, when the operation happens.) -/
structure Reg where
  get : String → Option Pair

structure World where
  sess : List Sess
  metrics : Reg
  policies : String → Option Policy

def World.empty (policies : String → Option Policy) : World := ⟨[], ⟨fun _ => none⟩, policies⟩

/-- what `checkQuota` sees -/
def World.server (w : World) : Server :=
  { policies := w.policies, metrics := fun u => (w.metrics.get u).map fun p => ⟨p.1.hist, p.2.hist⟩ }

def setMetrics (m : Reg) (u : String) (p : Pair) : Reg :=
  ⟨fun x => if x = u then some p else m.get x⟩

def setSess (l : List Sess) (i : Nat) (s : Sess) : List Sess := l.set i s

inductive Op where
  /-- a new server session is attached to an underlay -/
  | newSess
  /-- a client-to-server segment authenticated as `user` reaches `input` (`isOpen`: open-session
      request, else data) -/
  | input (i : Nat) (user : String) (isOpen : Bool) (payload : Bytes) (now : Int)
  /-- the application calls `Read` with a buffer of `cap` bytes -/
  | read (i : Nat) (cap : Nat) (now : Int)
  /-- the application calls `Write` with `len` bytes; the environment lets the first `okChunks`
      `writeChunk` calls succeed -/
  | write (i : Nat) (len : Nat) (okChunks : Nat) (now : Int)
  | close (i : Nat)
deriving Repr

/-- what the outside sees -/
inductive Ev where
  /-- `input` queued this payload for the application -/
  | queued (i : Nat) (payload : Bytes)
  /-- `Read` returned these bytes to the application (`[]`: `0, nil` or `0, err`) -/
  | readRet (i : Nat) (bytes : Bytes)
  /-- `Write` returned `n` (accepted from the application) -/
  | writeRet (i : Nat) (n : Nat)
  /-- the open request was refused for quota: status set, session closed, nothing queued -/
  | refused (i : Nat)
  /-- `input` panicked: cipher block user name mismatch -/
  | panicked (i : Nat)
deriving Repr, DecidableEq

def maxPDU : Nat := 32768

/-- `n` returned by `Write(len)` when the first `okChunks` chunks are accepted -/
def writeN (len okChunks : Nat) : Nat :=
  if (len + maxPDU - 1) / maxPDU ≤ okChunks then len else okChunks * maxPDU

/-- registration in `input`: `RegisterMetric` twice (existing counters are returned as they are) -/
def register (m : Reg) (u : String) : Reg :=
  match m.get u with
  | some _ => m
  | none => setMetrics m u (Counter.new true, Counter.new true)

def addUp (m : Reg) (u : String) (n : Nat) (now : Int) : Reg :=
  match m.get u with
  | some p => setMetrics m u (Counter.add p.1 n now, p.2)
  | none => m

def addDown (m : Reg) (u : String) (n : Nat) (now : Int) : Reg :=
  match m.get u with
  | some p => setMetrics m u (p.1, Counter.add p.2 n now)
  | none => m

/-- the session after `input` queued the payload (an open request moves an attached session on) -/
def acceptedSess (s : Sess) (user : String) (isOpen : Bool) (payload : Bytes) : Sess :=
  { s with block := some user, queue := s.queue ++ [payload],
           state := if isOpen = true ∧ s.state = stAttached then stEstablished else s.state }

/-- the session after `inputData` refused the open request: status set, closed, nothing queued -/
def refusedSess (s : Sess) (user : String) : Sess :=
  { s with block := some user, status := statusQuotaExhausted, closeRequested := true, state := stClosed }

/-- the block-user-name assertions of `input` -/
def inputPanics (s : Sess) (user : String) : Prop :=
  s.block.isSome = true ∧ (s.block = some "" ∨ user = "" ∨ s.block ≠ some user)

instance (s : Sess) (user : String) : Decidable (inputPanics s user) := by unfold inputPanics; infer_instance

/-- `input` (and `inputData`) on session `i = s` -/
def inputOn (w : World) (i : Nat) (s : Sess) (user : String) (isOpen : Bool) (payload : Bytes) (now : Int) :
    World × List Ev :=
  if s.state = stClosed then (w, [])            -- the input loop is gone
  else if inputPanics s user then (w, [.panicked i])
  else if isOpen = true ∧ s.state = stAttached ∧
      refused (World.server { w with metrics := register w.metrics user }) user now = true then
    -- the quota is evaluated (on the registry as it is after the registration) BEFORE anything is queued
    ({ w with sess := setSess w.sess i (refusedSess s user), metrics := register w.metrics user }, [.refused i])
  else
    ({ w with sess := setSess w.sess i (acceptedSess s user isOpen payload), metrics := register w.metrics user },
     [.queued i payload])

/-- the receive side after the loop of `Read` -/
def afterRead (s : Sess) (cap : Nat) : Sess :=
  { s with unread := (readLoop cap s.unread s.queue).unread, queue := (readLoop cap s.unread s.queue).queue }

/-- `Read(b)` with `len(b) = cap` on session `i = s` -/
def readOn (w : World) (i : Nat) (s : Sess) (cap : Nat) (now : Int) : World × List Ev :=
  if cap = 0 then (w, [.readRet i []])
  else if (readLoop cap s.unread s.queue).blocked = true then
    ({ w with sess := setSess w.sess i (afterRead s cap) }, [.readRet i []])
  else
    ({ w with sess := setSess w.sess i (afterRead s cap),
              metrics := match s.block with
                | some u => addUp w.metrics u (readLoop cap s.unread s.queue).got.length now
                | none => w.metrics },
     [.readRet i (readLoop cap s.unread s.queue).got])

/-- `Write(b)` with `len(b) = len` on session `i = s` -/
def writeOn (w : World) (i : Nat) (s : Sess) (len okChunks : Nat) (now : Int) : World × List Ev :=
  if s.closeRequested = true ∨ s.state = stClosed then (w, [.writeRet i 0])
  else
    ({ w with metrics := match s.block with
                | some u => addDown w.metrics u (writeN len okChunks) now
                | none => w.metrics },
     [.writeRet i (writeN len okChunks)])

def closeOn (w : World) (i : Nat) (s : Sess) : World × List Ev :=
  ({ w with sess := setSess w.sess i { s with closeRequested := true, state := stClosed } }, [])

def step (w : World) : Op → World × List Ev
  | .newSess => ({ w with sess := w.sess ++ [Sess.fresh] }, [])
  | .input i user isOpen payload now =>
    match w.sess[i]? with
    | none => (w, [])
    | some s => inputOn w i s user isOpen payload now
  | .read i cap now =>
    match w.sess[i]? with
    | none => (w, [])
    | some s => readOn w i s cap now
  | .write i len okChunks now =>
    match w.sess[i]? with
    | none => (w, [])
    | some s => writeOn w i s len okChunks now
  | .close i =>
    match w.sess[i]? with
    | none => (w, [])
    | some s => closeOn w i s

/-- run a history of operations; the trace is in chronological order -/
def run (w : World) : List Op → World × List Ev
  | [] => (w, [])
  | o :: rest =>
    let r := step w o
    let r' := run r.1 rest
    (r'.1, r.2 ++ r'.2)

/-! ## observables of a trace -/

def bytesRead (i : Nat) : List Ev → Bytes
  | [] => []
  | .readRet j b :: r => if j = i then b ++ bytesRead i r else bytesRead i r
  | _ :: r => bytesRead i r

def bytesQueued (i : Nat) : List Ev → Bytes
  | [] => []
  | .queued j b :: r => if j = i then b ++ bytesQueued i r else bytesQueued i r
  | _ :: r => bytesQueued i r

/-- the user a session is owned by at the end (`none`: never authenticated) -/
def owner (w : World) (i : Nat) : Option String := (w.sess[i]?).bind (·.block)

/-- bytes handed to the applications of the sessions owned by `u` -/
def readBy (own : Nat → Option String) (u : String) : List Ev → Int
  | [] => 0
  | .readRet j b :: r => (if own j = some u then (b.length : Int) else 0) + readBy own u r
  | _ :: r => readBy own u r

/-- bytes accepted from the applications of the sessions owned by `u` -/
def writtenBy (own : Nat → Option String) (u : String) : List Ev → Int
  | [] => 0
  | .writeRet j n :: r => (if own j = some u then (n : Int) else 0) + writtenBy own u r
  | _ :: r => writtenBy own u r

/-- every `Write` in the history happens on a session that has already processed an authenticated
    segment (its counters are registered) -/
def WritesAuth (w : World) : List Op → Prop
  | [] => True
  | o :: rest =>
    (match o with
     | .write i _ _ _ => ∀ s, w.sess[i]? = some s → s.block.isSome = true
     | _ => True) ∧ WritesAuth (step w o).1 rest

/-- the operation neither authenticates as `u` nor acts on a session owned by `u` -/
def foreignOp (w : World) (u : String) : Op → Prop
  | .newSess => True
  | .input _ user _ _ _ => user ≠ u
  | .read i _ _ => owner w i ≠ some u
  | .write i _ _ _ => owner w i ≠ some u
  | .close _ => True

/-- a history that is foreign to `u` throughout -/
def Foreign (w : World) (u : String) : List Op → Prop
  | [] => True
  | o :: rest => foreignOp w u o ∧ Foreign (step w o).1 u rest

/-- a session refused for quota: closed with the quota status and holding nothing -/
def Dead (w : World) (i : Nat) : Prop :=
  ∃ s, w.sess[i]? = some s ∧ s.state = stClosed ∧ s.closeRequested = true ∧ s.queue = [] ∧ s.unread = [] ∧
    s.status = statusQuotaExhausted

end Mieru.Acct
