/-!
# Per-segment retransmission bookkeeping (pkg/protocol/session.go runOutputOncePacket / inputAck)

`txCount` counts transmissions of one segment, `ackCount` the duplicate acks seen since its last
transmission. A segment is retransmitted on timeout, or "early" when `ackCount ≥ earlyRetransmission`
and `txCount ≤ earlyLimit`; the session is abandoned when a segment with `txCount ≥ txLimit` is found
still unacknowledged.
-/
namespace Mieru.Retx

structure Seg where
  txCount : Nat := 0
  ackCount : Nat := 0
  early : Nat := 0      -- how many of the transmissions were duplicate-ack driven
  timeouts : Nat := 0   -- how many were timeout driven
deriving DecidableEq, Repr

inductive Ev where
  | first      -- first transmission
  | dupAck     -- an ack whose unAckSeq equals this segment's sequence number
  | scan (timedOut : Bool)   -- the periodic retransmission scan looks at this segment
deriving DecidableEq, Repr

def step (earlyRetx earlyLimit : Nat) (s : Seg) : Ev → Seg
  | .first => { s with txCount := s.txCount + 1 }
  | .dupAck => { s with ackCount := (s.ackCount + 1) % 256 }   -- `ackCount` is a `byte`: it wraps
  | .scan timedOut =>
    if s.ackCount ≥ earlyRetx ∧ s.txCount ≤ earlyLimit then
      { s with ackCount := 0, txCount := s.txCount + 1, early := s.early + 1 }
    else if timedOut then
      { s with ackCount := 0, txCount := s.txCount + 1, timeouts := s.timeouts + 1 }
    else s

def run (earlyRetx earlyLimit : Nat) (s : Seg) (es : List Ev) : Seg := es.foldl (step earlyRetx earlyLimit) s

end Mieru.Retx
