import Mieru.Model.Tamper
import Mieru.Model.Arq
import Mieru.Model.TamperKey
/-!
# The packet transport's receive path, end to end (Props/C04, packet section)

`PacketUnderlay.readOneSegment` (= `Tamper.parseD`) → the session dispatch of
`PacketUnderlay.RunEventLoop` → the direction test at the top of `Session.input` → the if-chain at its
end → `Session.inputData` = the receiver of the C02 sliding-window model (`Arq.recv`).

Everything here is a total function of the datagram's bytes; the attacker chooses the bytes.
Not modelled (the code rejects MORE, never less): the timestamp window of `Unmarshal`, the server's
replay cache, the source-address test of a client, the user-ownership test, a full receive window.
-/
namespace Mieru.Tamper
open Mieru

-- `Ids` (the identity fields of a metadata block, `metaIds`: protocol type, session id, sequence number)
-- is the structure of `Mieru.Model.TamperKey` (same namespace; the two halves of C04 were written in
-- parallel and had each declared it).

/-- protocol types a client / a server session lets through the first check of `Session.input`
    (pkg/protocol/session.go; tied to the source by `C04.direction_filter_is_the_codes`) -/
def clientAccepts : List Nat := [3, 7, 11, 9, 4, 5]
def serverAccepts : List Nat := [2, 6, 10, 8, 4, 5]

/-- the direction test at the top of `Session.input` -/
def validDirection (isClient : Bool) (proto : Nat) : Bool :=
  if isClient then clientAccepts.contains proto else serverAccepts.contains proto

/-- the if-chain at the end of `Session.input`: `inputData` for open request / open response / data,
    `inputAck`, `inputClose`, nothing -/
inductive InputKind where
  | data | ack | close | ignored
deriving DecidableEq, Repr

def inputKind (proto : Nat) : InputKind :=
  if proto = 2 ∨ proto = 3 ∨ proto = 6 ∨ proto = 7 ∨ proto = 10 ∨ proto = 11 then .data
  else if proto = 8 ∨ proto = 9 then .ack
  else if proto = 4 ∨ proto = 5 then .close
  else .ignored

/-- `PacketUnderlay.RunEventLoop`: is a parsed segment handed to the session numbered `sid` of this
    endpoint?  Session and data/ack segments are looked up by the session id they carry
    (`sessionMap.Load`); an open request is refused by a client (`onOpenSessionRequest`), an open
    response by a server (`onOpenSessionResponse`); types 0, 1 and > 11 are not handled at all.
    (A server drops a SECOND open request for an existing session id instead of handing it over; for the
    receive stream that is the same as handing over a stale duplicate of sequence number 0.) -/
def dispatched (isClient : Bool) (sid : Nat) (i : Ids) : Bool :=
  i.sid == sid &&
  (if i.proto = 2 then !isClient
   else if i.proto = 3 then isClient
   else decide (4 ≤ i.proto ∧ i.proto ≤ 11))

/-- the receiving end under consideration: one session of one endpoint -/
structure RxCfg where
  isClient : Bool
  sid : Nat
deriving DecidableEq, Repr

/-- `some seq`: the segment reaches `Session.inputData` of this session with sequence number `seq` -/
def route (c : RxCfg) (i : Ids) : Option Nat :=
  if dispatched c.isClient c.sid i && validDirection c.isClient i.proto && (inputKind i.proto == .data)
  then some i.seq else none

/-- One datagram handed to the receiving endpoint, whatever its bytes: parse (two AEAD opens under the
    datagram's nonce, exact size check), dispatch, direction test, and — for a data-bearing segment of
    this session — `Session.inputData` = `Arq.recv` (buffer unless stale, then drain in order).
    `ids` reads the identity fields off the metadata, `dig` is the content digest the C02 model works
    with (any function of the payload plaintext). The network copy the model consumes is put there first
    (the network may hold any number of copies of anything it has ever seen: `Arq.Step.dupData`). -/
def rxApply (ids : PMd → Ids) (dig : Bytes → Nat) (c : RxCfg) (s : Arq.St) : Option (PMd × Bytes) → Arq.St
  | none => s
  | some (m, p) =>
    match route c (ids m) with
    | none => s
    | some k => Arq.recv { s with netData := ⟨k, dig p⟩ :: s.netData } ⟨k, dig p⟩

def rxStep (openF : Bytes → Bytes → Option Bytes) (M : PCodec) (bd : PMd → Bytes → Option Bytes)
    (ids : PMd → Ids) (dig : Bytes → Nat) (c : RxCfg) (s : Arq.St) (b : Bytes) : Arq.St :=
  rxApply ids dig c s (parseD openF M bd b)

/-- a whole sequence of attacker-chosen datagrams, in the order the endpoint reads them -/
def rxRun (openF : Bytes → Bytes → Option Bytes) (M : PCodec) (bd : PMd → Bytes → Option Bytes)
    (ids : PMd → Ids) (dig : Bytes → Nat) (c : RxCfg) (s : Arq.St) (bs : List Bytes) : Arq.St :=
  bs.foldl (rxStep openF M bd ids dig c) s

/-! ## Hypotheses of the packet-transport theorems (stated here so that helper proofs can use them) -/

/-- the ideal AEAD relative to the honest sealing history of the genuine datagrams `G` -/
def IdealD (openF : Bytes → Bytes → Option Bytes) (sealF : Bytes → Bytes → Bytes) (M : PCodec) (G : List Dgram) : Prop :=
  ∀ n ct p, openF n ct = some p → honestD M G n p ∧ ct = sealF n p

/-- genuine datagrams are well formed: the metadata announces the payload's length, is representable,
    and has payload length zero exactly when there is no payload -/
def WfD (M : PCodec) (G : List Dgram) : Prop :=
  ∀ d ∈ G, d.md.plainLen = d.payload.length ∧ M.ok d.md = true ∧ (d.md.payloadLen = 0 ↔ d.payload = [])

/-- What happens to a payload's wire form before the AEAD open (`bd`: nothing, or the low-entropy decode
    for types 10/11) turns a wire body of the ANNOUNCED wire length into a ciphertext of the announced
    plaintext length + tag — for genuine metadata. For `bd = fun _ w => some w` this says
    `plainLen = payloadLen` (types 2..9); for the low-entropy decode it is `LowEntropy.decode`'s length
    law (Props/C17 `le_canonical`). -/
def BdLen (bd : PMd → Bytes → Option Bytes) (G : List Dgram) : Prop :=
  ∀ d ∈ G, ∀ w ct, w.length = d.md.payloadLen + 16 → bd d.md w = some ct → ct.length = d.md.plainLen + 16

/-- fresh nonces: no two genuine datagrams share one -/
def Fresh (G : List Dgram) : Prop := ∀ d1 ∈ G, ∀ d2 ∈ G, d1.nonce = d2.nonce → d1 = d2

/-- Domain separation between the two plaintexts sealed under one datagram's nonce — what the wire
    format would need and does not provide: (a) no payload plaintext parses as metadata, (b) no payload
    plaintext has the length of a metadata block (its ciphertext could be replaced by the metadata's). -/
def DomSep (M : PCodec) (G : List Dgram) : Prop :=
  (∀ d ∈ G, d.payload ≠ [] → M.dec d.payload = none) ∧ (∀ d ∈ G, d.payload.length ≠ 32)

/-- the wire form of a genuine datagram with paddings `pad1`, `pad2` (payload sent as it was sealed:
    types 2..9) -/
def wireD (sealF : Bytes → Bytes → Bytes) (M : PCodec) (d : Dgram) (pad1 pad2 : Bytes) : Bytes :=
  d.nonce ++ sealF d.nonce (M.enc d.md) ++ pad1 ++ (if d.payload = [] then [] else sealF d.nonce d.payload) ++ pad2

/-- an injective content code (bijective base-256 numeration): one possible `dig` -/
def bytesCode : Bytes → Nat
  | [] => 0
  | x :: xs => bytesCode xs * 256 + x.toNat + 1

end Mieru.Tamper
