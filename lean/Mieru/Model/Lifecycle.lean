import Mieru.Model.Blocking
import Mieru.Model.UnderlayClose
/-!
# Reading the regenerated lifecycle facts (Gen/FactsC15Life, Gen/FactsC15) as model parameters

* `shapeOf`: the `UClose.Shape` of the current source — is every place that arms a read timeout on an
  underlay's connection followed by a poll of `done`, does the underlay's `Close` wake the loop again
  after `done` is closed.
* `accounted`: a goroutine started by the transport is either counted in a wait group that a closing
  function of its owner waits for, or leaves on a channel that closing its owner fires.

The tables are parameters (models do not import `Gen`); Props/C15 instantiates them.
-/
namespace Mieru.Lifecycle
open Mieru.Blocking

def endsWith (s suf : String) : Bool := suf.toList.reverse.isPrefixOf s.toList.reverse

/-- last component of a channel expression: `"<-mux.done"`, `"m.done"` ↦ `"done"` -/
def fieldOf (s : String) : List Char := (s.toList.reverse.takeWhile (· != '.')).reverse

/-- the shape of the source as far as the underlay transition system branches on it -/
def shapeOf (armSites : List (String × String × Bool)) (closeBodies : List (String × List String × List String)) : UClose.Shape :=
  let reads := armSites.filter fun x => endsWith x.1 ".readOneSegment"
  let others := armSites.filter fun x => !endsWith x.1 ".readOneSegment"
  { checkAfterArm := reads.length == 2 && reads.all (·.2.2)
    drainChecked := others.all (·.2.2)
    pokeAfterDone :=
      after (bodyOf closeBodies "StreamUnderlay.Close") "t.baseUnderlay.Close()" "t.conn.SetReadDeadline(time.Now())" &&
      after (bodyOf closeBodies "PacketUnderlay.Close") "u.baseUnderlay.Close()" "u.conn.SetReadDeadline(time.Now())" }

structure GoStart where
  owner : String
  started : String
  addWG : String
  addN : Nat
  dones : List String
  exits : List String
deriving DecidableEq, Repr

def goOf (t : String × String × String × Nat × List String × List String) : GoStart :=
  ⟨t.1, t.2.1, t.2.2.1, t.2.2.2.1, t.2.2.2.2.1, t.2.2.2.2.2⟩

/-- closing the owner fires this channel for good: some `Close` / `closeWithError` of the package closes a
    channel field of that name, or it is the master context and `Mux.Close` cancels it -/
def firedByClose (closeCalls : List (String × String)) (closeBodies : List (String × List String × List String)) (ch : String) : Bool :=
  (closeCalls.any fun x => (endsWith x.1 ".Close" || x.1 == "Session.closeWithError") && fieldOf x.2 == fieldOf ch) ||
  (ch == "<-ctx.Done()" && (bodyOf closeBodies "Mux.Close").contains "m.ctxCancelFunc()")

/-- some closing function waits for this wait group -/
def waitedByClose (closeBodies : List (String × List String × List String)) (wg : String) : Bool :=
  closeBodies.any fun x => x.2.2.contains (wg ++ ".Wait()")

def accounted (closeCalls : List (String × String)) (closeBodies : List (String × List String × List String)) (g : GoStart) : Bool :=
  (g.addWG != "" && g.dones.contains g.addWG && waitedByClose closeBodies g.addWG) ||
  g.exits.any (firedByClose closeCalls closeBodies)

/-- the count given to `Add` is the number of goroutines started after it (in that function) that
    `Done` that wait group -/
def countsOk (gs : List GoStart) : Bool :=
  gs.all fun g => g.addWG == "" ||
    g.addN == (gs.filter fun h => h.owner == g.owner && h.addWG == g.addWG &&
      (h.dones.contains h.addWG || h.dones.contains ("&" ++ h.addWG))).length

end Mieru.Lifecycle
