/-!
# `segmentTree` (pkg/protocol/segment.go): the container behind sendQueue, sendBuf, recvBuf, recvQueue

A B-tree of segments ordered by sequence number with a capacity. Functional model: a list of
`(seq, value)` pairs in strictly increasing order of `seq`.

Faithful to the code, including what is surprising about it:
* `Insert` fails when `Len() ≥ cap` BEFORE looking at the key, so replacing an existing entry of a full
  tree fails too; otherwise it is `ReplaceOrInsert` (an entry with the same `seq` is replaced).
* `DeleteMinIf` returns the minimum and whether it was deleted (the minimum is returned either way).
* `Ascend` visits entries in increasing order until the callback returns `false` (that entry is visited).
-/
namespace Mieru.SegTree

structure T (α : Type) where
  cap : Nat
  items : List (Nat × α)
deriving Repr

variable {α : Type}

def empty (cap : Nat) : T α := ⟨cap, []⟩

/-- `ReplaceOrInsert` on the sorted list -/
def insertSorted (k : Nat) (v : α) : List (Nat × α) → List (Nat × α)
  | [] => [(k, v)]
  | (k', v') :: rest =>
    if k < k' then (k, v) :: (k', v') :: rest
    else if k = k' then (k, v) :: rest
    else (k', v') :: insertSorted k v rest

/-- `Insert`: `(tree, ok)` -/
def insert (t : T α) (k : Nat) (v : α) : T α × Bool :=
  if t.cap ≤ t.items.length then (t, false) else ({ t with items := insertSorted k v t.items }, true)

/-- `DeleteMin`: `(tree, removed entry)` -/
def deleteMin (t : T α) : T α × Option (Nat × α) :=
  match t.items with
  | [] => (t, none)
  | x :: rest => ({ t with items := rest }, some x)

/-- `DeleteMinIf`: `(tree, minimum, deleted)` -/
def deleteMinIf (t : T α) (p : Nat × α → Bool) : T α × Option (Nat × α) × Bool :=
  match t.items with
  | [] => (t, none, false)
  | x :: rest => if p x then ({ t with items := rest }, some x, true) else (t, some x, false)

/-- `Ascend`: the entries the callback is called on -/
def ascend (t : T α) (f : Nat × α → Bool) : List (Nat × α) :=
  let rec go : List (Nat × α) → List (Nat × α)
    | [] => []
    | x :: rest => if f x then x :: go rest else [x]
  go t.items

def deleteAll (t : T α) : T α := { t with items := [] }
def len (t : T α) : Nat := t.items.length
def remaining (t : T α) : Nat := t.cap - t.items.length
def minSeq (t : T α) : Option Nat := t.items.head?.map (·.1)
def maxSeq (t : T α) : Option Nat := t.items.getLast?.map (·.1)

/-- the loop `for { _, deleted := DeleteMinIf(seq < a); if !deleted { break } }` of `inputAck` / `inputData`
    (fuel = number of entries + 1) -/
def discardBelow (t : T α) (a : Nat) : T α := { t with items := t.items.dropWhile (fun x => x.1 < a) }

/-- the same loop written with `deleteMinIf`, as the code runs it -/
def discardLoop (a : Nat) : Nat → T α → T α
  | 0, t => t
  | fuel+1, t =>
    match deleteMinIf t (fun x => x.1 < a) with
    | (t', _, true) => discardLoop a fuel t'
    | (_, _, false) => t

/-- well-formed: strictly increasing sequence numbers, at most `cap` entries -/
def WF (t : T α) : Prop := t.items.Pairwise (fun a b => a.1 < b.1) ∧ t.items.length ≤ t.cap

end Mieru.SegTree
