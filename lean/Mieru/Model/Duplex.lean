import Mieru.Model.Arq
/-!
# UDP session open handshake: two directions coupled (pkg/protocol/session.go)

A proxy connection is two `Arq` streams: client→server (`c`) and server→client (`s`).
In both, sequence number 0 is the session-control segment (openSessionRequest resp.
openSessionResponse); application data starts at 1. Coupling (packet transport):

* the server creates its side — and queues the open response, its segment 0 — only once the open
  request has arrived (`Session.inputData`: "Server needs to send open session response");
* the client defers data until the open response arrives (`shouldDeferNextPacketData` /
  `isClientPacketSessionOpening`): while opening, only segment 0 may be (re)transmitted.

Every step of the coupled system is a step of one of the two `Arq` systems, so all safety
invariants of `Mieru.Arq` hold for each direction; what is new is progress through the handshake
under loss of the open request, the open response, or any other datagram.
-/
namespace Mieru.Duplex
open Mieru.Arq

structure St where
  c : Arq.St      -- client → server
  s : Arq.St      -- server → client
deriving DecidableEq, Repr

def init : St := ⟨Arq.init, Arq.init⟩

/-- the client has seen the open response -/
def established (d : St) : Prop := 1 ≤ d.s.nextRecv
/-- the server has seen the open request -/
def serverHasSession (d : St) : Prop := 1 ≤ d.c.nextRecv

inductive Step (W : Nat) : St → St → Prop
  /-- a step of the client→server direction; a first transmission of data (seq ≥ 1) is allowed only
      once the session is established -/
  | cStep (d : St) (c' : Arq.St) (h : Arq.Step W d.c c')
      (defer : d.c.qLo < c'.qLo → 1 ≤ d.c.qLo → established d) : Step W d { d with c := c' }
  /-- a step of the server→client direction; the server queues anything (its segment 0 is the open
      response) only once it has the session -/
  | sStep (d : St) (s' : Arq.St) (h : Arq.Step W d.s s')
      (create : d.s.segs.length < s'.segs.length → serverHasSession d) : Step W d { d with s := s' }

inductive Reach (W : Nat) : St → Prop
  | init : Reach W init
  | step {d e} : Reach W d → Step W d e → Reach W e

inductive Steps (W : Nat) : St → St → Prop
  | refl (d) : Steps W d d
  | cons {d e f} : Step W d e → Steps W e f → Steps W d f

end Mieru.Duplex
