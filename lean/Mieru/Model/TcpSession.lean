import Mieru.Model.Spec
import Mieru.Model.StreamWire
/-!
# One proxy connection on the stream transport, session layer
(pkg/protocol/session.go `Write` / `writeChunk` / `Read` / `input` / `inputData` / `inputClose` /
`closeWithError`, pkg/protocol/underlay_stream.go `writeOneSegment`)

`Sess` is one end of a proxy connection: the session state machine (attached → established →
closed), the send-side counters, the in-order receive check of the stream transport, the receive
queue and the unread tail of a partially consumed segment.

* `write` — `Session.Write`: the client's first write sends the open-session request and
  piggybacks the bytes on it iff low entropy is off and there are at most 1024 of them; everything
  else is cut into chunks of at most `maxPDU` bytes, each cut by `writeChunk` into fragments of at
  most `fragSize` bytes, numbered with consecutive sequence numbers and descending fragment numbers.
  The low-entropy decision is an input (`leOpen` at the first write, `les i` for the i-th chunk of the
  call): the client's is a constant of its configuration, the server's follows what the client has
  sent so far.
* `close` — `closeWithError(nil)`: a session that is ATTACHED or ESTABLISHED queues a close-session
  request behind everything already written.
* `input` — `Session.input`: data-bearing segments must arrive with consecutive sequence numbers
  (`streamNextRecv`), the server answers the open request with the open response and becomes
  established; a close request is answered and closes the session.
* `read` — `Session.Read`: first the unread tail, then whole segments from the queue; a client
  becomes ESTABLISHED when `Read` consumes the open-session response.
* `wrap` — what `writeOneSegment` adds: metadata of the right layout with the three length
  fields, paddings, and for low-entropy data the encoded length, mask and rotation.  The result is a
  `Mieru.Spec.Segment`, so the wire in between is the documented one.

Not modelled here: back-pressure waits (they delay, they do not change what is queued), deadlines,
the bounded wait of `closeWithError` for the queue to drain (assumed to succeed: C03's subject).
-/
namespace Mieru.TcpSession
open Mieru

/-- low-entropy send configuration of one `writeChunk` call -/
structure LE where
  mode : Nat
  rot : Nat
deriving DecidableEq, Repr

inductive St where
  | init | attached | established | closed
deriving DecidableEq, Repr

inductive Kind where
  | openReq | openResp | data | closeReq | closeResp
deriving DecidableEq, Repr

/-- a segment as the session hands it to the underlay -/
structure Seg where
  kind : Kind
  seq : Nat
  fragment : Nat
  le : Option LE
  payload : Bytes
deriving DecidableEq, Repr

def maxPDU : Nat := 32768
def maxOpenPayload : Nat := 1024

/-- `maxFragmentSize(mtu, StreamTransport, mode)`: `maxPDU`, or with low entropy the largest
    body whose encoding still fits the 16-bit length field (8191 chunks), capped by `maxPDU`.
    (An invalid mode makes the real function fail; configurations are validated, the theorems
    assume a valid mode.) -/
def fragSize : Option LE → Nat
  | none => maxPDU
  | some l =>
    match LowEntropy.sourceBytes l.mode with
    | some c => min maxPDU (8191 * c)
    | none => maxPDU

/-- `writeChunk`'s loop: sequence numbers upwards from `seq`, fragment numbers down to 0 -/
def numberFrags (seq : Nat) (le : Option LE) : List Bytes → List Seg
  | [] => []
  | p :: ps => ⟨.data, seq, ps.length, le, p⟩ :: numberFrags (seq + 1) le ps

/-- `writeChunk(b)` for one chunk of at most `maxPDU` bytes -/
def writeChunk (seq : Nat) (le : Option LE) (b : Bytes) : List Seg :=
  numberFrags seq le (Fragment.pieces (fragSize le) b.length b)

/-- the `for len(b) > 0` loop of `Write`: chunk `i` of the call uses the decision `les i` -/
def chunkSegs (les : Nat → Option LE) : Nat → Nat → List Bytes → List Seg
  | _, _, [] => []
  | i, seq, c :: cs => writeChunk seq (les i) c ++ chunkSegs les (i + 1) (seq + (writeChunk seq (les i) c).length) cs

structure Sess where
  isClient : Bool
  st : St
  nextSend : Nat
  openSent : Bool
  closeRequested : Bool
  nextRecv : Nat
  queue : List (Kind × Bytes)
  unread : Bytes
  inErr : Bool
deriving DecidableEq, Repr

/-- a client session as `DialContext` returns it -/
def Sess.client : Sess := ⟨true, .attached, 0, false, false, 0, [], [], false⟩
/-- a server session as the underlay creates it when an open-session request arrives -/
def Sess.server : Sess := ⟨false, .attached, 0, false, false, 0, [], [], false⟩

def Sess.open (s : Sess) : Prop := s.closeRequested = false ∧ (s.st = .attached ∨ s.st = .established)
instance (s : Sess) : Decidable s.open := by unfold Sess.open; infer_instance

/-- the bytes that travel in the open-session request: the whole first write iff low entropy is
    off and there are at most `maxOpenPayload` of them ("Low entropy metadata doesn't fit in a
    session-control message") -/
def piggy (leOpen : Option LE) (b : Bytes) : Bytes :=
  if leOpen.isNone = true ∧ b.length ≤ maxOpenPayload then b else []

/-- the data segments of `Write(b)`: chunks of at most `maxPDU` bytes through `writeChunk` -/
def dataSegs (les : Nat → Option LE) (seq : Nat) (b : Bytes) : List Seg :=
  chunkSegs les 0 seq (Fragment.pieces maxPDU b.length b)

/-- `Session.Write(b)`: the segments queued, and the session afterwards.  A session that is not
    open queues nothing (the call returns an error). -/
def write (s : Sess) (leOpen : Option LE) (les : Nat → Option LE) (b : Bytes) : List Seg × Sess :=
  if ¬ s.open then ([], s) else
  if s.isClient = true ∧ s.st = .attached ∧ s.openSent = false then
    if piggy leOpen b ≠ [] then
      ([⟨.openReq, s.nextSend, 0, none, piggy leOpen b⟩], { s with nextSend := s.nextSend + 1, openSent := true })
    else
      (⟨.openReq, s.nextSend, 0, none, []⟩ :: dataSegs les (s.nextSend + 1) b,
        { s with nextSend := s.nextSend + 1 + (dataSegs les (s.nextSend + 1) b).length, openSent := true })
  else
    (dataSegs les s.nextSend b, { s with nextSend := s.nextSend + (dataSegs les s.nextSend b).length })

/-- does `closeWithError` send a close-session request (and flush what is queued in front of it)? -/
def closeFlushes (st : St) : Bool := st == .attached || st == .established

/-- `Session.Close()` -/
def close (s : Sess) : List Seg × Sess :=
  if s.closeRequested then ([], s) else
  if closeFlushes s.st then
    ([⟨.closeReq, s.nextSend, 0, none, []⟩], { s with nextSend := s.nextSend + 1, closeRequested := true, st := .closed })
  else ([], { s with closeRequested := true, st := .closed })

/-- `Session.input(seg)` on the stream transport: what the session emits in reaction, and the
    session afterwards -/
def input (s : Sess) (g : Seg) : List Seg × Sess :=
  if s.st = .closed then ([], s) else
  match g.kind with
  | .closeReq =>
    -- answer at once (not through the queue), then Close(): own close request behind pending data
    let resp : Seg := ⟨.closeResp, s.nextSend, 0, none, []⟩
    let r := close { s with nextSend := s.nextSend + 1 }
    (resp :: r.1, r.2)
  | .closeResp => close s
  | _ =>
    if g.seq ≠ s.nextRecv then
      -- a gap: inputData fails, the session is closed with an error (close request forced out)
      let r := close s
      (r.1, { r.2 with inErr := true })
    else
      let s1 := { s with nextRecv := s.nextRecv + 1, queue := s.queue ++ [(g.kind, g.payload)] }
      if s.isClient = false ∧ g.kind = .openReq ∧ s.st = .attached then
        ([⟨.openResp, s1.nextSend, 0, none, []⟩], { s1 with nextSend := s1.nextSend + 1, st := .established })
      else ([], s1)

/-- the bytes waiting at the reader: unread tail, then the queue -/
def Sess.pending (s : Sess) : Bytes := s.unread ++ (s.queue.map (·.2)).flatten

/-- the loop of `Session.Read` with a buffer of `n` bytes, `acc` = copied so far -/
def readLoop : Nat → Nat → Sess → Bytes → Bytes × Sess
  | 0, _, s, acc => (acc, s)
  | fuel + 1, n, s, acc =>
    let c := min (n - acc.length) s.unread.length
    let acc1 := acc ++ s.unread.take c
    let s1 := { s with unread := s.unread.drop c }
    if acc1.length = n ∨ s1.unread ≠ [] then (acc1, s1) else
    match s1.queue with
    | [] => (acc1, s1)
    | (k, p) :: q =>
      let st := if s1.isClient = true ∧ k = .openResp ∧ s1.st = .attached then St.established else s1.st
      let c2 := min (n - acc1.length) p.length
      let s2 := { s1 with queue := q, st := st, unread := p.drop c2 }
      let acc2 := acc1 ++ p.take c2
      if acc2.length = n then (acc2, s2) else readLoop fuel n s2 acc2

inductive ReadRes where
  | data (b : Bytes)
  | block   -- nothing to read yet: the call waits
  | eof     -- the session is closed and everything received has been read
  | err     -- the input side failed
deriving DecidableEq, Repr

/-- `Session.Read` with a buffer of `n` bytes -/
def read (s : Sess) (n : Nat) : ReadRes × Sess :=
  if n = 0 then (.data [], s) else
  let r := readLoop (s.queue.length + 1) n s []
  if r.1 ≠ [] then (.data r.1, r.2)
  else if r.2.inErr then (.err, r.2)
  else if r.2.st = .closed then (.eof, r.2)
  else (.block, r.2)

/-! ## Application programs -/

/-- The server's input loop processes the open-session request that created the session: it
    happens once, first among the arrivals, but at an instant the server APPLICATION does not
    control — `Accept` hands the session out before (the underlay queues the request for the
    session's input loop, then announces the session), so the application's first `Write` calls may
    be numbered before the open-session response. -/
def acceptOpen (s : Sess) (p : Bytes) : List Seg × Sess :=
  if s.nextRecv = 0 then input s ⟨.openReq, 0, 0, none, p⟩ else ([], s)

inductive Op where
  | write (leOpen : Option LE) (les : Nat → Option LE) (b : Bytes)
  | close
  | accept (p : Bytes)

/-- run the application's calls in order; the segments queued, in order -/
def run : Sess → List Op → List Seg × Sess
  | s, [] => ([], s)
  | s, .write lo les b :: ops =>
    let r := write s lo les b
    let r2 := run r.2 ops
    (r.1 ++ r2.1, r2.2)
  | s, .close :: ops =>
    let r := close s
    let r2 := run r.2 ops
    (r.1 ++ r2.1, r2.2)
  | s, .accept p :: ops =>
    let r := acceptOpen s p
    let r2 := run r.2 ops
    (r.1 ++ r2.1, r2.2)

/-- the bytes of the `Write` calls made while the session was open (the ones that return success) -/
def accepted : Sess → List Op → Bytes
  | _, [] => []
  | s, .write lo les b :: ops => (if s.open then b else []) ++ accepted (write s lo les b).2 ops
  | s, .close :: ops => accepted (close s).2 ops
  | s, .accept p :: ops => accepted (acceptOpen s p).2 ops

/-- deliver segments in order; what the session emits is not followed here -/
def inputAll (s : Sess) (gs : List Seg) : Sess := gs.foldl (fun s g => (input s g).2) s

/-- serve `Read` calls with the given buffer sizes; the byte strings returned by the calls that
    returned data -/
def readMany : Sess → List Nat → List Bytes × Sess
  | s, [] => ([], s)
  | s, n :: ns =>
    match read s n with
    | (.data b, s') => let r := readMany s' ns; (b :: r.1, r.2)
    | (_, s') => let r := readMany s' ns; (r.1, r.2)

/-! ## Arrivals and reads in any interleaving -/

inductive Ev where
  | input (g : Seg)
  | read (n : Nat)

/-- run arrivals and `Read` calls in the given order; the byte strings the reads returned -/
def runEv : Sess → List Ev → List Bytes × Sess
  | s, [] => ([], s)
  | s, .input g :: es => runEv (input s g).2 es
  | s, .read n :: es =>
    match read s n with
    | (.data b, s') => let r := runEv s' es; (b :: r.1, r.2)
    | (_, s') => runEv s' es

def arrivals : List Ev → List Seg
  | [] => []
  | .input g :: es => g :: arrivals es
  | .read _ :: es => arrivals es

/-- the stream offsets at which a segment ends -/
def boundaries : Nat → List Nat → List Nat
  | _, [] => []
  | pos, n :: ns => (pos + n) :: boundaries (pos + n) ns

/-- Is a trace of successive `Read` calls — (buffer size, bytes returned) — possible for a session
    that receives segments with these payload lengths in order, at instants the observer does not
    know?  Every call returns between 1 byte and the buffer size, never beyond what is sent, and a
    SHORT read has taken everything that had arrived: it ends where a segment ends
    (`Mieru.C01.short_read_ends_on_segment_boundary`). -/
def acceptTrace (lens : List Nat) : Nat → List (Nat × Nat) → Bool
  | _, [] => true
  | pos, (req, got) :: tr =>
    (0 < got && got ≤ req && pos + got ≤ lens.sum && (got == req || (boundaries 0 lens).contains (pos + got))) &&
      acceptTrace lens (pos + got) tr

/-! ## What `writeOneSegment` adds (stream transport) -/

/-- the underlay's choices for one segment: minute stamp, acknowledgement fields, paddings, and for
    low-entropy data the half mask and the padding polarity -/
structure Wrap where
  ts : Nat
  unAck : Nat
  window : Nat
  pad1 : Bytes
  pad2 : Bytes
  mask : Nat
  lePad : Bool

/-- protocol type number of a segment kind in a direction -/
def proto (fromClient : Bool) (k : Kind) (le : Bool) : Nat :=
  match k with
  | .openReq => 2
  | .openResp => 3
  | .closeReq => 4
  | .closeResp => 5
  | .data => if fromClient then (if le then 10 else 6) else (if le then 11 else 7)

/-- the documented segment for a session-layer segment; `none` when the low-entropy length does
    not exist (empty body or too long for the mode) -/
def wrap (fromClient : Bool) (sid : Nat) (g : Seg) (w : Wrap) : Option (Spec.Segment × Bool) :=
  match g.kind with
  | .data =>
    match g.le with
    | none =>
      some (⟨.data ⟨proto fromClient .data false, w.ts, sid, g.seq, w.unAck, w.window, g.fragment, w.pad1.length,
        g.payload.length, w.pad2.length⟩, g.payload, w.pad1, w.pad2⟩, w.lePad)
    | some l =>
      (LowEntropy.encodedLen g.payload.length l.mode).map fun el =>
        (⟨.le ⟨proto fromClient .data true, l.mode, w.ts, sid, g.seq, w.unAck, w.window, g.fragment, w.pad1.length,
          el, w.pad2.length, w.mask, g.payload.length, l.rot⟩, g.payload, w.pad1, w.pad2⟩, w.lePad)
  | k =>
    some (⟨.session ⟨proto fromClient k false, w.ts, sid, g.seq, 0, g.payload.length, w.pad2.length⟩, g.payload, [],
      w.pad2⟩, w.lePad)

def wrapAll (fromClient : Bool) (sid : Nat) : List Seg → List Wrap → Option (List (Spec.Segment × Bool))
  | [], [] => some []
  | g :: gs, w :: ws =>
    match wrap fromClient sid g w, wrapAll fromClient sid gs ws with
    | some x, some xs => some (x :: xs)
    | _, _ => none
  | _, _ => none

/-! ## What the receiving underlay hands to which session -/

def Spec.Meta.sessionID : Spec.Meta → Nat
  | .session m => m.sessionID | .data m => m.sessionID | .le m => m.sessionID
def Spec.Meta.seq : Spec.Meta → Nat
  | .session m => m.seq | .data m => m.seq | .le m => m.seq
def Spec.Meta.fragment : Spec.Meta → Nat
  | .session _ => 0 | .data m => m.fragment | .le m => m.fragment

def kindOf (p : Nat) : Option Kind :=
  match p with
  | 2 => some .openReq | 3 => some .openResp | 4 => some .closeReq | 5 => some .closeResp
  | 6 => some .data | 7 => some .data | 10 => some .data | 11 => some .data
  | _ => none

/-- the session-layer view of a decoded segment (acks carry nothing for the stream transport) -/
def unwrap (x : Spec.Meta × Bytes) : Option Seg :=
  (kindOf x.1.protocol).map fun k =>
    ⟨k, Spec.Meta.seq x.1, Spec.Meta.fragment x.1,
      (match x.1 with | .le m => some ⟨m.mode, m.rotation⟩ | _ => none), x.2⟩

/-- `RunEventLoop`: the decoded segments addressed to session `sid`, in arrival order -/
def forSession (sid : Nat) (out : List (Spec.Meta × Bytes)) : List Seg :=
  (out.filter (fun x => Spec.Meta.sessionID x.1 == sid)).filterMap unwrap

end Mieru.TcpSession
