/-!
# Source-address → recently authenticated users cache, ONE bucket
# (pkg/protocol/serveruser/source_user_cache.go `lookup`, `recordAuthenticatedInTable`,
#  `recordUser`, `selectSourceUserCacheWay`)

A bucket has 4 ways; a way is empty or holds an entry for one source key with `lastActive` and 16
user slots `(userID, tick)` (`userID = 0` = empty slot).  Ticks are 32-bit seconds; ages are
computed with wrapping unsigned subtraction; everything at least 600 ticks old is logically
expired (never physically removed, only reused).  Which bucket a key lands in (a seeded hash) is
outside the model: the model is what happens among keys that share a bucket.
-/
namespace Mieru.SrcCache

def tickMod : Nat := 4294967296   -- 2^32
def life : Nat := 600             -- sourceUserCacheLifeSeconds
def nWays : Nat := 4
def nSlots : Nat := 16

/-- `sourceUserCacheAge`: uint32 subtraction `now - then` -/
def age (now seen : Nat) : Nat := (now % tickMod + tickMod - seen % tickMod) % tickMod

/-- `sourceUserCacheExpired` -/
def expired (now seen : Nat) : Bool := decide (life ≤ age now seen)

structure Entry where
  key : Nat
  lastActive : Nat
  users : List (Nat × Nat)      -- (userID, tick)
  deriving DecidableEq, Repr

abbrev Bucket := List (Option Entry)

def empty : Bucket := List.replicate nWays none

def isKey (key : Nat) : Option Entry → Bool
  | some e => e.key == key
  | none => false

/-! ## lookup -/

/-- the candidate scan: skip empty / expired slots, keep one candidate per user id with the
    smallest age seen -/
def candidates (now : Nat) : List (Nat × Nat) → List (Nat × Nat) → List (Nat × Nat)
  | [], acc => acc
  | (id, seen) :: rest, acc =>
    if id = 0 ∨ expired now seen = true then candidates now rest acc
    else if acc.any (fun c => c.1 == id) then
      candidates now rest (acc.map fun c => if c.1 = id ∧ age now seen < c.2 then (id, age now seen) else c)
    else candidates now rest (acc ++ [(id, age now seen)])

/-- one step of the insertion sort: `x` goes before the first element that is strictly older -/
def insertByAge (x : Nat × Nat) : List (Nat × Nat) → List (Nat × Nat)
  | [] => [x]
  | y :: ys => if x.2 < y.2 then x :: y :: ys else y :: insertByAge x ys

/-- stable insertion sort by age, youngest (most recently seen) first -/
def sortByAge (l : List (Nat × Nat)) : List (Nat × Nat) := l.foldl (fun acc x => insertByAge x acc) []

/-- `lookup`: only the first way holding the key is considered; an expired source is a miss -/
def lookup (b : Bucket) (key now : Nat) : List Nat :=
  match b.find? (isKey key) with
  | some (some e) =>
    if expired now e.lastActive then [] else (sortByAge (candidates now e.users [])).map (·.1)
  | _ => []

/-- `lookup` before the ages are dropped: (user id, age of that user's freshest live slot) -/
def lookupAged (b : Bucket) (key now : Nat) : List (Nat × Nat) :=
  match b.find? (isKey key) with
  | some (some e) =>
    if expired now e.lastActive then [] else sortByAge (candidates now e.users [])
  | _ => []

/-! ## record -/

/-- index of the first element satisfying `p` -/
def firstIdx (p : α → Bool) : List α → Option Nat
  | [] => none
  | x :: xs => if p x then some 0 else (firstIdx p xs).map (· + 1)

/-- index of the first element with the strictly largest measure among those satisfying `p` -/
def oldestIdx (p : α → Bool) (m : α → Nat) : List α → Nat → Option (Nat × Nat) → Option (Nat × Nat)
  | [], _, best => best
  | x :: xs, i, best =>
    if p x then
      match best with
      | none => oldestIdx p m xs (i + 1) (some (i, m x))
      | some (bi, ba) => if m x > ba then oldestIdx p m xs (i + 1) (some (i, m x)) else oldestIdx p m xs (i + 1) (some (bi, ba))
    else oldestIdx p m xs (i + 1) best

/-- `recordUser`'s slot choice: the user's own slot, else the first empty one, else the first
    expired one, else the least recently seen live one -/
def pickSlot (users : List (Nat × Nat)) (id now : Nat) : Nat :=
  match firstIdx (fun s => s.1 == id) users with
  | some i => i
  | none =>
    match firstIdx (fun s => s.1 == 0) users with
    | some i => i
    | none =>
      match firstIdx (fun s => s.1 != 0 && expired now s.2) users with
      | some i => i
      | none =>
        match oldestIdx (fun s => s.1 != 0 && !expired now s.2) (fun s => age now s.2) users 0 none with
        | some (i, _) => i
        | none => 0

/-- `recordUser` (a refresh within the same tick is a no-op, which is the same list) -/
def recordUser (users : List (Nat × Nat)) (id now : Nat) : List (Nat × Nat) :=
  users.set (pickSlot users id now) (id, now)

def freshEntry (key id now : Nat) : Entry :=
  { key := key, lastActive := now, users := (id, now) :: List.replicate (nSlots - 1) (0, 0) }

/-- `selectSourceUserCacheWay`: first empty way, else first expired, else least recently active -/
def selectWay (b : Bucket) (now : Nat) : Nat :=
  match firstIdx (fun w : Option Entry => w.isNone) b with
  | some i => i
  | none =>
    match firstIdx (fun w : Option Entry => match w with | some e => expired now e.lastActive | none => false) b with
    | some i => i
    | none =>
      match oldestIdx (fun _ : Option Entry => true)
          (fun w => match w with | some e => age now e.lastActive | none => 0) b 0 none with
      | some (i, _) => i
      | none => 0

/-- `recordAuthenticatedInTable` -/
def record (b : Bucket) (key id now : Nat) : Bucket :=
  if id = 0 then b else
  match firstIdx (isKey key) b with
  | some i =>
    match b[i]? with
    | some (some e) => b.set i (some { e with users := recordUser e.users id now, lastActive := now })
    | _ => b
  | none => b.set (selectWay b now) (some (freshEntry key id now))

/-- a history of authentications: (source key, user id, tick) in the order they were recorded -/
def run (ops : List (Nat × Nat × Nat)) : Bucket :=
  ops.foldl (fun b op => record b op.1 op.2.1 op.2.2) empty

end Mieru.SrcCache
