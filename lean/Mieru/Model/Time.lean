/-!
# Time-slot arithmetic of pkg/cipher (keygen.go, api.go) and the minute counter of
# pkg/protocol/metadata.go, on exact integer nanoseconds (core Lean only)

An instant is an `Int` number of nanoseconds since the Unix epoch (what `time.Time.UnixNano`
would return without overflow).

`t.Round(d)` (Go, `time` package, `d > 0`): "rounding t to the nearest multiple of d (since the
zero time); halfway values round up".  Go computes `r = t mod d` with a floor-style remainder
(`div` negates and adjusts for instants before the zero time) and returns `t − r` if `r + r < d`,
else `t + (d − r)`.  The zero time (1 Jan year 1) lies 62135596800 s = 517796640 × 120 s before
the Unix epoch, so for `d` = 2 min rounding "since the zero time" and rounding the Unix
nanosecond count coincide; the correspondence scenario checks this on every run.
-/
namespace Mieru.Time

def nsPerSec : Int := 1000000000
/-- `cipher.KeyRefreshInterval` = 2 min, in ns -/
def keyRefreshNs : Int := 120000000000
/-- `cipher.KeyRefreshInterval` in seconds -/
def keyRefreshSec : Int := 120

/-- Go's `Time.Round(d)` on Unix nanoseconds, `d > 0` -/
def roundTo (t d : Int) : Int :=
  let r := t % d
  if r + r < d then t - r else t + (d - r)

/-- `t.Round(KeyRefreshInterval)` in ns -/
def slotNs (t : Int) : Int := roundTo t keyRefreshNs

/-- `Time.Unix()`: whole seconds, floor -/
def unixSec (t : Int) : Int := t / nsPerSec

/-- `cipherKeyEpoch(t) = t.Round(KeyRefreshInterval).Unix()` -/
def epoch (t : Int) : Int := unixSec (slotNs t)

/-- the Unix seconds whose 8-byte big-endian form `saltFromTime` hashes: rounded − 2 min,
    rounded, rounded + 2 min -/
def saltTimes (t : Int) : List Int := [epoch t - keyRefreshSec, epoch t, epoch t + keyRefreshSec]

/-- `time.Now().Unix() / 60` (Go's `/` truncates toward zero) -/
def minute (t : Int) : Int := Int.tdiv (unixSec t) 60

/-- `uint32(time.Now().Unix() / 60)` -/
def minuteU32 (t : Int) : Nat := (minute t % 4294967296).toNat

/-! ## `mathext.Mid` / `mathext.WithinRange` -/

/-- `mathext.Mid`: three conditional swaps on `values[0..2]`, then `values[1]`:
    `if v0 > v1 {swap v0 v1}; if v0 > v2 {swap v0 v2}; if v1 > v2 {swap v1 v2}; return v1` -/
def mid (a b c : Int) : Int :=
  let v0 := if a > b then b else a
  let v1 := if a > b then a else b
  -- second swap only matters through the new v2
  let v2 := if v0 > c then v0 else c
  if v1 > v2 then v2 else v1

/-- `mathext.WithinRange` on a signed type wide enough not to overflow (int64 in metadata.go
    after the fix) -/
def withinRange (v target margin : Int) : Bool := mid v (target - margin) (target + margin) == v

def u32 : Int := 4294967296

/-- `mathext.WithinRange[uint32]`: `target − margin` and `target + margin` wrap modulo 2^32 -/
def withinRangeU32 (v target margin : Int) : Bool :=
  mid v ((target - margin) % u32) ((target + margin) % u32) == v

/-- the timestamp check of `sessionStruct.Unmarshal` / `dataAckStruct.Unmarshal` (fixed code:
    the comparison is made on int64 values of the two uint32 minute counters) -/
def tsAccept (currentMinute originalMinute : Int) : Bool := withinRange currentMinute originalMinute 1

/-- the same check as the unfixed code made it (on uint32) -/
def tsAcceptU32 (currentMinute originalMinute : Int) : Bool := withinRangeU32 currentMinute originalMinute 1

end Mieru.Time
