/-!
# Model of `pkg/metrics/counter.go` and of the counter part of `pkg/metrics/export.go` (C19)

A time-series counter: a value, a history of `(TimeUnixMilli, Delta, RollUp label)` entries and the
operation counter `op` that decides when the history is compacted.

* times of history entries are Unix MILLIseconds (`Int`), instants `now`, `t1`, `t2` are Unix
  NANOseconds (`Int`) — `time.Since(time.UnixMilli(t)) <= d` is `now - t·10⁶ ≤ d`,
  `time.UnixMilli(t).After(t1)` is `t·10⁶ > t1`;
* `time.Truncate(d)` for `d` ∈ {1 s, 1 min, 1 h, 24 h} is rounding down to a multiple of `d`
  counted from the Unix epoch (Go counts from year 1, which is a whole number of days earlier);
* the code calls `time.Since` once per entry and pass; the model uses one `now` per roll-up;
* `int64`/`uint64` wrap-around is not modelled (totals below 2⁶³, fewer than 2⁶⁴ operations).

Core Lean only.
-/
namespace Mieru.Counter

structure Entry where
  /-- `TimeUnixMilli` -/
  t : Int
  delta : Int
  /-- `RollUpLabel`: 0 NO_ROLL_UP, 1 TO_SECOND, 2 TO_MINUTE, 3 TO_HOUR, 4 TO_DAY -/
  label : Nat
deriving Repr, DecidableEq

def nsPerMs : Int := 1000000

def sumD : List Entry → Int
  | [] => 0
  | e :: r => e.delta + sumD r

/-- the parameters of one `doRollUp(fromLabel, toLabel, rollUpDuration, truncateDuration)` call -/
structure Pass where
  fromL : Nat
  toL : Nat
  /-- `rollUpDuration`, ns -/
  dur : Int
  /-- `truncateDuration`, ms -/
  trunc : Int
deriving Repr, DecidableEq

/-- `time.UnixMilli(t).Truncate(d).UnixMilli()` -/
def truncMs (t d : Int) : Int := t - t % d

/-- "case 1: h should not be rolled up" -/
def keep (p : Pass) (now : Int) (h : Entry) : Prop :=
  h.label ≠ p.fromL ∨ now - h.t * nsPerMs ≤ p.dur

instance (p : Pass) (now : Int) (h : Entry) : Decidable (keep p now h) := by unfold keep; infer_instance

/-- the loop of `doRollUp`; the first argument is the variable `last` -/
def roll (p : Pass) (now : Int) : Option Entry → List Entry → List Entry
  | last, [] => last.toList
  | last, h :: rest =>
    if keep p now h then last.toList ++ h :: roll p now none rest
    else
      let t := truncMs h.t p.trunc
      match last with
      | none => roll p now (some ⟨t, h.delta, p.toL⟩) rest
      | some l =>
        if l.t = t then roll p now (some { l with delta := l.delta + h.delta }) rest
        else l :: roll p now (some ⟨t, h.delta, p.toL⟩) rest

def doRollUp (p : Pass) (now : Int) (h : List Entry) : List Entry := roll p now none h

def rollUpInterval : Nat := 1000
def rollUpToSecondNs : Int := 2 * 1000000000
def rollUpSecondToMinuteNs : Int := 120 * 1000000000
def rollUpMinuteToHourNs : Int := 120 * 60 * 1000000000
def rollUpHourToDayNs : Int := 8 * 24 * 3600 * 1000000000

/-- the eight passes of `rollUp`, in order -/
def passes : List Pass := [
  ⟨0, 1, rollUpToSecondNs, 1000⟩, ⟨1, 1, rollUpToSecondNs, 1000⟩,
  ⟨1, 2, rollUpSecondToMinuteNs, 60000⟩, ⟨2, 2, rollUpSecondToMinuteNs, 60000⟩,
  ⟨2, 3, rollUpMinuteToHourNs, 3600000⟩, ⟨3, 3, rollUpMinuteToHourNs, 3600000⟩,
  ⟨3, 4, rollUpHourToDayNs, 86400000⟩, ⟨4, 4, rollUpHourToDayNs, 86400000⟩]

/-- the body of `rollUp` once `op % rollUpInterval == 0` -/
def rollUpWith (ps : List Pass) (now : Int) (h : List Entry) : List Entry :=
  ps.foldl (fun h p => doRollUp p now h) h

def rollUp (now : Int) (h : List Entry) : List Entry := rollUpWith passes now h

structure Counter where
  value : Int
  /-- `timeSeries` -/
  ts : Bool
  hist : List Entry
  op : Nat
deriving Repr

def new (ts : Bool) : Counter := { value := 0, ts := ts, hist := [], op := 0 }

/-- `Name()`, `Type()`, `Load()`, `LastUpdateTime()`: `op++` and nothing else -/
def tick (c : Counter) (n : Nat) : Counter := { c with op := c.op + n }

/-- `addWithTime(delta, time)`; `tms = time.UnixMilli()`; `now` is the clock during a roll-up -/
def addWithTime (c : Counter) (delta tms now : Int) : Counter :=
  let c := { c with op := c.op + 1 }
  if delta = 0 then c else
  let c := { c with value := c.value + delta }
  if c.ts then
    let c := { c with hist := c.hist ++ [⟨tms, delta, 0⟩] }
    if c.op % rollUpInterval = 0 then { c with hist := rollUp now c.hist } else c
  else c

/-- `Add(delta)` at instant `now` (ns): `addWithTime(delta, time.Now())` -/
def add (c : Counter) (delta now : Int) : Counter := addWithTime c delta (now / nsPerMs) now

/-- `sort.Search(n, f)` -/
def searchLoop (f : Nat → Bool) : Nat → Nat → Nat → Nat
  | 0, i, _ => i
  | fuel + 1, i, j =>
    if i < j then
      let h := (i + j) / 2
      if !f h then searchLoop f fuel (h + 1) j else searchLoop f fuel i h
    else i

def search (n : Nat) (f : Nat → Bool) : Nat := searchLoop f (n + 1) 0 n

/-- first index whose entry is after the instant `t` (ns), by binary search -/
def afterIdx (h : List Entry) (t : Int) : Nat :=
  search h.length (fun i => match h[i]? with | some e => decide (e.t * nsPerMs > t) | none => true)

/-- the sum `DeltaBetween(t1, t2)` returns (requires `t1 ≤ t2`, else the code panics) -/
def window (h : List Entry) (t1 t2 : Int) : Int :=
  sumD ((h.drop (afterIdx h t1)).take (afterIdx h t2 - afterIdx h t1))

def deltaBetween (c : Counter) (t1 t2 : Int) : Counter × Int :=
  ({ c with op := c.op + 1 }, window c.hist t1 t2)

/-- `loadCounterFromMetricPB(dst, src)` for a `src` whose name and type match `dst`, at instant `now`:
    `Name()`, `Type()`, `Load()`, `Add(max(0, src.Value - value))`, then the history is REPLACED. -/
def loadFrom (c : Counter) (srcValue : Int) (srcHist : List Entry) (now : Int) : Counter :=
  let c := tick c 3
  let c := add c (max 0 (srcValue - c.value)) now
  { c with hist := srcHist }

/-- the four `op++` of `ToMetricPB(c)` for a time-series counter (`Name`, `Type`, `Load`, `Type`) -/
def dumped (c : Counter) : Counter := tick c 4

/-! ## operation histories -/

inductive Op where
  | add (delta tms now : Int)
  | tick (n : Nat)
  | query (t1 t2 : Int)
  | load (srcValue : Int) (srcHist : List Entry) (now : Int)
deriving Repr

def apply (c : Counter) : Op → Counter
  | .add d t now => addWithTime c d t now
  | .tick n => tick c n
  | .query t1 t2 => (deltaBetween c t1 t2).1
  | .load v h now => loadFrom c v h now

def runOps (c : Counter) (ops : List Op) : Counter := ops.foldl apply c

/-- the sum of the increments of a history of operations -/
def addedBy : List Op → Int
  | [] => 0
  | .add d _ _ :: r => d + addedBy r
  | _ :: r => addedBy r

def isLoad : Op → Bool
  | .load .. => true
  | _ => false

/-! ## well-formed (time-ordered) histories -/

/-- granularity of a label, ms -/
def gran : Nat → Int
  | 0 => 1
  | 1 => 1000
  | 2 => 60000
  | 3 => 3600000
  | _ => 86400000

/-- the shape `addWithTime` at non-decreasing times and `rollUp` maintain: ordered by time, coarser
    buckets first, every bucket aligned to its granularity -/
def WF (h : List Entry) : Prop :=
  h.Pairwise (fun a b => a.t ≤ b.t ∧ b.label ≤ a.label) ∧ ∀ e ∈ h, gran e.label ∣ e.t

def Sorted (h : List Entry) : Prop := h.Pairwise (fun a b => a.t ≤ b.t)

/-- the increments of an operation history carry timestamps that never go backwards (`lo` is the
    latest timestamp so far); no dump is loaded (a load replaces the history by the dump's) -/
def MonoAdds : Int → List Op → Prop
  | _, [] => True
  | lo, .add _ t _ :: r => lo ≤ t ∧ MonoAdds t r
  | _, .load .. :: _ => False
  | lo, _ :: r => MonoAdds lo r

/-- increments are non-negative (`Add` panics otherwise) and so are the deltas of loaded dumps -/
def NonNegOps : List Op → Prop
  | [] => True
  | .add d _ _ :: r => 0 ≤ d ∧ NonNegOps r
  | .load _ h _ :: r => (∀ e ∈ h, 0 ≤ e.delta) ∧ NonNegOps r
  | _ :: r => NonNegOps r

/-- a dump whose value matches its history (what `ToMetricPB` produces from a consistent counter) -/
def ConsistentLoads : List Op → Prop
  | [] => True
  | .load v h _ :: r => sumD h = v ∧ ConsistentLoads r
  | _ :: r => ConsistentLoads r

end Mieru.Counter
