import Mieru.Model.LowEntropy
/-!
# What an endpoint does with one segment that arrived from the network (C10)

A total, executable mirror of the code between "bytes arrived" and "session state changed":

* `PacketUnderlay.readOneSegment` / `parseSessionSegment` / `parseDataAckSegment`      → `udpRead`
* `PacketUnderlay.RunEventLoop` + `onOpenSessionRequest` / `onOpenSessionResponse` /
  `onCloseSession`                                                                       → `udpStep`
* `StreamUnderlay.readOneSegment` / `readSessionSegment` / `readDataAckSegment`        → `tcpRead`
* `StreamUnderlay.RunEventLoop` + `validateNewServerSessionSegment` + the `on…` handlers → `tcpStep`
* `validateServerSegmentDirection`, `validateNewServerSessionSegment`                   → same names
* `Session.input` (direction check — an error on the stream transport, a silent discard on the
  packet transport —, the cipher-user / user-policy consistency checks that `panic`, the dispatch
  to `inputData` / `inputAck` / `inputClose`; `inputData` on the stream transport requires the
  session's next sequence number, `Sess.streamNext`)                                      → `sessionInput`
* `segmentTree.Insert`'s `checkSeq` / `checkProtocolType`                                → `treeInsertOk`

`Outcome.panic` is an outcome OF THE MODEL wherever the code panics; the theorems of Props/C10 say
which inputs can reach it. Cryptography is ideal: a metadata block authenticates under the key of
at most one registered user (`Env.keyUser`); whether the payload bytes at the declared offset
authenticate is an input (`Body.payloadAuth`).

The packet underlay models the code AFTER the repository's
`fix: discard a UDP segment whose decrypting user differs from the session owner` commit
(`ownerMatches`); `udpStepWith false` is the dispatch before that commit (kept for the regression
examples in Props/C10).
-/
namespace Mieru.Dispatch

inductive Role | client | server
  deriving DecidableEq, Repr

inductive Outcome
  | drop            -- nothing changes (UDP: datagram discarded; TCP: segment ignored)
  | closeSession    -- the target session is closed, the underlay lives on
  | closeUnderlay   -- RunEventLoop returns: this connection and all its sessions are closed
  | deliver         -- accepted by Session.input (data / ack / open response absorbed by the session)
  | createSession   -- a new server session was created and handed to Accept()
  | panic           -- the process dies
  deriving DecidableEq, Repr

/-- `stderror.ErrorType` -/
inductive ErrType
  | noError | unknownError | protocolError | networkError | cryptoError | replayError
  deriving DecidableEq, Repr

/-! ## Protocol classifiers (metadata.go); Props/C10 proves them equal to the regenerated ones -/

def isSessionProtocol (p : Nat) : Bool := p == 2 || p == 3 || p == 4 || p == 5
def isLowEntropyProtocol (p : Nat) : Bool := p == 10 || p == 11
def isDataProtocol (p : Nat) : Bool := p == 6 || p == 7 || isLowEntropyProtocol p
def isAckProtocol (p : Nat) : Bool := p == 8 || p == 9
def isDataAckProtocol (p : Nat) : Bool := isDataProtocol p || isAckProtocol p

/-- protocols a client session accepts (first `if` of `Session.input`) -/
def clientAccepts : List Nat := [3, 7, 11, 9, 4, 5]
/-- protocols a server session accepts -/
def serverAccepts : List Nat := [2, 6, 10, 8, 4, 5]
/-- `validateServerSegmentDirection` -/
def serverDirectionOk : List Nat := [2, 4, 5, 6, 10, 8]

def directionOk (r : Role) (p : Nat) : Bool :=
  match r with
  | .client => clientAccepts.contains p
  | .server => serverAccepts.contains p

/-- `validateServerSegmentDirection` -/
def validateServerSegmentDirection (p : Nat) : Bool := serverDirectionOk.contains p

/-- `validateNewServerSessionSegment`: only openSessionRequest with a non-reserved id -/
def validateNewServerSessionSegment (p sid : Nat) : Bool := p == 2 && sid != 0

/-- `segmentTree.checkSeq` (every segment built by an underlay carries a sessionStruct or a
    dataAckStruct, so `Seq()` succeeds) and `checkProtocolType` -/
def treeInsertOk (p : Nat) : Bool := isSessionProtocol p || isDataProtocol p

/-! ## Decoded metadata and the facts about one arrival that are not in the metadata -/

/-- the 32 decrypted metadata bytes, decoded with the layout of the protocol's class -/
structure Md where
  proto : Nat
  tsOk : Bool            -- |now/60 − timestamp| ≤ 1 (mathext.WithinRange)
  sid : Nat
  seq : Nat := 0
  status : Nat := 0
  unAck : Nat := 0
  window : Nat := 0
  fragment : Nat := 0
  prefixLen : Nat := 0
  payloadLen : Nat := 0
  suffixLen : Nat := 0
  leMode : Nat := 0
  leMask : Nat := 0
  leRot : Nat := 0
  extractedLen : Nat := 0
  deriving Repr, DecidableEq

/-- what follows the metadata -/
structure Body where
  len : Nat              -- UDP: bytes of the datagram after the 72-byte nonce+metadata block
  payloadAuth : Bool     -- the `payloadLen+16` bytes at the declared offset authenticate (ideal AEAD)
  leBodyOk : Bool := true  -- low-entropy body decodes (canonical padding bits)
  framed : Bool := true  -- TCP: the bytes that follow are exactly the declared lengths
  deriving Repr, DecidableEq

structure Env where
  src : Nat := 0             -- UDP source address
  srcIsServer : Bool := true -- UDP client: the datagram came from the configured server address
  dgramLen : Nat := 72       -- UDP: datagram length
  keyUser : Option String    -- the registered user (server) / the configured user (client) whose key authenticates the metadata
  replay : Bool := false     -- replay-cache hit on the metadata block
  quotaOk : Bool := true     -- checkQuota for a new server session
  replyWriteOk : Bool := true -- the socket can send to this datagram's source address (`WriteTo` succeeds); false e.g.
                             -- for a source port 0, which the kernel delivers but refuses to send to (EINVAL)
  body : Body
  deriving Repr, DecidableEq

/-- `sessionStruct.Unmarshal` after the protocol test -/
def sessionUnmarshalOk (m : Md) : Bool := m.tsOk && m.payloadLen ≤ 1024

/-- `dataAckStruct.Unmarshal` after the protocol test -/
def dataAckUnmarshalOk (m : Md) : Bool :=
  m.tsOk && (if isLowEntropyProtocol m.proto
             then LowEntropy.metaValid m.proto m.leMode m.leMask m.leRot m.payloadLen m.extractedLen
             else true)

/-- `PacketUnderlay.parseSessionSegment` -/
def udpParseSession (m : Md) (b : Body) : Bool :=
  if m.payloadLen > 0 then
    if b.len < m.payloadLen + 16 then false
    else if !b.payloadAuth then false
    else m.payloadLen + 16 + m.suffixLen == b.len
  else m.suffixLen == b.len

/-- `PacketUnderlay.parseDataAckSegment` -/
def udpParseDataAck (m : Md) (b : Body) : Bool :=
  if isLowEntropyProtocol m.proto &&
     !LowEntropy.metaValid m.proto m.leMode m.leMask m.leRot m.payloadLen m.extractedLen then false
  else if m.prefixLen > b.len then false
  else
    let rem := b.len - m.prefixLen
    if m.payloadLen > 0 then
      if rem < m.payloadLen + 16 then false
      else if rem != m.payloadLen + 16 + m.suffixLen then false
      else if isLowEntropyProtocol m.proto && !b.leBodyOk then false
      else b.payloadAuth
    else m.suffixLen == rem

/-! ## Sessions -/

structure Sess where
  id : Nat
  addr : Nat := 0                  -- UDP: remote address the session is bound to
  block : Option String := none    -- user name of `s.block` (none until the first segment was input)
  policy : Option String := none   -- name of `s.userPolicy`
  pending : Option (List String) := none  -- names in `pendingServerUserPolicies` (nil for sessions made by an underlay)
  closed : Bool := false
  streamNext : Nat := 0            -- TCP: `streamNextRecv`, the sequence number `inputData` requires next
  deriving Repr, DecidableEq

/-- a segment as handed to the event loop -/
structure Seg where
  md : Md
  block : Option String    -- user name of `seg.block` (nil on a UDP client)
  policy : String          -- `seg.serverUserPolicy.Name()`
  authNew : Bool           -- came through user discovery, not through an existing session / t.recv
  deriving Repr, DecidableEq

/-- the policy `Session.input` compares: the segment's, or the pending one of the decrypting user -/
def effectivePolicy (s : Sess) (g : Seg) (next : String) : String :=
  if g.policy == "" then
    match s.pending with
    | some names => if names.contains next then next else ""
    | none => ""
  else g.policy

/-- the three "cipher block user name" panics of `Session.input`: previous cipher's user set, next
    cipher's user set, both equal -/
def cipherUsersOk (prev : Option String) (next : String) : Bool :=
  match prev with
  | none => true
  | some prev => prev != "" && next != "" && prev == next

/-- the identity block of `Session.input` (`if seg.block != nil { … }`): `none` = one of the six
    `panic(…)` calls, otherwise the session with its cipher / policy updated -/
def identCheck (r : Role) (s : Sess) (g : Seg) : Option Sess :=
  match g.block with
  | none => some s
  | some next =>
    if !cipherUsersOk s.block next then none else
    let s1 := { s with block := some next }
    match r with
    | .client => some s1
    | .server =>
      let pol := effectivePolicy s g next
      let s2 := { s1 with pending := none }
      match s.policy with
      | some cur =>
        if cur != next then none                      -- "user policy name differs from cipher user name"
        else if pol != "" && cur != pol then none     -- "retained user policy name differs from segment user policy name"
        else some s2
      | none =>
        if pol != "" then
          if pol != next then none                    -- "user policy name differs from cipher user name"
          else some { s2 with policy := some pol }
        else some s2

/-- the dispatch at the end of `Session.input`: `inputData`, `inputAck`, `inputClose`.
    `inputData` on the STREAM transport first requires the next sequence number (`streamNextRecv`): the
    transport delivers a session's segments exactly once and in order, so anything else fails the
    session; then come the tree inserts guarded by `checkSeq` / `checkProtocolType`. On the packet
    transport any sequence number is absorbed (buffered, delivered or ignored as a duplicate). -/
def inputTail (stream : Bool) (p seq : Nat) (s' : Sess) : Outcome × Sess :=
  if p == 2 || p == 3 || isDataProtocol p then
    if stream && seq != s'.streamNext then (.closeSession, { s' with closed := true })
    else if treeInsertOk p then
      (.deliver, if stream then { s' with streamNext := s'.streamNext + 1 } else s')
    else (.panic, s')
  else if isAckProtocol p then (.deliver, s')
  else if p == 4 || p == 5 then (.closeSession, { s' with closed := true })
  else (.deliver, s')

/-- `Session.input`: outcome and the session afterwards. A segment travelling in the wrong direction
    is an error that closes the session on the stream transport; on the packet transport (where
    anybody on the path can reflect a datagram to its sender) it is discarded, before any of the
    identity checks. -/
def sessionInput (stream : Bool) (r : Role) (s : Sess) (g : Seg) : Outcome × Sess :=
  if !directionOk r g.md.proto then
    if stream then (.closeSession, { s with closed := true }) else (.drop, s)
  else
  match identCheck r s g with
  | none => (.panic, s)
  | some s' => inputTail stream g.md.proto g.md.seq s'

def findSess (t : List Sess) (sid : Nat) : Option Sess := t.find? (fun s => s.id == sid)

def replaceSess (t : List Sess) (s' : Sess) : List Sess :=
  t.map (fun s => if s.id == s'.id then s' else s)

/-- result of one event-loop iteration -/
structure Step where
  outcome : Outcome
  reply : Bool := false     -- the underlay answered with a closeSessionRequest for an unknown session
  replyFailed : Bool := false -- it tried to, and `writeOneSegment` returned an error (UDP: unwritable source address)
  table : List Sess
  deriving Repr, DecidableEq

/-- `deliverSegmentToSession` + `Session.input` for a session found in the map -/
def deliverTo (stream : Bool) (r : Role) (t : List Sess) (s : Sess) (g : Seg) : Step :=
  if s.closed then { outcome := .drop, table := t } else
  let (o, s') := sessionInput stream r s g
  { outcome := o, table := replaceSess t s' }

/-- `onOpenSessionRequest` after the id checks: the new session `s0` is registered, the open request
    is delivered to it, the session is handed to `Accept()` -/
def createSess (stream : Bool) (r : Role) (t : List Sess) (s0 : Sess) (g : Seg) (quotaOk : Bool) : Step :=
  let x := sessionInput stream r s0 g
  if x.1 == .panic then { outcome := .panic, table := t }
  else { outcome := .createSession, table := t ++ [{ x.2 with closed := x.2.closed || !quotaOk }] }

/-! ## UDP -/

/-- the session whose cipher decrypts the datagram in `tryDecryptExistingSession` -/
def udpExisting (t : List Sess) (e : Env) : Option Sess :=
  t.find? (fun s => s.block.isSome && s.addr == e.src && s.block == e.keyUser)

/-- the metadata decryption of `PacketUnderlay.readOneSegment`: who decrypted it (`seg.block`'s user;
    nil on a client), the matched policy name, and whether it came through user discovery.
    `none` = nothing authenticates it (or it is a replay): the datagram is discarded -/
def udpDecrypt (r : Role) (t : List Sess) (e : Env) : Option (Option String × String × Bool) :=
  match r with
  | .client => if e.keyUser.isSome then some (none, "", false) else none
  | .server =>
    match udpExisting t e with
    | some s => if e.replay then none else some (s.block, s.policy.getD "", false)
    | none =>
      match e.keyUser with
      | some u => if e.replay then none else some (some u, u, true)
      | none => none

/-- everything `readOneSegment` checks after the metadata is decrypted -/
def udpAccept (m : Md) (e : Env) (authNew : Bool) : Bool :=
  if isSessionProtocol m.proto then
    sessionUnmarshalOk m && udpParseSession m e.body &&
    !(authNew && !validateServerSegmentDirection m.proto) &&
    !(authNew && m.proto == 2 && !validateNewServerSessionSegment m.proto m.sid)
  else if isDataAckProtocol m.proto then
    dataAckUnmarshalOk m && udpParseDataAck m e.body &&
    !(authNew && !validateServerSegmentDirection m.proto)
  else false

/-- `PacketUnderlay.readOneSegment`: `none` = the datagram is discarded -/
def udpRead (r : Role) (t : List Sess) (m : Md) (e : Env) : Option Seg :=
  if r == .client && !e.srcIsServer then none
  else if e.dgramLen < 72 then none
  else
    match udpDecrypt r t e with
    | none => none
    | some (blk, pol, authNew) =>
      if udpAccept m e authNew then some { md := m, block := blk, policy := pol, authNew := authNew }
      else none

/-- the repair: a server delivers a segment to an existing session only if the user whose cipher
    decrypted it is the session's owner -/
def ownerMatches (r : Role) (s : Sess) (g : Seg) : Bool :=
  match r, g.block with
  | .client, _ => true
  | .server, none => true
  | .server, some u =>
    match s.policy with
    | some p => p == u
    | none =>
      match s.block with
      | some b => b == u
      | none => true

/-- delivery to a session found in the map, behind the owner check of the repair -/
def deliverChecked (fixed : Bool) (r : Role) (t : List Sess) (s : Sess) (g : Seg) : Step :=
  if fixed && !ownerMatches r s g then { outcome := .drop, table := t } else deliverTo false r t s g

/-- `PacketUnderlay.RunEventLoop` for one parsed segment -/
def udpDispatch (fixed : Bool) (r : Role) (t : List Sess) (g : Seg) (e : Env) : Step :=
  let p := g.md.proto
  let sid := g.md.sid
  if isSessionProtocol p then
    if p == 2 then
      if r == .client then { outcome := .drop, table := t }
      else if sid == 0 then { outcome := .drop, table := t }
      else match findSess t sid with
        | some _ => { outcome := .drop, table := t }
        | none =>
          createSess false r t { id := sid, addr := e.src, policy := if g.policy == "" then none else some g.policy } g e.quotaOk
    else if p == 3 then
      if r == .server then { outcome := .drop, table := t }
      else match findSess t sid with
        | none => { outcome := .drop, table := t }
        | some s => deliverChecked fixed r t s g
    else
      match findSess t sid with
      | none => { outcome := .drop, table := t }
      | some s => deliverChecked fixed r t s g
  else if isDataAckProtocol p then
    match findSess t sid with
    | none =>
      let wants := r == .client || g.block.isSome
      { outcome := .drop, reply := wants && e.replyWriteOk, replyFailed := wants && !e.replyWriteOk, table := t }
    | some s => deliverChecked fixed r t s g
  else { outcome := .drop, table := t }

def udpStepWith (fixed : Bool) (r : Role) (t : List Sess) (m : Md) (e : Env) : Step :=
  match udpRead r t m e with
  | none => { outcome := .drop, table := t }
  | some g => udpDispatch fixed r t g e

/-- one datagram against the current (repaired) code -/
def udpStep (r : Role) (t : List Sess) (m : Md) (e : Env) : Step := udpStepWith true r t m e

/-- one iteration of `PacketUnderlay.RunEventLoop` INCLUDING its own `return`s. Besides shutdown (`ctx.Done`,
    `u.done`) and a failing socket read, the loop had one more `return`: `writeOneSegment() failed` for the
    close request it sends when a data / ack segment names an unknown session. Returning runs
    `defer u.conn.Close()`: the ONE socket all users of a server share is gone. `loopFix = false` is the code
    before "fix: a close request that cannot be sent does not stop the packet event loop"; since the repair the
    failure is logged and the loop goes on. -/
def udpLoopStepWith (fixed loopFix : Bool) (r : Role) (t : List Sess) (m : Md) (e : Env) : Step :=
  let s := udpStepWith fixed r t m e
  if s.replyFailed && !loopFix then { s with outcome := .closeUnderlay } else s

def udpLoopStep (loopFix : Bool) (r : Role) (t : List Sess) (m : Md) (e : Env) : Step :=
  udpLoopStepWith true loopFix r t m e

/-! ## TCP -/

structure TcpSt where
  clientUser : String := ""         -- client role: the configured user name (t.block's context)
  recv : Option String := none      -- user name of `t.recv`; none before the first segment
  srvPolicy : String := ""          -- `t.serverUserPolicy.Name()`
  table : List Sess := []
  deriving Repr, DecidableEq

/-- the metadata decryption of `StreamUnderlay.readOneSegment`: the user of `t.recv`, whether this was
    the user discovery of a new connection, and the receive-cipher state afterwards -/
def tcpDecrypt (r : Role) (st : TcpSt) (e : Env) : Except ErrType (String × Bool × TcpSt) :=
  match st.recv with
  | none =>
    match r with
    | .client =>
      if e.keyUser == some st.clientUser then .ok (st.clientUser, false, { st with recv := some st.clientUser })
      else .error .cryptoError
    | .server =>
      match e.keyUser with
      | none => if e.replay then .error .replayError else .error .cryptoError
      | some u => if e.replay then .error .replayError else .ok (u, true, { st with recv := some u })
  | some u =>
    if e.keyUser == some u then .ok (u, false, st) else .error .cryptoError

/-- everything `readOneSegment` / `readSessionSegment` / `readDataAckSegment` check after the metadata
    is decrypted: `none` = the segment is returned, `some t` = the typed error -/
def tcpParse (m : Md) (e : Env) : Option ErrType :=
  if isSessionProtocol m.proto then
    if !sessionUnmarshalOk m then some .protocolError
    else if !e.body.framed then some .cryptoError
    else if m.payloadLen > 0 && !e.body.payloadAuth then some .cryptoError
    else none
  else if isDataAckProtocol m.proto then
    if !dataAckUnmarshalOk m then some .protocolError
    else if !e.body.framed then some .cryptoError
    else if m.payloadLen > 0 && isLowEntropyProtocol m.proto && !e.body.leBodyOk then some .protocolError
    else if m.payloadLen > 0 && !e.body.payloadAuth then some .cryptoError
    else none
  else some .protocolError

/-- `StreamUnderlay.readOneSegment` for bytes that are a complete segment: the typed error, or the
    segment and the receive-cipher state. (`framed = false`: the declared lengths disagree with the
    bytes that follow, so this read or the next one ends in a failed decryption.) -/
def tcpRead (r : Role) (st : TcpSt) (m : Md) (e : Env) : Except ErrType (Seg × TcpSt) :=
  match tcpDecrypt r st e with
  | .error t => .error t
  | .ok (u, authNew, st') =>
    match tcpParse m e with
    | some t => .error t
    | none => .ok ({ md := m, block := some u, policy := if authNew then u else "", authNew := authNew }, st')

structure TcpStep where
  outcome : Outcome
  reply : Bool := false
  err : Option ErrType := none     -- the error type `RunEventLoop` examined, if readOneSegment failed
  st : TcpSt
  deriving Repr, DecidableEq

def liftStep (st1 : TcpSt) (s : Step) : TcpStep :=
  { outcome := s.outcome, reply := s.reply, st := { st1 with table := s.table } }

/-- `StreamUnderlay.RunEventLoop` for one segment's worth of bytes -/
def tcpStep (r : Role) (st : TcpSt) (m : Md) (e : Env) : TcpStep :=
  match tcpRead r st m e with
  | .error t =>
    -- `GetErrorType` on the returned error: NO_ERROR and UNKNOWN_ERROR panic
    if t == .noError || t == .unknownError then { outcome := .panic, err := some t, st := st }
    else { outcome := .closeUnderlay, err := some t, st := st }
  | .ok (g, st1) =>
    let p := m.proto
    let t := st1.table
    if g.authNew && !validateNewServerSessionSegment p m.sid then { outcome := .closeUnderlay, st := st1 }
    else if isSessionProtocol p then
      if p == 2 then
        if r == .client then { outcome := .closeUnderlay, st := st1 }
        else if m.sid == 0 then { outcome := .closeUnderlay, st := st1 }
        else match findSess t m.sid with
          | some _ => { outcome := .drop, st := st1 }
          | none =>
            let pol := if g.authNew then g.policy else st1.srvPolicy
            let c := createSess true r t { id := m.sid, policy := if pol == "" then none else some pol } g e.quotaOk
            { outcome := c.outcome,
              st := { st1 with table := c.table,
                               srvPolicy := if c.outcome == .createSession && g.authNew then g.policy else st1.srvPolicy } }
      else if p == 3 then
        if r == .server then { outcome := .closeUnderlay, st := st1 }
        else match findSess t m.sid with
          | none => { outcome := .closeUnderlay, st := st1 }
          | some s => liftStep st1 (deliverTo true r t s g)
      else
        match findSess t m.sid with
        | none => { outcome := .drop, st := st1 }
        | some s => liftStep st1 (deliverTo true r t s g)
    else if isDataAckProtocol p then
      match findSess t m.sid with
      | none => { outcome := .drop, reply := true, st := st1 }
      | some s => liftStep st1 (deliverTo true r t s g)
    else { outcome := .drop, st := st1 }

/-! ## Histories -/

/-- a whole sequence of datagrams; stops at a panic -/
def udpRun (r : Role) : List Sess → List (Md × Env) → List Outcome × List Sess
  | t, [] => ([], t)
  | t, (m, e) :: rest =>
    let s := udpStep r t m e
    if s.outcome == .panic then ([.panic], s.table) else
    let (os, t') := udpRun r s.table rest
    (s.outcome :: os, t')

/-- a whole sequence of segments on one connection; stops when the event loop returns or panics -/
def tcpRun (r : Role) : TcpSt → List (Md × Env) → List Outcome × TcpSt
  | st, [] => ([], st)
  | st, (m, e) :: rest =>
    let s := tcpStep r st m e
    if s.outcome == .panic || s.outcome == .closeUnderlay then ([s.outcome], s.st) else
    let (os, st') := tcpRun r s.st rest
    (s.outcome :: os, st')

end Mieru.Dispatch
