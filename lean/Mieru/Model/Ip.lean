/-!
# IP address classes

Two layers, related by the theorems in `Mieru.Props.C12` (`ip_class_boundaries`):

* `isLoopback`, `isPrivate`, `isUnspecified`, `to4`: Go's `net.IP.IsLoopback / IsPrivate /
  IsUnspecified / To4`, transcribed from the standard library source (byte tests);
* `specLoopback`, `specPrivate`, `specUnspecified`: the classes written from the RFCs as numeric
  ranges over the big-endian value of the address (RFC 1122 §3.2.1.3 127.0.0.0/8, RFC 4291 §2.5.3
  ::1, §2.5.2 ::, RFC 1918 §3 10/8 172.16/12 192.168/16, RFC 4193 fc00::/7, RFC 4291 §2.5.5.2
  IPv4-mapped ::ffff:a.b.c.d).

An address is a `List UInt8` of length 4 or 16 (what `AddrSpec.ReadFromSocks5` produces), `[]`
when absent.
-/
namespace Mieru.Ip

abbrev IP := List UInt8

/-- `v4InV6Prefix` of package net -/
def v4InV6Prefix : List UInt8 := [0, 0, 0, 0, 0, 0, 0, 0, 0, 0, 0xff, 0xff]

def ipv6loopback : IP := [0, 0, 0, 0, 0, 0, 0, 0, 0, 0, 0, 0, 0, 0, 0, 1]
def ipv6unspecified : IP := [0, 0, 0, 0, 0, 0, 0, 0, 0, 0, 0, 0, 0, 0, 0, 0]
def ipv4zero : IP := [0, 0, 0, 0]
def ipv4loopback : IP := [127, 0, 0, 1]

/-- `net.IP.To4`: the 4-byte form of a 4-byte address or of an IPv4-mapped 16-byte address -/
def to4 (ip : IP) : Option IP :=
  if ip.length = 4 then some ip
  else if ip.length = 16 ∧ ip.take 12 = v4InV6Prefix then some (ip.drop 12)
  else none

/-- `net.IP.IsLoopback`: `if ip4 := ip.To4(); ip4 != nil { return ip4[0] == 127 }; return ip.Equal(IPv6loopback)` -/
def isLoopback (ip : IP) : Bool :=
  match to4 ip with
  | some ip4 => ip4.head? == some 127
  | none => ip == ipv6loopback

/-- `net.IP.IsPrivate` -/
def isPrivate (ip : IP) : Bool :=
  match to4 ip with
  | some ip4 =>
    match ip4 with
    | a :: b :: _ => a == 10 || (a == 172 && (b &&& 0xf0) == 16) || (a == 192 && b == 168)
    | _ => false
  | none =>
    match ip with
    | a :: _ => ip.length == 16 && (a &&& 0xfe) == 0xfc
    | [] => false

/-- `net.IP.IsUnspecified`: `ip.Equal(IPv4zero) || ip.Equal(IPv6unspecified)`; `Equal` identifies a
    4-byte address with its IPv4-mapped 16-byte form -/
def isUnspecified (ip : IP) : Bool :=
  ip == ipv4zero || ip == v4InV6Prefix ++ ipv4zero || ip == ipv6unspecified

/-! ## the classes as numeric ranges (from the RFCs) -/

/-- big-endian value -/
def beVal (bs : List UInt8) : Nat := bs.foldl (fun acc b => acc * 256 + b.toNat) 0

/-- the IPv4 address an `IP` denotes, as a 32-bit number: a 4-byte address, or an IPv4-mapped
    IPv6 address `::ffff:a.b.c.d` (value in `[0xffff_0000_0000, 0xffff_ffff_ffff]`) -/
def v4Val (ip : IP) : Option Nat :=
  if ip.length = 4 then some (beVal ip)
  else if ip.length = 16 ∧ 0xffff00000000 ≤ beVal ip ∧ beVal ip ≤ 0xffffffffffff then some (beVal ip - 0xffff00000000)
  else none

/-- a proper (not IPv4-mapped) IPv6 address, as a 128-bit number -/
def v6Val (ip : IP) : Option Nat :=
  if ip.length = 16 ∧ ¬ (0xffff00000000 ≤ beVal ip ∧ beVal ip ≤ 0xffffffffffff) then some (beVal ip) else none

/-- 127.0.0.0 – 127.255.255.255, or ::1 -/
def specLoopback (ip : IP) : Prop :=
  (∃ v, v4Val ip = some v ∧ 0x7f000000 ≤ v ∧ v ≤ 0x7fffffff) ∨ v6Val ip = some 1

/-- 10.0.0.0 – 10.255.255.255, 172.16.0.0 – 172.31.255.255, 192.168.0.0 – 192.168.255.255,
    or fc00:: – fdff:ffff:ffff:ffff:ffff:ffff:ffff:ffff -/
def specPrivate (ip : IP) : Prop :=
  (∃ v, v4Val ip = some v ∧
    ((0x0a000000 ≤ v ∧ v ≤ 0x0affffff) ∨ (0xac100000 ≤ v ∧ v ≤ 0xac1fffff) ∨ (0xc0a80000 ≤ v ∧ v ≤ 0xc0a8ffff))) ∨
  (∃ v, v6Val ip = some v ∧ 0xfc00 * 2 ^ 112 ≤ v ∧ v < 0xfe00 * 2 ^ 112)

/-- 0.0.0.0 (also as ::ffff:0.0.0.0) or :: -/
def specUnspecified (ip : IP) : Prop :=
  v4Val ip = some 0 ∨ v6Val ip = some 0

end Mieru.Ip
