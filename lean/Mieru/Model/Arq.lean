/-!
# UDP transport: sliding-window retransmission protocol (pkg/protocol/session.go, packet transport)

One direction of one session: a sender (`Session.Write/writeChunk` + `runOutputOncePacket` +
`inputAck/inputData` ack processing), a receiver (`inputData` + `moveRecvBufToRecvQueue` + pure acks)
and a network that may drop, duplicate, delay and reorder every datagram arbitrarily.

State (sequence numbers are naturals; the code's uint32 wraps after 2^32 segments of one session,
which is stated as a bound, not modelled):
* `segs`      content of every segment ever queued, index = sequence number (content fixed at creation)
* `qLo`       first sequence number not yet transmitted: sendQueue = [qLo, |segs|)
* `lo`        sendBuf = [lo, qLo): transmitted and not yet discarded
* `win`       how many segments may be outstanding (cwnd / remote window, ≥ 1, abstracted to a bound
               chosen per step by the environment — CUBIC's floating point is outside the model)
* `nextRecv`, `recvBuf`, `delivered`   receiver: next in-order sequence number, out-of-order buffer,
               what has been handed to the application (recvQueue + Read)
* `netData`, `netAck`   datagrams in flight;  `sent`, `acked`  history of everything ever emitted

Timers are nondeterministic: `retransmit` may fire for any segment of sendBuf at any time.
-/
namespace Mieru.Arq

structure Msg where
  seq : Nat
  pay : Nat
deriving DecidableEq, Repr

structure St where
  segs : List Nat
  qLo : Nat
  lo : Nat
  nextRecv : Nat
  recvBuf : List Msg
  delivered : List Nat
  netData : List Msg
  netAck : List Nat
  sent : List Msg
  acked : List Nat
deriving DecidableEq, Repr

def init : St := ⟨[], 0, 0, 0, [], [], [], [], [], []⟩

/-- `moveRecvBufToRecvQueue`: move in-order segments from recvBuf to the application, dropping
    stale ones (fuel = buffer length + 1). -/
def drain : Nat → St → St
  | 0, s => s
  | fuel+1, s =>
    match s.recvBuf.find? (fun m => m.seq == s.nextRecv) with
    | some m => drain fuel { s with nextRecv := s.nextRecv + 1, delivered := s.delivered ++ [m.pay],
                                     recvBuf := s.recvBuf.filter (fun x => x.seq != s.nextRecv) }
    | none => s

/-- what receiving data message `m` does (`inputData`): buffer unless stale, then drain -/
def recv (s : St) (m : Msg) : St :=
  drain (s.recvBuf.length + 2)
    { s with netData := s.netData.erase m,
             recvBuf := if m.seq < s.nextRecv then s.recvBuf else m :: s.recvBuf }

/-- `W` = the window: at most `W` segments may be outstanding (the code keeps cwnd ≥ minWindowSize) -/
inductive Step (W : Nat) : St → St → Prop
  /-- application write: one more segment is queued, numbered |segs| -/
  | write (s : St) (p : Nat) : Step W s { s with segs := s.segs ++ [p] }
  /-- first transmission of the head of sendQueue, allowed while fewer than `win` are outstanding -/
  | sendNew (s : St) (p : Nat) (h : s.segs[s.qLo]? = some p) (hw : s.qLo - s.lo < W) :
      Step W s { s with qLo := s.qLo + 1, netData := ⟨s.qLo, p⟩ :: s.netData, sent := ⟨s.qLo, p⟩ :: s.sent }
  /-- retransmission (timeout or 3 duplicate acks) of any segment still in sendBuf -/
  | retransmit (s : St) (k p : Nat) (hk : s.lo ≤ k ∧ k < s.qLo) (h : s.segs[k]? = some p) :
      Step W s { s with netData := ⟨k, p⟩ :: s.netData, sent := ⟨k, p⟩ :: s.sent }
  | dropData (s : St) (m : Msg) : Step W s { s with netData := s.netData.erase m }
  | dupData (s : St) (m : Msg) (h : m ∈ s.netData) : Step W s { s with netData := m :: s.netData }
  | recvData (s : St) (m : Msg) (h : m ∈ s.netData) : Step W s (recv s m)
  /-- any emitted datagram carries the cumulative ack `unAckSeq = nextRecv` -/
  | sendAck (s : St) : Step W s { s with netAck := s.nextRecv :: s.netAck, acked := s.nextRecv :: s.acked }
  | dropAck (s : St) (a : Nat) : Step W s { s with netAck := s.netAck.erase a }
  | dupAck (s : St) (a : Nat) (h : a ∈ s.netAck) : Step W s { s with netAck := a :: s.netAck }
  /-- `inputAck`/`inputData`: discard every sendBuf segment with seq < unAckSeq -/
  | recvAck (s : St) (a : Nat) (h : a ∈ s.netAck) :
      Step W s { s with netAck := s.netAck.erase a, lo := max s.lo (min a s.qLo) }

inductive Reach (W : Nat) : St → Prop
  | init : Reach W init
  | step {s t} : Reach W s → Step W s t → Reach W t

/-- reflexive-transitive closure -/
inductive Steps (W : Nat) : St → St → Prop
  | refl (s) : Steps W s s
  | cons {s t u} : Step W s t → Steps W t u → Steps W s u

/-! ## Executable acceptor used by the correspondence check

The harness replays the history it observed on the simulated network (application writes, every
datagram emitted with its decoded sequence number / ack / payload digest, every datagram handed to
an endpoint, application reads) and the acceptor checks that each event is a step the model allows
in its current state. -/

inductive Ev where
  | write (p : Nat)
  | send (seq pay : Nat)          -- the sender emitted a data datagram
  | deliver (seq pay : Nat)       -- the network handed a data datagram to the receiver
  | ack (a : Nat)                 -- the receiver emitted a datagram carrying unAckSeq = a
  | ackIn (a : Nat)               -- the network handed an ack to the sender
deriving Repr

/-- one acceptor step: `none` = the observed event is not a step of the model -/
def accept (s : St) : Ev → Option St
  | .write p => some { s with segs := s.segs ++ [p] }
  | .send k p =>
    if s.segs[k]? ≠ some p then none
    else if k = s.qLo then
      some { s with qLo := s.qLo + 1, netData := ⟨k, p⟩ :: s.netData, sent := ⟨k, p⟩ :: s.sent }
    else if k < s.qLo then
      some { s with netData := ⟨k, p⟩ :: s.netData, sent := ⟨k, p⟩ :: s.sent }
    else none
  | .deliver k p =>
    if (⟨k, p⟩ : Msg) ∈ s.sent then some (recv { s with netData := ⟨k, p⟩ :: s.netData } ⟨k, p⟩) else none
  | .ack a =>
    if a ≤ s.nextRecv then some { s with netAck := a :: s.netAck, acked := a :: s.acked } else none
  | .ackIn a =>
    if a ∈ s.acked then some { s with lo := max s.lo (min a s.qLo) } else none

def acceptAll (s : St) : List Ev → Option St
  | [] => some s
  | e :: es => match accept s e with
    | none => none
    | some s' => acceptAll s' es

end Mieru.Arq
