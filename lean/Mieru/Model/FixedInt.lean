import Mieru.Crypto.SHA256
/-!
# `rng.FixedInt` modelled exactly (pkg/rng/rng.go)

```go
func FixedInt(n int, hint string) int {
	if n <= 0 { return 0 }
	b := sha256.Sum256([]byte(hint)); b[0] &= 0b01111111
	v := int(binary.BigEndian.Uint32(b[:4]))          // cached per hint in a sync.Map
	return v % n
}
```
The hint cache (`fixed sync.Map`) stores a pure function of the hint, so it is not modelled; the
harness compares first and repeated calls.  SHA-256 is the executable `Mieru.Crypto.SHA256.hash`
(validated by vectors and differentially, not proved): what is proved about `fixedIntSha` below
uses only `% n`, whatever the hash is.  Core Lean only.
-/
namespace Mieru.FixedInt

/-- the 31-bit value `rng.FixedInt` derives from the hint: big-endian first four bytes of
    SHA-256(hint) with the top bit of byte 0 cleared -/
def raw31 (hint : ByteArray) : Nat :=
  let b := Mieru.Crypto.SHA256.hash hint
  ((b.get! 0) &&& 0x7f).toNat * 16777216 + (b.get! 1).toNat * 65536 + (b.get! 2).toNat * 256 + (b.get! 3).toNat

/-- `rng.FixedInt(n, hint)` for a Go `int` n (negative and zero included) and a hint given as bytes -/
def fixedIntBytes (n : Int) (hint : ByteArray) : Int :=
  if n ≤ 0 then 0 else ((raw31 hint % n.toNat : Nat) : Int)

/-- `rng.FixedInt` in the shape the traffic-pattern model takes (`fi : Nat → String → Nat`):
    the hint is a string (the code's hints are ASCII, `toUTF8` = Go's `[]byte(hint)`) -/
def fixedIntSha (n : Nat) (hint : String) : Nat :=
  if n = 0 then 0 else raw31 hint.toUTF8 % n

theorem fixedIntSha_lt (n : Nat) (hint : String) (hn : 0 < n) : fixedIntSha n hint < n := by
  unfold fixedIntSha
  rw [if_neg (by omega)]
  exact Nat.mod_lt _ hn

/-- the two shapes agree -/
theorem fixedIntBytes_eq (n : Int) (hint : String) :
    fixedIntBytes n hint.toUTF8 = if n ≤ 0 then 0 else ((fixedIntSha n.toNat hint : Nat) : Int) := by
  unfold fixedIntBytes fixedIntSha
  by_cases h : n ≤ 0
  · simp [h]
  · have : n.toNat ≠ 0 := by omega
    simp [h, this]

end Mieru.FixedInt
