import Mieru.Model.SocksMsg
/-!
# SOCKS5 request and reply messages (apis/model/socks.go)

    +----+-----+-------+------+----------+----------+
    |VER | CMD |  RSV  | ATYP | DST.ADDR | DST.PORT |      (reply: REP instead of CMD, BND.* instead of DST.*)
    +----+-----+-------+------+----------+----------+

* `parseMsg`   — `Request.ReadFromSocks5` and `Response.ReadFromSocks5` (3-byte header, version checked,
                 reserved byte ignored, then `AddrSpec.ReadFromSocks5` = `SocksMsg.parseAddr`)
* `parseMsg4`  — `ReadSocks5Request` / `ReadSocks5Response` (4-byte header read at once, version NOT checked;
                 used for the replies of an egress SOCKS5 proxy and for forwarded requests)
* `buildMsg`   — `Request.WriteToSocks5` / `Response.WriteToSocks5`

The address parser, the UDP request header and the UDP-associate wrapper are modelled in
`Mieru.Model.SocksMsg` (C18); this file only adds what C10 needs on top. Every function is total:
each byte string gets a message or one of three named errors.
-/
namespace Mieru.SocksReq
open Mieru.PoS (Bytes)
open Mieru.SocksMsg

inductive RErr
  | short           -- io.EOF / io.ErrUnexpectedEOF from io.ReadFull
  | badVersion      -- "invalid version"
  | unrecognized    -- model.ErrUnrecognizedAddrType
  deriving DecidableEq, Repr

structure Msg where
  code : UInt8          -- CMD of a request, REP of a reply
  addr : AddrPort
  raw : Bytes           -- the bytes consumed (`Request.Raw` / `Response.Raw`)
  deriving DecidableEq, Repr

def liftAddr (code : UInt8) (whole : Bytes) : Except AErr (AddrPort × Bytes) → Except RErr (Msg × Bytes)
  | .error .short => .error .short
  | .error .unrecognized => .error .unrecognized
  | .ok (a, rest) => .ok ({ code := code, addr := a, raw := whole.take (whole.length - rest.length) }, rest)

/-- `Request.ReadFromSocks5` / `Response.ReadFromSocks5` on a reader holding `r` -/
def parseMsg (r : Bytes) : Except RErr (Msg × Bytes) :=
  match r with
  | v :: c :: _rsv :: rest =>
    if v ≠ 0x05 then .error .badVersion else liftAddr c r (parseAddr rest)
  | _ => .error .short

/-- `ReadSocks5Request` / `ReadSocks5Response`: four header bytes are read at once, the version is not looked at -/
def parseMsg4 (r : Bytes) : Except RErr (Msg × Bytes) :=
  match r with
  | _v :: c :: _rsv :: t :: rest => liftAddr c r (parseAddr (t :: rest))
  | _ => .error .short

/-- `Request.WriteToSocks5` / `Response.WriteToSocks5`; `none` = ErrUnrecognizedAddrType -/
def buildMsg (code : UInt8) (a : AddrPort) : Option Bytes :=
  (buildAddr a).map fun h => (0x05 : UInt8) :: code :: 0x00 :: h

end Mieru.SocksReq
