import Mieru.Model.Ip
/-!
# The SOCKS5 egress decision (pkg/socks5/egress.go) and what the server then addresses
(pkg/socks5/socks5.go serverServeConn, handler.go handleRequest/handleConnect/handleAssociate*,
udp.go relay loops, apis/model/addr.go, apis/model/socks.go)

The model follows the REPAIRED code (repo commits "fix: socks5 egress rejects CONNECT to unspecified
addresses like loopback", "… to an empty host name …", "… matches well-known local host names
case-insensitively", "… checks IP address literals sent as domain names", "fix: socks5 UDP associate
checks the destination of every relayed packet").

External library calls are parameters: `parseIP` is `net.ParseIP` (the harness passes Go's own answer
for the text the model asks about: the domain-typed destination with its IPv6 zone cut off, as
`parseIPLiteral` does since "fix: classify a zoned IPv6 literal sent as a domain name by its address");
`resolve` is the server's resolver followed by `SelectIPFromList`; CIDR strings are pre-parsed by `net.ParseCIDR`
into network number and mask; the pseudo-random choice among a rule's proxy names is represented
by the list of all possible outcomes.
-/
namespace Mieru.Egress
open Mieru.Ip

abbrev Name := List UInt8

/-! ## requests -/

/-- `model.AddrSpec` as produced by `ReadFromSocks5`: exactly one of `ip` / `fqdn` is meaningful;
    a zero-length domain gives both empty -/
structure Dst where
  ip : IP
  fqdn : Name
  port : Nat
deriving DecidableEq, Repr

structure Request where
  cmd : UInt8
  dst : Dst
  rawLen : Nat
deriving DecidableEq, Repr

inductive ParseErr
  | eof | badVersion | badAtyp
deriving DecidableEq, Repr

def connectCmd : UInt8 := 1
def bindCmd : UInt8 := 2
def udpAssociateCmd : UInt8 := 3

/-- `AddrSpec.ReadFromSocks5` on the bytes after the 3-byte header -/
def parseAddr (t : List UInt8) : Except ParseErr (Dst × Nat) :=
  match t with
  | [] => .error .eof
  | atyp :: r =>
    if atyp = 1 then
      if r.length < 4 then .error .eof else
      let r2 := r.drop 4
      match r2 with
      | p1 :: p2 :: _ => .ok (⟨r.take 4, [], p1.toNat * 256 + p2.toNat⟩, 1 + 4 + 2)
      | _ => .error .eof
    else if atyp = 4 then
      if r.length < 16 then .error .eof else
      let r2 := r.drop 16
      match r2 with
      | p1 :: p2 :: _ => .ok (⟨r.take 16, [], p1.toNat * 256 + p2.toNat⟩, 1 + 16 + 2)
      | _ => .error .eof
    else if atyp = 3 then
      match r with
      | [] => .error .eof
      | n :: r1 =>
        if r1.length < n.toNat then .error .eof else
        let r2 := r1.drop n.toNat
        match r2 with
        | p1 :: p2 :: _ => .ok (⟨[], r1.take n.toNat, p1.toNat * 256 + p2.toNat⟩, 1 + 1 + n.toNat + 2)
        | _ => .error .eof
    else .error .badAtyp

/-- `Request.ReadFromSocks5`: 3-byte header (version, command, reserved), then the address.
    Trailing bytes are left unread. -/
def parseRequest (data : List UInt8) : Except ParseErr Request :=
  match data with
  | ver :: cmd :: _rsv :: t =>
    if ver ≠ 5 then .error .badVersion else
    match parseAddr t with
    | .ok (dst, n) => .ok ⟨cmd, dst, 3 + n⟩
    | .error e => .error e
  | _ => .error .eof

/-! ## well-known local names, `strings.EqualFold` -/

def wellKnownV4 : List Name := [
  [108, 111, 99, 97, 108, 104, 111, 115, 116],                                  -- localhost
  [108, 111, 99, 97, 108, 104, 111, 115, 116, 52],                              -- localhost4
  [108, 111, 99, 97, 108, 104, 111, 115, 116, 46, 108, 111, 99, 97, 108, 100, 111, 109, 97, 105, 110], -- localhost.localdomain
  [108, 111, 99, 97, 108, 104, 111, 115, 116, 52, 46, 108, 111, 99, 97, 108, 100, 111, 109, 97, 105, 110, 52]] -- localhost4.localdomain4

def wellKnownV6 : List Name := [
  [108, 111, 99, 97, 108, 104, 111, 115, 116, 54],                              -- localhost6
  [105, 112, 54, 45, 108, 111, 99, 97, 108, 104, 111, 115, 116],                -- ip6-localhost
  [105, 112, 54, 45, 108, 111, 111, 112, 98, 97, 99, 107],                      -- ip6-loopback
  [108, 111, 99, 97, 108, 104, 111, 115, 116, 54, 46, 108, 111, 99, 97, 108, 100, 111, 109, 97, 105, 110, 54]] -- localhost6.localdomain6

/-- ASCII lower-casing of one byte -/
def lowerByte (b : UInt8) : UInt8 := if 65 ≤ b ∧ b ≤ 90 then b + 32 else b

def asciiLower (s : Name) : Name := s.map lowerByte

/-- two ASCII bytes are equal under simple case folding (the ASCII branch of `strings.EqualFold`) -/
def asciiFoldEq (a c : UInt8) : Bool :=
  a == c || (let lo := min a c; let hi := max a c; 65 ≤ lo && lo ≤ 90 && hi == lo + 32)

/-- `strings.EqualFold s t` for a pure-ASCII `t`: besides ASCII case, the only runes whose simple-fold
    orbit contains an ASCII letter are U+017F (ſ ~ s, UTF-8 C5 BF) and U+212A (K ~ k, UTF-8 E2 84 AA);
    every other non-ASCII rune, and invalid UTF-8, matches nothing in `t`. -/
def foldEq : Name → Name → Bool
  | [], [] => true
  | [], _ :: _ => false
  | _ :: _, [] => false
  | 0xC5 :: 0xBF :: s, c :: t => (c == 115 || c == 83) && foldEq s t
  | 0xE2 :: 0x84 :: 0xAA :: s, c :: t => (c == 107 || c == 75) && foldEq s t
  | a :: s, c :: t => a < 128 && asciiFoldEq a c && foldEq s t

def isWellKnownV4 (name : Name) : Bool := wellKnownV4.any (foldEq name)
def isWellKnownV6 (name : Name) : Bool := wellKnownV6.any (foldEq name)

/-- `net.ParseIP("127.0.0.1")` / `net.ParseIP("::1")`: 16-byte forms -/
def parsedLoopback4 : IP := v4InV6Prefix ++ ipv4loopback
def parsedLoopback6 : IP := ipv6loopback

/-- `parseIPLiteral`: `if i := strings.IndexByte(s, '%'); i >= 0 { s = s[:i] }` — everything from the
    first `%` (0x25) on is an IPv6 zone and is ignored, as the resolver ignores it -/
def cutZone : Name → Name
  | [] => []
  | b :: t => if b = 0x25 then [] else b :: cutZone t

/-- `parseIPLiteral(s) = net.ParseIP(s without zone)` -/
def parseIPLiteral (parseIP : Name → Option IP) (s : Name) : Option IP := parseIP (cutZone s)

/-! ## configuration -/

inductive Action
  | proxy | direct | reject
deriving DecidableEq, Repr

structure User where
  name : Name
  allowPrivate : Bool
  allowLoopback : Bool
deriving Repr

/-- one entry of `EgressRule.IpRanges` after `net.ParseCIDR` -/
inductive IpRange
  | star                                   -- "*"
  | cidr (net : IP) (mask : List UInt8)    -- `IPNet.IP`, `IPNet.Mask`
  | invalid                                -- `ParseCIDR` failed: skipped
deriving Repr

inductive DomainPat
  | star
  | name (d : Name)
deriving Repr

structure Rule where
  ipRanges : List IpRange
  domains : List DomainPat
  action : Action
  proxyNames : List Name
deriving Repr

structure Config where
  users : List User                  -- `Config.Users` (a map: at most one entry per name)
  rules : List Rule                  -- `Egress.Rules`, in order
  proxies : List Name                -- names of `Egress.Proxies`, in order
  allowLoopbackDestination : Bool
deriving Repr

def lookupUser (users : List User) (n : Name) : Option User := users.find? (·.name == n)

/-! ## step 1: private / loopback -/

/-- the address `rejectPrivateAndLoopbackIPAction` classifies: `none` = return DIRECT at once -/
def checkedIP (parseIP : Name → Option IP) (req : Request) : Option IP :=
  if req.dst.ip.isEmpty && !req.dst.fqdn.isEmpty then
    if isWellKnownV4 req.dst.fqdn then some parsedLoopback4
    else if isWellKnownV6 req.dst.fqdn then some parsedLoopback6
    else parseIPLiteral parseIP req.dst.fqdn   -- an IP literal (zone ignored) sent as a domain name; `none`: ordinary name
  else if req.dst.ip.isEmpty then
    if req.cmd ≠ connectCmd then none else some parsedLoopback4   -- empty host
  else some req.dst.ip

/-- `rejectPrivateAndLoopbackIPAction` (returns only DIRECT or REJECT). `envUser` is `in.Env["user"]`
    (`none`: key absent). -/
def rejectPrivateAndLoopback (cfg : Config) (parseIP : Name → Option IP) (envUser : Option Name)
    (req : Request) : Action :=
  match checkedIP parseIP req with
  | none => .direct
  | some ip =>
    let loop := isLoopback ip || (isUnspecified ip && req.cmd == connectCmd)
    if !isPrivate ip && !loop then .direct
    else if loop && cfg.allowLoopbackDestination then .direct
    else
      match envUser with
      | none => .reject
      | some n =>
        if n.isEmpty then .reject else
        match lookupUser cfg.users n with
        | none => .reject
        | some u =>
          if isPrivate ip && u.allowPrivate then .direct
          else if loop && u.allowLoopback then .direct
          else .reject

/-! ## step 2: egress rules, first match wins -/

/-- `networkNumberAndMask` of package net, on `IPNet.IP` / `IPNet.Mask` as `ParseCIDR` returned them -/
def networkNumberAndMask (nip : IP) (mask : List UInt8) : Option (IP × List UInt8) :=
  let ip? : Option IP := match to4 nip with
    | some x => some x
    | none => if nip.length = 16 then some nip else none
  match ip? with
  | none => none
  | some ip =>
    if mask.length = 4 then (if ip.length = 4 then some (ip, mask) else none)
    else if mask.length = 16 then (if ip.length = 4 then some (ip, mask.drop 12) else some (ip, mask))
    else none

/-- `IPNet.Contains`: the address is reduced by `To4` when possible, lengths must agree, masked
    bytes must agree -/
def cidrContains (nip mask : List UInt8) (addr : IP) : Bool :=
  match networkNumberAndMask nip mask with
  | none => false
  | some (nn, m) =>
    let a := (to4 addr).getD addr
    a.length == nn.length &&
      (List.zip (List.zip nn a) m).all fun ((n, x), mb) => (n &&& mb) == (x &&& mb)

def ipRangeMatches (addr : IP) : IpRange → Bool
  | .star => true
  | .cidr net mask => cidrContains net mask addr
  | .invalid => false

/-- `domain = asciiLower(domain)`, `d = asciiLower(d)`, `domain == d || strings.HasSuffix(domain, "." + d)`
    (since "fix: socks5 egress domain name rules match case-insensitively"; before it the comparison was bytewise) -/
def domainMatches (domain : Name) : DomainPat → Bool
  | .star => true
  | .name d => asciiLower domain == asciiLower d || (46 :: asciiLower d).isSuffixOf (asciiLower domain)

/-- the address the IP ranges of a rule are applied to: the request's own, or — since "fix: socks5 egress IP range
    rules match an IP address literal sent as a domain name" — the literal (zone ignored) a domain-typed destination
    spells; `none`: an ordinary name -/
def ruleIP (parseIP : Name → Option IP) (dst : Dst) : Option IP :=
  if !dst.ip.isEmpty then some dst.ip
  else if !dst.fqdn.isEmpty then parseIPLiteral parseIP dst.fqdn
  else none

/-- `matchEgressRule`: IP ranges apply to IP-typed destinations and to IP literals sent as a domain name, domain
    patterns to every domain-typed destination (ASCII case-insensitively) -/
def ruleMatches (parseIP : Name → Option IP) (dst : Dst) (r : Rule) : Bool :=
  (match ruleIP parseIP dst with
    | some ip => r.ipRanges.any (ipRangeMatches ip)
    | none => false) ||
  (dst.ip.isEmpty && !dst.fqdn.isEmpty && r.domains.any (domainMatches dst.fqdn))

structure Decision where
  action : Action
  /-- for PROXY: every outcome of the random choice, as the index of the selected proxy in
      `Egress.Proxies` or `none` when the chosen name is not configured (`Action.Proxy == nil`) -/
  proxyChoices : List (Option Nat)
deriving Repr

def proxyChoicesOf (cfg : Config) (r : Rule) : List (Option Nat) :=
  let cands := if r.proxyNames.isEmpty then [[]] else r.proxyNames
  cands.map fun n =>
    let i := cfg.proxies.findIdx (· == n)
    if i < cfg.proxies.length then some i else none

/-- `forwardToProxyAction` -/
def forwardToProxy (cfg : Config) (parseIP : Name → Option IP) (req : Request) : Decision :=
  if req.dst.ip.isEmpty && req.dst.fqdn.isEmpty then ⟨.direct, []⟩ else
  match cfg.rules.find? (ruleMatches parseIP req.dst) with
  | none => ⟨.direct, []⟩
  | some r => if r.action = .proxy then ⟨.proxy, proxyChoicesOf cfg r⟩ else ⟨r.action, []⟩

/-- `FindAction` (`protoOK`: `in.Protocol == SOCKS5_PROXY_PROTOCOL`) -/
def findAction (cfg : Config) (parseIP : Name → Option IP) (protoOK : Bool) (envUser : Option Name)
    (data : List UInt8) : Decision :=
  if !protoOK then ⟨.direct, []⟩ else
  if data.length < 4 then ⟨.direct, []⟩ else
  match parseRequest data with
  | .error _ => ⟨.direct, []⟩
  | .ok req =>
    if req.cmd = connectCmd ∨ req.cmd = udpAssociateCmd then
      if rejectPrivateAndLoopback cfg parseIP envUser req = .reject then ⟨.reject, []⟩
      else forwardToProxy cfg parseIP req
    else ⟨.direct, []⟩

/-! ## what the server then does -/

/-- what `handleConnect` (after `handleRequest`) or the UDP relay addresses -/
inductive Target
  | ip (ip : IP) (port : Nat)         -- literal address
  | name (fqdn : Name) (port : Nat)   -- resolved with the server's resolver, then dialled
  | emptyHost (port : Nat)            -- `net.JoinHostPort("", port)` = ":port": the local machine
deriving DecidableEq, Repr

/-- `handleRequest` resolves when `FQDN != ""`; otherwise `AddrSpec.String()` prefers the IP -/
def dialTarget (d : Dst) : Target :=
  if !d.fqdn.isEmpty then .name d.fqdn d.port
  else if !d.ip.isEmpty then .ip d.ip d.port
  else .emptyHost d.port

inductive Served
  | noReply                              -- unreadable request / PROXY without proxy: closed silently
  | reply (code : UInt8)                 -- error reply, nothing dialled
  | connect (t : Target)                 -- DIRECT CONNECT: dial `t` (the reply depends on the dial)
  | associate                            -- DIRECT UDP ASSOCIATE: listener opened, reply 00
  | forward (choices : List (Option Nat)) -- PROXY: hand the request to one of these egress proxies
deriving DecidableEq, Repr

/-- `serverServeConn` after authentication: `readRequest`, `FindAction`, dispatch -/
def serveRequest (cfg : Config) (parseIP : Name → Option IP) (envUser : Option Name) (data : List UInt8) : Served :=
  match parseRequest data with
  | .error .badAtyp => .reply 8
  | .error _ => .noReply
  | .ok req =>
    -- `request.Raw` is exactly the bytes `readRequest` consumed; `FindAction` re-parses them
    let d := findAction cfg parseIP true envUser (data.take req.rawLen)
    match d.action with
    | .reject => .reply 2
    | .proxy => .forward d.proxyChoices
    | .direct =>
      if req.cmd = connectCmd then .connect (dialTarget req.dst)
      else if req.cmd = udpAssociateCmd then .associate
      else .reply 7

/-! ## UDP relay: one datagram -/

inductive Relay
  | invalid                -- unparsable datagram (ends the packet-over-stream loop, skipped in datagram mode)
  | dropped                -- refused by the destination filter
  | unresolvable           -- neither IP nor name
  | send (t : Target)
deriving DecidableEq, Repr

/-- `parseSocks5UDPDatagram`: `RSV RSV FRAG ATYP ADDR PORT DATA`, at least 7 bytes, RSV = 0, FRAG = 0 -/
def parseDatagram (pkt : List UInt8) : Option Dst :=
  if pkt.length ≤ 6 then none else
  match pkt with
  | r0 :: r1 :: frag :: t =>
    if r0 ≠ 0 ∨ r1 ≠ 0 ∨ frag ≠ 0 then none else
    match parseAddr t with
    | .ok (dst, _) => some dst
    | .error _ => none
  | _ => none

/-- the server's relay loops (`runUDPAssociateLoop`, `runUDPAssociateDatagramLoop`) with the filter
    `udpDestinationFilter`: the header's destination is checked like the destination of a CONNECT -/
def relayDatagram (cfg : Config) (parseIP : Name → Option IP) (envUser : Option Name) (pkt : List UInt8) : Relay :=
  match parseDatagram pkt with
  | none => .invalid
  | some dst =>
    if rejectPrivateAndLoopback cfg parseIP envUser ⟨connectCmd, dst, 0⟩ = .reject then .dropped
    else if dst.ip.length = 4 ∨ dst.ip.length = 16 then .send (.ip dst.ip dst.port)   -- resolveSocks5UDPAddr
    else if !dst.fqdn.isEmpty then .send (.name dst.fqdn dst.port)
    else .unresolvable

/-! ## a whole UDP association: the relay loop over a SEQUENCE of datagrams

`runUDPAssociateLoop` (packet-over-stream mode) and `runUDPAssociateDatagramLoop` (datagram mode) are loops:
each iteration parses one datagram of the client, asks the destination filter, resolves, remembers the
destination (`addrMap.Store` / `targetAddrs[...]`) and writes. The only state an iteration leaves behind is
(a) whether the loop is still running — the packet-over-stream loop RETURNS at the first datagram it cannot
parse, the datagram loop skips it — and (b) the remembered destinations, which are written only after the
filter has let the datagram pass and are read only by the reply direction. -/

inductive RelayMode
  | stream | datagram
deriving DecidableEq, Repr

/-- what happened to one datagram the client handed to the relay -/
inductive RelayEv
  | notRead                 -- the relay loop had already returned
  | did (r : Relay)
deriving DecidableEq, Repr

structure RelaySt where
  ended : Bool := false
  remembered : List Target := []
deriving DecidableEq, Repr

/-- one iteration of the relay loop -/
def relayStep (mode : RelayMode) (cfg : Config) (parseIP : Name → Option IP) (envUser : Option Name)
    (st : RelaySt) (pkt : List UInt8) : RelaySt × RelayEv :=
  if st.ended then (st, .notRead) else
  match relayDatagram cfg parseIP envUser pkt with
  | .invalid => ({ st with ended := mode == .stream }, .did .invalid)
  | .send t => ({ st with remembered := t :: st.remembered }, .did (.send t))
  | r => (st, .did r)

/-- the loop: the events, in order, and the state it ends in -/
def relayRun (mode : RelayMode) (cfg : Config) (parseIP : Name → Option IP) (envUser : Option Name) :
    RelaySt → List (List UInt8) → List RelayEv × RelaySt
  | st, [] => ([], st)
  | st, pkt :: rest =>
    let (st', ev) := relayStep mode cfg parseIP envUser st pkt
    let (evs, fin) := relayRun mode cfg parseIP envUser st' rest
    (ev :: evs, fin)

/-! ## name resolution: the address that is finally connected / written to

`handleRequest` resolves a non-empty FQDN with the server's resolver (`Resolver.LookupIP` then
`common.SelectIPFromList`) BEFORE it dispatches on the command, stores the result in `dst.IP`, and
`handleConnect` dials `AddrSpec.String()`, which prefers the IP. The UDP relays call
`resolveSocks5UDPAddr` after the filter. `resolve n = none`: lookup error, empty answer, or no address
satisfying the dual-stack preference. The resolved address is NOT classified again. -/

inductive Dialled
  | addr (ip : IP) (port : Nat)    -- `DialContext("tcp", "ip:port")` / `WriteToUDP(payload, ip:port)`
  | localPort (port : Nat)         -- `":port"` (empty host, no address)
  | unresolved                     -- nothing usable from the resolver
deriving DecidableEq, Repr

def dialled (resolve : Name → Option IP) : Target → Dialled
  | .ip ip port => .addr ip port
  | .name n port =>
    match resolve n with
    | some ip => .addr ip port
    | none => .unresolved
  | .emptyHost port => .localPort port

inductive ServedR
  | noReply
  | reply (code : UInt8)
  | dial (d : Dialled)                      -- DIRECT CONNECT: this is what `DialContext` gets
  | associate
  | forward (choices : List (Option Nat))
deriving DecidableEq, Repr

/-- `serverServeConn` after authentication, with the resolution step of `handleRequest`: for a DIRECT
    decision any domain-typed destination is resolved first — whatever the command — and a failed
    resolution is answered 04 (host unreachable; 03 when no address satisfies the dual-stack
    preference — both are "nothing dialled") -/
def serveRequestR (cfg : Config) (parseIP : Name → Option IP) (resolve : Name → Option IP)
    (envUser : Option Name) (data : List UInt8) : ServedR :=
  match parseRequest data with
  | .error _ =>
    -- unreadable request: 08 for an unknown address type, otherwise closed without a reply
    match serveRequest cfg parseIP envUser data with
    | .reply c => .reply c
    | _ => .noReply
  | .ok req =>
    let unresolvable := !req.dst.fqdn.isEmpty && (resolve req.dst.fqdn).isNone
    match serveRequest cfg parseIP envUser data with
    | .noReply => .noReply
    | .forward cs => .forward cs
    | .reply c => if c = 2 then .reply 2 else if unresolvable then .reply 4 else .reply c
    | .connect t => if unresolvable then .reply 4 else .dial (dialled resolve t)
    | .associate => if unresolvable then .reply 4 else .associate

/-- one relayed datagram, down to the address `WriteToUDP` gets -/
def relayDialled (cfg : Config) (parseIP : Name → Option IP) (resolve : Name → Option IP)
    (envUser : Option Name) (pkt : List UInt8) : Option Dialled :=
  match relayDatagram cfg parseIP envUser pkt with
  | .send t => some (dialled resolve t)
  | _ => none

end Mieru.Egress
