/-!
# Hand-written model of `maxPaddingSizeWithTrafficPattern` (pkg/protocol/padding.go)

`base` is what `maxPaddingSize` returned; `configured` is the traffic pattern's explicit maximum
for the position (middle or end), `none` when unset.
-/
namespace Mieru.Padding

def maxPadTP (base : Int) (configured : Option Int) : Int :=
  match configured with
  | none => base
  | some c => if c < 0 then 0 else min base c

end Mieru.Padding
