/-!
# Configuration records, merge and password hashing (pkg/appctl/server.go, client.go, appctlcommon/user.go)

Protobuf messages are records of `Option` fields (explicit presence).  Sub-messages the merge copies
as a whole (port bindings, advanced settings, egress, DNS, traffic pattern, a client profile, the
non-credential part of a user) are opaque `Blob`s (their canonical serialisation).
`cipher.HashPassword` followed by hex encoding is a parameter `hash : password → name → hex string`.
-/
namespace Mieru.Config

abbrev Bytes := List UInt8
abbrev Blob := List UInt8

/-- Go's `<` on strings: bytewise lexicographic -/
def bytesLt : Bytes → Bytes → Bool
  | [], [] => false
  | [], _ :: _ => true
  | _ :: _, [] => false
  | a :: as, b :: bs => if a.toNat < b.toNat then true else if b.toNat < a.toNat then false else bytesLt as bs

structure User where
  name : Option Bytes := none
  password : Option Bytes := none
  hashedPassword : Option Bytes := none
  /-- quotas, allowPrivateIP, allowLoopbackIP -/
  rest : Blob := []
deriving DecidableEq, Repr

def User.getName (u : User) : Bytes := u.name.getD []

/-- `appctlcommon.HashUserPassword` -/
def hashUserPassword (hash : Bytes → Bytes → Bytes) (keepPlaintext : Bool) (u : User) : User :=
  if u.password.getD [] = [] then u
  else { u with hashedPassword := some (hash (u.password.getD []) u.getName)
                password := if keepPlaintext then u.password else some [] }

/-- `appctlcommon.HashUserPasswords` -/
def hashUserPasswords (hash : Bytes → Bytes → Bytes) (keepPlaintext : Bool) (us : List User) : List User :=
  us.map (hashUserPassword hash keepPlaintext)

/-- the credential the server derives for a user (serveruser.buildCredential): the stored hash wins -/
def credential (hash : Bytes → Bytes → Bytes) (u : User) : Option Bytes :=
  if u.hashedPassword.getD [] ≠ [] then u.hashedPassword
  else if u.password.getD [] ≠ [] then some (hash (u.password.getD []) u.getName)
  else none

/-! ## merge by key: "map from name, later entries win, then sorted by name" -/

/-- insert or replace in a list kept strictly sorted by key -/
def upsert {α} (key : α → Bytes) (x : α) : List α → List α
  | [] => [x]
  | y :: ys =>
    if bytesLt (key x) (key y) then x :: y :: ys
    else if bytesLt (key y) (key x) then y :: upsert key x ys
    else x :: ys

/-- `for … range dst { m[name] = x }; for … range src { m[name] = x }; sort names` -/
def mergeByKey {α} (key : α → Bytes) (dst src : List α) : List α :=
  (dst ++ src).foldl (fun acc x => upsert key x acc) []

/-! ## server configuration -/

structure ServerConfig where
  portBindings : List Blob := []
  users : List User := []
  advancedSettings : Option Blob := none
  loggingLevel : Option Int := none
  mtu : Option Int := none
  egress : Option Blob := none
  dns : Option Blob := none
  trafficPattern : Option Blob := none
deriving DecidableEq, Repr

def orElse {α} (a b : Option α) : Option α := match a with | some x => some x | none => b

/-- `mergeServerConfig(dst, src)`: the new value of `dst` -/
def mergeServerConfig (dst src : ServerConfig) : ServerConfig :=
  { portBindings := if src.portBindings ≠ [] then src.portBindings else dst.portBindings
    users := mergeByKey User.getName dst.users src.users
    advancedSettings := orElse src.advancedSettings dst.advancedSettings
    loggingLevel := some ((orElse src.loggingLevel dst.loggingLevel).getD 0)
    mtu := some ((orElse src.mtu dst.mtu).getD 0)
    egress := orElse src.egress dst.egress
    dns := orElse src.dns dst.dns
    trafficPattern := orElse src.trafficPattern dst.trafficPattern }

/-- what `StoreServerConfig` writes -/
def storeServerConfig (hash : Bytes → Bytes → Bytes) (c : ServerConfig) : ServerConfig :=
  { c with users := hashUserPasswords hash false c.users }

/-! ## client configuration -/

structure ClientProfile where
  profileName : Option Bytes := none
  /-- `none` = no `user` sub-message -/
  user : Option User := none
  /-- servers, mtu, multiplexing, handshakeMode, trafficPattern, dialer -/
  rest : Blob := []
deriving DecidableEq, Repr

def ClientProfile.getName (p : ClientProfile) : Bytes := p.profileName.getD []

structure ClientConfig where
  profiles : List ClientProfile := []
  activeProfile : Option Bytes := none
  rpcPort : Option Int := none
  socks5Port : Option Int := none
  advancedSettings : Option Blob := none
  loggingLevel : Option Int := none
  socks5ListenLAN : Option Bool := none
  httpProxyPort : Option Int := none
  httpProxyListenLAN : Option Bool := none
  socks5Authentication : List Blob := []
deriving DecidableEq, Repr

/-- `mergeClientConfigByProfile(dst, src)`: the new value of `dst` -/
def mergeClientConfig (dst src : ClientConfig) : ClientConfig :=
  { profiles := mergeByKey ClientProfile.getName dst.profiles src.profiles
    activeProfile := some ((orElse src.activeProfile dst.activeProfile).getD [])
    socks5Port := some ((orElse src.socks5Port dst.socks5Port).getD 0)
    loggingLevel := some ((orElse src.loggingLevel dst.loggingLevel).getD 0)
    rpcPort := orElse src.rpcPort dst.rpcPort
    advancedSettings := orElse src.advancedSettings dst.advancedSettings
    socks5ListenLAN := orElse src.socks5ListenLAN dst.socks5ListenLAN
    httpProxyPort := orElse src.httpProxyPort dst.httpProxyPort
    httpProxyListenLAN := orElse src.httpProxyListenLAN dst.httpProxyListenLAN
    socks5Authentication := if src.socks5Authentication ≠ [] then src.socks5Authentication else dst.socks5Authentication }

/-- what `StoreClientConfig` writes: `profile.User = HashUserPassword(profile.GetUser(), true)` -/
def storeClientConfig (hash : Bytes → Bytes → Bytes) (c : ClientConfig) : ClientConfig :=
  { c with profiles := c.profiles.map fun p => { p with user := p.user.map (hashUserPassword hash true) } }

end Mieru.Config
