import Mieru.Model.StreamWire
import Mieru.Model.LowEntropy
/-!
# Receivers fed attacker-chosen input (Props/C04)

The receivers of `Mieru.StreamWire` (TCP) and of the packet transport, parameterised by a RAW
authenticated-decryption function instead of an `Aead` structure: the symbolic ideal "only what the
honest key holder sealed under that nonce opens" contradicts `open_seal` for arbitrary plaintexts, so
the tamper theorems quantify over a bare `openF` plus that hypothesis.

`StreamWire.parseOne A M = parseOneF A.openF M` and `StreamWire.drain A M = drainF A.openF M` hold by
definition (`Mieru.Proofs.Tamper`).
-/
namespace Mieru.Tamper
open Mieru Mieru.StreamWire

/-! ## Stream transport (pkg/protocol/underlay_stream.go readOneSegment) -/

def parseOneF (openF : Nat → Bytes → Option Bytes) (M : MetaCodec) (c : Nat) (buf : Bytes) : Res :=
  if buf.length < 48 then .need else
  match openF c (buf.take 48) with
  | none => .bad
  | some mb =>
    match M.dec mb with
    | none => .bad
    | some m =>
      if m.payloadLen = 0 then
        let total := 48 + m.prefixLen + m.suffixLen
        if buf.length < total then .need else .ok m [] total (c + 1)
      else
        let total := 48 + m.prefixLen + (m.payloadLen + 16) + m.suffixLen
        if buf.length < total then .need else
        match openF (c + 1) ((buf.drop (48 + m.prefixLen)).take (m.payloadLen + 16)) with
        | none => .bad
        | some p => .ok m p total (c + 2)

def drainF (openF : Nat → Bytes → Option Bytes) (M : MetaCodec) : Nat → Rx → Rx
  | 0, r => r
  | fuel + 1, r =>
    if r.dead then r else
    match parseOneF openF M r.c r.buf with
    | .need => r
    | .bad => { r with dead := true }
    | .ok m p n c' => drainF openF M fuel { r with c := c', buf := r.buf.drop n, out := r.out ++ [(m, p)] }

def feedByteF (openF : Nat → Bytes → Option Bytes) (M : MetaCodec) (fuel : Nat) (r : Rx) (b : UInt8) : Rx :=
  drainF openF M fuel { r with buf := r.buf ++ [b] }
def feedF (openF : Nat → Bytes → Option Bytes) (M : MetaCodec) (fuel : Nat) (r : Rx) (bs : Bytes) : Rx :=
  bs.foldl (feedByteF openF M fuel) r

/-- counter after the sender encoded `segs` starting at `c` (one seal for the metadata, one more if
    there is a payload) -/
def ctr (c : Nat) : List Seg → Nat
  | [] => c
  | s :: ss => ctr (if s.payload = [] then c + 1 else c + 2) ss

/-- `(n, p)`: the honest sender, starting at counter `c`, sealed plaintext `p` under counter `n` -/
def honest (M : MetaCodec) : Nat → List Seg → Nat → Bytes → Prop
  | _, [], _, _ => False
  | c, s :: ss, n, p =>
    (n = c ∧ p = M.enc s.md) ∨ (s.payload ≠ [] ∧ n = c + 1 ∧ p = s.payload) ∨
    honest M (if s.payload = [] then c + 1 else c + 2) ss n p

/-- The in-order check of `Session.inputData` on the stream transport: a data-bearing segment is
    accepted only if it carries the next sequence number; anything else is an error that ends the
    session. `seqOf` reads the sequence number off the metadata. What the application can read: the
    payloads accepted before the first out-of-order segment. (`Model/TamperKey.sessionRead` is the same
    check inside the dispatch by session id and the direction test.) -/
def inOrderRead (seqOf : Md → Nat) : Nat → List (Md × Bytes) → List Bytes
  | _, [] => []
  | next, (m, p) :: rest => if seqOf m = next then p :: inOrderRead seqOf (next + 1) rest else []

/-! ## Packet transport (pkg/protocol/underlay_packet.go readOneSegment / parse*Segment)

`[nonce 24][seal(nonce, metadata) 48][pad1][body][tag 16][pad2]` — ONE nonce for both AEAD operations of
a datagram. `bd` is what happens to the payload's wire form before the AEAD open (identity, or the
low-entropy decode for types 10/11). The datagram must be consumed exactly. (For session segments
the code opens the payload before it compares sizes; the set of accepted datagrams is the same.) -/

structure PMd where
  prefixLen : Nat
  payloadLen : Nat     -- wire length of the payload body (without tag)
  suffixLen : Nat
  plainLen : Nat       -- length of the payload plaintext the metadata announces
  tag : Nat            -- type, session id, sequence number, low-entropy parameters …
deriving DecidableEq, Repr

structure PCodec where
  enc : PMd → Bytes
  dec : Bytes → Option PMd
  ok : PMd → Bool
  enc_len : ∀ m, (enc m).length = 32
  dec_enc : ∀ m, ok m = true → dec (enc m) = some m

def parseD (openF : Bytes → Bytes → Option Bytes) (M : PCodec) (bd : PMd → Bytes → Option Bytes) (b : Bytes) :
    Option (PMd × Bytes) :=
  if b.length < 72 then none else
  let n := b.take 24
  match openF n ((b.drop 24).take 48) with
  | none => none
  | some mb =>
    match M.dec mb with
    | none => none
    | some m =>
      let rest := b.drop 72
      if m.prefixLen > rest.length then none else
      let rest := rest.drop m.prefixLen
      if m.payloadLen = 0 then (if rest.length = m.suffixLen then some (m, []) else none)
      else if rest.length ≠ m.payloadLen + 16 + m.suffixLen then none
      else
        match bd m (rest.take (m.payloadLen + 16)) with
        | none => none
        | some ct =>
          match openF n ct with
          | none => none
          | some p => some (m, p)

/-- a datagram as the honest sender builds it -/
structure Dgram where
  nonce : Bytes
  md : PMd
  payload : Bytes
deriving DecidableEq

/-- the honest sealing history: `(n, p)` was sealed iff some genuine datagram with nonce `n` has `p`
    as its metadata or as its (non-empty) payload -/
def honestD (M : PCodec) (G : List Dgram) (n p : Bytes) : Prop :=
  ∃ d ∈ G, d.nonce = n ∧ (p = M.enc d.md ∨ (d.payload ≠ [] ∧ p = d.payload))

/-- Low-entropy receive path (`decodeLowEntropyEncryptedPayload` then `DecryptWithNonce`): the
    canonical-padding check of the body comes first, the tag is carried unmodified. -/
def leOpen (openF : Bytes → Option Bytes) (wire : Bytes) (bodyLen n mode half rot : Nat) : Option Bytes :=
  match LowEntropy.decode (wire.take bodyLen) n mode half rot with
  | none => none
  | some body => openF (body ++ wire.drop bodyLen)

/-! ## Ideal AEADs given by a table (driver + non-vacuity): only listed ciphertexts open -/

/-- counter-nonce table: entry `i` = (plaintext, acceptable wire forms) of the sender's `i`-th seal;
    the receiver's counter is offset by `delta` (`none`: a nonce the sender never used) -/
def tableOpen (table : List (Bytes × List Bytes)) (delta : Option Nat) (c : Nat) (ct : Bytes) : Option Bytes :=
  match delta with
  | none => none
  | some d =>
    match table[d + c]? with
    | none => none
    | some (p, forms) => if forms.contains ct then some p else none

/-- explicit-nonce table for one datagram's nonce: (plaintext, ciphertext) pairs -/
def tableOpenD (nonce : Bytes) (table : List (Bytes × Bytes)) (n ct : Bytes) : Option Bytes :=
  if n ≠ nonce then none else (table.find? (fun e => e.2 == ct)).map (·.1)

/-! ## The documented metadata layouts, as far as parsing needs them -/

def be16 (b : Bytes) (i : Nat) : Nat := (b.getD i 0).toNat * 256 + (b.getD (i + 1) 0).toNat
def be32 (b : Bytes) (i : Nat) : Nat := be16 b i * 65536 + be16 b (i + 2)

/-- (protocol, session id, sequence number) -/
def metaIds (b : Bytes) : Nat × Nat × Nat := ((b.getD 0 0).toNat, be32 b 6, be32 b 10)

/-- lengths from a 32-byte metadata block: `none` = rejected by `Unmarshal` / low-entropy validation
    (the timestamp window is not modelled: under the ideal AEAD every opened metadata is a genuine,
    fresh one) -/
def decodeMeta (b : Bytes) : Option (Nat × Nat × Nat × Option (Nat × Nat × Nat × Nat)) :=
  if b.length ≠ 32 then none else
  let p := (b.getD 0 0).toNat
  if 2 ≤ p ∧ p ≤ 5 then
    if be16 b 15 > 1024 then none else some (0, be16 b 15, (b.getD 17 0).toNat, none)
  else if 6 ≤ p ∧ p ≤ 9 then
    some ((b.getD 21 0).toNat, be16 b 22, (b.getD 24 0).toNat, none)
  else if p = 10 ∨ p = 11 then
    let mode := (b.getD 1 0).toNat
    let half := be32 b 25
    let ext := be16 b 29
    let rot := (b.getD 31 0).toNat
    if LowEntropy.metaValid p mode half rot (be16 b 22) ext then
      some ((b.getD 21 0).toNat, be16 b 22, (b.getD 24 0).toNat, some (ext, mode, half, rot))
    else none
  else none

end Mieru.Tamper
