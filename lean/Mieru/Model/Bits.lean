/-!
# Bit-level helpers shared by the models (core Lean only)

Bytes are `List UInt8` in the models (proofs by structural induction); 64-bit words are
`List Bool`, least-significant bit first, when the model is about individual bit positions.
-/
namespace Mieru

abbrev Bytes := List UInt8

namespace Bits

/-- `n` low bits of a natural number, least significant first. -/
def ofNat : Nat → Nat → List Bool
  | 0, _ => []
  | n + 1, x => (x % 2 == 1) :: ofNat n (x / 2)

/-- value of a little-endian bit list -/
def toNat : List Bool → Nat
  | [] => 0
  | b :: bs => (if b then 1 else 0) + 2 * toNat bs

@[simp] theorem ofNat_length (n x : Nat) : (ofNat n x).length = n := by
  induction n generalizing x with
  | zero => rfl
  | succ n ih => simp [ofNat, ih]

theorem toNat_lt (bs : List Bool) : toNat bs < 2 ^ bs.length := by
  induction bs with
  | nil => simp [toNat]
  | cons b bs ih =>
    simp only [toNat, List.length_cons, Nat.pow_succ]
    split <;> omega

theorem toNat_ofNat (n x : Nat) : toNat (ofNat n x) = x % 2 ^ n := by
  induction n generalizing x with
  | zero => simp [ofNat, toNat, Nat.mod_one]
  | succ n ih =>
    simp only [ofNat, toNat, ih, Nat.pow_succ]
    have h2 : x % (2 ^ n * 2) = x % 2 + 2 * ((x / 2) % 2 ^ n) := by
      rw [Nat.mul_comm (2 ^ n) 2, Nat.mod_mul]
    rw [h2]
    rcases Nat.mod_two_eq_zero_or_one x with h | h <;> simp [h]

theorem ofNat_toNat (bs : List Bool) : ofNat bs.length (toNat bs) = bs := by
  induction bs with
  | nil => rfl
  | cons b bs ih =>
    simp only [List.length_cons, ofNat, toNat]
    cases b
    · simp only [Bool.false_eq_true, if_false, Nat.zero_add]
      rw [Nat.mul_mod_right, Nat.mul_div_cancel_left _ (by decide : 0 < 2), ih]
      simp
    · simp only [if_true]
      have h1 : (1 + 2 * toNat bs) % 2 = 1 := by omega
      have h2 : (1 + 2 * toNat bs) / 2 = toNat bs := by omega
      rw [h1, h2, ih]
      simp

/-- number of set bits -/
def popcount (m : List Bool) : Nat := m.count true

end Bits
end Mieru
