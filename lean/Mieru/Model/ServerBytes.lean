import Mieru.Model.Spec
import Mieru.Model.Server
/-!
# First contact at BYTE level: bytes → units → the server's reaction (core Lean only)

`Mieru.Model.Server` says what a server does with a *unit* (one header read / one datagram) whose
facts — which user's key opens it, whether its stamp is within a minute, whether the payload
authenticates, how many body bytes arrived — are fields.  Until round 4 those fields were computed by
the Go harness from what it had built.  This file computes them IN LEAN from the raw bytes, the
registered credentials' candidate keys and the receiver's clock, by composing

* the reference codec of C09 (`Mieru.Spec`: the three 32-byte metadata layouts `Meta.decode`, the
  validity rules `Meta.valid`, the TCP nonce progression `incr`, the body opener `openBody` incl. the
  low-entropy decoding, `selectKey` = "try the candidate keys in order"), over an abstract AEAD
  `AeadFns` (the driver instantiates it with the executable XChaCha20-Poly1305), with
* the first-contact model (`Mieru.Server.tcpStep` / `udpStep`).

`classifyTcp A users nowMin dup stream eof` / `classifyUdp A users nowMin dup datagram` are the
server's WHOLE reaction (outputs, close requests, sessions, accepted, closed, drain) to a byte string.
The replay cache's answer for the first 16 bytes is an input (`dup`): the cache's state is C06's
(`Mieru.Model.ServerReplay` composes it).  User discovery is "first registered user, first slot that
opens": with pairwise different credentials at most one user opens (ideal AEAD), so the order of
C07's discovery (hints, cached ids) does not matter here.
-/
namespace Mieru.ServerBytes
open Mieru Mieru.Spec Mieru.Server

/-- a registered credential as the server sees it at one instant: the model's user id and the
    candidate keys (previous, current, next time slot) -/
structure User where
  id : Nat
  keys : List Bytes

/-- discovery at byte level: the first registered user one of whose candidate keys opens the
    metadata; returns the user, the key and the 32 decrypted bytes -/
def openUnder (A : AeadFns) (nonce mct : Bytes) : List User → Option (Nat × Bytes × Bytes)
  | [] => none
  | u :: us =>
    match selectKey A nonce mct u.keys with
    | some (k, mb) => some (u.id, k, mb)
    | none => openUnder A nonce mct us

/-- `mathext.WithinRange(currentMinute, stampMinute, 1)` -/
def tsWithin (nowMin ts : Nat) : Bool := decide (ts ≤ nowMin + 1 ∧ nowMin ≤ ts + 1)

def metaSid : Meta → Nat
  | .session m => m.sessionID | .data m => m.sessionID | .le m => m.sessionID

/-- the facts of `Server.Md` from the 32 decrypted metadata bytes: layout by the reference codec; a
    type byte outside 2..11 is kept as the protocol number (both `Unmarshal`s refuse it) -/
def mdOf (nowMin : Nat) (mb : Bytes) : Md × Option Meta :=
  match Meta.decode mb with
  | some m =>
    ({ proto := m.protocol, sid := metaSid m, payloadLen := m.payloadLen, prefixLen := m.prefixLen,
       suffixLen := m.suffixLen, tsOk := tsWithin nowMin m.timestamp, leOk := m.valid }, some m)
  | none => ({ proto := (mb.headD 0).toNat, sid := 0 }, none)

/-- does the payload part of a complete body authenticate (and, for types 10 / 11, decode)?
    `(leBodyOk, payloadOpens)` -/
def bodyFacts (A : AeadFns) (key nonce : Bytes) (m : Option Meta) (md : Md) (afterPrefix : Bytes) : Bool × Bool :=
  if md.payloadLen = 0 then (true, true) else
  match m with
  | none => (true, true)
  | some m =>
    match openBody A key nonce m (afterPrefix.take (md.payloadLen + 16)) with
    | .ok _ => (true, true)
    | .error .lowEntropy => (false, true)
    | .error _ => (true, false)

/-- crypto state of an authenticated stream: user, key, nonce of the next decryption -/
structure Conn where
  user : Nat
  key : Bytes
  nonce : Bytes

/-- the header reads a stream gives rise to (one `TcpUnit` per iteration of the event loop), from the
    bytes that arrive before the stream stalls (`eof = false`) or ends (`eof = true`).  A unit whose
    body stops short is the last one (the loop's final outcome for it is NETWORK_ERROR). -/
def tcpUnitsAux (A : AeadFns) (users : List User) (nowMin : Nat) (dup : Bool) :
    Nat → Option Conn → Bytes → Bool → List TcpUnit
  | 0, _, _, _ => []
  | fuel + 1, conn, buf, eof =>
    let hl := if conn.isNone then firstReadLen else laterReadLen
    if buf.length < hl then
      [{ avail := buf.length, eof := eof, opens := none, md := { proto := 0, sid := 0 } }]
    else
      let hdr := if conn.isNone then nonceSize else 0
      let nonce := match conn with
        | none => buf.take nonceSize
        | some c => c.nonce
      let mct := (buf.drop hdr).take laterReadLen
      let isDup := conn.isNone && dup
      let sel : Option (Nat × Bytes × Bytes) :=
        match conn with
        | none => openUnder A nonce mct users
        | some c => (A.openF c.key nonce mct).map fun mb => (c.user, c.key, mb)
      match sel with
      | none => [{ avail := hl, eof := eof, opens := none, dup := isDup, md := { proto := 0, sid := 0 } }]
      | some (uid, k, mb) =>
        let (md0, m) := mdOf nowMin mb
        let rest := buf.drop hl
        let need := tcpBodyNeed md0
        let n1 := incr nonce
        let pre := if isSession md0.proto then 0 else md0.prefixLen
        let bf := if rest.length < need then (true, true) else bodyFacts A k n1 m md0 (rest.drop pre)
        let md := { md0 with leOk := md0.leOk && bf.1 }
        let u : TcpUnit := { avail := hl, eof := eof, opens := some uid, dup := isDup, md := md,
                             bodyAvail := min rest.length need, payloadOpens := bf.2 }
        u :: (if rest.length < need then []
              else tcpUnitsAux A users nowMin dup fuel
                     (some ⟨uid, k, if md.payloadLen = 0 then n1 else incr n1⟩) (rest.drop need) eof)

/-- every unit consumes at least 48 bytes; one more read sees the end of what arrived -/
def tcpUnits (A : AeadFns) (users : List User) (nowMin : Nat) (dup : Bool) (stream : Bytes) (eof : Bool) :
    List TcpUnit :=
  tcpUnitsAux A users nowMin dup (stream.length / laterReadLen + 2) none stream eof

/-- THE byte-level function, TCP: a fresh stream underlay's whole reaction to the bytes of one
    connection -/
def classifyTcp (A : AeadFns) (users : List User) (nowMin : Nat) (dup : Bool) (stream : Bytes) (eof : Bool) : TcpSt :=
  tcpRun {} (tcpUnits A users nowMin dup stream eof)

/-- one datagram → its unit.  `existing` = (user, key) of the live sessions from the datagram's
    source address (`tryDecryptExistingSession` tries them first). -/
def udpUnit (A : AeadFns) (users : List User) (existing : List (Nat × Bytes)) (nowMin : Nat) (dup : Bool)
    (d : Bytes) : UdpUnit :=
  if d.length < packetHeaderLen then { len := d.length, md := { proto := 0, sid := 0 } } else
  let nonce := d.take nonceSize
  let mct := (d.drop nonceSize).take laterReadLen
  let ex : Option (Nat × Bytes × Bytes) :=
    existing.findSome? fun (u, k) => (A.openF k nonce mct).map fun mb => (u, k, mb)
  let sel : Option (Bool × Nat × Bytes × Bytes) :=
    match ex with
    | some r => some (true, r)
    | none => (openUnder A nonce mct users).map fun r => (false, r)
  match sel with
  | none => { len := d.length, dupOther := dup, md := { proto := 0, sid := 0 } }
  | some (viaSession, uid, k, mb) =>
    let (md0, m) := mdOf nowMin mb
    let rest := d.drop packetHeaderLen
    let pre := if isSession md0.proto then 0 else md0.prefixLen
    -- one nonce for both encryptions of a datagram
    let bf := if rest.length < pre + md0.payloadLen + overhead then (true, true)
              else bodyFacts A k nonce m md0 (rest.drop pre)
    { len := d.length,
      existing := if viaSession then some uid else none,
      discover := if viaSession then none else some uid,
      dupOther := dup, md := { md0 with leOk := md0.leOk && bf.1 }, payloadOpens := bf.2 }

/-- THE byte-level function, UDP: what a datagram does to the shared socket's state -/
def classifyUdp (A : AeadFns) (users : List User) (existing : List (Nat × Bytes)) (nowMin : Nat) (dup : Bool)
    (s : UdpSt) (d : Bytes) : UdpSt :=
  udpStep s (udpUnit A users existing nowMin dup d)

/-- "none of its AEAD units opens under a registered key at any tried slot": no candidate key of any
    registered user opens ANY slice of the byte string under ANY nonce -/
def OpensNowhere (A : AeadFns) (users : List User) (bs : Bytes) : Prop :=
  ∀ u ∈ users, ∀ k ∈ u.keys, ∀ (nonce : Bytes) (i j : Nat), A.openF k nonce ((bs.drop i).take j) = none

end Mieru.ServerBytes
