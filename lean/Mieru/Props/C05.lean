import Mieru.Proofs.Server
import Mieru.Proofs.ServerBytes
import Mieru.Model.Discovery
import Mieru.Gen.Facts
import Mieru.Gen.Consts
import Mieru.Gen.Arith
import Mieru.Gen.FirstContact
/-!
# C05 — no credential: the server stays silent and creates nothing

`Mieru.Model.Server` is the first-contact state machine of both underlays: the byte thresholds of
the reads, the replay flag, discovery (symbolic: `opens = some u` iff the metadata AEAD opens under the
key of registered user `u`), `Unmarshal`, the body (TCP: bytes that must arrive; UDP: the exact size
checks), the two functions of server_session_validation.go, and the dispatch switch of the event loop.

Main statement (`tcp_silent_until_valid_open`, `udp_dropped_unless_effective`): the server writes
nothing, creates no session and hands nothing to the proxy application for EVERYTHING SHORT OF A VALID
OPEN REQUEST — a unit is answered only if it is long enough, opens under a registered key, is not a
replay, unmarshals (timestamp within a minute), its body is complete and authentic, and it is an
open-session request with a non-zero id.  Random bytes, truncated or bit-flipped copies of genuine
handshakes (also FRESH ones, which do open under a registered key), handshakes under foreign
credentials and forged hints are all instances; the credential-less ones are singled out in
`tcp_unauth_silent` / `udp_unauth_silent` (hypothesis = the ideal-AEAD reading "no credential ⇒ nothing
opens", DESIGN.md §5; modelled, not verified).  `hint_is_not_a_credential` composes this with the
discovery model of C07: if no registered user's key opens the metadata, discovery finds nobody, for
EVERY hint value (also one that names a real user), every cache content and both hint modes.

Tie to the code: (T) `server_constants_match_code`, `classification_matches_code`,
`validation_matches_code`, `first_contact_shape`, `network_write_sites` — the model's constants,
protocol classification, the two validation functions, the read thresholds, the drain condition, the
datagram size checks and the write sites are compared with definitions / facts REGENERATED from the Go
source on every run; (C) harness/props/c05.go drives a real server and compares its reaction —
including the branch it took, read from the server's own counters — with `tcpRun` / `udpRun`.
-/
namespace Mieru.C05
open Mieru.Server Mieru.Proofs.Server

/-! ## Everything short of a valid open request is silent -/

/-- TCP, full strength.  For EVERY sequence of reads of a fresh underlay — any lengths, any content,
    stalls, end of stream — in which no unit is a valid open request (`TcpUnit.validOpen`: ≥ 72 bytes,
    opens under a registered key, not a replay, unmarshals, body complete and authentic, open-session
    request, id ≠ 0): nothing is written, no session exists, nothing reaches the proxy application, and
    no receive cipher is left installed on a loop that still runs. -/
theorem tcp_silent_until_valid_open (us : List TcpUnit) (h : ∀ u ∈ us, u.validOpen = false) :
    (tcpRun {} us).out = [] ∧ (tcpRun {} us).sessions = [] ∧ (tcpRun {} us).accepted = [] ∧
    ((tcpRun {} us).recv = none ∨ (tcpRun {} us).closed = true) :=
  tcpRun_quiet us {} quiet_init h

/-- … and the characterisation is exact: on a fresh underlay a unit is accepted (equivalently:
    answered) if and only if it is a valid open request. -/
theorem tcp_accept_iff_valid_open (u : TcpUnit) :
    ((tcpStep {} u).accepted ≠ [] ↔ u.validOpen = true) ∧ ((tcpStep {} u).out ≠ [] ↔ u.validOpen = true) := by
  cases hv : u.validOpen with
  | true =>
    obtain ⟨h1, _, h3, _⟩ := tcpStep_valid_open u hv
    simp [h1, h3]
  | false =>
    obtain ⟨h1, _, h3, _⟩ := tcpStep_quiet {} u quiet_init hv
    simp [h1, h3]

/-- the classes of the property that DO open under a registered key and are still silent: a fresh
    genuine handshake cut anywhere after the header (`bodyAvail` short), damaged in its payload
    (`payloadOpens = false`), stamped more than a minute away (`tsOk = false`), carrying session id 0,
    or of any other protocol type -/
theorem tcp_authenticated_but_invalid_silent (u : TcpUnit) (rest : List TcpUnit)
    (h : u.md.tsOk = false ∨ u.bodyAvail < tcpBodyNeed u.md ∨ (0 < u.md.payloadLen ∧ u.payloadOpens = false) ∨
         u.md.sid = 0 ∨ u.md.proto ≠ pOpenReq ∨ u.dup = true) (hne : ¬ (u.avail = 0 ∧ u.eof = false)) :
    (tcpRun {} (u :: rest)).out = [] ∧ (tcpRun {} (u :: rest)).sessions = [] ∧
    (tcpRun {} (u :: rest)).accepted = [] ∧ (tcpRun {} (u :: rest)).closed = true := by
  have hv : u.validOpen = false := by
    cases hvo : u.validOpen with
    | false => rfl
    | true =>
      exfalso
      simp only [TcpUnit.validOpen, Bool.and_eq_true, decide_eq_true_eq, Bool.not_eq_true', Bool.or_eq_true,
        beq_iff_eq, validNewSession, bne_iff_ne, ne_eq] at hvo
      obtain ⟨⟨⟨⟨⟨⟨_, _⟩, hdup⟩, hum⟩, hb⟩, hp⟩, hproto, hsid⟩ := hvo
      rcases h with h | h | h | h | h | h
      · have hs : isSession u.md.proto = true := by rw [hproto]; decide
        simp [unmarshalOk, hs, h] at hum
      · omega
      · rcases hp with hp | hp
        · omega
        · rw [h.2] at hp; exact absurd hp (by decide)
      · exact hsid h
      · exact h hproto
      · rw [h] at hdup; exact absurd hdup (by decide)
  have hq := tcpStep_quiet {} u quiet_init hv
  have hc : (tcpStep {} u).closed = true := by
    obtain ⟨_, _, _, h4⟩ := hq
    rcases h4 with h4 | h4
    · -- recv = none after a non-idle unit: the loop has ended
      unfold tcpStep at h4 ⊢
      by_cases ha : u.avail < firstReadLen
      · simp [headerLen, ha, hne]
      · simp only [Bool.false_eq_true, if_false, headerLen, Option.isNone_none, if_true, ha] at h4 ⊢
        cases hop : u.opens with
        | none => rfl
        | some usr =>
          simp only [hop] at h4
          cases hd : u.dup with
          | true => rfl
          | false =>
            simp only [hd, Bool.false_eq_true, if_false] at h4
            unfold tcpAfterOpen at h4
            exfalso
            repeat' split at h4
            all_goals simp [tcpDispatch] at h4
            all_goals (repeat' split at h4) <;> simp at h4
    · exact h4
  rw [tcpRun_cons, tcpRun_closed _ rest hc]
  exact ⟨hq.1, hq.2.1, hq.2.2.1, hc⟩

/-! ## The credential-less classes -/

/-- no unit of the input opens under a registered key -/
def TcpNoCredential (us : List TcpUnit) : Prop := ∀ u ∈ us, u.opens = none
def UdpNoCredential (us : List UdpUnit) : Prop := ∀ u ∈ us, u.existing = none ∧ u.discover = none

theorem no_key_not_valid (u : TcpUnit) (h : u.opens = none) : u.validOpen = false := by
  simp [TcpUnit.validOpen, h]

/-- TCP: whatever bytes arrive — any length, any content, any number of segments — if nothing opens
    under a registered key the server sends nothing, creates no session, hands nothing to the proxy
    application, and never installs a receive cipher. -/
theorem tcp_unauth_silent (us : List TcpUnit) (h : TcpNoCredential us) :
    (tcpRun {} us).out = [] ∧ (tcpRun {} us).sessions = [] ∧ (tcpRun {} us).accepted = [] ∧
    (tcpRun {} us).recv = none := by
  have hq := tcpRun_quiet us {} quiet_init (fun u hu => no_key_not_valid u (h u hu))
  refine ⟨hq.1, hq.2.1, hq.2.2.1, ?_⟩
  -- the receive cipher is only ever installed by a unit that opens
  have key : ∀ (us : List TcpUnit) (s : TcpSt), s.recv = none → TcpNoCredential us → (tcpRun s us).recv = none := by
    intro us
    induction us with
    | nil => intro s hs _; exact hs
    | cons u us ih =>
      intro s hs hn
      rw [tcpRun_cons]
      apply ih _ _ (fun x hx => hn x (by simp [hx]))
      have hu := hn u (by simp)
      unfold tcpStep
      split
      · exact hs
      · split
        · split <;> exact hs
        · simp [hs, hu]
  exact key us {} rfl h

/-- The connection is torn down at the first unit that is not a mere read timeout: nothing after it
    is even parsed.  (A read that times out with no byte at all is retried — the code keeps an idle
    connection open; any byte short of a header, or the end of the stream, ends it.) -/
theorem tcp_unauth_closes (u : TcpUnit) (us : List TcpUnit) (h : u.opens = none)
    (hne : ¬ (u.avail = 0 ∧ u.eof = false)) : (tcpRun {} (u :: us)).closed = true := by
  rw [tcpRun_cons, tcpRun_closed _ us (tcpStep_no_key_closes u h hne)]
  exact tcpStep_no_key_closes u h hne

/-- an idle read changes nothing: the underlay keeps waiting -/
theorem tcp_idle_read (s : TcpSt) (u : TcpUnit) (h : u.avail = 0 ∧ u.eof = false) : tcpStep s u = s := by
  unfold tcpStep
  by_cases hc : s.closed = true
  · simp [hc]
  · have hlt : u.avail < headerLen s := by
      rw [h.1]; unfold headerLen; split <;> decide
    simp only [hc, Bool.false_eq_true, if_false, hlt, if_true]
    rw [if_pos h]

/-- fewer bytes than a nonce and a metadata block (72): no decryption is even attempted, whatever the
    other fields say -/
theorem short_input_silent (u : TcpUnit) (h : u.avail < firstReadLen) :
    (tcpStep {} u).out = [] ∧ (tcpStep {} u).sessions = [] ∧ (tcpStep {} u).recv = none := by
  unfold tcpStep
  simp only [Bool.false_eq_true, if_false, headerLen, Option.isNone_none, if_true, h]
  split <;> exact ⟨rfl, rfl, rfl⟩

/-- UDP, full strength, FROM ANY STATE of the shared socket (other users' sessions alive, genuine
    traffic interleaved): a datagram changes anything only if it is `effective` — at least 72 bytes,
    opens under an existing session's or a registered user's key, is not a replay from another
    address, unmarshals, passes the exact size checks and the payload AEAD, and (when authenticated by
    discovery) has a client-to-server type and, for an open request, a non-zero id. -/
theorem udp_dropped_unless_effective (s : UdpSt) (u : UdpUnit) (h : u.effective = false) : udpStep s u = s :=
  udpStep_not_effective s u h

theorem udp_run_dropped_unless_effective (s : UdpSt) (us : List UdpUnit) (h : ∀ u ∈ us, u.effective = false) :
    udpRun s us = s := udpRun_not_effective us s h

/-- what an effective datagram does is exactly the dispatch switch -/
theorem udp_effective_dispatch (s : UdpSt) (u : UdpUnit) (h : u.effective = true) :
    udpStep s u = udpDispatch s u.md := udpStep_effective s u h

/-- UDP: every datagram that opens under no key is dropped; the state does not change at all. -/
theorem udp_unauth_silent (us : List UdpUnit) (s : UdpSt) (h : UdpNoCredential us) : udpRun s us = s := by
  apply udpRun_not_effective
  intro u hu
  obtain ⟨h1, h2⟩ := h u hu
  simp [UdpUnit.effective, h1, h2]

/-- the UDP classes that open under a registered key and are still dropped: truncated (any cut: the
    exact size checks fail), payload damaged, stamped more than a minute away, session id 0, a
    server-to-client type on first contact -/
theorem udp_authenticated_but_invalid_dropped (s : UdpSt) (u : UdpUnit)
    (h : u.md.tsOk = false ∨ udpBodyOk (u.len - packetHeaderLen) u.md u.payloadOpens = false ∨ u.dupOther = true ∨
         (u.existing = none ∧ (clientToServer u.md.proto = false ∨ (u.md.proto = pOpenReq ∧ u.md.sid = 0)))) :
    udpStep s u = s := by
  apply udpStep_not_effective
  rcases h with h | h | h | ⟨he, h⟩
  · have : unmarshalOk u.md = false := by
      unfold unmarshalOk; split
      · simp [h]
      · split
        · simp [h]
        · rfl
    simp [UdpUnit.effective, this]
  · simp [UdpUnit.effective, h]
  · simp [UdpUnit.effective, h]
  · rcases h with h | ⟨hp, hs⟩
    · simp [UdpUnit.effective, he, h]
    · simp [UdpUnit.effective, he, hp, hs, validNewSession]

/-- a truncated datagram never passes the size checks: cut ANY positive number of bytes off a datagram
    that passes them (and is longer than its header) and it fails them — for every metadata. -/
theorem udp_truncation_fails_size_checks (m : Md) (rem cut : Nat) (po : Bool)
    (hok : udpBodyOk rem m po = true) (hcut : 0 < cut) (hle : cut ≤ rem) :
    udpBodyOk (rem - cut) m po = false := by
  unfold udpBodyOk at hok ⊢
  by_cases hs : isSession m.proto = true
  · simp only [hs, if_true] at hok ⊢
    by_cases hp : m.payloadLen > 0
    · simp only [hp, if_true, Bool.and_eq_true, decide_eq_true_eq] at hok ⊢
      have : decide (m.payloadLen + overhead + m.suffixLen = rem - cut) = false := by
        simp only [decide_eq_false_iff_not]; omega
      simp [this]
    · simp only [hp, if_false, decide_eq_true_eq] at hok ⊢
      simp only [decide_eq_false_iff_not]; omega
  · simp only [hs, Bool.false_eq_true, if_false] at hok ⊢
    by_cases hpre : m.prefixLen > rem
    · simp [hpre] at hok
    · simp only [hpre, if_false] at hok
      by_cases hp2 : m.prefixLen > rem - cut
      · simp [hp2]
      · simp only [hp2, if_false]
        by_cases hp : m.payloadLen > 0
        · simp only [hp, if_true, Bool.and_eq_true, decide_eq_true_eq] at hok ⊢
          have : decide (rem - cut - m.prefixLen = m.payloadLen + overhead + m.suffixLen) = false := by
            simp only [decide_eq_false_iff_not]; omega
          simp [this]
        · simp only [hp, if_false, decide_eq_true_eq] at hok ⊢
          simp only [decide_eq_false_iff_not]; omega

/-! ## A user hint is not a credential -/

open Mieru.Discovery in
theorem cachedPhase_no_auth (n : Nat) (hint auth : Nat → Bool) (want : Bool) (hno : ∀ id, auth id = false)
    (l : List Nat) (a : Acc) : (cachedPhase n hint auth want l a).1 = none := by
  induction l generalizing a with
  | nil => rfl
  | cons id rest ih =>
    unfold cachedPhase
    split
    · exact ih a
    · simp only [hno id, Bool.false_eq_true, if_false]; exact ih _

open Mieru.Discovery in
theorem registryPhase_no_auth (hint auth : Nat → Bool) (want : Bool) (hno : ∀ id, auth id = false)
    (l : List Nat) (a : Acc) : (registryPhase hint auth want l a).1 = none := by
  induction l generalizing a with
  | nil => rfl
  | cons id rest ih =>
    unfold registryPhase
    split
    · exact ih a
    · simp only [hno id, Bool.false_eq_true, if_false]; exact ih _

/-- `opens` of a first read is what user discovery (C07's `tryState`, the model of
    `Registry.Discover`) returns.  If the metadata opens under NO registered user's key, discovery
    returns nobody — for EVERY hint predicate (in particular one naming a real user), every content of
    the source-address cache, and whether or not hints are mandatory.  The hint only orders the
    attempts. -/
theorem hint_is_not_a_credential (n : Nat) (hint auth : Nat → Bool) (cached : List Nat) (mandatory : Bool)
    (hno : ∀ id, auth id = false) :
    (Mieru.Discovery.tryState n hint auth cached mandatory).user = none := by
  unfold Mieru.Discovery.tryState
  have h1 := cachedPhase_no_auth n hint auth true hno cached { att := [], tried := [] }
  split
  · rename_i u a1 heq; rw [heq] at h1; exact absurd h1 (by simp)
  · rename_i a1 _
    have h2 := registryPhase_no_auth hint auth true hno (Mieru.Discovery.ids n) a1
    split
    · rename_i u a2 heq; rw [heq] at h2; exact absurd h2 (by simp)
    · rename_i a2 _
      split
      · rfl
      · have h3 := cachedPhase_no_auth n hint auth false hno cached a2
        split
        · rename_i u a3 heq; rw [heq] at h3; exact absurd h3 (by simp)
        · rename_i a3 _
          have h4 := registryPhase_no_auth hint auth false hno (Mieru.Discovery.ids n) a3
          split
          · rename_i u a4 heq; rw [heq] at h4; exact absurd h4 (by simp)
          · rfl

/-- … so a forged hint changes nothing about the unit the first-contact model sees: with any hint the
    unit has `opens = none` and `tcp_unauth_silent` applies. -/
theorem forged_hint_silent (n : Nat) (hint auth : Nat → Bool) (cached : List Nat) (mandatory : Bool)
    (hno : ∀ id, auth id = false) (u : TcpUnit)
    (hu : u.opens = (Mieru.Discovery.tryState n hint auth cached mandatory).user.map (·.1)) (rest : List TcpUnit)
    (hne : ¬ (u.avail = 0 ∧ u.eof = false)) :
    (tcpRun {} (u :: rest)).out = [] ∧ (tcpRun {} (u :: rest)).accepted = [] ∧ (tcpRun {} (u :: rest)).closed = true := by
  have hop : u.opens = none := by rw [hu, hint_is_not_a_credential n hint auth cached mandatory hno]; rfl
  have hc := tcp_unauth_closes u rest hop hne
  have hq := tcpStep_quiet {} u quiet_init (no_key_not_valid u hop)
  rw [tcpRun_cons] at hc ⊢
  have hcl : (tcpStep {} u).closed = true := tcpStep_no_key_closes u hop hne
  rw [tcpRun_closed _ rest hcl]
  exact ⟨hq.1, hq.2.2.1, hcl⟩

/-! ## Ties to the source, regenerated on every run -/

/-- the model's byte thresholds and limits are the constants of the compiled repository -/
theorem server_constants_match_code :
    (metadataLength : Int) = Gen.metadataLength ∧ (overhead : Int) = Gen.defaultOverhead ∧
    (nonceSize : Int) = Gen.defaultNonceSize ∧ (packetHeaderLen : Int) = Gen.packetNonHeaderPosition ∧
    (firstReadLen : Int) = Gen.metadataLength + Gen.defaultOverhead + Gen.defaultNonceSize ∧
    (laterReadLen : Int) = Gen.metadataLength + Gen.defaultOverhead ∧
    (maxSessionOpenPayload : Int) = Gen.maxSessionOpenPayload ∧
    (pOpenReq : Int) = Gen.openSessionRequest ∧ (pOpenResp : Int) = Gen.openSessionResponse ∧
    (pCloseReq : Int) = Gen.closeSessionRequest ∧ (pCloseResp : Int) = Gen.closeSessionResponse := by decide

/-- the model's protocol classification is the TRANSLATED `isSessionProtocol` / `isDataProtocol` /
    `isAckProtocol` / `isDataAckProtocol` / `isLowEntropyProtocol` of metadata.go, for every number -/
theorem classification_matches_code (p : Nat) :
    isSession p = Gen.Arith.isSessionProtocol p ∧ isData p = Gen.Arith.isDataProtocol p ∧
    isAck p = Gen.Arith.isAckProtocol p ∧ isDataAck p = Gen.Arith.isDataAckProtocol p ∧
    isLowEntropy p = Gen.Arith.isLowEntropyProtocol p := by
  refine ⟨?_, ?_, ?_, ?_, ?_⟩ <;>
  · rw [Bool.eq_iff_iff]
    simp only [Gen.Arith.isSessionProtocol, Gen.Arith.isDataProtocol,
      Gen.Arith.isAckProtocol, Gen.Arith.isDataAckProtocol, Gen.Arith.isLowEntropyProtocol, decide_eq_true_eq]
    simp only [Gen.openSessionRequest, Gen.openSessionResponse, Gen.closeSessionRequest, Gen.closeSessionResponse,
      Gen.dataClientToServer, Gen.dataServerToClient, Gen.ackClientToServer, Gen.ackServerToClient,
      Gen.dataClientToServerLowEntropy, Gen.dataServerToClientLowEntropy]
    simp only [isSession, isData, isAck, isDataAck, isLowEntropy, Bool.or_eq_true, beq_iff_eq]
    omega

/-- server_session_validation.go, regenerated: `validateServerSegmentDirection` accepts exactly the
    protocol constants the model's `clientToServer` accepts; `validateNewServerSessionSegment` refuses
    exactly: nil, a non-session struct or a protocol other than openSessionRequest, session id 0. -/
theorem validation_matches_code :
    (∀ p : Nat, clientToServer p = Gen.FirstContact.serverDirectionAccepts.contains (p : Int)) ∧
    Gen.FirstContact.newSessionRefusals =
      ["seg == nil || seg.metadata == nil", "!ok || ss.Protocol() != openSessionRequest", "ss.sessionID == 0"] := by
  refine ⟨?_, by decide⟩
  intro p
  rw [Bool.eq_iff_iff]
  simp [clientToServer, Gen.FirstContact.serverDirectionAccepts]
  omega

/-- The shape of the first-contact code, regenerated:
    * stream: the read length starts at metadata + tag and grows by the nonce size exactly when no
      receive cipher is installed; a failed `io.ReadFull` is retried only for a timeout with no byte;
      the drain runs exactly for CRYPTO_ERROR and REPLAY_ERROR; no function on the read path (incl. the
      drain and the discovery helpers) contains a network write;
    * the send cipher of a server is derived only from an installed receive cipher;
    * packet: datagrams below `packetNonHeaderPosition` are skipped; every failing branch of
      `readOneSegment` after the socket read is `continue` (the function returns an error only for the
      socket itself); the size checks of the two datagram parsers, with their comparison operators. -/
theorem first_contact_shape :
    Gen.FirstContact.streamReadLen =
      ["readLen := MetadataLength + cipher.DefaultOverhead", "if t.recv == nil", "readLen += cipher.DefaultNonceSize"] ∧
    Gen.FirstContact.streamRetryCond = "stderror.IsTimeout(err) && n == 0" ∧
    Gen.FirstContact.streamDrainCond = "errType == stderror.CRYPTO_ERROR || errType == stderror.REPLAY_ERROR" ∧
    Gen.FirstContact.readPathWrites = [] ∧
    Gen.FirstContact.sendCipherInit =
      ["if t.send != nil {", "return nil", "}", "if t.isClient {", "t.send = t.block.Clone()", "} else {",
       "if t.recv != nil {", "t.send = t.recv.Clone()", "t.send.SetImplicitNonceMode(false)",
       "t.send.SetImplicitNonceMode(true)", "} else {", "return fmt.Errorf(\"recv cipher is nil\")", "}", "}", "return nil"] ∧
    Gen.FirstContact.packetShortCond = "n < packetNonHeaderPosition" ∧
    Gen.FirstContact.packetReadErrorReturns =
      ["io.ErrClosedPipe", "io.ErrClosedPipe", "nil", "io.ErrClosedPipe", "fmt.Errorf(\"ReadFrom() failed: %w\", err)"] ∧
    Gen.FirstContact.packetSessionSizeChecks =
      ["if ss.payloadLen > 0", "if len(remaining) < int(ss.payloadLen)+cipher.DefaultOverhead",
       "if int(ss.payloadLen)+cipher.DefaultOverhead+int(ss.suffixLen) != len(remaining)",
       "if int(ss.suffixLen) != len(remaining)"] ∧
    Gen.FirstContact.packetDataAckSizeChecks =
      ["if das.prefixLen > 0", "if int(das.prefixLen) > len(remaining)", "remaining = remaining[das.prefixLen:]",
       "if das.payloadLen > 0", "wirePayloadLen := int(das.payloadLen) + cipher.DefaultOverhead",
       "if len(remaining) < wirePayloadLen", "if len(remaining) != wirePayloadLen+int(das.suffixLen)",
       "if int(das.suffixLen) != len(remaining)"] := by
  refine ⟨by decide, by decide, by decide, by decide, by decide, by decide, by decide, by decide, by decide⟩

/-- Structural tie (regenerated): the only network writes of pkg/protocol are in the two
    `writeOneSegment`s and `writeWithPossibleFragment`; the stream send cipher can only be derived
    inside `writeOneSegment` (from the authenticated receive cipher). -/
theorem network_write_sites :
    Gen.Facts.networkWrites.map (·.1) =
      ["StreamUnderlay.writeOneSegment", "StreamUnderlay.writeWithPossibleFragment", "StreamUnderlay.writeWithPossibleFragment",
       "PacketUnderlay.writeOneSegment", "PacketUnderlay.writeOneSegment"] ∧
    Gen.Facts.writeCallers =
      [("Session.output", "writeOneSegment"), ("StreamUnderlay.RunEventLoop", "writeOneSegment"),
       ("StreamUnderlay.writeOneSegment", "maybeInitSendBlockCipher"), ("StreamUnderlay.writeOneSegment", "writeWithPossibleFragment"),
       ("PacketUnderlay.RunEventLoop", "writeOneSegment")] := by decide

/-! ## Non-vacuity: a genuine handshake IS answered and accepted, so silence is not the model's only
    behaviour; and concrete inputs of every class satisfy the hypotheses. -/

/-- a genuine first segment: 72-byte header, opens for user 0, open request for session 7 with a
    100-byte payload and 20 bytes of padding, all of it arrived -/
def genuine : TcpUnit :=
  { avail := 72, opens := some 0, md := { proto := 2, sid := 7, payloadLen := 100, suffixLen := 20 }, bodyAvail := 136 }

example : genuine.validOpen = true ∧ (tcpRun {} [genuine]).accepted = [7] ∧
    (tcpRun {} [genuine]).out = [.sessionTraffic 7] := by decide
/-- the same, one byte short (fresh genuine handshake truncated inside the padding): opens, silent -/
example : ({ genuine with bodyAvail := 135 } : TcpUnit).validOpen = false ∧
    (tcpRun {} [{ genuine with bodyAvail := 135 }]).out = [] ∧ (tcpRun {} [{ genuine with bodyAvail := 135 }]).recv = some 0 := by decide
/-- session id 0, a data segment first, a replay, a stale stamp: all silent, all closed -/
example : (tcpRun {} [{ genuine with md := { genuine.md with sid := 0 } }]).closed = true ∧
    (tcpRun {} [{ genuine with md := { proto := 6, sid := 7 }, bodyAvail := 0 }]).closed = true ∧
    (tcpRun {} [{ genuine with dup := true }]).accepted = [] ∧
    (tcpRun {} [{ genuine with md := { genuine.md with tsOk := false } }]).out = [] := by decide
example : TcpNoCredential [{ avail := 72, opens := none, md := { proto := 2, sid := 7 } },
    { avail := 5, eof := true, opens := none, md := { proto := 0, sid := 0 } }] := by
  intro u hu; simp at hu; rcases hu with rfl | rfl <;> rfl
/-- later iterations: after a genuine open, data for an unknown session draws a close request, an
    open-session RESPONSE ends the connection (a server never accepts one) -/
example : (tcpRun {} [genuine, { avail := 48, opens := some 0, md := { proto := 6, sid := 9 } }]).out =
      [.sessionTraffic 7, .closeReq 9] ∧
    (tcpRun {} [genuine, { avail := 48, opens := some 0, md := { proto := 3, sid := 7 } }]).closed = true := by decide

/-- UDP: a genuine first datagram (72 + 100 + 16 + 20 bytes) is accepted; one byte shorter, or one
    byte longer, it is dropped -/
def genuineDatagram : UdpUnit :=
  { len := 208, discover := some 1, md := { proto := 2, sid := 9, payloadLen := 100, suffixLen := 20 } }
example : genuineDatagram.effective = true ∧ (udpRun {} [genuineDatagram]).accepted = [9] ∧
    (udpRun {} [{ genuineDatagram with len := 207 }]).accepted = [] ∧
    (udpRun {} [{ genuineDatagram with len := 209 }]).accepted = [] := by decide
example : UdpNoCredential [{ len := 500, md := { proto := 2, sid := 1 } }] := by
  intro u hu; simp at hu; subst hu; exact ⟨rfl, rfl⟩
/-- a replayed datagram is dropped on the existing-session path too (as the code does) -/
example : udpStep { sessions := [5] } { len := 72, existing := some 0, dupOther := true, md := { proto := 6, sid := 9 } }
    = { sessions := [5] } := by decide
/-- forged hint: no user authenticates, hint names user 2 of 3, cache full of stale ids -/
example : (Mieru.Discovery.tryState 3 (fun id => id == 2) (fun _ => false) [2, 9, 0, 2] false).user = none := by decide

/-! ## Round 4: the property over raw bytes (`Mieru.Model.ServerBytes` = C09's reference codec ∘ AEAD ∘ this
    first-contact model).  The driver op `srvb-tcp` / `srvb-udp` evaluates exactly `tcpUnits` / `udpUnit` /
    `classifyTcp` with the executable XChaCha20-Poly1305 and the documented key derivation; the harness ships raw
    bytes, credentials and the clock, and compares the reaction with the real server's. -/
section BytesLevel
open Mieru.Spec Mieru.ServerBytes Mieru.Proofs.ServerBytes

/-- ROUND 4, the property over RAW BYTES (TCP, tight form).  `classifyTcp` is the byte-level function: the
    reference codec of C09 + an AEAD + the candidate keys of the registered users + the receiver's clock turn the
    bytes of one connection into header reads, `tcpRun` reacts to them.  If NO candidate key (any of the three
    tried slots) of ANY registered user opens the first 72-byte header of the stream — the only AEAD unit the
    server then ever tries — the server writes nothing, creates no session, hands nothing to Accept, whatever the
    bytes, their number, the clock, the replay cache's answer, and whether the stream stalls or ends.  The
    ideal-AEAD hypothesis is `h`, explicit. -/
theorem tcp_bytes_silent_unless_header_opens (A : AeadFns) (users : List User) (nowMin : Nat) (dup : Bool)
    (stream : Bytes) (eof : Bool)
    (h : ∀ u ∈ users, ∀ k ∈ u.keys,
      A.openF k (stream.take nonceSize) ((stream.drop nonceSize).take laterReadLen) = none) :
    (classifyTcp A users nowMin dup stream eof).out = [] ∧
    (classifyTcp A users nowMin dup stream eof).sessions = [] ∧
    (classifyTcp A users nowMin dup stream eof).accepted = [] ∧
    ((classifyTcp A users nowMin dup stream eof).recv = none ∨
     (classifyTcp A users nowMin dup stream eof).closed = true) := by
  obtain ⟨u, hu, hn⟩ := tcpUnits_first_none A users nowMin dup stream eof (openUnder_none A _ _ users h)
  simp only [classifyTcp, hu]
  exact tcp_silent_until_valid_open [u] (by intro x hx; simp at hx; subst hx; exact no_key_not_valid x hn)

/-- … in the property's words: a byte string none of whose slices opens under a registered key (any nonce,
    any tried slot) — everything a party without a registered credential can produce, under the ideal-AEAD
    hypothesis — is met with silence. -/
theorem tcp_bytes_silent (A : AeadFns) (users : List User) (nowMin : Nat) (dup : Bool)
    (stream : Bytes) (eof : Bool) (h : OpensNowhere A users stream) :
    (classifyTcp A users nowMin dup stream eof).out = [] ∧
    (classifyTcp A users nowMin dup stream eof).sessions = [] ∧
    (classifyTcp A users nowMin dup stream eof).accepted = [] ∧
    ((classifyTcp A users nowMin dup stream eof).recv = none ∨
     (classifyTcp A users nowMin dup stream eof).closed = true) :=
  tcp_bytes_silent_unless_header_opens A users nowMin dup stream eof
    (fun u hu k hk => h u hu k hk (stream.take nonceSize) nonceSize laterReadLen)

/-- contrapositive: a connection that was answered or accepted presented a header that opens under a
    candidate key of a registered user -/
theorem tcp_bytes_accept_needs_registered_key (A : AeadFns) (users : List User) (nowMin : Nat) (dup : Bool)
    (stream : Bytes) (eof : Bool)
    (hacc : (classifyTcp A users nowMin dup stream eof).accepted ≠ [] ∨
            (classifyTcp A users nowMin dup stream eof).out ≠ []) :
    ∃ u ∈ users, ∃ k ∈ u.keys,
      (A.openF k (stream.take nonceSize) ((stream.drop nonceSize).take laterReadLen)).isSome = true := by
  apply Classical.byContradiction
  intro hno
  have hs := tcp_bytes_silent_unless_header_opens A users nowMin dup stream eof (fun u hu k hk => by
    cases ho : A.openF k (stream.take nonceSize) ((stream.drop nonceSize).take laterReadLen) with
    | none => rfl
    | some mb => exact absurd ⟨u, hu, k, hk, by simp [ho]⟩ hno)
  rcases hacc with h | h
  · exact h hs.2.2.1
  · exact h hs.1

/-- UDP, byte level, from ANY state of the shared socket: a datagram whose header opens under no live
    session's key from that address and under no candidate key of a registered user changes nothing (no
    output, no session, no Accept). -/
theorem udp_bytes_dropped (A : AeadFns) (users : List User) (existing : List (Nat × Bytes)) (nowMin : Nat)
    (dup : Bool) (s : UdpSt) (d : Bytes)
    (hex : ∀ e ∈ existing, A.openF e.2 (d.take nonceSize) ((d.drop nonceSize).take laterReadLen) = none)
    (h : ∀ u ∈ users, ∀ k ∈ u.keys, A.openF k (d.take nonceSize) ((d.drop nonceSize).take laterReadLen) = none) :
    classifyUdp A users existing nowMin dup s d = s := by
  obtain ⟨h1, h2⟩ := udpUnit_none A users existing nowMin dup d hex (openUnder_none A _ _ users h)
  apply udp_dropped_unless_effective
  simp [UdpUnit.effective, h1, h2]

/-- any number of datagrams (each with its own replay-cache answer) -/
theorem udp_bytes_run_dropped (A : AeadFns) (users : List User) (existing : List (Nat × Bytes)) (nowMin : Nat)
    (s : UdpSt) (ds : List (Bool × Bytes))
    (hex : ∀ d ∈ ds, ∀ e ∈ existing, ∀ (n : Bytes) (i j : Nat), A.openF e.2 n ((d.2.drop i).take j) = none)
    (h : ∀ d ∈ ds, OpensNowhere A users d.2) :
    ds.foldl (fun s d => classifyUdp A users existing nowMin d.1 s d.2) s = s := by
  induction ds generalizing s with
  | nil => rfl
  | cons d ds ih =>
    simp only [List.foldl_cons]
    rw [udp_bytes_dropped A users existing nowMin d.1 s d.2
      (fun e he => hex d (List.mem_cons_self ..) e he _ nonceSize laterReadLen)
      (fun u hu k hk => h d (List.mem_cons_self ..) u hu k hk _ nonceSize laterReadLen)]
    exact ih s (fun d' hd' => hex d' (List.mem_cons_of_mem _ hd')) (fun d' hd' => h d' (List.mem_cons_of_mem _ hd'))

/-- toy AEAD for non-vacuity: the tag is 16 copies of the key's first byte -/
def toyAead : AeadFns where
  sealF k _ p := p ++ List.replicate 16 (k.headD 0)
  openF k _ c := if c.length ≥ 16 ∧ c.drop (c.length - 16) = List.replicate 16 (k.headD 0)
                 then some (c.take (c.length - 16)) else none

def toyStream : Bytes :=
  zeros 24 ++ ((SessionMeta.encode ⟨2, 100, 7, 0, 0, 0, 0⟩) ++ List.replicate 16 9)

example : (classifyTcp toyAead [⟨0, [[8], [9]]⟩] 101 false toyStream false).accepted = [7] ∧
    (classifyTcp toyAead [⟨0, [[8], [9]]⟩] 101 false toyStream false).out = [.sessionTraffic 7] ∧
    (classifyTcp toyAead [⟨0, [[8], [9]]⟩] 102 false toyStream false).accepted = [] ∧
    (classifyTcp toyAead [⟨0, [[8], [9]]⟩] 101 true toyStream false).accepted = [] ∧
    (classifyTcp toyAead [⟨0, [[8], [7]]⟩] 101 false toyStream false).accepted = [] ∧
    (classifyTcp toyAead [⟨0, [[8], [9]]⟩] 101 false (toyStream.take 71) true).closed = true ∧
    (classifyUdp toyAead [⟨3, [[9]]⟩] [] 100 false {} toyStream).accepted = [7] ∧
    (classifyUdp toyAead [⟨3, [[9]]⟩] [] 100 false {} (toyStream ++ [0])).accepted = [] := by decide +kernel
end BytesLevel

end Mieru.C05
