import Mieru.Model.Server
import Mieru.Gen.Facts
import Mieru.Gen.Consts
/-!
# C05 — no credential: the server stays silent and creates nothing

`Mieru.Model.Server` abstracts what arrives to the facts the server code branches on. A party that
knows no registered credential can only produce units whose metadata opens under no registered key
(`opens = none`, resp. `existing = none ∧ discover = none`) — that is the ideal-AEAD hypothesis of
DESIGN.md §5 (modelled, not verified). Under it, for EVERY input sequence:
the server writes nothing, creates no session and hands nothing to the proxy application.

Tie to the code: (T) `Mieru.Gen.Facts.networkWrites / writeCallers` — every network write of
pkg/protocol sits in `writeOneSegment` / `writeWithPossibleFragment`, whose callers are the session
output path and the two event loops (the close request for an unknown session, sent only after a
segment authenticated); (C) harness/props/c05.go drives a real server with the concrete inputs of
each abstract class (random bytes of every length, prefixes and single-bit flips of genuine first
segments, well-formed handshakes under foreign credentials and forged hints, on both transports,
interleaved with genuine traffic) and compares its reaction with `tcpRun` / `udpRun`.
-/
namespace Mieru.C05
open Mieru.Server

/-- no unit of the input opens under a registered key -/
def TcpNoCredential (us : List TcpUnit) : Prop := ∀ u ∈ us, u.opens = none
def UdpNoCredential (us : List UdpUnit) : Prop := ∀ u ∈ us, u.existing = none ∧ u.discover = none

/-- Invariant of the TCP event loop: anything written, any session, any receive cipher implies that
    some unit opened under a registered user's key. -/
theorem tcp_state_needs_credential (us : List TcpUnit) (s : TcpSt)
    (hs : s.recv = none ∧ s.out = [] ∧ s.sessions = [] ∧ s.accepted = [])
    (h : TcpNoCredential us) :
    (tcpRun s us).recv = none ∧ (tcpRun s us).out = [] ∧ (tcpRun s us).sessions = [] ∧ (tcpRun s us).accepted = [] := by
  induction us generalizing s with
  | nil => simpa [tcpRun] using hs
  | cons u us ih =>
    have hu : u.opens = none := h u (by simp)
    have hrest : TcpNoCredential us := fun x hx => h x (by simp [hx])
    simp only [tcpRun, List.foldl_cons]
    apply ih _ _ hrest
    obtain ⟨h1, h2, h3, h4⟩ := hs
    unfold tcpStep
    split
    · exact ⟨h1, h2, h3, h4⟩
    · split
      · simp [h1, h2, h3, h4]
      · simp [h1, h2, h3, h4, hu]

/-- TCP: whatever bytes arrive — any length, any content, any number of segments — if nothing opens
    under a registered key the server sends nothing, creates no session, hands nothing to the proxy
    application. -/
theorem tcp_unauth_silent (us : List TcpUnit) (h : TcpNoCredential us) :
    (tcpRun {} us).out = [] ∧ (tcpRun {} us).sessions = [] ∧ (tcpRun {} us).accepted = [] := by
  have := tcp_state_needs_credential us {} ⟨rfl, rfl, rfl, rfl⟩ h
  exact ⟨this.2.1, this.2.2.1, this.2.2.2⟩

/-- The connection is torn down at the first such unit: nothing after it is even parsed. -/
theorem tcp_unauth_closes (u : TcpUnit) (us : List TcpUnit) (h : u.opens = none) :
    (tcpRun {} (u :: us)).closed = true := by
  have hc : (tcpStep {} u).closed = true := by
    unfold tcpStep; simp; split <;> simp [h]
  have key : ∀ (us : List TcpUnit) (s : TcpSt), s.closed = true → (tcpRun s us).closed = true := by
    intro us
    induction us with
    | nil => intro s hs; simpa [tcpRun] using hs
    | cons x xs ih =>
      intro s hs
      simp only [tcpRun, List.foldl_cons]
      apply ih
      unfold tcpStep; simp [hs]
  simpa [tcpRun] using key us _ hc

/-- fewer bytes than a nonce and a metadata block: no decryption is even attempted, nothing happens -/
theorem short_input_silent (u : TcpUnit) (h : u.enough = false) :
    (tcpStep {} u).out = [] ∧ (tcpStep {} u).sessions = [] ∧ (tcpStep {} u).recv = none := by
  unfold tcpStep; simp [h]

/-- UDP: every datagram that opens under no key is dropped; the state does not change at all. -/
theorem udp_unauth_silent (us : List UdpUnit) (s : UdpSt) (h : UdpNoCredential us) : udpRun s us = s := by
  induction us generalizing s with
  | nil => rfl
  | cons u us ih =>
    obtain ⟨h1, h2⟩ := h u (by simp)
    simp only [udpRun, List.foldl_cons]
    have : udpStep s u = s := by
      unfold udpStep; split
      · rfl
      · simp [h1, h2]
    rw [this]
    exact ih s (fun x hx => h x (by simp [hx]))

/-- A user hint is not a credential: the model's reaction does not depend on it at all (the hint
    only orders the decryption attempts, see C07); stated as: two units that differ only in fields
    the server never reads without a key behave identically. Here: `dup` and `kind` of a unit that
    does not open are irrelevant. -/
theorem hint_is_not_a_credential (u v : TcpUnit) (hu : u.opens = none) (hv : v.opens = none)
    (he : u.enough = v.enough) : tcpStep {} u = tcpStep {} v := by
  unfold tcpStep; simp [hu, hv, he]

/-- C06 (protocol level): a byte-exact replay of an accepted first segment still opens, but the
    replay cache flags it: no session, no reply, connection closed. -/
theorem tcp_replay_silent (u : TcpUnit) (us : List TcpUnit) (h : u.dup = true) :
    (tcpRun {} (u :: us)).out = [] ∧ (tcpRun {} (u :: us)).accepted = [] ∧ (tcpRun {} (u :: us)).closed = true := by
  have hstep : (tcpStep {} u).out = [] ∧ (tcpStep {} u).accepted = [] ∧ (tcpStep {} u).closed = true := by
    unfold tcpStep
    simp only [Bool.false_eq_true, if_false]
    split
    · simp
    · split <;> simp [h]
  have key : ∀ (us : List TcpUnit) (s : TcpSt), s.closed = true → tcpRun s us = s := by
    intro us
    induction us with
    | nil => intro s _; rfl
    | cons x xs ih =>
      intro s hs
      simp only [tcpRun, List.foldl_cons]
      have : tcpStep s x = s := by unfold tcpStep; simp [hs]
      rw [this]; exact ih s hs
  have := key us _ hstep.2.2
  simp only [tcpRun, List.foldl_cons] at this ⊢
  rw [this]; exact hstep

/-- C06 (protocol level, UDP): a recorded datagram re-sent from a different source address is
    dropped even though it decrypts. -/
theorem udp_replay_other_source_silent (s : UdpSt) (u : UdpUnit)
    (h1 : u.existing = none) (h2 : u.dupOtherSource = true) : udpStep s u = s := by
  unfold udpStep
  split
  · rfl
  · cases hd : u.discover <;> simp [h1, h2]

/-- Structural tie (regenerated): the only network writes of pkg/protocol are in the two
    `writeOneSegment`s and `writeWithPossibleFragment`; the stream send cipher can only be derived
    inside `writeOneSegment` (from the authenticated receive cipher). -/
theorem network_write_sites :
    Gen.Facts.networkWrites.map (·.1) =
      ["StreamUnderlay.writeOneSegment", "StreamUnderlay.writeWithPossibleFragment", "StreamUnderlay.writeWithPossibleFragment",
       "PacketUnderlay.writeOneSegment", "PacketUnderlay.writeOneSegment"] ∧
    Gen.Facts.writeCallers =
      [("Session.output", "writeOneSegment"), ("StreamUnderlay.RunEventLoop", "writeOneSegment"),
       ("StreamUnderlay.writeOneSegment", "maybeInitSendBlockCipher"), ("StreamUnderlay.writeOneSegment", "writeWithPossibleFragment"),
       ("PacketUnderlay.RunEventLoop", "writeOneSegment")] := by decide

/-! ## Non-vacuity: a genuine handshake IS answered and accepted, so silence is not the model's only
    behaviour; and concrete credential-less inputs satisfy the hypotheses. -/
example : (tcpRun {} [⟨true, some 0, false, true, true, .openReq 7⟩]).accepted = [7] ∧
    (tcpRun {} [⟨true, some 0, false, true, true, .openReq 7⟩]).out = [.sessionTraffic 7] := by decide
example : TcpNoCredential [⟨true, none, false, true, true, .openReq 7⟩, ⟨false, none, true, false, false, .unknown⟩] := by
  intro u hu; simp at hu; rcases hu with rfl | rfl <;> rfl
example : (udpRun {} [⟨true, none, some 1, false, true, true, .openReq 9⟩]).accepted = [9] := by decide

end Mieru.C05
