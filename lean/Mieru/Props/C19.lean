import Mieru.Gen.Consts
import Mieru.Proofs.Counter
import Mieru.Proofs.CounterSearch
import Mieru.Proofs.Quota
/-!
# C19 — accounting is conserved by compaction; quotas bind exactly the user who exceeded them

Theorems about `Mieru.Counter` (model of `pkg/metrics/counter.go` + the counter part of `export.go`)
and `Mieru.Quota` (model of `checkQuota` / the refusal in `inputData`), both tied to the code by the
correspondence run of `harness/props/c19.go`; the roll-up constants are tied to the REGENERATED
constants (`counter_constants`).

Whole-system part (a refused session relays nothing; bytes read/written by the application are added
once to the right user's counters): NOT here — it needs the in-memory network of the integrator; see
docs/notes/C19.md (TODO, with the code path of the known deviation: the piggy-backed payload of a
refused open request is still readable by the server application).
-/
namespace Mieru.C19
open Mieru.Counter Mieru.Quota Mieru.Proofs.Counter Mieru.Proofs.Quota

/-- Roll-up preserves the sum: ARBITRARY history (any order, any labels, any deltas), arbitrary `now`. -/
theorem rollup_sum (now : Int) (h : List Entry) : sumD (rollUp now h) = sumD h :=
  rollUpWith_sum passes now h

/-- … and so does every single `doRollUp` pass with arbitrary parameters. -/
theorem rollup_pass_sum (p : Pass) (now : Int) (h : List Entry) : sumD (doRollUp p now h) = sumD h :=
  doRollUp_sum p now h

/-- Σ increments = value, and for a time-series counter Σ history = value — after any history of
    increments (arbitrary timestamps, arbitrary clock readings), `op`-only calls and window queries,
    with roll-ups wherever the operation counter puts them. -/
theorem add_invariant (ts : Bool) (ops : List Op) (hnl : ∀ o ∈ ops, isLoad o = false) :
    (runOps (new ts) ops).value = addedBy ops ∧
    (ts = true → sumD (runOps (new ts) ops).hist = (runOps (new ts) ops).value) := by
  suffices H : ∀ (c : Counter), (c.ts = true → sumD c.hist = c.value) →
      (runOps c ops).value = c.value + addedBy ops ∧ (runOps c ops).ts = c.ts ∧
      (c.ts = true → sumD (runOps c ops).hist = (runOps c ops).value) by
    have := H (new ts) (by simp [new, sumD])
    simp only [new] at this ⊢
    exact ⟨by omega, this.2.2⟩
  induction ops with
  | nil => intro c hc; simp [runOps, addedBy]; exact hc
  | cons o rest ih =>
    intro c hc
    have hrest := ih (fun o' ho' => hnl o' (by simp [ho']))
    simp only [runOps, List.foldl_cons] at hrest ⊢
    cases o with
    | add d t now =>
      obtain ⟨h1, h2, h3⟩ := hrest (apply c (.add d t now)) (by
        intro hts
        simp only [apply, addWithTime_ts] at hts
        simp only [apply, addWithTime_value, addWithTime_sum c d t now hts, hc hts])
      simp only [apply, addWithTime_value, addWithTime_ts] at h1 h2 h3 ⊢
      exact ⟨by simp only [addedBy]; omega, h2, h3⟩
    | tick n =>
      obtain ⟨h1, h2, h3⟩ := hrest (apply c (.tick n)) (by simpa [apply, tick] using hc)
      simp only [apply, tick] at h1 h2 h3 ⊢
      exact ⟨by simp only [addedBy]; omega, h2, h3⟩
    | query t1 t2 =>
      obtain ⟨h1, h2, h3⟩ := hrest (apply c (.query t1 t2)) (by simpa [apply, deltaBetween] using hc)
      simp only [apply, deltaBetween] at h1 h2 h3 ⊢
      exact ⟨by simp only [addedBy]; omega, h2, h3⟩
    | load v h now => have := hnl (.load v h now) (by simp); simp [isLoad] at this

/-- With dumps being loaded (each dump consistent: its value is the sum of its history) the
    invariant weakens to Σ history ≤ value: loading a dump with a smaller total over a larger live
    counter keeps the live value and takes the dump's history. -/
theorem add_invariant_with_loads (ops : List Op) (hcl : ConsistentLoads ops) :
    sumD (runOps (new true) ops).hist ≤ (runOps (new true) ops).value := by
  suffices H : ∀ (c : Counter), c.ts = true → sumD c.hist ≤ c.value →
      sumD (runOps c ops).hist ≤ (runOps c ops).value by
    exact H (new true) rfl (by simp [new, sumD])
  induction ops with
  | nil => intro c _ hc; simpa [runOps] using hc
  | cons o rest ih =>
    intro c hts hc
    simp only [runOps, List.foldl_cons]
    cases o with
    | add d t now =>
      apply ih (by simpa [ConsistentLoads] using hcl)
      · simp [apply, addWithTime_ts, hts]
      · simp only [apply, addWithTime_value, addWithTime_sum c d t now hts]; omega
    | tick n => exact ih (by simpa [ConsistentLoads] using hcl) _ (by simpa [apply, tick] using hts) (by simpa [apply, tick] using hc)
    | query t1 t2 => exact ih (by simpa [ConsistentLoads] using hcl) _ (by simpa [apply, deltaBetween] using hts) (by simpa [apply, deltaBetween] using hc)
    | load v h now =>
      simp only [ConsistentLoads] at hcl
      apply ih hcl.2
      · simp [apply, loadFrom, add, addWithTime_ts, tick, hts]
      · simp only [apply, loadFrom, add, addWithTime_value, tick, hcl.1]; omega

/-- Roll-up keeps a well-formed history well-formed, in particular sorted by time — for ANY `now`
    (the clock need not even be monotone; what matters is that the timestamps of the increments are). -/
theorem rollup_sorted (now : Int) (h : List Entry) (hw : WF h) : WF (rollUp now h) ∧ Sorted (rollUp now h) :=
  ⟨rollUp_WF now h hw, WF_sorted _ (rollUp_WF now h hw)⟩

/-- … and every single pass `from → to ∈ {from, from+1}` truncating to `to`'s granularity does. -/
theorem rollup_pass_sorted (p : Pass) (hp : PassOK p) (now : Int) (h : List Entry) (hw : WF h) :
    WF (doRollUp p now h) := doRollUp_WF p hp now h hw

/-- Every history reachable by increments whose timestamps never go backwards (bursts within one
    millisecond included), `op`-only calls, window queries and roll-ups at arbitrary `now` is
    well-formed, hence sorted by time. -/
theorem history_sorted (ts : Bool) (lo : Int) (ops : List Op) (hm : MonoAdds lo ops) :
    Sorted (runOps (new ts) ops).hist := by
  suffices H : ∀ (c : Counter) (lo : Int), MonoAdds lo ops → WF c.hist → (∀ e ∈ c.hist, e.t ≤ lo) →
      WF (runOps c ops).hist by
    exact WF_sorted _ (H (new ts) lo hm (by simp [new, WF]) (by simp [new]))
  clear hm
  induction ops with
  | nil => intro c lo _ hw _; simpa [runOps] using hw
  | cons o rest ih =>
    intro c lo hm hw hle
    simp only [runOps, List.foldl_cons]
    cases o with
    | add d t now =>
      simp only [MonoAdds] at hm
      have := addWithTime_WF c d t now hw (fun e he => Int.le_trans (hle e he) hm.1)
      exact ih _ t hm.2 this.1 this.2
    | tick n => exact ih _ lo (by simpa [MonoAdds] using hm) (by simpa [apply, tick] using hw) (by simpa [apply, tick] using hle)
    | query t1 t2 => exact ih _ lo (by simpa [MonoAdds] using hm) (by simpa [apply, deltaBetween] using hw) (by simpa [apply, deltaBetween] using hle)
    | load v h now => simp [MonoAdds] at hm

/-- A window never reports more than the total (nor less than nothing): `DeltaBetween(t1, t2)` is a
    contiguous sub-range sum of non-negative deltas — whatever the binary search finds, also on an
    unsorted history. -/
theorem window_le_total (c : Counter) (t1 t2 : Int) (hn : NonNeg c.hist) (hinv : sumD c.hist ≤ c.value) :
    0 ≤ (deltaBetween c t1 t2).2 ∧ (deltaBetween c t1 t2).2 ≤ c.value := by
  unfold deltaBetween window
  exact ⟨range_nonneg _ _ _ hn, Int.le_trans (range_le_total _ _ _ hn) hinv⟩

/-- … for every counter reachable by non-negative increments (and consistent, non-negative dumps). -/
theorem window_le_total_reachable (ops : List Op) (hcl : ConsistentLoads ops) (hnn : NonNegOps ops) (t1 t2 : Int) :
    (deltaBetween (runOps (new true) ops) t1 t2).2 ≤ (runOps (new true) ops).value :=
  (window_le_total _ t1 t2 (runOps_nonNeg ops hnn) (add_invariant_with_loads ops hcl)).2

/-- On a sorted history the window is exactly the traffic stamped in `(t1, t2]`. -/
theorem window_exact (h : List Entry) (t1 t2 : Int) (hs : Sorted h) (h12 : t1 ≤ t2) :
    window h t1 t2 = sumD (h.filter fun e => decide (t1 < e.t * nsPerMs ∧ e.t * nsPerMs ≤ t2)) :=
  window_sorted h t1 t2 hs h12

/-- Load-from-dump never decreases a total: the value becomes the larger of the two. -/
theorem load_monotone (c : Counter) (srcValue : Int) (srcHist : List Entry) (now : Int) :
    (loadFrom c srcValue srcHist now).value = max c.value srcValue ∧ c.value ≤ (loadFrom c srcValue srcHist now).value := by
  simp only [loadFrom, add, addWithTime_value, tick]
  omega

/-- No operation with a non-negative increment ever decreases the value. -/
theorem value_monotone (c : Counter) (o : Op) (hnn : NonNegOps [o]) : c.value ≤ (apply c o).value := by
  cases o with
  | add d t now => simp only [NonNegOps] at hnn; simp only [apply, addWithTime_value]; omega
  | tick n => simp [apply, tick]
  | query t1 t2 => simp [apply, deltaBetween]
  | load v h now => exact (load_monotone c v h now).2

/-- The refusal decision, exactly what the code computes: an open-session request authenticated as
    `user` is refused iff the user name is non-empty, the session's policy is that user's, both of
    the user's counters exist, and SOME quota of that policy has
    `(upload + download in the last `days` days) / 2^20 > megabytes`. -/
theorem quota_iff (sv : Server) (user : String) (now : Int) :
    refused sv user now = true ↔
      user ≠ "" ∧ ∃ p m, sv.policies user = some p ∧ p.name = user ∧ sv.metrics user = some m ∧
        ∃ q ∈ p.quotas, Int.tdiv (totalBytes q m now) bytesPerMB > q.megabytes :=
  refused_iff sv user now

/-- Isolation: the decision for `user` reads nothing but `user`'s own policy and counters — replacing
    any OTHER user's policy and counters (traffic, quotas, anything) changes no decision for `user`. -/
theorem quota_isolated (sv : Server) (user other : String) (hne : other ≠ user)
    (p' : Option Policy) (m' : Option UserMetrics) (now : Int) :
    refused { policies := fun u => if u = other then p' else sv.policies u,
              metrics := fun u => if u = other then m' else sv.metrics u } user now
      = refused sv user now :=
  refused_isolated sv user other hne p' m' now

/-- A user whose WHOLE counted traffic (not just the window) is within every allowance is never
    refused: windows never exceed totals. -/
theorem quota_within_allowance (sv : Server) (user : String) (now : Int) (p : Policy) (m : UserMetrics)
    (hp : sv.policies user = some p) (hm : sv.metrics user = some m)
    (hup : NonNeg m.up) (hdown : NonNeg m.down)
    (hall : ∀ q ∈ p.quotas, (sumD m.up + sumD m.down) / bytesPerMB ≤ q.megabytes) :
    refused sv user now = false :=
  within_allowance sv user now p m hp hm hup hdown hall

/-- A refused open-session request carries the quota status and relays NOTHING to the server
    application, whatever payload the client piggy-backed on the request; a request within the
    allowance relays exactly the payload. (Full strength; the code used to queue the payload before
    evaluating the quota — repaired by the `fix:` commit recorded in known_findings.txt.) -/
theorem quota_refused_nothing_relayed (sv : Server) (user : String) (payload : List UInt8) (now : Int) :
    ((onOpenRequest sv user payload now).refused = true →
      (onOpenRequest sv user payload now).status = Mieru.Gen.statusQuotaExhausted.toNat ∧
      (onOpenRequest sv user payload now).readable = []) ∧
    ((onOpenRequest sv user payload now).refused = false →
      (onOpenRequest sv user payload now).readable = payload) := by
  simp only [onOpenRequest]
  constructor
  · intro h; simp [h, statusQuotaExhausted, Mieru.Gen.statusQuotaExhausted]
  · intro h; simp [h]

/-- Regression witness of the repaired defect: user "a", 1 MB / 1 day quota, 2 MiB counted, a 3-byte
    payload on the open request: refused, and nothing is readable. -/
example :
    let sv : Server := { policies := fun u => if u = "a" then some ⟨"a", [⟨1, 1⟩]⟩ else none,
                         metrics := fun u => if u = "a" then some ⟨[⟨1000, 2097152, 0⟩], []⟩ else none }
    (onOpenRequest sv "a" [1, 2, 3] (2000 * nsPerMs)).refused = true ∧
    (onOpenRequest sv "a" [1, 2, 3] (2000 * nsPerMs)).readable = [] := by decide

/-- The constants of the model are the constants of the compiled repository. -/
theorem counter_constants :
    (rollUpInterval : Int) = Mieru.Gen.rollUpInterval ∧
    rollUpToSecondNs = Mieru.Gen.rollUpToSecondNs ∧
    rollUpSecondToMinuteNs = Mieru.Gen.rollUpSecondToMinuteNs ∧
    rollUpMinuteToHourNs = Mieru.Gen.rollUpMinuteToHourNs ∧
    rollUpHourToDayNs = Mieru.Gen.rollUpHourToDayNs := by
  decide

/-! ## Non-vacuity -/

/-- an unsorted history with mixed labels and a negative delta: the sum survives a full roll-up -/
example : sumD (rollUp 1000000000000000 [⟨5000, 7, 0⟩, ⟨100, -3, 2⟩, ⟨5400, 1, 0⟩, ⟨70, 9, 1⟩]) = 14 := by decide

/-- three increments inside one second, two minutes later: rolled up to one minute bucket -/
example : rollUp (200000 * nsPerMs) [⟨61001, 1, 0⟩, ⟨61002, 2, 0⟩, ⟨61999, 4, 0⟩] = [⟨60000, 7, 2⟩] := by decide

example : WF [⟨60000, 7, 2⟩, ⟨125000, 1, 1⟩, ⟨126001, 2, 0⟩, ⟨126001, 5, 0⟩] := by
  refine ⟨by simp, ?_⟩
  intro e he
  simp at he
  rcases he with rfl | rfl | rfl | rfl <;> simp [gran] <;> decide

example : MonoAdds 0 [.add 5 100 0, .tick 3, .add 1 100 7, .query 0 9, .add 2 250 1] := by simp [MonoAdds]

/-- a window on a sorted history; the whole-history window is the total -/
example : window [⟨1000, 1, 1⟩, ⟨2000, 2, 1⟩, ⟨2500, 4, 0⟩, ⟨2500, 8, 0⟩, ⟨3000, 16, 0⟩] (1000 * nsPerMs) (2500 * nsPerMs) = 14 := by decide

/-- a user 1 byte over a 1 MB / 1 day quota is refused, a user exactly at 2 MB − 1 byte is not,
    and a user without quotas is not -/
example :
    let sv : Server := {
      policies := fun u => if u = "a" then some ⟨"a", [⟨1, 1⟩]⟩ else if u = "b" then some ⟨"b", [⟨1, 1⟩]⟩
                           else if u = "c" then some ⟨"c", []⟩ else none,
      metrics := fun u => if u = "a" then some ⟨[⟨1000, 2097152, 0⟩], []⟩
                          else if u = "b" then some ⟨[⟨1000, 1048576, 0⟩], [⟨1000, 1048575, 0⟩]⟩
                          else if u = "c" then some ⟨[⟨1000, 99999999999, 0⟩], []⟩ else none }
    refused sv "a" (2000 * nsPerMs) = true ∧ refused sv "b" (2000 * nsPerMs) = false ∧
    refused sv "c" (2000 * nsPerMs) = false ∧ refused sv "" (2000 * nsPerMs) = false := by decide

end Mieru.C19
