import Mieru.Gen.Consts
import Mieru.Gen.FactsC19
import Mieru.Proofs.Registry
import Mieru.Proofs.Counter
import Mieru.Proofs.CounterSearch
import Mieru.Proofs.Quota
import Mieru.Proofs.Acct
import Mieru.Proofs.MetricsDump
/-!
# C19 — accounting is conserved by compaction; quotas bind exactly the user who exceeded them

Theorems about `Mieru.Counter` (model of `pkg/metrics/counter.go` + the counter part of `export.go`)
and `Mieru.Quota` (model of `checkQuota` / the refusal in `inputData`), both tied to the code by the
correspondence run of `harness/props/c19.go`; the roll-up constants are tied to the REGENERATED
constants (`counter_constants`).

Session level (round 3): `Mieru.Acct` is a transition system over the receive side of every server
session (`recvQueue`, `unreadBuf`), its owner, its close status and the per-user counter registry —
`Session.Read` / `Session.Write` / `Session.input` with the quota check of `inputData` — tied to the
real sessions operation by operation (harness/props/c19_acct.go) and to regenerated structural facts
(`Mieru.Gen.FactsC19`). The theorems of the second half of this file are statements about TRACES of
that system: what `Read` returned, what `Write` accepted, what was refused.
-/
namespace Mieru.C19
open Mieru.Counter Mieru.Quota Mieru.Proofs.Counter Mieru.Proofs.Quota
open Mieru.Acct Mieru.Proofs.Acct

/-- Roll-up preserves the sum: ARBITRARY history (any order, any labels, any deltas), arbitrary `now`. -/
theorem rollup_sum (now : Int) (h : List Entry) : sumD (rollUp now h) = sumD h :=
  rollUpWith_sum passes now h

/-- … and so does every single `doRollUp` pass with arbitrary parameters. -/
theorem rollup_pass_sum (p : Pass) (now : Int) (h : List Entry) : sumD (doRollUp p now h) = sumD h :=
  doRollUp_sum p now h

/-- Σ increments = value, and for a time-series counter Σ history = value — after any history of
    increments (arbitrary timestamps, arbitrary clock readings), `op`-only calls and window queries,
    with roll-ups wherever the operation counter puts them. -/
theorem add_invariant (ts : Bool) (ops : List Counter.Op) (hnl : ∀ o ∈ ops, isLoad o = false) :
    (runOps (new ts) ops).value = addedBy ops ∧
    (ts = true → sumD (runOps (new ts) ops).hist = (runOps (new ts) ops).value) := by
  suffices H : ∀ (c : Counter), (c.ts = true → sumD c.hist = c.value) →
      (runOps c ops).value = c.value + addedBy ops ∧ (runOps c ops).ts = c.ts ∧
      (c.ts = true → sumD (runOps c ops).hist = (runOps c ops).value) by
    have := H (new ts) (by simp [new, sumD])
    simp only [new] at this ⊢
    exact ⟨by omega, this.2.2⟩
  induction ops with
  | nil => intro c hc; simp [runOps, addedBy]; exact hc
  | cons o rest ih =>
    intro c hc
    have hrest := ih (fun o' ho' => hnl o' (by simp [ho']))
    simp only [runOps, List.foldl_cons] at hrest ⊢
    cases o with
    | add d t now =>
      obtain ⟨h1, h2, h3⟩ := hrest (apply c (.add d t now)) (by
        intro hts
        simp only [apply, addWithTime_ts] at hts
        simp only [apply, addWithTime_value, addWithTime_sum c d t now hts, hc hts])
      simp only [apply, addWithTime_value, addWithTime_ts] at h1 h2 h3 ⊢
      exact ⟨by simp only [addedBy]; omega, h2, h3⟩
    | tick n =>
      obtain ⟨h1, h2, h3⟩ := hrest (apply c (.tick n)) (by simpa [apply, tick] using hc)
      simp only [apply, tick] at h1 h2 h3 ⊢
      exact ⟨by simp only [addedBy]; omega, h2, h3⟩
    | query t1 t2 =>
      obtain ⟨h1, h2, h3⟩ := hrest (apply c (.query t1 t2)) (by simpa [apply, deltaBetween] using hc)
      simp only [apply, deltaBetween] at h1 h2 h3 ⊢
      exact ⟨by simp only [addedBy]; omega, h2, h3⟩
    | load v h now => have := hnl (.load v h now) (by simp); simp [isLoad] at this

/-- With dumps being loaded (each dump consistent: its value is the sum of its history) the
    invariant weakens to Σ history ≤ value: loading a dump with a smaller total over a larger live
    counter keeps the live value and takes the dump's history. -/
theorem add_invariant_with_loads (ops : List Counter.Op) (hcl : ConsistentLoads ops) :
    sumD (runOps (new true) ops).hist ≤ (runOps (new true) ops).value := by
  suffices H : ∀ (c : Counter), c.ts = true → sumD c.hist ≤ c.value →
      sumD (runOps c ops).hist ≤ (runOps c ops).value by
    exact H (new true) rfl (by simp [new, sumD])
  induction ops with
  | nil => intro c _ hc; simpa [runOps] using hc
  | cons o rest ih =>
    intro c hts hc
    simp only [runOps, List.foldl_cons]
    cases o with
    | add d t now =>
      apply ih (by simpa [ConsistentLoads] using hcl)
      · simp [apply, addWithTime_ts, hts]
      · simp only [apply, addWithTime_value, addWithTime_sum c d t now hts]; omega
    | tick n => exact ih (by simpa [ConsistentLoads] using hcl) _ (by simpa [apply, tick] using hts) (by simpa [apply, tick] using hc)
    | query t1 t2 => exact ih (by simpa [ConsistentLoads] using hcl) _ (by simpa [apply, deltaBetween] using hts) (by simpa [apply, deltaBetween] using hc)
    | load v h now =>
      simp only [ConsistentLoads] at hcl
      apply ih hcl.2
      · simp [apply, loadFrom, add, addWithTime_ts, tick, hts]
      · simp only [apply, loadFrom, add, addWithTime_value, tick, hcl.1]; omega

/-- Roll-up keeps a well-formed history well-formed, in particular sorted by time — for ANY `now`
    (the clock need not even be monotone; what matters is that the timestamps of the increments are). -/
theorem rollup_sorted (now : Int) (h : List Entry) (hw : WF h) : WF (rollUp now h) ∧ Sorted (rollUp now h) :=
  ⟨rollUp_WF now h hw, WF_sorted _ (rollUp_WF now h hw)⟩

/-- … and every single pass `from → to ∈ {from, from+1}` truncating to `to`'s granularity does. -/
theorem rollup_pass_sorted (p : Pass) (hp : PassOK p) (now : Int) (h : List Entry) (hw : WF h) :
    WF (doRollUp p now h) := doRollUp_WF p hp now h hw

/-- Every history reachable by increments whose timestamps never go backwards (bursts within one
    millisecond included), `op`-only calls, window queries and roll-ups at arbitrary `now` is
    well-formed, hence sorted by time. -/
theorem history_sorted (ts : Bool) (lo : Int) (ops : List Counter.Op) (hm : MonoAdds lo ops) :
    Sorted (runOps (new ts) ops).hist := by
  suffices H : ∀ (c : Counter) (lo : Int), MonoAdds lo ops → WF c.hist → (∀ e ∈ c.hist, e.t ≤ lo) →
      WF (runOps c ops).hist by
    exact WF_sorted _ (H (new ts) lo hm (by simp [new, WF]) (by simp [new]))
  clear hm
  induction ops with
  | nil => intro c lo _ hw _; simpa [runOps] using hw
  | cons o rest ih =>
    intro c lo hm hw hle
    simp only [runOps, List.foldl_cons]
    cases o with
    | add d t now =>
      simp only [MonoAdds] at hm
      have := addWithTime_WF c d t now hw (fun e he => Int.le_trans (hle e he) hm.1)
      exact ih _ t hm.2 this.1 this.2
    | tick n => exact ih _ lo (by simpa [MonoAdds] using hm) (by simpa [apply, tick] using hw) (by simpa [apply, tick] using hle)
    | query t1 t2 => exact ih _ lo (by simpa [MonoAdds] using hm) (by simpa [apply, deltaBetween] using hw) (by simpa [apply, deltaBetween] using hle)
    | load v h now => simp [MonoAdds] at hm

/-- A window never reports more than the total (nor less than nothing): `DeltaBetween(t1, t2)` is a
    contiguous sub-range sum of non-negative deltas — whatever the binary search finds, also on an
    unsorted history. -/
theorem window_le_total (c : Counter) (t1 t2 : Int) (hn : NonNeg c.hist) (hinv : sumD c.hist ≤ c.value) :
    0 ≤ (deltaBetween c t1 t2).2 ∧ (deltaBetween c t1 t2).2 ≤ c.value := by
  unfold deltaBetween window
  exact ⟨range_nonneg _ _ _ hn, Int.le_trans (range_le_total _ _ _ hn) hinv⟩

/-- … for every counter reachable by non-negative increments (and consistent, non-negative dumps). -/
theorem window_le_total_reachable (ops : List Counter.Op) (hcl : ConsistentLoads ops) (hnn : NonNegOps ops) (t1 t2 : Int) :
    (deltaBetween (runOps (new true) ops) t1 t2).2 ≤ (runOps (new true) ops).value :=
  (window_le_total _ t1 t2 (runOps_nonNeg ops hnn) (add_invariant_with_loads ops hcl)).2

/-- On a sorted history the window is exactly the traffic stamped in `(t1, t2]`. -/
theorem window_exact (h : List Entry) (t1 t2 : Int) (hs : Sorted h) (h12 : t1 ≤ t2) :
    window h t1 t2 = sumD (h.filter fun e => decide (t1 < e.t * nsPerMs ∧ e.t * nsPerMs ≤ t2)) :=
  window_sorted h t1 t2 hs h12

/-- Load-from-dump never decreases a total: the value becomes the larger of the two. -/
theorem load_monotone (c : Counter) (srcValue : Int) (srcHist : List Entry) (now : Int) :
    (loadFrom c srcValue srcHist now).value = max c.value srcValue ∧ c.value ≤ (loadFrom c srcValue srcHist now).value := by
  simp only [loadFrom, add, addWithTime_value, tick]
  omega

/-- No operation with a non-negative increment ever decreases the value. -/
theorem value_monotone (c : Counter) (o : Counter.Op) (hnn : NonNegOps [o]) : c.value ≤ (apply c o).value := by
  cases o with
  | add d t now => simp only [NonNegOps] at hnn; simp only [apply, addWithTime_value]; omega
  | tick n => simp [apply, tick]
  | query t1 t2 => simp [apply, deltaBetween]
  | load v h now => exact (load_monotone c v h now).2

/-- The refusal decision, exactly what the code computes: an open-session request authenticated as
    `user` is refused iff the user name is non-empty, the session's policy is that user's, both of
    the user's counters exist, and SOME quota of that policy has
    `(upload + download in the last `days` days) / 2^20 > megabytes`. -/
theorem quota_iff (sv : Server) (user : String) (now : Int) :
    refused sv user now = true ↔
      user ≠ "" ∧ ∃ p m, sv.policies user = some p ∧ p.name = user ∧ sv.metrics user = some m ∧
        ∃ q ∈ p.quotas, Int.tdiv (totalBytes q m now) bytesPerMB > q.megabytes :=
  refused_iff sv user now

/-- Isolation: the decision for `user` reads nothing but `user`'s own policy and counters — replacing
    any OTHER user's policy and counters (traffic, quotas, anything) changes no decision for `user`. -/
theorem quota_isolated (sv : Server) (user other : String) (hne : other ≠ user)
    (p' : Option Policy) (m' : Option UserMetrics) (now : Int) :
    refused { policies := fun u => if u = other then p' else sv.policies u,
              metrics := fun u => if u = other then m' else sv.metrics u } user now
      = refused sv user now :=
  refused_isolated sv user other hne p' m' now

/-- A user whose WHOLE counted traffic (not just the window) is within every allowance is never
    refused: windows never exceed totals. -/
theorem quota_within_allowance (sv : Server) (user : String) (now : Int) (p : Policy) (m : UserMetrics)
    (hp : sv.policies user = some p) (hm : sv.metrics user = some m)
    (hup : NonNeg m.up) (hdown : NonNeg m.down)
    (hall : ∀ q ∈ p.quotas, (sumD m.up + sumD m.down) / bytesPerMB ≤ q.megabytes) :
    refused sv user now = false :=
  within_allowance sv user now p m hp hm hup hdown hall

/-! ## Session level: every byte handed to / accepted from the application is counted once, against
    the session's user; a refused session relays nothing -/

/-- Exactly once, in order, for ARBITRARY buffer sizes: at every point of every history the bytes the
    application has read from session `i`, followed by what the session still holds (`unreadBuf`, then
    `recvQueue`), are exactly the payloads `input` queued for it — nothing is lost, duplicated or
    reordered by short reads, reads spanning several segments, empty payloads or empty buffers. -/
theorem read_exactly_once (w : World) (ops : List Acct.Op) (i : Nat) :
    bytesRead i (run w ops).2 ++ pending (run w ops).1 i = pending w i ++ bytesQueued i (run w ops).2 :=
  run_stream w ops i

/-- … and a single `Read(b)` never returns more than `len(b)` bytes, returns at least one byte unless
    it reaches the blocking `select`, and reaches it only with nothing copied. -/
theorem read_call (cap : Nat) (hc : 0 < cap) (unread : Bytes) (queue : List Bytes) :
    (readLoop cap unread queue).got.length ≤ cap ∧
    ((readLoop cap unread queue).blocked = true → (readLoop cap unread queue).got = []) ∧
    (readLoop cap unread queue).got ++ (readLoop cap unread queue).unread ++ (readLoop cap unread queue).queue.flatten
      = unread ++ queue.flatten :=
  ⟨readLoop_len cap unread queue, readLoop_blocked cap hc unread queue, readLoop_conserve cap unread queue⟩

/-- FULL-STRENGTH accounting statement: after ANY history of operations on any number of server
    sessions of any users, every user's `UploadBytes` is the number of bytes `Read` returned on the
    sessions that user owns and `DownloadBytes` the number of bytes `Write` accepted on them. -/
def accounting_conserved_full : Prop :=
  ∀ (pol : String → Option Policy) (ops : List Acct.Op) (u : String),
    upVal (run (World.empty pol) ops).1 u
      = readBy (owner (run (World.empty pol) ops).1) u (run (World.empty pol) ops).2 ∧
    downVal (run (World.empty pol) ops).1 u
      = writtenBy (owner (run (World.empty pol) ops).1) u (run (World.empty pol) ops).2

/-- The upload half holds at full strength: a session that has not yet processed an authenticated
    segment has nothing to hand to its application. -/
theorem accounting_upload_conserved (pol : String → Option Policy) (ops : List Acct.Op) (u : String) :
    upVal (run (World.empty pol) ops).1 u
      = readBy (owner (run (World.empty pol) ops).1) u (run (World.empty pol) ops).2 := by
  have := run_up (World.empty pol) ops (Inv_empty pol) u
  simpa [upVal, upValM, World.empty] using this

/-- Both halves, PROVIDED no `Write` is issued on a session before its input loop has processed the
    first authenticated segment (`WritesAuth`): until then `downloadBytes` is nil and the bytes `Write`
    accepts are counted for nobody — see `accounting_unauthenticated_write_counterexample`. -/
theorem accounting_conserved_partial (pol : String → Option Policy) (ops : List Acct.Op)
    (hauth : WritesAuth (World.empty pol) ops) (u : String) :
    upVal (run (World.empty pol) ops).1 u
      = readBy (owner (run (World.empty pol) ops).1) u (run (World.empty pol) ops).2 ∧
    downVal (run (World.empty pol) ops).1 u
      = writtenBy (owner (run (World.empty pol) ops).1) u (run (World.empty pol) ops).2 := by
  have := run_vals (World.empty pol) ops (Inv_empty pol) hauth u
  simpa [upVal, upValM, downVal, downValM, World.empty] using this

/-- … from any consistent world (e.g. counters loaded from a dump): the counters GROW by exactly the
    bytes returned / accepted. -/
theorem accounting_conserved_from (w : World) (hi : Inv w) (ops : List Acct.Op) (hauth : WritesAuth w ops) (u : String) :
    upVal (run w ops).1 u = upVal w u + readBy (owner (run w ops).1) u (run w ops).2 ∧
    downVal (run w ops).1 u = downVal w u + writtenBy (owner (run w ops).1) u (run w ops).2 :=
  run_vals w ops hi hauth u

/-- The witness: a session is accepted, its application writes 100 bytes before the input loop has
    processed the open request, then the request (user "a") is processed: 100 bytes were accepted on a
    session owned by "a", "a"'s download counter is 0. -/
theorem accounting_unauthenticated_write_counterexample :
    let ops : List Acct.Op := [.newSess, .write 0 100 1 0, .input 0 "a" true [] 0]
    let r := run (World.empty fun _ => none) ops
    owner r.1 0 = some "a" ∧ writtenBy (owner r.1) "a" r.2 = 100 ∧ downVal r.1 "a" = 0 ∧
    ¬ accounting_conserved_full := by
  have h : owner (run (World.empty fun _ => none) [.newSess, .write 0 100 1 0, .input 0 "a" true [] 0]).1 0 = some "a" ∧
      writtenBy (owner (run (World.empty fun _ => none) [.newSess, .write 0 100 1 0, .input 0 "a" true [] 0]).1) "a"
        (run (World.empty fun _ => none) [.newSess, .write 0 100 1 0, .input 0 "a" true [] 0]).2 = 100 ∧
      downVal (run (World.empty fun _ => none) [.newSess, .write 0 100 1 0, .input 0 "a" true [] 0]).1 "a" = 0 := by
    decide
  refine ⟨h.1, h.2.1, h.2.2, ?_⟩
  intro hfull
  have := (hfull (fun _ => none) [.newSess, .write 0 100 1 0, .input 0 "a" true [] 0] "a").2
  rw [h.2.1, h.2.2] at this
  omega

/-- What `checkQuota` sums is what was counted: every registered counter of a reachable world is a
    time-series counter whose history sums to its value, with non-negative entries — so every window
    it reports is between 0 and the user's counted traffic (`window_le_total`). -/
theorem accounting_history_consistent (pol : String → Option Policy) (ops : List Acct.Op) (u : String) (p : Pair)
    (hp : (run (World.empty pol) ops).1.metrics.get u = some p) (t1 t2 : Int) :
    sumD p.1.hist = p.1.value ∧ sumD p.2.hist = p.2.value ∧
    0 ≤ window p.1.hist t1 t2 ∧ window p.1.hist t1 t2 ≤ p.1.value ∧
    0 ≤ window p.2.hist t1 t2 ∧ window p.2.hist t1 t2 ≤ p.2.value := by
  have hok := run_metricsOK (World.empty pol) ops (by intro v q hq; simp [World.empty] at hq) u p hp
  obtain ⟨⟨_, h1, n1⟩, ⟨_, h2, n2⟩⟩ := hok
  have w1 := window_le_total p.1 t1 t2 n1 (by omega)
  have w2 := window_le_total p.2 t1 t2 n2 (by omega)
  simp only [deltaBetween] at w1 w2
  exact ⟨h1, h2, w1.1, w1.2, w2.1, w2.2⟩

/-- When exactly an open-session request is refused (the session was created for this request and is
    still attached; the request is its first segment): iff the quota decision — evaluated on the
    registry as it is once the user's counters are registered — says so; and then NOTHING is queued,
    the session carries the quota status and is closed. Otherwise the payload is queued, whole. -/
theorem quota_open_request (w : World) (i : Nat) (s : Sess) (hs : w.sess[i]? = some s)
    (hst : s.state = stAttached) (hnp : ¬ inputPanics s user) (payload : Bytes) (now : Int) :
    (refused (World.server { w with metrics := register w.metrics user }) user now = true →
      (step w (.input i user true payload now)).2 = [.refused i] ∧
      (step w (.input i user true payload now)).1.sess[i]? = some (refusedSess s user) ∧
      (refusedSess s user).status = Mieru.Gen.statusQuotaExhausted.toNat ∧
      (refusedSess s user).queue = s.queue) ∧
    (refused (World.server { w with metrics := register w.metrics user }) user now = false →
      (step w (.input i user true payload now)).2 = [.queued i payload] ∧
      (step w (.input i user true payload now)).1.sess[i]? = some (acceptedSess s user true payload)) := by
  have hlt := sess_lt w i s hs
  have hne : ¬ (stAttached = stClosed) := by decide
  constructor
  · intro hr
    simp only [step, hs, inputOn, hne, hnp, hst, hr, if_false, if_true, and_self]
    refine ⟨trivial, ?_, by simp [refusedSess, statusQuotaExhausted, Mieru.Gen.statusQuotaExhausted], by simp [refusedSess]⟩
    simp [setSess, hlt]
  · intro hr
    simp only [step, hs, inputOn, hne, hnp, hst, hr, if_false, and_false, Bool.false_eq_true]
    refine ⟨trivial, ?_⟩
    simp [setSess, hlt]

/-- A refused session relays NOTHING, in either direction, for EVERY continuation of the history:
    every later `Read` on it returns no bytes, every later `Write` accepts none, nothing is queued
    for it any more, it stays closed with the quota status — whatever payload the client piggy-backed
    on the request, whatever else arrives for the session, whatever the other sessions do.
    (Full strength; the code used to queue the payload before evaluating the quota — repaired by the
    `fix:` commit recorded in known_findings.txt.) -/
theorem quota_refused_relays_nothing (w : World) (i : Nat) (s : Sess) (hs : w.sess[i]? = some s)
    (hst : s.state = stAttached) (hq : s.queue = []) (hu : s.unread = []) (hnp : ¬ inputPanics s user)
    (payload : Bytes) (now : Int)
    (href : refused (World.server { w with metrics := register w.metrics user }) user now = true)
    (ops : List Acct.Op) :
    bytesRead i (run w (.input i user true payload now :: ops)).2 = [] ∧
    bytesQueued i (run w (.input i user true payload now :: ops)).2 = [] ∧
    (∀ n, Ev.writeRet i n ∈ (run w (.input i user true payload now :: ops)).2 → n = 0) ∧
    Dead (run w (.input i user true payload now :: ops)).1 i := by
  obtain ⟨hev, hsess, _, _⟩ := (quota_open_request w i s hs hst hnp payload now).1 href
  have hdead : Dead (step w (.input i user true payload now)).1 i :=
    ⟨refusedSess s user, hsess, rfl, rfl, by simp [refusedSess, hq], by simp [refusedSess, hu], rfl⟩
  obtain ⟨g1, g2, g3, g4⟩ := run_dead _ ops i hdead
  refine ⟨?_, ?_, ?_, g1⟩
  · simp only [run, bytesRead_append, hev, g2]; simp [bytesRead]
  · simp only [run, bytesQueued_append, hev, g4]; simp [bytesQueued]
  · intro n hn
    simp only [run, hev, List.mem_append] at hn
    rcases hn with hn | hn
    · simp at hn
    · exact g3 n hn

/-- Users within their allowance are never refused — stated over the bytes ACTUALLY MOVED: after any
    history, a user whose sessions' applications have read and written (in total, ever) no more than
    every allowance of its policy is not refused, at any instant. (Composition of the conservation
    theorem, the registry consistency and `quota_within_allowance`.) -/
theorem quota_within_allowance_by_traffic (pol : String → Option Policy) (ops : List Acct.Op)
    (hauth : WritesAuth (World.empty pol) ops) (u : String) (now : Int)
    (hall : ∀ p, pol u = some p → ∀ q ∈ p.quotas,
      (readBy (owner (run (World.empty pol) ops).1) u (run (World.empty pol) ops).2 +
       writtenBy (owner (run (World.empty pol) ops).1) u (run (World.empty pol) ops).2) / bytesPerMB ≤ q.megabytes) :
    refused (run (World.empty pol) ops).1.server u now = false := by
  have hpol : (run (World.empty pol) ops).1.policies = pol := run_policies _ ops
  cases hm : (run (World.empty pol) ops).1.metrics.get u with
  | none =>
    cases hr : refused (run (World.empty pol) ops).1.server u now with
    | false => rfl
    | true =>
      obtain ⟨_, _, m, _, _, hm', _⟩ := (refused_iff _ u now).mp hr
      simp [World.server, hm] at hm'
  | some pr =>
    cases hp : pol u with
    | none =>
      cases hr : refused (run (World.empty pol) ops).1.server u now with
      | false => rfl
      | true =>
        obtain ⟨_, p', _, hp', _⟩ := (refused_iff _ u now).mp hr
        simp [World.server, hpol, hp] at hp'
    | some p =>
      have hok := run_metricsOK (World.empty pol) ops (by intro v q hq; simp [World.empty] at hq) u pr hm
      obtain ⟨⟨_, h1, n1⟩, ⟨_, h2, n2⟩⟩ := hok
      have hv := accounting_conserved_partial pol ops hauth u
      simp only [upVal, upValM, downVal, downValM, hm] at hv
      apply within_allowance _ u now p ⟨pr.1.hist, pr.2.hist⟩
      · simp [World.server, hpol, hp]
      · simp [World.server, hm]
      · exact n1
      · exact n2
      · intro q hq
        have := hall p hp q hq
        simp only [h1, h2, hv.1, hv.2]
        exact this

/-- … and other users in any case: whatever other users do — any number of sessions, any traffic,
    any refusals — changes neither `u`'s counters nor any decision about `u`. -/
theorem quota_isolated_by_traffic (w : World) (u : String) (ops : List Acct.Op) (hf : Foreign w u ops) (now : Int) :
    (run w ops).1.metrics.get u = w.metrics.get u ∧
    refused (run w ops).1.server u now = refused w.server u now := by
  have hm := run_foreign w ops u hf
  refine ⟨hm, refused_congr _ _ u now ?_ ?_⟩
  · simp [World.server, run_policies]
  · simp [World.server, hm]


/-! ## Concurrent registration: every session obtains the published counter -/

open Mieru.Registry in
/-- "Sessions opened concurrently with accounting": for ANY number of sessions registering the same
    not-yet-existing metric and ANY interleaving of their atomic steps, with a registration that
    publishes only through `LoadOrStore` (no plain `Store`): every call that has returned holds the
    published counter — so all callers hold the same one — and every byte count added went to it:
    what the registry, the dump and `checkQuota` see is everything that was added. -/
theorem register_every_caller_gets_published (prog : List Instr) (hp : Instr.storeOwn ∉ prog) (n : Nat) (sched : List Nat) :
    (∀ (i : Nat) (t : Thread), (run prog (init n) sched).threads[i]? = some t →
        ∀ r, t.ret = some r → (run prog (init n) sched).slot = some r) ∧
    visibleAdds (run prog (init n) sched) = doneAdds (run prog (init n) sched) := by
  have h := Mieru.Proofs.Registry.run_inv prog hp (init n) sched (Mieru.Proofs.Registry.inv_init n)
  exact ⟨h.1, Mieru.Proofs.Registry.visible_eq_done _ h⟩

open Mieru.Registry in
/-- The code has that shape — REGENERATED: the only `sync.Map` method `RegisterMetric` calls on the
    metric slot is one `LoadOrStore`, what it returns is that call's first result, and the group slot
    is published the same way. (A `Load` fast path followed by `Store`, seeded/C19-5, changes the
    regenerated lists and this stops building.) -/
theorem register_metric_shape :
    shapeOfCalls Mieru.Gen.FactsC19.registerMetricSlotCalls = some codeShape ∧
    Instr.storeOwn ∉ codeShape ∧
    Mieru.Gen.FactsC19.registerMetricReturns = [("metric.(Metric)", "metricGroup.metrics.LoadOrStore", "0")] ∧
    Mieru.Gen.FactsC19.registerMetricGroupCalls = ["LoadOrStore"] := by decide

open Mieru.Registry in
/-- Why the shape matters: with check-then-store two sessions interleave so that both miss, both
    store; the first caller keeps a counter the registry no longer holds and its bytes are counted
    against nobody (2 added, 1 visible). -/
theorem register_check_then_store_counterexample :
    let st := run racyShape (init 2) [0, 1, 0, 1, 0, 1, 0, 1]
    (st.threads.map (·.ret)) = [some 0, some 1] ∧ st.slot = some 1 ∧ doneAdds st = 2 ∧ visibleAdds st = 1 := by decide

/-- Each session keeps the counters `input` registered for the user of ITS cipher block, upload with
    upload and download with download, both time series — REGENERATED from `Session.input`. -/
theorem session_metric_registration :
    Mieru.Gen.FactsC19.sessionMetricRegistrations =
      [("s.uploadBytes", "fmt.Sprintf(metrics.UserMetricGroupFormat, (*s.block.Load()).BlockContext().UserName)",
        "metrics.UserMetricUploadBytes", "metrics.COUNTER_TIME_SERIES"),
       ("s.downloadBytes", "fmt.Sprintf(metrics.UserMetricGroupFormat, (*s.block.Load()).BlockContext().UserName)",
        "metrics.UserMetricDownloadBytes", "metrics.COUNTER_TIME_SERIES")] := by decide


/-! ## The dump / load FILE path (`DumpMetricsNow`, `LoadMetricsFromDump` with its two passes) -/

section dumpfile
open Mieru.MetricsDump Mieru.Proofs.MetricsDump

/-- Loading a dump never decreases a total — for EVERY registry and EVERY dump (hand-crafted ones
    included: values off, histories unsorted, negative values, unknown / duplicated / unnamed groups
    and metrics, mismatching types): the sum of all counters does not decrease, and every counter that
    was registered is still registered under the same group and name, is still the same kind of
    counter, and its value is not smaller than before. -/
theorem load_never_decreases_total (r : Registry) (d : Dump) (now : Int) :
    total r ≤ total (loadAll r d now) ∧
    ∀ g name c, getMetric r g name = some (.counter c) →
      ∃ c', getMetric (loadAll r d now) g name = some (.counter c') ∧ c.value ≤ c'.value ∧ c'.ts = c.ts := by
  have h := loadAll_ext r d now
  refine ⟨RExt_total h, ?_⟩
  intro g name c hc
  obtain ⟨m', hm', hle⟩ := RExt_get h g name _ hc
  cases m' with
  | counter c' => exact ⟨c', hm', hle⟩
  | gauge v => simp [MLe] at hle

/-- … and gauges are never touched by a load. -/
theorem load_keeps_gauges (r : Registry) (d : Dump) (now : Int) (g name : String) (v : Int)
    (hg : getMetric r g name = some (.gauge v)) : getMetric (loadAll r d now) g name = some (.gauge v) := by
  obtain ⟨m', hm', hle⟩ := RExt_get (loadAll_ext r d now) g name _ hg
  cases m' with
  | counter c' => simp [MLe] at hle
  | gauge v' => simp only [MLe] at hle; rw [hm', hle]

/-- Dump followed by load preserves the history — what is proved in general is the per-counter
    statement: the message `ToMetricPB` produces for a counter, loaded twice (the two passes) into that
    same counter, leaves the value and, for a time-series counter, the history LIST (entries and their
    order) exactly as they were; only the operation counter advances (4 + 2·4). For whole registries
    see the evaluated instances below and the comparison run on the real files (c19_dump.go); the
    general composition over a registry without duplicate names is not proved. -/
theorem dump_then_load_preserves_history (c : Counter) (name : String) (now1 now2 : Int) :
    loadMetric name (loadMetric name (toMetricPB name (.counter c)).1 (toMetricPB name (.counter c)).2 now1)
      (toMetricPB name (.counter c)).2 now2 = .counter (reloaded c) ∧
    (reloaded c).value = c.value ∧ (reloaded c).ts = c.ts ∧ (c.ts = true → (reloaded c).hist = c.hist) ∧
    (reloaded c).op = c.op + 12 := by
  refine ⟨idle_reload c name now1 now2, rfl, rfl, ?_, rfl⟩
  intro h; simp [reloaded, h]

end dumpfile

/-! ## Regenerated structure of Read / Write / inputData / checkQuota / rollUp / DeltaBetween -/

/-- `Session.Read`: the only `return` with a non-zero count is the final `n, nil`, directly preceded
    by `if !s.isClient && s.uploadBytes != nil { s.uploadBytes.Add(int64(n)) }`; `n` only ever grows by
    what `copy` put into `b[n:]`, from `unreadBuf` or from a dequeued payload — the shape `readLoop`
    and `readOn` model. (seeded/C19-1 — counting only what was copied out of dequeued segments —
    changes `readAdds`.) -/
theorem read_accounting_placement :
    Mieru.Gen.FactsC19.readReturns =
      [("0, nil", "no", "len(b) == 0"), ("0, io.EOF", "no", ""), ("0, io.ErrUnexpectedEOF", "no", ""),
       ("0, stderror.ErrTimeout", "no", ""), ("n, nil", "yes", "")] ∧
    Mieru.Gen.FactsC19.readAdds = [("!s.isClient && s.uploadBytes != nil", "s.uploadBytes", "int64(n)")] ∧
    Mieru.Gen.FactsC19.readCopies = [("b[n:]", "s.unreadBuf"), ("b[n:]", "seg.payload")] ∧
    Mieru.Gen.FactsC19.readNUpdates = ["n += copied", "n += copied"] := by decide

/-- `Session.Write`: every `return` that can carry a non-zero count — the early one when a later chunk
    fails (the round-3 `fix:`) and the final one — is directly preceded by the `Add(int64(n))` to
    `s.downloadBytes`; the only other one is on the client-only open-request path; `n` grows by the
    chunk size only. -/
theorem write_accounting_placement :
    Mieru.Gen.FactsC19.writeReturns =
      [("0, io.ErrClosedPipe", "no", "s.closeRequested.Load()"),
       ("0, fmt.Errorf(\"%v is not ready for Write()\", s)", "no", "s.isStateBefore(sessionAttached, false)"),
       ("0, io.ErrClosedPipe", "no", "s.isStateAfter(sessionClosed, true)"),
       ("0, fmt.Errorf(\"insert %v to send queue failed\", seg)", "no",
        "s.isClient && s.isState(sessionAttached) && !s.openSessionRequestSent.Swap(true) && !s.sendQueue.Insert(seg)"),
       ("len(seg.payload), nil", "no",
        "s.isClient && s.isState(sessionAttached) && !s.openSessionRequestSent.Swap(true) && len(seg.payload) > 0"),
       ("n, err", "yes", "sent == 0 || err != nil"), ("n, nil", "yes", "")] ∧
    Mieru.Gen.FactsC19.writeAdds =
      [("!s.isClient && s.downloadBytes != nil", "s.downloadBytes", "int64(n)"),
       ("!s.isClient && s.downloadBytes != nil", "s.downloadBytes", "int64(n)")] ∧
    Mieru.Gen.FactsC19.writeNUpdates = ["n += sizeToSend"] ∧
    (maxPDU : Int) = Mieru.Gen.maxPDU := by decide

/-- `Session.inputData`: the quota check is the FIRST statement, before any insertion into
    `recvQueue` / `recvBuf`; its refusal branch sets the status, closes and RETURNS — the repaired
    order that `inputOn` models. -/
theorem quota_check_placement :
    Mieru.Gen.FactsC19.inputDataFirstIf =
      "!s.isClient && seg.metadata.Protocol() == openSessionRequest && s.isState(sessionAttached)" ∧
    Mieru.Gen.FactsC19.inputDataRefusalGuard =
      "!s.isClient && seg.metadata.Protocol() == openSessionRequest && s.isState(sessionAttached) && userName := s.UserName(); userName != \"\"" ∧
    Mieru.Gen.FactsC19.inputDataCalls =
      ["s.checkQuota", "s.Close", "s.recvQueue.Insert", "s.recvBuf.Insert", "s.moveRecvBufToRecvQueue",
       "s.sendQueue.Insert", "s.forwardStateTo"] ∧
    Mieru.Gen.FactsC19.inputDataRefusal =
      ["s.oLock.Lock()", "s.status = statusQuotaExhausted", "s.oLock.Unlock()",
       "log.Debugf(\"Closing %v because user %s used all the quota\", s, userName)", "s.Close()", "return nil"] ∧
    statusQuotaExhausted = Mieru.Gen.statusQuotaExhausted.toNat := by decide

/-- `Session.checkQuota`: the early-outs in the order of `Quota.checkQuota`, the clamp of the lookback
    period and the comparison `totalBytes/1048576 > int64(quota.Megabytes())`; the model's `maxDays` is
    `math.MaxInt64 / (24 * time.Hour)`, and with the clamp the window is never inverted and the
    multiplication stays inside int64 (the repaired panic). -/
theorem quota_check_regenerated :
    Mieru.Gen.FactsC19.checkQuotaConds =
      ["policy == nil", "policy.Name() != userName", "len(policy.Quotas()) == 0", "metricGroup == nil", "!found", "!found",
       "days < 0", "maxDays := int64(math.MaxInt64 / (24 * time.Hour)); days > maxDays",
       "totalBytes/1048576 > int64(quota.Megabytes())"] ∧
    Mieru.Gen.FactsC19.checkQuotaLoop =
      ["now := time.Now()", "days := int64(quota.Days())", "if days < 0 { days = 0 }",
       "if maxDays := int64(math.MaxInt64 / (24 * time.Hour)); days > maxDays { days = maxDays }",
       "then := now.Add(-time.Duration(days) * 24 * time.Hour)",
       "totalBytes := uploadBytes.(*metrics.Counter).DeltaBetween(then, now)",
       "totalBytes += downloadBytes.(*metrics.Counter).DeltaBetween(then, now)",
       "if totalBytes/1048576 > int64(quota.Megabytes()) { return false, nil }"] ∧
    maxDays = 9223372036854775807 / nsPerDay ∧ bytesPerMB = 1048576 := by decide

/-- … for EVERY configured number of days. -/
theorem quota_window_well_formed (d now : Int) :
    0 ≤ clampDays d * nsPerDay ∧ clampDays d * nsPerDay ≤ 9223372036854775807 ∧ now - clampDays d * nsPerDay ≤ now := by
  unfold clampDays maxDays nsPerDay
  split
  · omega
  · split <;> omega

/-- label names and truncation durations of the regenerated `doRollUp` calls -/
def passOfFact (f : String × String × String × String) : Option Pass :=
  let label : String → Option Nat := fun s =>
    if s = "pb.RollUpLabel_NO_ROLL_UP" then some 0 else if s = "pb.RollUpLabel_ROLL_UP_TO_SECOND" then some 1
    else if s = "pb.RollUpLabel_ROLL_UP_TO_MINUTE" then some 2 else if s = "pb.RollUpLabel_ROLL_UP_TO_HOUR" then some 3
    else if s = "pb.RollUpLabel_ROLL_UP_TO_DAY" then some 4 else none
  let dur : String → Option Int := fun s =>
    if s = "rollUpToSecond" then some Mieru.Gen.rollUpToSecondNs else if s = "rollUpSecondToMinute" then some Mieru.Gen.rollUpSecondToMinuteNs
    else if s = "rollUpMinuteToHour" then some Mieru.Gen.rollUpMinuteToHourNs else if s = "rollUpHourToDay" then some Mieru.Gen.rollUpHourToDayNs
    else none
  let trunc : String → Option Int := fun s =>
    if s = "time.Second" then some 1000 else if s = "time.Minute" then some 60000 else if s = "time.Hour" then some 3600000
    else if s = "24 * time.Hour" then some 86400000 else none
  match label f.1, label f.2.1, dur f.2.2.1, trunc f.2.2.2 with
  | some a, some b, some c, some d => some ⟨a, b, c, d⟩
  | _, _, _, _ => none

/-- The model's eight passes ARE the `doRollUp` calls of `Counter.rollUp`, in the code's order, with
    the compiled repository's thresholds; the guard is `op % rollUpInterval`; `doRollUp` keeps an entry
    iff its label differs or `time.Since(t) <= rollUpDuration` and merges into `last` iff the truncated
    times are equal. -/
theorem rollup_passes_regenerated :
    Mieru.Gen.FactsC19.rollUpPasses.map passOfFact = passes.map some ∧
    Mieru.Gen.FactsC19.rollUpGuard = "c.op%rollUpInterval != 0" ∧
    Mieru.Gen.FactsC19.doRollUpConds =
      ["h.GetRollUp() != fromLabel", "last != nil", "time.Since(t) <= rollUpDuration", "last != nil", "last == nil",
       "last.GetTimeUnixMilli() == t.UnixMilli()", "last != nil"] ∧
    Mieru.Gen.FactsC19.doRollUpTimeCalls = ["time.Since(t)", "t.Truncate(truncateDuration)"] := by decide

/-- `DeltaBetween` searches for the first entry AFTER `t1` and the first AFTER `t2` and sums the entries
    in between — the `(t1, t2]` window of `afterIdx` / `window`; it panics only for `t2 < t1` and for
    plain counters. -/
theorem window_search_regenerated :
    Mieru.Gen.FactsC19.deltaBetweenPredicates =
      ["time.UnixMilli(c.history[i].GetTimeUnixMilli()).After(t1)", "time.UnixMilli(c.history[i].GetTimeUnixMilli()).After(t2)"] ∧
    Mieru.Gen.FactsC19.deltaBetweenLoops = ["i := t1Idx; i < t2Idx; i++ { sum += c.history[i].GetDelta() }"] ∧
    Mieru.Gen.FactsC19.deltaBetweenPanics = ["t2.Before(t1)", "!c.timeSeries"] := by decide

/-- The constants of the model are the constants of the compiled repository. -/
theorem counter_constants :
    (rollUpInterval : Int) = Mieru.Gen.rollUpInterval ∧
    rollUpToSecondNs = Mieru.Gen.rollUpToSecondNs ∧
    rollUpSecondToMinuteNs = Mieru.Gen.rollUpSecondToMinuteNs ∧
    rollUpMinuteToHourNs = Mieru.Gen.rollUpMinuteToHourNs ∧
    rollUpHourToDayNs = Mieru.Gen.rollUpHourToDayNs := by
  decide

/-! ## Non-vacuity -/

/-- an unsorted history with mixed labels and a negative delta: the sum survives a full roll-up -/
example : sumD (rollUp 1000000000000000 [⟨5000, 7, 0⟩, ⟨100, -3, 2⟩, ⟨5400, 1, 0⟩, ⟨70, 9, 1⟩]) = 14 := by decide

/-- three increments inside one second, two minutes later: rolled up to one minute bucket -/
example : rollUp (200000 * nsPerMs) [⟨61001, 1, 0⟩, ⟨61002, 2, 0⟩, ⟨61999, 4, 0⟩] = [⟨60000, 7, 2⟩] := by decide

example : WF [⟨60000, 7, 2⟩, ⟨125000, 1, 1⟩, ⟨126001, 2, 0⟩, ⟨126001, 5, 0⟩] := by
  refine ⟨by simp, ?_⟩
  intro e he
  simp at he
  rcases he with rfl | rfl | rfl | rfl <;> simp [gran] <;> decide

example : MonoAdds 0 [.add 5 100 0, .tick 3, .add 1 100 7, .query 0 9, .add 2 250 1] := by simp [MonoAdds]

/-- a window on a sorted history; the whole-history window is the total -/
example : window [⟨1000, 1, 1⟩, ⟨2000, 2, 1⟩, ⟨2500, 4, 0⟩, ⟨2500, 8, 0⟩, ⟨3000, 16, 0⟩] (1000 * nsPerMs) (2500 * nsPerMs) = 14 := by decide

/-- a user 1 byte over a 1 MB / 1 day quota is refused, a user exactly at 2 MB − 1 byte is not,
    and a user without quotas is not -/
example :
    let sv : Server := {
      policies := fun u => if u = "a" then some ⟨"a", [⟨1, 1⟩]⟩ else if u = "b" then some ⟨"b", [⟨1, 1⟩]⟩
                           else if u = "c" then some ⟨"c", []⟩ else none,
      metrics := fun u => if u = "a" then some ⟨[⟨1000, 2097152, 0⟩], []⟩
                          else if u = "b" then some ⟨[⟨1000, 1048576, 0⟩], [⟨1000, 1048575, 0⟩]⟩
                          else if u = "c" then some ⟨[⟨1000, 99999999999, 0⟩], []⟩ else none }
    refused sv "a" (2000 * nsPerMs) = true ∧ refused sv "b" (2000 * nsPerMs) = false ∧
    refused sv "c" (2000 * nsPerMs) = false ∧ refused sv "" (2000 * nsPerMs) = false := by decide

section dumpfile_examples
open Mieru.MetricsDump

/-- a registry with two groups (a time-series counter with a rolled-up history, a plain counter, a gauge) -/
def exReg : Registry :=
  [⟨"user-a", [("up", .counter ⟨7, true, [⟨60000, 3, 2⟩, ⟨125000, 4, 0⟩], 5⟩), ("n", .counter ⟨9, false, [], 2⟩), ("g", .gauge 42)]⟩,
   ⟨"user-b", [("up", .counter ⟨0, true, [], 0⟩)]⟩]

/-- dump then load into the registry itself: every counter as before, 12 operations later -/
example : flatten (loadAll (dumpAll exReg).1 (dumpAll exReg).2 0) =
    [("user-a", "up", true, 7, 17, [⟨60000, 3, 2⟩, ⟨125000, 4, 0⟩]), ("user-a", "n", false, 9, 14, []),
     ("user-b", "up", true, 0, 12, [])] := by rfl

/-- … into an EMPTY registry: the first pass registers (gauges are not), the second loads -/
example : flatten (loadAll [] (dumpAll exReg).2 0) =
    [("user-a", "up", true, 7, 4, [⟨60000, 3, 2⟩, ⟨125000, 4, 0⟩]), ("user-a", "n", false, 9, 4, []),
     ("user-b", "up", true, 0, 4, [])] := by rfl

end dumpfile_examples

end Mieru.C19
