import Mieru.Proofs.Close
import Mieru.Proofs.CloseAccept
import Mieru.Proofs.StreamPrefix
import Mieru.Proofs.CloseWriter
import Mieru.Gen.Facts
import Mieru.Gen.CloseFacts
/-!
# C03 — graceful close never turns a partial transfer into a clean end-of-stream

Statement: if `Write(d)` succeeded and the writer then calls `Close`, the peer's read history is `d`
followed by EOF, or it ends in a non-EOF error — never a strict prefix of `d` followed by `io.EOF`.

Model: `Mieru.Model.Close`.

* Stream transport — proved in full (`tcp_close_after_all_data`): whatever prefix of the byte stream
  has arrived, in whatever chunking, the session is closed only once every fragment of `d` is in the
  receive queue, and `Read` reports EOF only after handing out that whole queue.
* Packet transport — the statement at full strength is

      theorem udp_close_full {s} (h : Reach asIs s) (he : s.eof = true) : s.readLog = s.a.segs

  and it is FALSE for the code as it is (`udp_close_counterexample`,
  `udp_close_wait_expiry_counterexample`): the reader acts on a close request as soon as it is
  dispatched, `Read` looks only at the in-order queue, and the writer discards its send state once
  the close request is out (or once its bounded wait is over). It is proved (`udp_close_partial`)
  under exactly two assumptions, named by `Close.assumed`:
  `ordered` — every data segment transmitted before a close request is handed to the reader before
  that close request; `patient` — the writer's bounded wait (1000 × 1 ms) ends because the output
  loop has transmitted the close request behind all queued data.
  The direct oracle of harness/props/c03.go replays both counterexamples on the real endpoints on
  every run (known findings `C03/udp/data-lost-or-overtaken-before-close` and
  `C03/udp/data-discarded-unsent-at-close`).

Tie to the code: (T) `Mieru.Gen.Facts` — `close_path_structure` below; (C) every run of
harness/props/c03.go is replayed through `Close.acceptAll` / `CloseStream.run` by the driver, which
must accept the observed history and predict the reader's outcome.
-/
namespace Mieru.C03
open Mieru Mieru.Close

/-! ## Packet transport -/

/-- Whatever happens, what the application has read is a prefix of what was written (no assumption
    on the network or on timing). -/
theorem udp_read_is_prefix {E : Env} {s : St} (h : Reach E s) : s.readLog = s.a.segs.take s.readPos := by
  have inv := reach_cinv h
  unfold St.readLog
  rw [inv.arq.deliv, List.take_take]
  congr 1
  have h1 := inv.readLe
  rw [inv.arq.deliv, List.length_take] at h1
  omega

/-- `Read` reports EOF only on a closed session whose in-order queue has been read completely. -/
theorem udp_eof_only_after_close {E : Env} {s : St} (h : Reach E s) (he : s.eof = true) :
    s.rClosed = true ∧ s.readLog = s.a.delivered := by
  have inv := reach_cinv h
  obtain ⟨hc, hp⟩ := inv.eofI he
  exact ⟨hc, by unfold St.readLog; rw [hp, List.take_length]⟩

/-- `closeWithError` ends with `sendQueue.DeleteAll(); sendBuf.DeleteAll()`: once the writer's side is
    closed nothing is transmitted or retransmitted any more. -/
theorem udp_nothing_sent_after_close {E : Env} {s t : St} (st : Step E s t) (hw : s.wClosed = true) :
    t.a.sent = s.a.sent := by
  cases st with
  | sendNew p hc _ => rw [hw] at hc; exact absurd hc (by simp)
  | retransmit k p hc _ _ => rw [hw] at hc; exact absurd hc (by simp)
  | recvData m hm =>
    by_cases hr : s.rClosed = true
    · rw [if_pos hr]
    · rw [if_neg hr]
      exact (Arq.drain_mono _ _).2.2.2.2.1
  | _ => rfl

/-- The property, under the two assumptions: every data segment transmitted before the close request
    reaches the reader before it, and the writer's bounded wait ends with the close request
    transmitted behind all data. Then a clean EOF means the application read everything written. -/
theorem udp_close_partial {s : St} (h : Reach assumed s) (he : s.eof = true) : s.readLog = s.a.segs := by
  have inv := reach_cinv h
  obtain ⟨hc, hp⟩ := inv.eofI he
  have hn := inv.o1 rfl rfl rfl hc
  unfold St.readLog
  rw [hp, List.take_length, inv.arq.deliv, hn, List.take_length]

/-- every run permitted under the assumptions is a run of the code as it is -/
theorem udp_assumptions_only_restrict {E : Env} {s : St} (h : Reach E s) : Reach asIs s := reach_asIs h

/-- The code as it is violates the statement: two segments are written and transmitted, `Close`
    queues the close request behind them, the output loop transmits it and the send state is
    discarded; the network loses the second data datagram; the reader receives the first, then the
    close request — which it acts on at once. The application reads the first segment and then a
    clean EOF; nothing will ever retransmit the second. -/
theorem udp_close_counterexample :
    ∃ s, Reach asIs s ∧ s.eof = true ∧ s.readLog = [7] ∧ s.a.segs = [7, 8] ∧ s.readLog ≠ s.a.segs ∧ s.wClosed = true := by
  let a2 : Arq.St := { Arq.init with segs := [7, 8] }
  let s2 : St := { init with a := a2 }
  let a3 : Arq.St := { a2 with qLo := 1, netData := [⟨0, 7⟩], sent := [⟨0, 7⟩] }
  let a4 : Arq.St := { a3 with qLo := 2, netData := [⟨1, 8⟩, ⟨0, 7⟩], sent := [⟨1, 8⟩, ⟨0, 7⟩] }
  let s4 : St := { s2 with a := a4 }
  let s5 : St := { s4 with closeReq := true }
  let s6 : St := { s5 with closeSent := true, netClose := 1 }
  let s7 : St := { s6 with wClosed := true }
  let s8 : St := { s7 with a := { a4 with netData := [⟨0, 7⟩] } }
  have r1 : Reach asIs { init with a := { Arq.init with segs := [7] } } := Reach.step Reach.init (Step.write init 7 rfl)
  have r2 : Reach asIs s2 := Reach.step r1 (Step.write _ 8 rfl)
  have r3 : Reach asIs { s2 with a := a3 } := Reach.step r2 (Step.sendNew s2 7 rfl (by decide))
  have r4 : Reach asIs s4 := Reach.step r3 (Step.sendNew _ 8 rfl (by decide))
  have r5 : Reach asIs s5 := Reach.step r4 (Step.closeCall s4 rfl)
  have r6 : Reach asIs s6 := Reach.step r5 (Step.sendClose s5 rfl rfl (by decide))
  have r7 : Reach asIs s7 := Reach.step r6 (Step.discard s6 rfl)
  have r8 : Reach asIs s8 := Reach.step r7 (Step.dropData s7 ⟨1, 8⟩)
  have r9 := Reach.step r8 (Step.recvData s8 ⟨0, 7⟩ (by decide))
  have r10 := Reach.step r9 (Step.recvClose _ (by decide) (by intro hf; simp [asIs] at hf))
  have r11 := Reach.step r10 (Step.read _ (by decide))
  have r12 := Reach.step r11 (Step.readEOF _ (by decide) (by decide))
  exact ⟨_, r12, by decide, by decide, by decide, by decide, by decide⟩

/-- A second way the code violates it, with NO loss and NO reordering (`ordered` holds): the bounded
    wait of `closeWithError` expires while data is still queued, the close request is written out
    directly and the queue is discarded. -/
theorem udp_close_wait_expiry_counterexample :
    ∃ s, Reach ⟨true, false, true⟩ s ∧ s.eof = true ∧ s.readLog = [7] ∧ s.a.segs = [7, 8] ∧ s.a.sent = [⟨0, 7⟩] := by
  let a2 : Arq.St := { Arq.init with segs := [7, 8] }
  let s2 : St := { init with a := a2 }
  let a3 : Arq.St := { a2 with qLo := 1, netData := [⟨0, 7⟩], sent := [⟨0, 7⟩] }
  let s3 : St := { s2 with a := a3 }
  let s4 : St := { s3 with closeReq := true }
  let s5 : St := { s4 with closeSent := true, netClose := 1 }
  let s6 : St := { s5 with wClosed := true }
  have r1 : Reach ⟨true, false, true⟩ { init with a := { Arq.init with segs := [7] } } :=
    Reach.step Reach.init (Step.write init 7 rfl)
  have r2 : Reach ⟨true, false, true⟩ s2 := Reach.step r1 (Step.write _ 8 rfl)
  have r3 : Reach ⟨true, false, true⟩ s3 := Reach.step r2 (Step.sendNew s2 7 rfl (by decide))
  have r4 : Reach ⟨true, false, true⟩ s4 := Reach.step r3 (Step.closeCall s3 rfl)
  have r5 : Reach ⟨true, false, true⟩ s5 := Reach.step r4 (Step.forceClose s4 rfl rfl rfl)
  have r6 : Reach ⟨true, false, true⟩ s6 := Reach.step r5 (Step.discard s5 rfl)
  have r7 := Reach.step r6 (Step.recvData s6 ⟨0, 7⟩ (by decide))
  have r8 := Reach.step r7 (Step.recvClose _ (by decide) (by intro _ j hj; revert j; decide))
  have r9 := Reach.step r8 (Step.read _ (by decide))
  have r10 := Reach.step r9 (Step.readEOF _ (by decide) (by decide))
  exact ⟨_, r10, by decide, by decide, by decide, by decide⟩

/-- A third way, inside `ordered` AND `patient` (the network never hands a close request to the reader
    at all, the writer's wait ends properly): the second data datagram and the close request are
    lost, the writer's send state is gone, and the reader's session — which hears nothing any more —
    is closed locally (on the packet transport after `idleSessionTimeout` = 60 s by
    `cleanSessions → RemoveSession → s.Close()`). `Read` hands out the one segment it has and then
    reports a clean EOF. This is why `udp_close_partial` needs its third assumption `kept`. -/
theorem udp_close_idle_timeout_counterexample :
    ∃ s, Reach ⟨true, true, false⟩ s ∧ s.eof = true ∧ s.readLog = [7] ∧ s.a.segs = [7, 8] ∧ s.readLog ≠ s.a.segs ∧
      s.netClose = 0 ∧ s.wClosed = true := by
  let a2 : Arq.St := { Arq.init with segs := [7, 8] }
  let s2 : St := { init with a := a2 }
  let a3 : Arq.St := { a2 with qLo := 1, netData := [⟨0, 7⟩], sent := [⟨0, 7⟩] }
  let a4 : Arq.St := { a3 with qLo := 2, netData := [⟨1, 8⟩, ⟨0, 7⟩], sent := [⟨1, 8⟩, ⟨0, 7⟩] }
  let s4 : St := { s2 with a := a4 }
  let s5 : St := { s4 with closeReq := true }
  let s6 : St := { s5 with closeSent := true, netClose := 1 }
  let s7 : St := { s6 with wClosed := true }
  let s8 : St := { s7 with a := { a4 with netData := [⟨0, 7⟩] } }
  let s9 : St := { s8 with netClose := 0 }
  have r1 : Reach ⟨true, true, false⟩ { init with a := { Arq.init with segs := [7] } } :=
    Reach.step Reach.init (Step.write init 7 rfl)
  have r2 : Reach ⟨true, true, false⟩ s2 := Reach.step r1 (Step.write _ 8 rfl)
  have r3 : Reach ⟨true, true, false⟩ { s2 with a := a3 } := Reach.step r2 (Step.sendNew s2 7 rfl (by decide))
  have r4 : Reach ⟨true, true, false⟩ s4 := Reach.step r3 (Step.sendNew _ 8 rfl (by decide))
  have r5 : Reach ⟨true, true, false⟩ s5 := Reach.step r4 (Step.closeCall s4 rfl)
  have r6 : Reach ⟨true, true, false⟩ s6 := Reach.step r5 (Step.sendClose s5 rfl rfl (by decide))
  have r7 : Reach ⟨true, true, false⟩ s7 := Reach.step r6 (Step.discard s6 rfl)
  have r8 : Reach ⟨true, true, false⟩ s8 := Reach.step r7 (Step.dropData s7 ⟨1, 8⟩)
  have r9 : Reach ⟨true, true, false⟩ s9 := Reach.step r8 (Step.dropClose s8 (by decide))
  have r10 := Reach.step r9 (Step.recvData s9 ⟨0, 7⟩ (by decide))
  have r11 := Reach.step r10 (Step.localClose _ rfl)
  have r12 := Reach.step r11 (Step.read _ (by decide))
  have r13 := Reach.step r12 (Step.readEOF _ (by decide) (by decide))
  exact ⟨_, r13, by decide, by decide, by decide, by decide, by decide, by decide⟩

/-- Soundness of the correspondence for the HEADLINE statement: every history the executable acceptor
    accepts leaves the model in a state where what the reader has read is a prefix of what was
    written, an EOF was reported only on a closed session with its in-order queue drained, and — if the
    acceptor's three flags say the run stayed inside the assumptions (every close delivery found all
    transmitted data handed over; no forced close request, no `Close` returning before its request was
    out; the reader's session closed by nothing but a delivered close request) — an EOF means the
    reader has read EVERYTHING that was written. The harness's check
    `C03/corr/udp-partial-eof-inside-assumptions` is therefore a consequence of this theorem and of
    the acceptor accepting the history, not a convention. -/
theorem accepted_history_sound (es : List Ev) (c : Acc) (h : acceptAll {s := init} es = some c) :
    c.s.readLog = c.s.a.segs.take c.s.readPos ∧
    (c.s.eof = true → c.s.rClosed = true ∧ c.s.readLog = c.s.a.delivered) ∧
    (c.ordered = true → c.patient = true → c.kept = true → c.s.eof = true → c.s.readLog = c.s.a.segs) := by
  have inv := acceptAll_ainv es ainv_init h
  have hpre : c.s.readLog = c.s.a.segs.take c.s.readPos := by
    unfold St.readLog
    rw [inv.arq.deliv, List.take_take]
    congr 1
    have h1 := inv.readLe
    rw [inv.arq.deliv, List.length_take] at h1
    omega
  refine ⟨hpre, ?_, ?_⟩
  · intro he
    obtain ⟨hc, hp⟩ := inv.eofI he
    exact ⟨hc, by unfold St.readLog; rw [hp, List.take_length]⟩
  · intro ho hp hk he
    obtain ⟨hc, hpos⟩ := inv.eofI he
    have hn := inv.o1 hp ho hk hc
    unfold St.readLog
    rw [hpos, List.take_length, inv.arq.deliv, hn, List.take_length]

/-- What the driver reports as "the model predicts a strict prefix followed by EOF" (`navail < total`
    after an accepted `readAll, readEOF`) is impossible inside the three assumptions. -/
theorem accepted_no_partial_eof_inside_assumptions (es : List Ev) (c : Acc)
    (h : acceptAll {s := init} (es ++ [.readAll, .readEOF]) = some c)
    (ho : c.ordered = true) (hp : c.patient = true) (hk : c.kept = true) :
    c.s.eof = true ∧ ¬ (c.s.a.delivered.length < c.s.a.segs.length) := by
  have inv := acceptAll_ainv _ ainv_init h
  have he : c.s.eof = true := by
    rw [acceptAll_append] at h
    cases h1 : acceptAll {s := init} es with
    | none => rw [h1] at h; simp at h
    | some c1 =>
      rw [h1] at h
      simp only [Option.bind_some, acceptAll, accept] at h
      split at h
      · simp at h
      · rename_i c2 hc2
        split at hc2
        · simp only [Option.some.injEq] at hc2; subst hc2
          simp only [Option.some.injEq] at h; subst h; rfl
        · simp at hc2
  refine ⟨he, ?_⟩
  obtain ⟨hc, _⟩ := inv.eofI he
  have hn := inv.o1 hp ho hk hc
  rw [inv.arq.deliv, List.length_take, hn]
  omega

/-! ## Stream transport -/

open Mieru.StreamWire Mieru.CloseStream in
/-- Receiving side. For any AEAD / metadata codec that round-trip, any well-formed segment sequence
    on the connection (other sessions interleaved) in which this session's items are `WireOk` for the
    fragments of `d` — a prefix of the fragments, or ALL of them followed by a close request followed
    by anything (a forced duplicate, a close response, a segment that was in flight) — and ANY prefix
    of the byte stream (any moment, any chunking): the receive queue is a prefix of the fragments, the
    session is closed only if the queue holds them all, and a `Read` that reports EOF has handed out
    all of `d`. (Round 1 stated this for the exact wire `fragments ++ [close request]` only.) -/
theorem tcp_close_after_all_data (A : Aead) (M : MetaCodec) (fuel : Nat) (hfuel : 0 < fuel)
    (segs : List Seg) (hw : ∀ s ∈ segs, s.wf M) (c : Nat)
    (cls : Md → Nat × (Bytes → Item)) (sid : Nat) (frags : List Bytes)
    (hsess : WireOk frags (sessionItems cls sid (segs.map (fun s => (s.md, s.payload)))))
    (k pos : Nat) :
    let rx := feed A M fuel ⟨c, [], [], false⟩ ((encodeAll A M c segs).take k)
    let sr := run SRx.init (sessionItems cls sid rx.out)
    (∃ more, sr.queue ++ more = frags) ∧ (sr.closed = true → sr.queue = frags) ∧
    (readOnce sr pos = RdEv.eof → sr.queue.take pos = frags ∧ (sr.queue.take pos).flatten = frags.flatten) := by
  intro rx sr
  obtain ⟨c', hfull⟩ := feed_encodeAll A M fuel hfuel segs hw c []
  obtain ⟨ex, hex⟩ := feed_take_prefix A M fuel ⟨c, [], [], false⟩ (encodeAll A M c segs) k
  rw [hfull] at hex
  simp only [List.nil_append] at hex
  have hitems : WireOk frags (sessionItems cls sid rx.out ++ sessionItems cls sid ex) := by
    rw [← sessionItems_append, hex]; exact hsess
  obtain ⟨hpre, hclosed⟩ := run_prefix_ok frags _ _ hitems
  refine ⟨hpre, hclosed, ?_⟩
  intro hr
  unfold readOnce at hr
  split at hr
  · simp at hr
  · rename_i hnone
    split at hr
    · rename_i hc
      have hq := hclosed hc
      have hlen : sr.queue.length ≤ pos := by
        rcases Nat.lt_or_ge pos sr.queue.length with hlt | hge
        · have : sr.queue[pos]? = some sr.queue[pos] := List.getElem?_eq_getElem hlt
          rw [this] at hnone; simp at hnone
        · exact hge
      rw [List.take_of_length_le hlen, hq]
      exact ⟨rfl, rfl⟩
    · simp at hr

open Mieru.CloseStream in
/-- Writing side (`Model/CloseWriter`: `writeChunk`, `runOutputOnceStream`, `closeWithError` with its
    bounded wait and its direct write, `oLock`, the queue's capacity). In every reachable state —
    under `wAssumed`: the output-loop goroutine is not starved for the whole bounded wait, writes to
    the underlay do not fail, and (a regenerated fact about the code, `close_lock_scope`) `oLock` is held
    across the whole drain — what the session has put on the wire is `WireOk`: a prefix of the
    fragments `Write` accepted, or all of them followed by the close request(s). `Insert` can never
    refuse the close request (`writeChunk` reserves its slot), and once `Close` has returned the wire
    holds every fragment followed by at least one close request. -/
theorem tcp_writer_wire_order (cap : Nat) (hcap : 0 < cap) {s : WSt} (h : WReach wAssumed cap s) :
    WireOk s.frags s.wire ∧ (s.ph = Phase.idle → s.queue.length < s.cap) := by
  have inv := wreach_winv hcap h
  exact ⟨winv_wireOk inv, inv.capI⟩

open Mieru.CloseStream in
/-- … and when `Close()` has returned, every fragment is on the wire in front of a close request,
    nothing but close requests / responses follows it (a forced duplicate; the answer to the close
    request of the peer's session closing in turn — the driver's `data-after-close-request` check),
    and nothing is left in the queue or in flight. -/
theorem tcp_writer_close_returns_after_all_data (cap : Nat) (hcap : 0 < cap) {s : WSt}
    (h : WReach wAssumed cap s) (hd : s.ph = Phase.done) :
    ∃ rest, s.wire = s.frags.map Item.data ++ Item.closeReq :: rest ∧
      (∀ x ∈ rest, x = Item.closeReq ∨ x = Item.closeResp) ∧ s.queue = [] ∧ s.inflight = none := by
  have inv := wreach_winv hcap h
  have hsh := inv.shape
  simp only [Shape, hd] at hsh
  obtain ⟨hi, hq, rest, hw, hr⟩ := hsh
  exact ⟨rest, hw, hr, hq, hi⟩

open Mieru.StreamWire Mieru.CloseStream in
/-- The property on the stream transport, end to end — writer model, wire, byte stream, receiving
    underlay, session input, `Read`: take ANY reachable state of the writer (any interleaving of
    `Write`s, the output loop, `Close`, the bounded wait) under `wAssumed`; let the connection carry any
    well-formed segment sequence whose items for this session are what the writer has written so far
    (other sessions interleaved), and let ANY prefix of its bytes have arrived in ANY chunking. Then a
    `Read` that reports EOF has handed out every fragment `Write` accepted — all of `d`. -/
theorem tcp_close_end_to_end (A : Aead) (M : MetaCodec) (fuel : Nat) (hfuel : 0 < fuel)
    (cap : Nat) (hcap : 0 < cap) (ws : WSt) (hreach : WReach wAssumed cap ws)
    (segs : List Seg) (hw : ∀ s ∈ segs, s.wf M) (c : Nat)
    (cls : Md → Nat × (Bytes → Item)) (sid : Nat)
    (hsess : sessionItems cls sid (segs.map (fun s => (s.md, s.payload))) = ws.wire)
    (k pos : Nat) :
    let rx := feed A M fuel ⟨c, [], [], false⟩ ((encodeAll A M c segs).take k)
    let sr := run SRx.init (sessionItems cls sid rx.out)
    (∃ more, sr.queue ++ more = ws.frags) ∧ (sr.closed = true → sr.queue = ws.frags) ∧
    (readOnce sr pos = RdEv.eof → (sr.queue.take pos).flatten = ws.frags.flatten) := by
  have hok : WireOk ws.frags (sessionItems cls sid (segs.map (fun s => (s.md, s.payload)))) := by
    rw [hsess]; exact winv_wireOk (wreach_winv hcap hreach)
  have := tcp_close_after_all_data A M fuel hfuel segs hw c cls sid ws.frags hok k pos
  exact ⟨this.1, this.2.1, fun hr => (this.2.2 hr).2⟩

open Mieru.CloseStream in
/-- Without `sched` the statement is false in the model of the code as it is: if the output loop does
    not get to run for the whole bounded wait (1000 × 1 ms) while the fragment and the close request
    sit in `sendQueue`, `closeWithError` takes the free `oLock`, writes the close request out directly
    and discards the queue: the wire carries the close request and no data, the peer's session is
    closed with an empty queue and `Read` reports EOF at once. NOT reproduced on the real endpoints:
    it needs a runnable goroutine to be starved for a full second (no blocking operation lies between
    the wake-up of the output loop and `oLock.Lock()`), so this is the model's record of what the
    theorem assumes, not a finding. -/
theorem tcp_close_wait_expiry_counterexample :
    ∃ s, WReach wAsIs 4096 s ∧ s.ph = Phase.done ∧ s.frags = [[1]] ∧ s.wire = [Item.closeReq] ∧
      ¬ WireOk s.frags s.wire ∧ readOnce (run SRx.init s.wire) 0 = RdEv.eof := by
  let s1 : WSt := { winit 4096 with queue := [Item.data [1]], frags := [[1]] }
  let s2 : WSt := { s1 with queue := [Item.data [1], Item.closeReq], ph := .waiting }
  let s3 : WSt := { s2 with ph := .forcing }
  let s4 : WSt := { s3 with ph := .discarding, wire := [Item.closeReq] }
  let s5 : WSt := { s4 with queue := [], ph := .done }
  have r1 : WReach wAsIs 4096 s1 := WReach.step WReach.init (WStep.write (winit 4096) [[1]] rfl rfl rfl (by decide))
  have r2 : WReach wAsIs 4096 s2 := WReach.step r1 (WStep.closeQueued s1 rfl rfl (by decide))
  have r3 : WReach wAsIs 4096 s3 := WReach.step r2 (WStep.waitExpire s2 rfl (by intro hf; simp [wAsIs] at hf))
  have r4 : WReach wAsIs 4096 s4 := WReach.step r3 (WStep.forceOut s3 true rfl rfl (fun _ => rfl))
  have r5 : WReach wAsIs 4096 s5 := WReach.step r4 (WStep.discard s4 rfl)
  refine ⟨s5, r5, rfl, rfl, rfl, ?_, by decide⟩
  rw [← wireOkB_iff]; decide

open Mieru.CloseStream in
/-- The lock scope is load-bearing. In the hypothetical code that holds `oLock` only while it takes a
    segment out of `sendQueue` (`drainLocked = false`, everything else as assumed — in particular the
    output loop is NOT idle: it is blocked inside a network write): the first fragment is in flight,
    the second and the close request are queued, the wait expires, `closeWithError` gets the free lock,
    writes the close request and discards the queue; the in-flight fragment follows. The peer reads
    nothing and sees a clean EOF. (This is seeded change C03-3; `close_lock_scope` is the regenerated
    fact that rules it out for the code as it is.) -/
theorem tcp_lock_scope_counterexample :
    ∃ s, WReach wNarrowLock 4096 s ∧ s.ph = Phase.done ∧ s.frags = [[1], [2]] ∧
      s.wire = [Item.closeReq, Item.data [1]] ∧ ¬ WireOk s.frags s.wire ∧
      readOnce (run SRx.init s.wire) 0 = RdEv.eof := by
  let s1 : WSt := { winit 4096 with queue := [Item.data [1], Item.data [2]], frags := [[1], [2]] }
  let s2 : WSt := { s1 with olock := true }
  let s3 : WSt := { s2 with queue := [Item.data [2]], inflight := some (Item.data [1]) }
  let s4 : WSt := { s3 with olock := false }
  let s5 : WSt := { s4 with queue := [Item.data [2], Item.closeReq], ph := .waiting }
  let s6 : WSt := { s5 with ph := .forcing }
  let s7 : WSt := { s6 with ph := .discarding, wire := [Item.closeReq] }
  let s8 : WSt := { s7 with queue := [], ph := .done }
  let s9 : WSt := { s8 with inflight := none, wire := [Item.closeReq, Item.data [1]] }
  have r1 : WReach wNarrowLock 4096 s1 :=
    WReach.step WReach.init (WStep.write (winit 4096) [[1], [2]] rfl rfl rfl (by decide))
  have r2 : WReach wNarrowLock 4096 s2 := WReach.step r1 (WStep.outLock s1 rfl rfl rfl)
  have r3 : WReach wNarrowLock 4096 s3 := WReach.step r2 (WStep.outDequeue s2 _ _ rfl rfl rfl)
  have r4 : WReach wNarrowLock 4096 s4 := WReach.step r3 (WStep.outUnlockEarly s3 rfl rfl)
  have r5 : WReach wNarrowLock 4096 s5 := WReach.step r4 (WStep.closeQueued s4 rfl rfl (by decide))
  have r6 : WReach wNarrowLock 4096 s6 :=
    WReach.step r5 (WStep.waitExpire s5 rfl (fun _ => Or.inr (Or.inl (by decide))))
  have r7 : WReach wNarrowLock 4096 s7 := WReach.step r6 (WStep.forceOut s6 true rfl rfl (fun _ => rfl))
  have r8 : WReach wNarrowLock 4096 s8 := WReach.step r7 (WStep.discard s7 rfl)
  have r9 : WReach wNarrowLock 4096 s9 :=
    WReach.step r8 (WStep.outWrite s8 (Item.data [1]) rfl (by intro hf; simp [wNarrowLock] at hf))
  refine ⟨s9, r9, rfl, rfl, rfl, ?_, by decide⟩
  rw [← wireOkB_iff]; decide

open Mieru.CloseStream in
/-- What the stream-transport theorems assume besides `wAssumed`: the TCP connection survives. If the
    underlay is torn down (reset, read error, a failed open of any multiplexed session's segment), every
    session on it is closed GRACEFULLY (`baseUnderlay.Close → s.Close()`, pinned by
    `close_wait_and_idle_constants`), so a reader that has one of two fragments drains it and sees a clean
    EOF. C03 quantifies over datagram faults, not over the death of a TCP connection, so this is the
    boundary of the statement, not a counterexample to it; the harness records the behaviour of the real
    endpoints on every run (`tcp-reset`, histogram `tcp_reset_reader_outcome`). -/
theorem tcp_reader_local_close_counterexample :
    let sr := localClose (run SRx.init [.data [1]])
    WireOk [[1], [2]] [.data [1]] ∧ sr.queue = [[1]] ∧ readOnce sr 1 = RdEv.eof := by
  refine ⟨?_, by decide, by decide⟩
  rw [← wireOkB_iff]; decide

open Mieru.CloseStream in
/-- Soundness of the writer-side correspondence: a history of application calls and wire emissions that
    the executable acceptor accepts without having had to explain a close request as a forced write
    that overtook queued data (`sched` still set) has a `WireOk` wire — so the driver's `wireOkB` bit
    must be 1 whenever its `sched` bit is, and `tcp_close_after_all_data` applies to what the peer got. -/
theorem writer_history_sound (es : List WEv) (c : WAcc) (h : wacceptAll {} es = some c) (hs : c.sched = true) :
    WireOk c.frags c.wire ∧ wireOkB c.frags c.wire = true := by
  have := wainv_wireOk (wacceptAll_wainv es wainv_init h) hs
  exact ⟨this, (wireOkB_iff _ _).mpr this⟩

/-- Structural tie (regenerated from session.go on every run): `closeWithError` is the one place that
    empties `sendQueue` and `sendBuf`; `inputClose` is called from `input` for close requests and
    responses with no other condition, and reads no receive-sequence state; the stream output loop
    takes `oLock` before it starts draining `sendQueue` and transmits in `DeleteMin` order; `Read`
    waits on `closedChan` (EOF) and on the receive queue. -/
theorem close_path_structure :
    Gen.Facts.deleteAllCalls = [("Session.closeWithError", "s.sendQueue"), ("Session.closeWithError", "s.sendBuf")] ∧
    Gen.Facts.inputCloseCalls = [("Session.input", "protocol == closeSessionRequest || protocol == closeSessionResponse")] ∧
    Gen.Facts.inputCloseMentions = [] ∧
    Gen.Facts.streamOutputCalls.take 6 =
      ["s.outputHasErr.Load", "time.Sleep", "s.oLock.Lock", "s.sendQueue.DeleteMin", "s.oLock.Unlock", "s.output"] ∧
    (Gen.Facts.selects.filter (fun x => x.1 == "Session.Read")).map (fun x => x.2.2.2) =
      [["<-s.closedChan", "<-s.inputErr", "<-s.recvQueue.chanNotEmptyEvent", "<-timeC"]] := by decide

/-- Lock-scope tie (regenerated by abstract interpretation of the statement trees of session.go on
    every run — control flow, not source order): in `runOutputOnceStream` the dequeue AND the network
    write happen with `oLock` held, and the lock is released only on the two exits of the drain loop
    (queue empty; output failed, before `closeWithError`) — this is `WEnv.drainLocked` of the writer
    model, without which `tcp_lock_scope_counterexample` applies; in `closeWithError` the close request
    is inserted under the lock, the bounded wait runs without it, the direct write takes it again, and
    both `DeleteAll`s come last and without it; and in EVERY function of the session that touches the
    lock, `output`, `sendQueue.Insert/DeleteMin/DeleteMinIf`, `sendBuf.Insert` run only with the lock
    held, `Lock` is never called with the lock held, `closeWithError` / `Close` never with it (they
    take it), and no function falls off its end holding it. -/
theorem close_lock_scope :
    (Gen.CloseFacts.lockScope.filter (fun x => x.1 == "Session.runOutputOnceStream")).map (fun x => x.2) =
      [("time.Sleep", "free"), ("s.oLock.Lock", "free"),
       ("s.sendQueue.DeleteMin", "held"), ("s.oLock.Unlock", "held"), ("s.output", "held"),
       ("s.oLock.Unlock", "held"), ("s.closeWithError", "free"), ("<end>", "free")] ∧
    (Gen.CloseFacts.lockScope.filter (fun x => x.1 == "Session.closeWithError")).map (fun x => x.2) =
      [("s.oLock.Lock", "free"), ("s.sendQueue.Insert", "held"), ("s.oLock.Unlock", "held"),
       ("s.oLock.Unlock", "held"), ("time.Sleep", "free"), ("s.lastSend.Load", "free"),
       ("s.oLock.Unlock", "held"), ("s.oLock.Lock", "free"), ("s.output", "held"), ("s.oLock.Unlock", "held"),
       ("s.sendQueue.DeleteAll", "free"), ("s.sendBuf.DeleteAll", "free"), ("<end>", "unreachable")] ∧
    Gen.CloseFacts.lockScope.all (fun x =>
      (if x.2.1 == "s.output" || x.2.1 == "s.sendQueue.Insert" || x.2.1 == "s.sendQueue.DeleteMin" ||
          x.2.1 == "s.sendQueue.DeleteMinIf" || x.2.1 == "s.sendBuf.Insert" || x.2.1 == "s.oLock.Unlock"
        then x.2.2 == "held" else true) &&
      (if x.2.1 == "s.oLock.Lock" || x.2.1 == "s.closeWithError" || x.2.1 == "s.Close" then x.2.2 == "free" else true) &&
      (if x.2.1 == "<end>" then x.2.2 == "free" || x.2.2 == "unreachable" else true)) = true ∧
    (Gen.CloseFacts.lockScope.map (fun x => x.1)).eraseDups =
      ["Session.Write", "Session.writeChunk", "Session.runOutputOnceStream", "Session.runOutputOncePacket",
       "Session.inputData", "Session.inputClose", "Session.closeWithError"] := by decide

/-- The constants and shapes the models and the finding keys rely on, regenerated from the source:
    the bounded wait of `closeWithError` is `for i := 0; i < 1000; i++ { time.Sleep(time.Millisecond); if
    s.lastSend.Load() >= …` (`Close.closeWaitMs`; the model's `forceClose` / `waitExpire`);
    `writeChunk` waits while `Remaining() <= nFragment`, i.e. keeps one slot free for the close request
    (`WStep.write`'s guard, `tcp_writer_wire_order`'s second conjunct); `Read` answers `closedChan`
    with a clean `io.EOF` and `inputErr` with `io.ErrUnexpectedEOF`; a packet session that has received
    nothing for `idleSessionTimeout = time.Minute` (`Close.idleTimeoutMs`) is removed, and removing a
    session or closing an underlay closes the session GRACEFULLY (`s.Close()`) — the model's
    `localClose`. -/
theorem close_wait_and_idle_constants :
    Gen.CloseFacts.closeWaitLoops = [("i := 0", "i < 1000", "i++", ["time.Sleep", "s.lastSend.Load"])] ∧
    Gen.CloseFacts.closeSleeps = ["time.Millisecond"] ∧ Close.closeWaitMs = 1000 * 1 ∧
    Gen.CloseFacts.writeReserve = ["s.sendQueue.Remaining() <= nFragment"] ∧
    Gen.CloseFacts.readSelect = [("<-s.closedChan", "return 0, io.EOF"), ("<-s.inputErr", "return 0, io.ErrUnexpectedEOF"),
      ("<-timeC", "return 0, stderror.ErrTimeout"), ("<-s.recvQueue.chanNotEmptyEvent", "")] ∧
    Gen.CloseFacts.idleClose = [("idleSessionTimeout", "time.Minute"),
      ("cleanSessions removes under", "select <-session.closedChan"),
      ("cleanSessions removes under", "time.Now().UnixMicro()-session.lastRXTime.Load() > idleSessionTimeout.Microseconds()"),
      ("baseUnderlay.Close calls", "s.Close"), ("baseUnderlay.RemoveSession calls", "s.Close")] ∧
    Close.idleTimeoutMs = 60 * 1000 := by decide

/-! ## Non-vacuity -/

/-- the assumptions are satisfiable by a run that does close and deliver EOF after all data -/
example : ∃ s, Reach assumed s ∧ s.eof = true ∧ s.readLog = [7] ∧ s.a.segs = [7] := by
  let a1 : Arq.St := { Arq.init with segs := [7] }
  let s1 : St := { init with a := a1 }
  let a2 : Arq.St := { a1 with qLo := 1, netData := [⟨0, 7⟩], sent := [⟨0, 7⟩] }
  let s2 : St := { s1 with a := a2 }
  let s3 : St := { s2 with closeReq := true }
  let s4 : St := { s3 with closeSent := true, netClose := 1 }
  have r1 : Reach assumed s1 := Reach.step Reach.init (Step.write init 7 rfl)
  have r2 : Reach assumed s2 := Reach.step r1 (Step.sendNew s1 7 rfl (by decide))
  have r3 : Reach assumed s3 := Reach.step r2 (Step.closeCall s2 rfl)
  have r4 : Reach assumed s4 := Reach.step r3 (Step.sendClose s3 rfl rfl (by decide))
  have r5 := Reach.step r4 (Step.recvData s4 ⟨0, 7⟩ (by decide))
  have r6 := Reach.step r5 (Step.recvClose _ (by decide) (by intro _ j hj; revert j; decide))
  have r7 := Reach.step r6 (Step.read _ (by decide))
  have r8 := Reach.step r7 (Step.readEOF _ (by decide) (by decide))
  exact ⟨_, r8, by decide, by decide, by decide⟩

/-- the acceptor accepts the lossy history of the counterexample and reports the partial EOF, and
    rejects an EOF on an open session and a transmission after `Close` returned -/
example :
    (acceptAll {s := init} [.arq (.write 7), .arq (.write 8), .arq (.send 0 7), .arq (.send 1 8), .closeCall, .closeSend 3,
        .closeRet, .arq (.deliver 0 7), .closeDeliver, .readAll, .readEOF]).map
      (fun c => (c.s.readLog, c.s.eof, c.ordered, c.patient)) = some ([7], true, false, true) ∧
    (acceptAll {s := init} [.arq (.write 7), .arq (.send 0 7), .arq (.deliver 0 7), .readAll, .readEOF]).isNone = true ∧
    (acceptAll {s := init} [.arq (.write 7), .arq (.send 0 7), .closeCall, .closeSend 3, .closeRet, .arq (.send 0 7)]).isNone = true := by
  decide

/-- the acceptor's timing and local-close rules: a close request written out directly (data still
    queued) is explained as the expired wait only from 1000 ms after `Close()` was called — and leaves
    `patient`; a reader closed with no close request delivered is explained as the idle timeout only after
    60 s of silence — and leaves `kept`; `Close()` cannot return before a close request was emitted -/
example :
    (acceptAll {s := init} [.arq (.write 7), .arq (.write 8), .arq (.send 0 7), .closeCall, .closeSend 999]).isNone = true ∧
    (acceptAll {s := init} [.arq (.write 7), .arq (.write 8), .arq (.send 0 7), .closeCall, .closeSend 1000]).map
      (fun c => (c.patient, c.s.closeSent)) = some (false, true) ∧
    (acceptAll {s := init} [.arq (.write 7), .arq (.send 0 7), .closeCall, .closeRet]).isNone = true ∧
    (acceptAll {s := init} [.arq (.write 7), .arq (.write 8), .arq (.send 0 7), .arq (.send 1 8), .closeCall, .closeSend 2,
        .closeRet, .arq (.deliver 0 7), .localClose 59999]).isNone = true ∧
    (acceptAll {s := init} [.arq (.write 7), .arq (.write 8), .arq (.send 0 7), .arq (.send 1 8), .closeCall, .closeSend 2,
        .closeRet, .arq (.deliver 0 7), .localClose 60000, .readAll, .readEOF]).map
      (fun c => (c.s.readLog, c.s.eof, c.ordered, c.patient, c.kept)) = some ([7], true, true, true, false) := by
  decide

open Mieru.CloseStream in
/-- the writer acceptor: the ordinary history (two fragments, close request behind them) is accepted
    with a `WireOk` wire; a close request written directly 1.7 s after `Close()` while a fragment is
    still queued (seeded change C03-3 on a stalled connection) is accepted as the expired wait with
    `sched` cleared and a wire that is NOT `WireOk`; the same 0.9 s after `Close()` is rejected; a
    fragment out of queue order is rejected -/
example :
    (wacceptAll {} [.write [3, 2], .out (.data [0, 0, 0]) 0, .closeCall, .out (.data [0, 0]) 1, .out .closeReq 1, .closeRet]).map
      (fun c => (c.sched, wireOkB c.frags c.wire, c.ph)) = some (true, true, Phase.done) ∧
    (wacceptAll {} [.write [0, 2], .closeCall, .out (.data []) 1700, .out .closeReq 1700, .closeRet, .out (.data [0, 0]) 1701]).map
      (fun c => (c.sched, wireOkB c.frags c.wire, c.ph)) = some (false, false, Phase.done) ∧
    (wacceptAll {} [.write [0, 2], .closeCall, .out (.data []) 900, .out .closeReq 900]).isNone = true ∧
    (wacceptAll {} [.write [3, 2], .out (.data [0, 0]) 0]).isNone = true := by
  decide

open Mieru.CloseStream in
/-- stream session: data, data, close request — closed with both fragments queued; a close request
    that overtook the second fragment would close the session with one (what the theorem excludes) -/
example : run SRx.init [.data [1], .data [2, 3], .closeReq] = ⟨[[1], [2, 3]], true⟩ ∧
    readOnce (run SRx.init [.data [1], .data [2, 3], .closeReq]) 2 = .eof ∧
    run SRx.init [.data [1], .closeReq, .data [2, 3]] = ⟨[[1]], true⟩ := by decide

end Mieru.C03
