import Mieru.Model.SocksAuth
import Mieru.Proofs.SocksAuth
import Mieru.Gen.C11
/-!
# C11 — with SOCKS5 credentials configured, nothing is proxied without them

The theorems are about `Mieru.SocksAuth.negotiate` (= `handleAuthentication`, pkg/socks5/auth.go) and
`Mieru.SocksAuth.serveConn` (= where `ServeConn` runs it: before `ProxyDialer.DialContext` in
`clientServeConn`, before `readRequest` in `serverServeConn`).  The model is tied to the real
`socks5.Server.ServeConn` by the correspondence in harness/props/c11.go on every run.

The model follows the repaired code (repo commit "fix: socks5 never selects no-authentication when
credentials are configured").  On the unrepaired code only the weaker statement "… unless the method
list contains both 0x00 and 0x02" held; the witness `05 02 00 02` is kept below as a regression
`example` and in corpus/C11/.
-/
namespace Mieru.C11
open Mieru.SocksAuth

/-- The transcript `t` presents a configured pair: a well-framed method offer that includes
    user/password, then an RFC 1929 version-1 message whose user and password are exactly those of
    some `c ∈ cfg.creds`, then `rest` (what the request reader will see). -/
def Presents (cfg : Config) (t rest : List UInt8) : Prop :=
  ∃ (methods : List UInt8) (c : Cred) (n ul pl : UInt8),
    c ∈ cfg.creds ∧ n ≠ 0 ∧ methods.length = n.toNat ∧ userPassAuth ∈ methods ∧
    c.user.length = ul.toNat ∧ c.pass.length = pl.toNat ∧
    t = socksVersion :: n :: methods ++ userPassVersion :: ul :: c.user ++ pl :: c.pass ++ rest

/-- **The property.**  An endpoint that authenticates (`authHere`: the client daemon's listener with
    `ClientSideAuthentication`, or a server without it) and has credentials configured: for EVERY
    transcript — any method list, order, multiplicity, any supplied bytes — if the proxy is dialled
    or the request reader is reached at all, then the transcript presented one of the configured
    pairs, the replies were exactly `05 02 01 00`, and the request reader sees exactly what follows
    the credentials.  Contrapositive: every other negotiation ends with neither. -/
theorem auth_required_full (e : Endpoint) (t : List UInt8)
    (hc : e.cfg.creds ≠ []) (hp : e.authHere = true)
    (hs : (serveConn e t).dialed = true ∨ (serveConn e t).requestInput ≠ none) :
    ∃ rest, Presents e.cfg t rest ∧ (serveConn e t).requestInput = some rest ∧
      (serveConn e t).replies = [socksVersion, userPassAuth, userPassVersion, authSuccess] := by
  unfold serveConn at hs ⊢
  simp only [hp, if_true] at hs ⊢
  cases ho : (negotiate e.cfg t).outcome with
  | refused w => simp [ho] at hs
  | served rest =>
    obtain ⟨m, c, n, ul, pl, h1, h2, h3, h4, h5, h6, h7, h8⟩ := negotiate_served_creds hc ho
    exact ⟨rest, ⟨m, c, n, ul, pl, h1, h2, h3, h4, h5, h6, h7⟩, by simp, by simpa using h8⟩

/-- the same at the level of `handleAuthentication`: it returns nil only for such transcripts -/
theorem auth_required_negotiate (cfg : Config) (t rest : List UInt8) (hc : cfg.creds ≠ [])
    (h : (negotiate cfg t).outcome = .served rest) : Presents cfg t rest := by
  obtain ⟨m, c, n, ul, pl, h1, h2, h3, h4, h5, h6, h7, _⟩ := negotiate_served_creds hc h
  exact ⟨m, c, n, ul, pl, h1, h2, h3, h4, h5, h6, h7⟩

/-- a refused negotiation reaches neither the dialer nor the request reader (either placement) -/
theorem refused_reaches_nothing (e : Endpoint) (t : List UInt8) (w : Refusal) (hp : e.authHere = true)
    (h : (negotiate e.cfg t).outcome = .refused w) :
    (serveConn e t).dialed = false ∧ (serveConn e t).requestInput = none := by
  unfold serveConn
  simp [hp, h]

/-- with credentials the no-authentication method is never selected: the replies never start `05 00` -/
theorem creds_never_select_noauth (cfg : Config) (t : List UInt8) (hc : cfg.creds ≠ []) :
    ¬ ([socksVersion, noAuth] <+: (negotiate cfg t).replies) := by
  intro hpre
  rcases negotiate_creds_replies cfg t hc with h | h | h | h | h <;> rw [h] at hpre <;>
    simp [socksVersion, noAuth, userPassAuth, noAcceptableAuth] at hpre

/-- completeness (non-vacuity of the property, and usability): presenting a configured pair after an
    offer containing user/password IS served, whatever else the offer contains -/
theorem creds_presented_served (cfg : Config) (t rest : List UInt8) (h : Presents cfg t rest) :
    (negotiate cfg t).outcome = .served rest := by
  obtain ⟨m, c, n, ul, pl, h1, h2, h3, h4, h5, h6, h7⟩ := h
  rw [h7]
  exact negotiate_creds_accepts cfg c n ul pl m rest h1 h2 h3 h4 h5 h6

/-- **No credentials configured**: on every well-framed offer, no-authentication is accepted when
    offered (reply `05 00`, the rest goes to the request reader); otherwise the negotiation is
    refused — in particular user/password is refused — and `05 02` is never sent. -/
theorem noauth_config_behaviour (cfg : Config) (hc : cfg.creds = []) :
    (∀ (n : UInt8) (methods rest : List UInt8), n ≠ 0 → methods.length = n.toNat →
      (noAuth ∈ methods →
        negotiate cfg (socksVersion :: n :: methods ++ rest) = ⟨[socksVersion, noAuth], .served rest, 2 + n.toNat⟩) ∧
      (noAuth ∉ methods → ∃ w, (negotiate cfg (socksVersion :: n :: methods ++ rest)).outcome = .refused w)) ∧
    (∀ t, ¬ ([socksVersion, userPassAuth] <+: (negotiate cfg t).replies)) := by
  refine ⟨fun n methods rest hn hl => ?_, fun t hpre => ?_⟩
  · obtain ⟨a, b, c⟩ := negotiate_nocreds_offer cfg n methods rest hc hn hl
    refine ⟨a, fun h0 => ?_⟩
    by_cases h2 : userPassAuth ∈ methods
    · exact ⟨_, by rw [b h0 h2]⟩
    · exact ⟨_, by rw [c h0 h2]⟩
  · rcases negotiate_nocreds_replies cfg t hc with h | h | h <;> rw [h] at hpre <;>
      simp [socksVersion, noAuth, userPassAuth, noAcceptableAuth] at hpre

/-- **No credentials configured, the converse**: the negotiation returns nil ONLY for a well-framed offer
    that contains no-authentication; the reply is then `05 00` and the request reader sees what follows the
    method list. (Together with `noauth_config_behaviour`: "accepted exactly when offered".) -/
theorem nocreds_served_only_noauth (cfg : Config) (t rest : List UInt8) (hc : cfg.creds = [])
    (h : (negotiate cfg t).outcome = .served rest) :
    ∃ (n : UInt8) (methods : List UInt8), n ≠ 0 ∧ methods.length = n.toNat ∧ noAuth ∈ methods ∧
      t = socksVersion :: n :: methods ++ rest ∧ (negotiate cfg t).replies = [socksVersion, noAuth] :=
  negotiate_nocreds_served hc h

/-- the same at `ServeConn`, both placements: an endpoint that authenticates here and has no credentials
    reaches the dialer / the request reader only after such an offer -/
theorem nocreds_serveconn_only_noauth (e : Endpoint) (t : List UInt8) (hc : e.cfg.creds = []) (hp : e.authHere = true)
    (hs : (serveConn e t).dialed = true ∨ (serveConn e t).requestInput ≠ none) :
    ∃ (n : UInt8) (methods rest : List UInt8), n ≠ 0 ∧ methods.length = n.toNat ∧ noAuth ∈ methods ∧
      t = socksVersion :: n :: methods ++ rest ∧ (serveConn e t).requestInput = some rest ∧
      (serveConn e t).replies = [socksVersion, noAuth] := by
  unfold serveConn at hs ⊢
  simp only [hp, if_true] at hs ⊢
  cases ho : (negotiate e.cfg t).outcome with
  | refused w => simp [ho] at hs
  | served rest =>
    obtain ⟨n, m, h1, h2, h3, h4, h5⟩ := negotiate_nocreds_served hc ho
    exact ⟨n, m, rest, h1, h2, h3, h4, by simp, by simpa using h5⟩

/-! ## The client daemon (`mieru run`): the property over the CONFIGURED pairs -/

/-- the wiring function of pkg/cli/client.go — nil slice, one `append` per configured pair — is the identity:
    the listener gets exactly the configured pairs, in order, nothing in front, nothing behind -/
theorem daemon_wiring_is_identity (configured : List Cred) : ingressCredentials configured = configured :=
  ingressCredentials_eq configured

/-- **The property for the daemon, over what the user configured.**  `mieru run` with a non-empty
    `socks5Authentication` list: for EVERY transcript, if the proxy server is dialled or the request reader
    is reached, the transcript presented one of the CONFIGURED pairs (`Presents ⟨configured⟩`), the replies
    were `05 02 01 00`, and the request reader sees what follows the credentials. -/
theorem daemon_auth_required (configured : List Cred) (t : List UInt8) (hc : configured ≠ [])
    (hs : (serveConn (daemonEndpoint configured) t).dialed = true ∨ (serveConn (daemonEndpoint configured) t).requestInput ≠ none) :
    ∃ rest, Presents ⟨configured⟩ t rest ∧ (serveConn (daemonEndpoint configured) t).requestInput = some rest ∧
      (serveConn (daemonEndpoint configured) t).replies = [socksVersion, userPassAuth, userPassVersion, authSuccess] := by
  have he : daemonEndpoint configured = ⟨true, true, ⟨configured⟩⟩ := by
    unfold daemonEndpoint; rw [ingressCredentials_eq]
  rw [he] at hs ⊢
  exact auth_required_full ⟨true, true, ⟨configured⟩⟩ t hc rfl hs

/-- configuration validation (`ValidateClientConfigPatch`) accepts only pairs with a non-empty user AND a
    non-empty password; then an RFC 1929 message with an empty user or an empty password is never served by
    the daemon: whatever is served carried a pair whose two fields are non-empty -/
theorem daemon_empty_fields_never_served (configured : List Cred) (t : List UInt8) (hc : configured ≠ [])
    (hv : ∀ c ∈ configured, c.user ≠ [] ∧ c.pass ≠ [])
    (hs : (serveConn (daemonEndpoint configured) t).dialed = true ∨ (serveConn (daemonEndpoint configured) t).requestInput ≠ none) :
    ∃ (methods : List UInt8) (c : Cred) (n ul pl : UInt8) (rest : List UInt8), c ∈ configured ∧ ul ≠ 0 ∧ pl ≠ 0 ∧
      methods.length = n.toNat ∧
      t = socksVersion :: n :: methods ++ userPassVersion :: ul :: c.user ++ pl :: c.pass ++ rest := by
  obtain ⟨rest, ⟨m, c, n, ul, pl, h1, _, h3, _, h5, h6, h7⟩, _, _⟩ := daemon_auth_required configured t hc hs
  obtain ⟨hu, hp⟩ := hv c h1
  refine ⟨m, c, n, ul, pl, rest, h1, ?_, ?_, h3, h7⟩
  · intro e; apply hu; rw [e] at h5; exact List.eq_nil_of_length_eq_zero (by simpa using h5)
  · intro e; apply hp; rw [e] at h6; exact List.eq_nil_of_length_eq_zero (by simpa using h6)

/-! ## Ties (T): regenerated from the working tree (`Mieru.Gen.C11`, tools/goextract/c11facts.go) -/

/-- the model's protocol constants are the repository's (apis/constant/socks5.go) -/
theorem auth_constants_expected :
    socksVersion.toNat = Gen.C11.socks5Version ∧ noAuth.toNat = Gen.C11.socks5NoAuth ∧
    userPassAuth.toNat = Gen.C11.socks5UserPassAuth ∧ noAcceptableAuth.toNat = Gen.C11.socks5NoAcceptableAuth ∧
    userPassVersion.toNat = Gen.C11.socks5UserPassAuthVersion ∧ authSuccess.toNat = Gen.C11.socks5AuthSuccess ∧
    authFailure.toNat = Gen.C11.socks5AuthFailure := by decide

/-- `handleAuthentication` as written: version read and check → method count read, 0 refused → method list
    read → `requestNoAuth`/`requestUserPassAuth` collected → CREDENTIALS CONFIGURED CLEARS no-authentication →
    neither: `05 FF` → no-authentication: `05 00` → user/password: no credentials refused without reply, `05 02`,
    sub-negotiation version read and check, ULEN, user, PLEN, password → first pair with `c.User == userStr &&
    c.Password == passwordStr` (BOTH, bytewise): `01 00` and nil → otherwise `01 01` and an error.  This is
    `negotiate`/`userPass` line by line; the 14 `Refusal` constructors are its error returns that are not
    write failures, in this order. -/
theorem handle_authentication_order_expected :
    Gen.C11.handleAuthenticationSkeleton =
      ["common.SetReadTimeout(conn, s.config.HandshakeTimeout)",
       "defer common.SetReadTimeout(conn, 0)",
       "version := []byte{0}",
       "if _, err := io.ReadFull(conn, version); err != nil {",
       "  return fmt.Errorf(…)",
       "}",
       "if version[0] != constant.Socks5Version {",
       "  return fmt.Errorf(…)",
       "}",
       "nAuthMethods := []byte{0}",
       "if _, err := io.ReadFull(conn, nAuthMethods); err != nil {",
       "  return fmt.Errorf(…)",
       "}",
       "if nAuthMethods[0] == 0 {",
       "  return fmt.Errorf(…)",
       "}",
       "requestNoAuth := false",
       "requestUserPassAuth := false",
       "authMethods := make([]byte, nAuthMethods[0])",
       "if _, err := io.ReadFull(conn, authMethods); err != nil {",
       "  return fmt.Errorf(…)",
       "}",
       "for _, method := range authMethods {",
       "  if method == constant.Socks5NoAuth {",
       "    requestNoAuth = true",
       "  }",
       "  if method == constant.Socks5UserPassAuth {",
       "    requestUserPassAuth = true",
       "  }",
       "}",
       "if len(s.config.AuthOpts.IngressCredentials) > 0 {",
       "  requestNoAuth = false",
       "}",
       "if !requestNoAuth && !requestUserPassAuth {",
       "  if _, err := conn.Write([]byte{constant.Socks5Version, constant.Socks5NoAcceptableAuth}); err != nil {",
       "    return fmt.Errorf(…)",
       "  }",
       "  return fmt.Errorf(…)",
       "}",
       "if requestNoAuth {",
       "  if _, err := conn.Write([]byte{constant.Socks5Version, constant.Socks5NoAuth}); err != nil {",
       "    return fmt.Errorf(…)",
       "  }",
       "} else if requestUserPassAuth {",
       "  if len(s.config.AuthOpts.IngressCredentials) == 0 {",
       "    return fmt.Errorf(…)",
       "  }",
       "  if _, err := conn.Write([]byte{constant.Socks5Version, constant.Socks5UserPassAuth}); err != nil {",
       "    return fmt.Errorf(…)",
       "  }",
       "  header := []byte{0}",
       "  if _, err := io.ReadFull(conn, header); err != nil {",
       "    return fmt.Errorf(…)",
       "  }",
       "  if header[0] != constant.Socks5UserPassAuthVersion {",
       "    return fmt.Errorf(…)",
       "  }",
       "  if _, err := io.ReadFull(conn, header); err != nil {",
       "    return fmt.Errorf(…)",
       "  }",
       "  user := make([]byte, header[0])",
       "  if _, err := io.ReadFull(conn, user); err != nil {",
       "    return fmt.Errorf(…)",
       "  }",
       "  if _, err := io.ReadFull(conn, header); err != nil {",
       "    return fmt.Errorf(…)",
       "  }",
       "  password := make([]byte, header[0])",
       "  if _, err := io.ReadFull(conn, password); err != nil {",
       "    return fmt.Errorf(…)",
       "  }",
       "  userStr := string(user)",
       "  passwordStr := string(password)",
       "  for _, c := range s.config.AuthOpts.IngressCredentials {",
       "    if c.User == userStr && c.Password == passwordStr {",
       "      if _, err := conn.Write([]byte{constant.Socks5UserPassAuthVersion, constant.Socks5AuthSuccess}); err != nil {",
       "        return fmt.Errorf(…)",
       "      }",
       "      return nil",
       "    }",
       "  }",
       "  if _, err := conn.Write([]byte{constant.Socks5UserPassAuthVersion, constant.Socks5AuthFailure}); err != nil {",
       "    return fmt.Errorf(…)",
       "  }",
       "  return fmt.Errorf(…)",
       "}",
       "return nil"] ∧
    -- the returns in source order: 14 plain errors (= the 14 `Refusal` constructors, in this order), 6 failed writes
    -- (to a peer that is gone: nothing is served either), and nil exactly after `01 00` / after `05 00`
    Gen.C11.handleAuthenticationReturns =
      ["error", "error", "error", "error", "error", "write-failed", "error", "write-failed", "error", "write-failed",
       "error", "error", "error", "error", "error", "error", "write-failed", "nil", "write-failed", "error", "nil"] := by
  refine ⟨by decide +kernel, by decide⟩

/-- placement, as written: in `clientServeConn` `ProxyDialer.DialContext` comes AFTER `handleAuthentication`, which
    runs under `if ClientSideAuthentication` and whose error is returned at once; in `serverServeConn` `readRequest`
    comes after it, under `if !ClientSideAuthentication` — `serveConn`/`authHere` -/
theorem placement_expected :
    Gen.C11.clientServeConnHead =
      ["if s.config.AuthOpts.ClientSideAuthentication {",
       "  if err := s.handleAuthentication(userConn); err != nil {",
       "    return err",
       "  }",
       "}",
       "proxyConn, err := s.config.ProxyDialer.DialContext(context.Background())",
       "if err != nil {",
       "  return fmt.Errorf(…)",
       "}"] ∧
    Gen.C11.clientServeConnEvents.take 4 =
      ["s.handleAuthentication", "s.config.ProxyDialer.DialContext", "s.proxySocks5AuthReq", "proxyConn.Close"] ∧
    (Gen.C11.clientServeConnEvents.filter (· == "s.config.ProxyDialer.DialContext")).length = 1 ∧
    Gen.C11.clientServeConnAuthGuards = ["s.config.AuthOpts.ClientSideAuthentication"] ∧
    Gen.C11.serverServeConnHead.take 7 =
      ["if !s.config.AuthOpts.ClientSideAuthentication {",
       "  if err := s.handleAuthentication(proxyConn); err != nil {",
       "    return err",
       "  }",
       "}",
       "ctx := context.Background()",
       "request, err := s.readRequest(proxyConn)"] ∧
    Gen.C11.serverServeConnEvents.take 2 = ["s.handleAuthentication", "s.readRequest"] ∧
    (Gen.C11.serverServeConnEvents.filter (· == "s.readRequest")).length = 1 ∧
    Gen.C11.serverServeConnAuthGuards = ["!s.config.AuthOpts.ClientSideAuthentication"] := by
  refine ⟨by decide, by decide, by decide, by decide, by decide, by decide, by decide, by decide⟩

/-- **the daemon's wiring, as written** (`clientRunFunc`): the credential slice starts as the nil slice (no pre-sized
    `make`), gets exactly one `append` of `{User: auth.GetUser(), Password: auth.GetPassword()}` per configured pair, and
    is handed to `socks5.New` as `IngressCredentials` together with `UseProxy: true` and `ClientSideAuthentication: true`
    — `ingressCredentials` / `daemonEndpoint`; nothing else assigns it -/
theorem client_daemon_wiring_expected :
    Gen.C11.daemonSocks5Wiring.take 6 =
      ["var socks5IngressCredentials []socks5.Credential",
       "for _, auth := range config.GetSocks5Authentication() {",
       "  socks5IngressCredentials = append(socks5IngressCredentials, socks5.Credential{ User: auth.GetUser(), Password: auth.GetPassword(), })",
       "socks5Config := &socks5.Config{ UseProxy: true, AuthOpts: socks5.Auth{ ClientSideAuthentication: true, IngressCredentials: socks5IngressCredentials, }, ProxyDialer: mux, Resolver: resolver, HandshakeTimeout: 10 * time.Second, }",
       "  socks5Config.HandshakeNoWait = true",
       "socks5Server, err := socks5.New(socks5Config)"] ∧
    Gen.C11.daemonIngressCredentialLines = Gen.C11.daemonSocks5Wiring.take 1 ++ (Gen.C11.daemonSocks5Wiring.drop 2).take 2 := by
  refine ⟨by decide +kernel, by decide +kernel⟩

/-- stated configuration fact: the daemon refuses to run the HTTP proxy front end (which talks to the SOCKS5
    listener WITHOUT credentials) together with `socks5Authentication`: inside `if config.GetHttpProxyPort() != 0`
    the FIRST statement is `if len(config.GetSocks5Authentication()) > 0 { log.Fatalf(…) }` (polarity `> 0`),
    before the goroutine that starts the HTTP server; and validation rejects an empty user or password -/
theorem http_proxy_refused_with_credentials :
    Gen.C11.daemonHTTPGuard =
      ["outer: config.GetHttpProxyPort() != 0",
       "stmt 0: if len(config.GetSocks5Authentication()) > 0",
       "  calls log.Fatalf",
       "stmt 2: go func starts the HTTP proxy server"] ∧
    Gen.C11.validateSocks5Authentication =
      ["for _, auth := range patch.GetSocks5Authentication() {",
       "  if auth.GetUser() == \"\" {", "    return fmt.Errorf(…)", "  }",
       "  if auth.GetPassword() == \"\" {", "    return fmt.Errorf(…)", "  }",
       "}"] := by
  refine ⟨by decide, by decide⟩

/-! ### non-vacuity and regressions -/

def alice : Cred := ⟨[0x61], [0x70, 0x77]⟩
def bob : Cred := ⟨[0x62, 0x6f, 0x62], []⟩
def cfg2 : Config := ⟨[alice, bob]⟩

/-- hypotheses of `auth_required_full` are met by a real run: client placement, two credentials,
    methods {no-auth, GSSAPI, user/pass}, bob's pair, then a CONNECT request -/
example : (serveConn ⟨true, true, cfg2⟩ [5, 3, 0, 1, 2, 1, 3, 0x62, 0x6f, 0x62, 0, 5, 1, 0, 1, 1, 2, 3, 4, 0, 80]).dialed = true ∧
    (serveConn ⟨true, true, cfg2⟩ [5, 3, 0, 1, 2, 1, 3, 0x62, 0x6f, 0x62, 0, 5, 1, 0, 1, 1, 2, 3, 4, 0, 80]).requestInput
      = some [5, 1, 0, 1, 1, 2, 3, 4, 0, 80] := by decide

/-- REGRESSION (was `auth_bypass_counterexample` on the unrepaired code, where the reply was `05 00`
    and the outcome Served): offering {no-auth, user/pass} to a listener with credentials now selects
    user/password and, with nothing further supplied, is refused. -/
example : (negotiate cfg2 [5, 2, 0, 2]).replies = [5, 2] ∧
    (negotiate cfg2 [5, 2, 0, 2]).outcome = .refused .eofSubVersion ∧
    (serveConn ⟨true, true, cfg2⟩ [5, 2, 0, 2, 5, 1, 0, 1, 1, 2, 3, 4, 0, 80]).dialed = false ∧
    (serveConn ⟨false, false, cfg2⟩ [5, 2, 0, 2, 5, 1, 0, 1, 1, 2, 3, 4, 0, 80]).requestInput = none := by decide

/-- only no-auth offered, credentials configured: `05 FF`, refused -/
example : (negotiate cfg2 [5, 1, 0]).replies = [5, 0xFF] ∧ (negotiate cfg2 [5, 1, 0]).outcome = .refused .noAcceptable := by
  decide

/-- no credentials: no-auth accepted among others, user/pass alone refused -/
example : (negotiate ⟨[]⟩ [5, 2, 2, 0, 9]).outcome = .served [9] ∧
    (negotiate ⟨[]⟩ [5, 1, 2, 1, 1, 0x61, 0]).outcome = .refused .noRegisteredUser := by decide

/-- the daemon with two configured pairs: its listener has exactly those two; REGRESSION of seeded change
    C11-4 (a pre-sized `make` + `append` puts n empty pairs in front): `05 01 02 01 00 00` — user/password
    selected, empty user, empty password — is refused with `01 01`, the proxy is not dialled; each single
    empty field likewise; the configured pair is served -/
example : (daemonEndpoint [alice, ⟨[0x62], [0x70]⟩]).cfg.creds = [alice, ⟨[0x62], [0x70]⟩] ∧
    (serveConn (daemonEndpoint [alice, ⟨[0x62], [0x70]⟩]) [5, 1, 2, 1, 0, 0, 5, 1, 0, 1, 1, 2, 3, 4, 0, 80]).replies = [5, 2, 1, 1] ∧
    (serveConn (daemonEndpoint [alice, ⟨[0x62], [0x70]⟩]) [5, 1, 2, 1, 0, 0, 5, 1, 0, 1, 1, 2, 3, 4, 0, 80]).dialed = false ∧
    (serveConn (daemonEndpoint [alice, ⟨[0x62], [0x70]⟩]) [5, 1, 2, 1, 1, 0x61, 0, 5, 1, 0, 1, 1, 2, 3, 4, 0, 80]).dialed = false ∧
    (serveConn (daemonEndpoint [alice, ⟨[0x62], [0x70]⟩]) [5, 1, 2, 1, 0, 2, 0x70, 0x77, 5, 1, 0, 1, 1, 2, 3, 4, 0, 80]).dialed = false ∧
    (serveConn (daemonEndpoint [alice, ⟨[0x62], [0x70]⟩]) [5, 1, 2, 1, 1, 0x61, 2, 0x70, 0x77, 5, 1, 0, 1, 1, 2, 3, 4, 0, 80]).dialed = true := by
  decide

/-- the hypotheses of `daemon_empty_fields_never_served` are met (validated pairs have non-empty fields) -/
example : ∀ c ∈ [alice, (⟨[0x62], [0x70]⟩ : Cred)], c.user ≠ [] ∧ c.pass ≠ [] := by decide

/-- no credentials: what is served is exactly "a well-framed offer containing no-auth" -/
example : (negotiate ⟨[]⟩ [5, 3, 1, 0, 2, 7, 7]).outcome = .served [7, 7] ∧
    (serveConn ⟨false, false, ⟨[]⟩⟩ [5, 1, 0, 9]).requestInput = some [9] := by decide

end Mieru.C11
