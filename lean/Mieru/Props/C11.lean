import Mieru.Model.SocksAuth
import Mieru.Proofs.SocksAuth
/-!
# C11 — with SOCKS5 credentials configured, nothing is proxied without them

The theorems are about `Mieru.SocksAuth.negotiate` (= `handleAuthentication`, pkg/socks5/auth.go) and
`Mieru.SocksAuth.serveConn` (= where `ServeConn` runs it: before `ProxyDialer.DialContext` in
`clientServeConn`, before `readRequest` in `serverServeConn`).  The model is tied to the real
`socks5.Server.ServeConn` by the correspondence in harness/props/c11.go on every run.

The model follows the repaired code (repo commit "fix: socks5 never selects no-authentication when
credentials are configured").  On the unrepaired code only the weaker statement "… unless the method
list contains both 0x00 and 0x02" held; the witness `05 02 00 02` is kept below as a regression
`example` and in corpus/C11/.
-/
namespace Mieru.C11
open Mieru.SocksAuth

/-- The transcript `t` presents a configured pair: a well-framed method offer that includes
    user/password, then an RFC 1929 version-1 message whose user and password are exactly those of
    some `c ∈ cfg.creds`, then `rest` (what the request reader will see). -/
def Presents (cfg : Config) (t rest : List UInt8) : Prop :=
  ∃ (methods : List UInt8) (c : Cred) (n ul pl : UInt8),
    c ∈ cfg.creds ∧ n ≠ 0 ∧ methods.length = n.toNat ∧ userPassAuth ∈ methods ∧
    c.user.length = ul.toNat ∧ c.pass.length = pl.toNat ∧
    t = socksVersion :: n :: methods ++ userPassVersion :: ul :: c.user ++ pl :: c.pass ++ rest

/-- **The property.**  An endpoint that authenticates (`authHere`: the client daemon's listener with
    `ClientSideAuthentication`, or a server without it) and has credentials configured: for EVERY
    transcript — any method list, order, multiplicity, any supplied bytes — if the proxy is dialled
    or the request reader is reached at all, then the transcript presented one of the configured
    pairs, the replies were exactly `05 02 01 00`, and the request reader sees exactly what follows
    the credentials.  Contrapositive: every other negotiation ends with neither. -/
theorem auth_required_full (e : Endpoint) (t : List UInt8)
    (hc : e.cfg.creds ≠ []) (hp : e.authHere = true)
    (hs : (serveConn e t).dialed = true ∨ (serveConn e t).requestInput ≠ none) :
    ∃ rest, Presents e.cfg t rest ∧ (serveConn e t).requestInput = some rest ∧
      (serveConn e t).replies = [socksVersion, userPassAuth, userPassVersion, authSuccess] := by
  unfold serveConn at hs ⊢
  simp only [hp, if_true] at hs ⊢
  cases ho : (negotiate e.cfg t).outcome with
  | refused w => simp [ho] at hs
  | served rest =>
    obtain ⟨m, c, n, ul, pl, h1, h2, h3, h4, h5, h6, h7, h8⟩ := negotiate_served_creds hc ho
    exact ⟨rest, ⟨m, c, n, ul, pl, h1, h2, h3, h4, h5, h6, h7⟩, by simp, by simpa using h8⟩

/-- the same at the level of `handleAuthentication`: it returns nil only for such transcripts -/
theorem auth_required_negotiate (cfg : Config) (t rest : List UInt8) (hc : cfg.creds ≠ [])
    (h : (negotiate cfg t).outcome = .served rest) : Presents cfg t rest := by
  obtain ⟨m, c, n, ul, pl, h1, h2, h3, h4, h5, h6, h7, _⟩ := negotiate_served_creds hc h
  exact ⟨m, c, n, ul, pl, h1, h2, h3, h4, h5, h6, h7⟩

/-- a refused negotiation reaches neither the dialer nor the request reader (either placement) -/
theorem refused_reaches_nothing (e : Endpoint) (t : List UInt8) (w : Refusal) (hp : e.authHere = true)
    (h : (negotiate e.cfg t).outcome = .refused w) :
    (serveConn e t).dialed = false ∧ (serveConn e t).requestInput = none := by
  unfold serveConn
  simp [hp, h]

/-- with credentials the no-authentication method is never selected: the replies never start `05 00` -/
theorem creds_never_select_noauth (cfg : Config) (t : List UInt8) (hc : cfg.creds ≠ []) :
    ¬ ([socksVersion, noAuth] <+: (negotiate cfg t).replies) := by
  intro hpre
  rcases negotiate_creds_replies cfg t hc with h | h | h | h | h <;> rw [h] at hpre <;>
    simp [socksVersion, noAuth, userPassAuth, noAcceptableAuth] at hpre

/-- completeness (non-vacuity of the property, and usability): presenting a configured pair after an
    offer containing user/password IS served, whatever else the offer contains -/
theorem creds_presented_served (cfg : Config) (t rest : List UInt8) (h : Presents cfg t rest) :
    (negotiate cfg t).outcome = .served rest := by
  obtain ⟨m, c, n, ul, pl, h1, h2, h3, h4, h5, h6, h7⟩ := h
  rw [h7]
  exact negotiate_creds_accepts cfg c n ul pl m rest h1 h2 h3 h4 h5 h6

/-- **No credentials configured**: on every well-framed offer, no-authentication is accepted when
    offered (reply `05 00`, the rest goes to the request reader); otherwise the negotiation is
    refused — in particular user/password is refused — and `05 02` is never sent. -/
theorem noauth_config_behaviour (cfg : Config) (hc : cfg.creds = []) :
    (∀ (n : UInt8) (methods rest : List UInt8), n ≠ 0 → methods.length = n.toNat →
      (noAuth ∈ methods →
        negotiate cfg (socksVersion :: n :: methods ++ rest) = ⟨[socksVersion, noAuth], .served rest, 2 + n.toNat⟩) ∧
      (noAuth ∉ methods → ∃ w, (negotiate cfg (socksVersion :: n :: methods ++ rest)).outcome = .refused w)) ∧
    (∀ t, ¬ ([socksVersion, userPassAuth] <+: (negotiate cfg t).replies)) := by
  refine ⟨fun n methods rest hn hl => ?_, fun t hpre => ?_⟩
  · obtain ⟨a, b, c⟩ := negotiate_nocreds_offer cfg n methods rest hc hn hl
    refine ⟨a, fun h0 => ?_⟩
    by_cases h2 : userPassAuth ∈ methods
    · exact ⟨_, by rw [b h0 h2]⟩
    · exact ⟨_, by rw [c h0 h2]⟩
  · rcases negotiate_nocreds_replies cfg t hc with h | h | h <;> rw [h] at hpre <;>
      simp [socksVersion, noAuth, userPassAuth, noAcceptableAuth] at hpre

/-! ### non-vacuity and regressions -/

def alice : Cred := ⟨[0x61], [0x70, 0x77]⟩
def bob : Cred := ⟨[0x62, 0x6f, 0x62], []⟩
def cfg2 : Config := ⟨[alice, bob]⟩

/-- hypotheses of `auth_required_full` are met by a real run: client placement, two credentials,
    methods {no-auth, GSSAPI, user/pass}, bob's pair, then a CONNECT request -/
example : (serveConn ⟨true, true, cfg2⟩ [5, 3, 0, 1, 2, 1, 3, 0x62, 0x6f, 0x62, 0, 5, 1, 0, 1, 1, 2, 3, 4, 0, 80]).dialed = true ∧
    (serveConn ⟨true, true, cfg2⟩ [5, 3, 0, 1, 2, 1, 3, 0x62, 0x6f, 0x62, 0, 5, 1, 0, 1, 1, 2, 3, 4, 0, 80]).requestInput
      = some [5, 1, 0, 1, 1, 2, 3, 4, 0, 80] := by decide

/-- REGRESSION (was `auth_bypass_counterexample` on the unrepaired code, where the reply was `05 00`
    and the outcome Served): offering {no-auth, user/pass} to a listener with credentials now selects
    user/password and, with nothing further supplied, is refused. -/
example : (negotiate cfg2 [5, 2, 0, 2]).replies = [5, 2] ∧
    (negotiate cfg2 [5, 2, 0, 2]).outcome = .refused .eofSubVersion ∧
    (serveConn ⟨true, true, cfg2⟩ [5, 2, 0, 2, 5, 1, 0, 1, 1, 2, 3, 4, 0, 80]).dialed = false ∧
    (serveConn ⟨false, false, cfg2⟩ [5, 2, 0, 2, 5, 1, 0, 1, 1, 2, 3, 4, 0, 80]).requestInput = none := by decide

/-- only no-auth offered, credentials configured: `05 FF`, refused -/
example : (negotiate cfg2 [5, 1, 0]).replies = [5, 0xFF] ∧ (negotiate cfg2 [5, 1, 0]).outcome = .refused .noAcceptable := by
  decide

/-- no credentials: no-auth accepted among others, user/pass alone refused -/
example : (negotiate ⟨[]⟩ [5, 2, 2, 0, 9]).outcome = .served [9] ∧
    (negotiate ⟨[]⟩ [5, 1, 2, 1, 1, 0x61, 0]).outcome = .refused .noRegisteredUser := by decide

end Mieru.C11
