import Mieru.Proofs.C09
import Mieru.Proofs.C08
import Mieru.Model.SpecCrypto
import Mieru.Gen.Consts
/-!
# C09 — what goes on the wire is exactly the documented protocol

`Mieru.Model.Spec` / `Mieru.Model.SpecCrypto` are a codec written only from docs/protocol.md.  The
theorems here say that this reference codec is a *codec*: its three metadata layouts are lossless
and mutually unambiguous, its fields sit at the documented offsets, its nonce progression is the
big-endian counter the document describes (and the Go byte loop computes the same function), and
its segment framing is lossless for every well-formed segment on both transports, for every
AEAD that satisfies the usual laws.  That the REAL endpoints speak this codec is the
correspondence half of the property (harness scenario C09): the reference decoder must decode what
the real writers emit and the real readers must understand what the reference encoder emits.

Hypotheses (never axioms): `AeadLaws A` (open ∘ seal = id, ciphertext 16 bytes longer),
`LELaw` (the low-entropy body codec's round trip and length law — property C17's theorem; only
needed for segments of types 10/11), and for the first TCP segment that the other candidate keys
do not authenticate the sender's first ciphertext (key commitment).  Cryptographic primitives are
validated, not proved (DESIGN.md §5).
-/
namespace Mieru.C09
open Mieru Mieru.Spec

/-! ## Constants (tie T) -/

/-- The numbers the document fixes, as compiled from the current source
    (`lean/Mieru/Gen/Consts.lean`, regenerated on every run): PBKDF2 iterations, slot length,
    key / nonce / tag sizes, user-hint input and output sizes, metadata length, maximal session
    payload, and the ten protocol type numbers. -/
theorem spec_consts_match_code :
    Mieru.Gen.keyIter = 64 ∧ Mieru.Gen.keyRefreshIntervalNs = 120 * 1000000000 ∧
    Mieru.Gen.defaultKeyLen = 32 ∧ Mieru.Gen.defaultNonceSize = 24 ∧ Mieru.Gen.defaultOverhead = 16 ∧
    Mieru.Gen.noncePrefixLenForUserHint = 16 ∧ Mieru.Gen.nonceSuffixLenForUserHint = 4 ∧
    Mieru.Gen.metadataLength = 32 ∧ Mieru.Gen.maxSessionOpenPayload = 1024 ∧
    Mieru.Gen.openSessionRequest = 2 ∧ Mieru.Gen.openSessionResponse = 3 ∧
    Mieru.Gen.closeSessionRequest = 4 ∧ Mieru.Gen.closeSessionResponse = 5 ∧
    Mieru.Gen.dataClientToServer = 6 ∧ Mieru.Gen.dataServerToClient = 7 ∧
    Mieru.Gen.ackClientToServer = 8 ∧ Mieru.Gen.ackServerToClient = 9 ∧
    Mieru.Gen.dataClientToServerLowEntropy = 10 ∧ Mieru.Gen.dataServerToClientLowEntropy = 11 := by decide

/-! ## Metadata -/

/-- every metadata encoding is 32 bytes -/
theorem spec_meta_length (m : Meta) : m.encode.length = 32 := meta_len m

/-- all three layouts, all field values in range: decode ∘ encode = id -/
theorem spec_meta_roundtrip (m : Meta) (h : m.inRange) : Meta.decode m.encode = some m :=
  meta_roundtrip m h

theorem spec_session_roundtrip (m : SessionMeta) (h : m.inRange) : SessionMeta.decode m.encode = some m :=
  session_roundtrip m h
theorem spec_data_roundtrip (m : DataMeta) (h : m.inRange) : DataMeta.decode m.encode = some m :=
  data_roundtrip m h
theorem spec_le_roundtrip (m : LEMeta) (h : m.inRange) : LEMeta.decode m.encode = some m :=
  le_roundtrip m h

/-- no two distinct in-range metadata (of the same or of different layouts) share an encoding -/
theorem spec_layout_injective (a b : Meta) (ha : a.inRange) (hb : b.inRange)
    (h : a.encode = b.encode) : a = b := meta_injective a b ha hb h

/-- every field of every layout occupies exactly the (offset, width) of the document's tables,
    big endian, for all field values -/
theorem spec_offsets (s : SessionMeta) (d : DataMeta) (l : LEMeta) :
    (∀ e ∈ sessionOffsets, ((s.encode).drop e.2.1).take e.2.2 = be e.2.2 (s.field e.1)) ∧
    (∀ e ∈ dataOffsets, ((d.encode).drop e.2.1).take e.2.2 = be e.2.2 (d.field e.1)) ∧
    (∀ e ∈ leOffsets, ((l.encode).drop e.2.1).take e.2.2 = be e.2.2 (l.field e.1)) :=
  ⟨session_offsets s, data_offsets d, le_offsets l⟩

/-- the document's low-entropy example, both padding polarities, both directions -/
theorem spec_le_example :
    LowEntropy.encode [0x12, 0x34, 0x56, 0x78] 1 0x0f0f0f0f 0 false = some [1, 2, 3, 4, 5, 6, 7, 8] ∧
    LowEntropy.encode [0x12, 0x34, 0x56, 0x78] 1 0x0f0f0f0f 0 true
      = some [0xf1, 0xf2, 0xf3, 0xf4, 0xf5, 0xf6, 0xf7, 0xf8] ∧
    LowEntropy.decode [1, 2, 3, 4, 5, 6, 7, 8] 4 1 0x0f0f0f0f 0 = some [0x12, 0x34, 0x56, 0x78] ∧
    LowEntropy.decode [0xf1, 0xf2, 0xf3, 0xf4, 0xf5, 0xf6, 0xf7, 0xf8] 4 1 0x0f0f0f0f 0
      = some [0x12, 0x34, 0x56, 0x78] := by decide

/-! ## Nonce progression on the TCP stream -/

/-- "the nonce value will increase by 1": big-endian +1 modulo 2^(8·length), same length -/
theorem spec_stream_nonce_progression (n0 : Bytes) (i : Nat) :
    (nthNonce n0 i).length = n0.length ∧
    fromBE (nthNonce n0 i) = (fromBE n0 + i) % 256 ^ n0.length :=
  ⟨nthNonce_length n0 i, fromBE_nthNonce n0 i⟩

theorem spec_incr_injective (a b : Bytes) (hl : a.length = b.length) (h : incr a = incr b) : a = b :=
  incr_injective a b hl h

/-- no nonce repeats within 2^192 encryptions of one direction (24-byte nonces) -/
theorem spec_nonces_distinct (n0 : Bytes) (hl : n0.length = 24) (i j : Nat)
    (hi : i < 2 ^ 192) (hj : j < 2 ^ 192) (h : nthNonce n0 i = nthNonce n0 j) : i = j := by
  have e : 256 ^ n0.length = 2 ^ 192 := by rw [hl]
  exact nthNonce_injective n0 i j (by rw [e]; exact hi) (by rw [e]; exact hj) h

/-- the byte loop of `aeadBlockCipher.increaseNonce` is the document's "+1" -/
theorem incrGo_eq_spec (n : Bytes) : NonceGo.incrGo n = incr n := incrGo_eq_incr n

/-! ## Time slots: the document's rounding is the code's rounding -/

/-- "Round unixTime to the nearest 2 minutes" on whole seconds (ties up) names the same slot as
    Go's `Time.Round(2 * time.Minute)` on nanoseconds, for every instant -/
theorem spec_slot_matches_code (t : Int) : roundedTime (Time.unixSec t) = Time.epoch t := by
  obtain ⟨q, hq, ha, hb⟩ := Mieru.Proofs.C08.epoch_nearest t
  simp only [roundedTime, Time.unixSec, Time.nsPerSec]
  omega

/-! ## Segment framing -/

/-- one UDP datagram: open ∘ seal = id on well-formed segments -/
theorem spec_udp_roundtrip (A : AeadFns) (hA : AeadLaws A) (hle : LELaw) (key nonce : Bytes)
    (hn : nonce.length = 24) (s : Segment) (hw : s.wf) (lePad : Bool) (d : Bytes)
    (hs : udpSeal A key nonce s lePad = some d) :
    udpOpen A key d = .ok (s.md, s.payload) :=
  udp_roundtrip A hA hle key nonce hn s hw lePad d hs

/-- one TCP segment, first or later, followed by arbitrary further bytes: the receiver in sync
    with the sender parses exactly that segment, consumes exactly its bytes and moves to the
    sender's next nonce -/
theorem spec_tcp_segment_roundtrip (A : AeadFns) (hA : AeadLaws A) (hle : LELaw) (t t' : Tx) (r : Rx)
    (hsync : InSync A t r) (s : Segment) (hw : s.wf) (lePad : Bool) (bytes rest : Bytes)
    (hs : tcpSeal A t s lePad = some (bytes, t')) (hbuf : r.buf = bytes ++ rest) :
    parseOne A r = .ok t.key s.md s.payload bytes.length t'.nonce :=
  tcp_parse_one A hA hle t t' r hsync s hw lePad bytes rest hs hbuf

/-- a whole direction of a TCP connection -/
theorem spec_tcp_stream_roundtrip (A : AeadFns) (hA : AeadLaws A) (hle : LELaw)
    (segs : List (Segment × Bool)) (hw : ∀ x ∈ segs, x.1.wf) (t : Tx) (cands : List Bytes)
    (hsync : InSync A t (Rx.new cands)) (bytes : Bytes) (hs : sealAll A t segs = some bytes) :
    (feed A (Rx.new cands) bytes).out = segs.map (fun x => (x.1.md, x.1.payload)) ∧
    (feed A (Rx.new cands) bytes).dead = none ∧ (feed A (Rx.new cands) bytes).buf = [] :=
  tcp_stream_roundtrip A hA hle segs hw t cands hsync bytes hs

/-- UDP-associate encapsulation: one packet, followed by anything -/
theorem spec_assoc_roundtrip (d rest : Bytes) (hd : d.length < 65536) :
    assocUnwrap (assocWrap d ++ rest) = .ok d rest := assoc_roundtrip d rest hd

/-! ## Non-vacuity -/

-- in-range metadata of each layout exist, including extreme values
example : (Meta.session ⟨2, 4294967295, 0, 4294967295, 255, 1024, 255⟩).inRange := by decide
example : (Meta.data ⟨9, 29836258, 7, 1, 4294967295, 65535, 255, 255, 65535, 255⟩).inRange := by decide
example : (Meta.le ⟨10, 1, 29836258, 7, 1, 0, 256, 0, 3, 8, 4, 0x0f0f0f0f, 4, 0⟩).inRange ∧
    (Meta.le ⟨10, 1, 29836258, 7, 1, 0, 256, 0, 3, 8, 4, 0x0f0f0f0f, 4, 0⟩).valid = true := by decide

example : AeadLaws toyAead where
  seal_len k n p := by simp [toyAead, toyTag_len]
  open_seal k n p := by
    simp only [toyAead, List.length_append, toyTag_len]
    have h1 : p.length + 16 - 16 = p.length := by omega
    rw [h1, List.drop_left' rfl, List.take_left' rfl]
    simp

-- a well-formed segment and a sender/receiver pair in sync (candidate keys as the receiver has them)
example : (Segment.mk (.data ⟨6, 29836258, 7, 1, 0, 256, 0, 2, 5, 3⟩) [1, 2, 3, 4, 5] [9, 9] [8, 8, 8]).wf := by
  refine ⟨by decide, by decide, by decide, by decide, by decide⟩
example : InSync toyAead ⟨[1], List.replicate 24 7, false⟩ (Rx.new [[0], [1], [2]]) := by
  left
  refine ⟨rfl, rfl, by decide, by decide, ?_⟩
  intro k hk hne p
  simp only [Rx.new, List.mem_cons, List.not_mem_nil, or_false] at hk
  rcases hk with rfl | rfl | rfl
  · simp [toyAead, toyTag]
  · exact absurd rfl hne
  · simp [toyAead, toyTag]
-- the low-entropy law holds on the document's example
example : LowEntropy.encode [0x12, 0x34, 0x56, 0x78] 1 0x0f0f0f0f 0 false = some [1, 2, 3, 4, 5, 6, 7, 8] ∧
    LowEntropy.decode [1, 2, 3, 4, 5, 6, 7, 8] [0x12, 0x34, 0x56, (0x78 : UInt8)].length 1 0x0f0f0f0f 0
      = some [0x12, 0x34, 0x56, 0x78] ∧
    LowEntropy.encodedLen [0x12, 0x34, 0x56, (0x78 : UInt8)].length 1 = some [1, 2, 3, 4, 5, 6, 7, (8 : UInt8)].length := by
  decide
-- carry over all 24 bytes
example : incr (List.replicate 24 0xff) = List.replicate 24 0 := by decide
example : incr ([0, 0, 0xff, 0xff] : Bytes) = [0, 1, 0, 0] := by decide

end Mieru.C09
