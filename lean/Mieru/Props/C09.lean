import Mieru.Proofs.C09
import Mieru.Proofs.C09Server
import Mieru.Proofs.C09LE
import Mieru.Proofs.C08
import Mieru.Model.SpecCrypto
import Mieru.Gen.Consts
import Mieru.Gen.Wire
import Mieru.Proofs.C09Real
/-!
# C09 — what goes on the wire is exactly the documented protocol

`Mieru.Model.Spec` / `Mieru.Model.SpecCrypto` are a codec written only from docs/protocol.md.  The
theorems here say that this reference codec is a *codec*: its three metadata layouts are lossless
and mutually unambiguous, its fields sit at the documented offsets, its nonce progression is the
big-endian counter the document describes (and the Go byte loop computes the same function), and
its segment framing is lossless for every well-formed segment on both transports, for every
AEAD that satisfies the usual laws.  That the REAL endpoints speak this codec is the
correspondence half of the property (harness scenario C09): the reference decoder must decode what
the real writers emit and the real readers must understand what the reference encoder emits.

Hypotheses (never axioms): `AeadLaws A` (open ∘ seal = id, ciphertext 16 bytes longer),
`LELaw` (the low-entropy body codec's round trip and length law — property C17's theorem; only
needed for segments of types 10/11), and for the first TCP segment that the other candidate keys
do not authenticate the sender's first ciphertext (key commitment).  Cryptographic primitives are
validated, not proved (DESIGN.md §5).
-/
namespace Mieru.C09
open Mieru Mieru.Spec

/-! ## Constants (tie T) -/

/-- The numbers the document fixes, as compiled from the current source
    (`lean/Mieru/Gen/Consts.lean`, regenerated on every run): PBKDF2 iterations, slot length,
    key / nonce / tag sizes, user-hint input and output sizes, metadata length, maximal session
    payload, and the ten protocol type numbers. -/
theorem spec_consts_match_code :
    Mieru.Gen.keyIter = 64 ∧ Mieru.Gen.keyRefreshIntervalNs = 120 * 1000000000 ∧
    Mieru.Gen.defaultKeyLen = 32 ∧ Mieru.Gen.defaultNonceSize = 24 ∧ Mieru.Gen.defaultOverhead = 16 ∧
    Mieru.Gen.noncePrefixLenForUserHint = 16 ∧ Mieru.Gen.nonceSuffixLenForUserHint = 4 ∧
    Mieru.Gen.metadataLength = 32 ∧ Mieru.Gen.maxSessionOpenPayload = 1024 ∧
    Mieru.Gen.openSessionRequest = 2 ∧ Mieru.Gen.openSessionResponse = 3 ∧
    Mieru.Gen.closeSessionRequest = 4 ∧ Mieru.Gen.closeSessionResponse = 5 ∧
    Mieru.Gen.dataClientToServer = 6 ∧ Mieru.Gen.dataServerToClient = 7 ∧
    Mieru.Gen.ackClientToServer = 8 ∧ Mieru.Gen.ackServerToClient = 9 ∧
    Mieru.Gen.dataClientToServerLowEntropy = 10 ∧ Mieru.Gen.dataServerToClientLowEntropy = 11 := by decide

/-! ## Metadata -/

/-- every metadata encoding is 32 bytes -/
theorem spec_meta_length (m : Meta) : m.encode.length = 32 := meta_len m

/-- all three layouts, all field values in range: decode ∘ encode = id -/
theorem spec_meta_roundtrip (m : Meta) (h : m.inRange) : Meta.decode m.encode = some m :=
  meta_roundtrip m h

theorem spec_session_roundtrip (m : SessionMeta) (h : m.inRange) : SessionMeta.decode m.encode = some m :=
  session_roundtrip m h
theorem spec_data_roundtrip (m : DataMeta) (h : m.inRange) : DataMeta.decode m.encode = some m :=
  data_roundtrip m h
theorem spec_le_roundtrip (m : LEMeta) (h : m.inRange) : LEMeta.decode m.encode = some m :=
  le_roundtrip m h

/-- no two distinct in-range metadata (of the same or of different layouts) share an encoding -/
theorem spec_layout_injective (a b : Meta) (ha : a.inRange) (hb : b.inRange)
    (h : a.encode = b.encode) : a = b := meta_injective a b ha hb h

/-- every field of every layout occupies exactly the (offset, width) of the document's tables,
    big endian, for all field values -/
theorem spec_offsets (s : SessionMeta) (d : DataMeta) (l : LEMeta) :
    (∀ e ∈ sessionOffsets, ((s.encode).drop e.2.1).take e.2.2 = be e.2.2 (s.field e.1)) ∧
    (∀ e ∈ dataOffsets, ((d.encode).drop e.2.1).take e.2.2 = be e.2.2 (d.field e.1)) ∧
    (∀ e ∈ leOffsets, ((l.encode).drop e.2.1).take e.2.2 = be e.2.2 (l.field e.1)) :=
  ⟨session_offsets s, data_offsets d, le_offsets l⟩

/-- the document's low-entropy example, both padding polarities, both directions -/
theorem spec_le_example :
    LowEntropy.encode [0x12, 0x34, 0x56, 0x78] 1 0x0f0f0f0f 0 false = some [1, 2, 3, 4, 5, 6, 7, 8] ∧
    LowEntropy.encode [0x12, 0x34, 0x56, 0x78] 1 0x0f0f0f0f 0 true
      = some [0xf1, 0xf2, 0xf3, 0xf4, 0xf5, 0xf6, 0xf7, 0xf8] ∧
    LowEntropy.decode [1, 2, 3, 4, 5, 6, 7, 8] 4 1 0x0f0f0f0f 0 = some [0x12, 0x34, 0x56, 0x78] ∧
    LowEntropy.decode [0xf1, 0xf2, 0xf3, 0xf4, 0xf5, 0xf6, 0xf7, 0xf8] 4 1 0x0f0f0f0f 0
      = some [0x12, 0x34, 0x56, 0x78] := by decide

/-! ## Nonce progression on the TCP stream -/

/-- "the nonce value will increase by 1": big-endian +1 modulo 2^(8·length), same length -/
theorem spec_stream_nonce_progression (n0 : Bytes) (i : Nat) :
    (nthNonce n0 i).length = n0.length ∧
    fromBE (nthNonce n0 i) = (fromBE n0 + i) % 256 ^ n0.length :=
  ⟨nthNonce_length n0 i, fromBE_nthNonce n0 i⟩

theorem spec_incr_injective (a b : Bytes) (hl : a.length = b.length) (h : incr a = incr b) : a = b :=
  incr_injective a b hl h

/-- no nonce repeats within 2^192 encryptions of one direction (24-byte nonces) -/
theorem spec_nonces_distinct (n0 : Bytes) (hl : n0.length = 24) (i j : Nat)
    (hi : i < 2 ^ 192) (hj : j < 2 ^ 192) (h : nthNonce n0 i = nthNonce n0 j) : i = j := by
  have e : 256 ^ n0.length = 2 ^ 192 := by rw [hl]
  exact nthNonce_injective n0 i j (by rw [e]; exact hi) (by rw [e]; exact hj) h

/-- the byte loop of `aeadBlockCipher.increaseNonce` is the document's "+1" -/
theorem incrGo_eq_spec (n : Bytes) : NonceGo.incrGo n = incr n := incrGo_eq_incr n

/-! ## Time slots: the document's rounding is the code's rounding -/

/-- "Round unixTime to the nearest 2 minutes" on whole seconds (ties up) names the same slot as
    Go's `Time.Round(2 * time.Minute)` on nanoseconds, for every instant -/
theorem spec_slot_matches_code (t : Int) : roundedTime (Time.unixSec t) = Time.epoch t := by
  obtain ⟨q, hq, ha, hb⟩ := Mieru.Proofs.C08.epoch_nearest t
  simp only [roundedTime, Time.unixSec, Time.nsPerSec]
  omega

/-! ## Segment framing -/

/-- one UDP datagram: open ∘ seal = id on well-formed segments -/
theorem spec_udp_roundtrip (A : AeadFns) (hA : AeadLaws A) (hle : LELaw) (key nonce : Bytes)
    (hn : nonce.length = 24) (s : Segment) (hw : s.wf) (lePad : Bool) (d : Bytes)
    (hs : udpSeal A key nonce s lePad = some d) :
    udpOpen A key d = .ok (s.md, s.payload) :=
  udp_roundtrip A hA hle key nonce hn s hw lePad d hs

/-- one TCP segment, first or later, followed by arbitrary further bytes: the receiver in sync
    with the sender parses exactly that segment, consumes exactly its bytes and moves to the
    sender's next nonce -/
theorem spec_tcp_segment_roundtrip (A : AeadFns) (hA : AeadLaws A) (hle : LELaw) (t t' : Tx) (r : Rx)
    (hsync : InSync A t r) (s : Segment) (hw : s.wf) (lePad : Bool) (bytes rest : Bytes)
    (hs : tcpSeal A t s lePad = some (bytes, t')) (hbuf : r.buf = bytes ++ rest) :
    parseOne A r = .ok t.key s.md s.payload bytes.length t'.nonce :=
  tcp_parse_one A hA hle t t' r hsync s hw lePad bytes rest hs hbuf

/-- a whole direction of a TCP connection -/
theorem spec_tcp_stream_roundtrip (A : AeadFns) (hA : AeadLaws A) (hle : LELaw)
    (segs : List (Segment × Bool)) (hw : ∀ x ∈ segs, x.1.wf) (t : Tx) (cands : List Bytes)
    (hsync : InSync A t (Rx.new cands)) (bytes : Bytes) (hs : sealAll A t segs = some bytes) :
    (feed A (Rx.new cands) bytes).out = segs.map (fun x => (x.1.md, x.1.payload)) ∧
    (feed A (Rx.new cands) bytes).dead = none ∧ (feed A (Rx.new cands) bytes).buf = [] :=
  tcp_stream_roundtrip A hA hle segs hw t cands hsync bytes hs

/-- UDP-associate encapsulation: one packet, followed by anything -/
theorem spec_assoc_roundtrip (d rest : Bytes) (hd : d.length < 65536) :
    assocUnwrap (assocWrap d ++ rest) = .ok d rest := assoc_roundtrip d rest hd

/-! ## Non-vacuity -/

-- in-range metadata of each layout exist, including extreme values
example : (Meta.session ⟨2, 4294967295, 0, 4294967295, 255, 1024, 255⟩).inRange := by decide
example : (Meta.data ⟨9, 29836258, 7, 1, 4294967295, 65535, 255, 255, 65535, 255⟩).inRange := by decide
example : (Meta.le ⟨10, 1, 29836258, 7, 1, 0, 256, 0, 3, 8, 4, 0x0f0f0f0f, 4, 0⟩).inRange ∧
    (Meta.le ⟨10, 1, 29836258, 7, 1, 0, 256, 0, 3, 8, 4, 0x0f0f0f0f, 4, 0⟩).valid = true := by decide

example : AeadLaws toyAead where
  seal_len k n p := by simp [toyAead, toyTag_len]
  open_seal k n p := by
    simp only [toyAead, List.length_append, toyTag_len]
    have h1 : p.length + 16 - 16 = p.length := by omega
    rw [h1, List.drop_left' rfl, List.take_left' rfl]
    simp

-- a well-formed segment and a sender/receiver pair in sync (candidate keys as the receiver has them)
example : (Segment.mk (.data ⟨6, 29836258, 7, 1, 0, 256, 0, 2, 5, 3⟩) [1, 2, 3, 4, 5] [9, 9] [8, 8, 8]).wf := by
  refine ⟨by decide, by decide, by decide, by decide, by decide⟩
example : InSync toyAead ⟨[1], List.replicate 24 7, false⟩ (Rx.new [[0], [1], [2]]) := by
  left
  refine ⟨rfl, rfl, by decide, by decide, ?_⟩
  intro k hk hne p
  simp only [Rx.new, List.mem_cons, List.not_mem_nil, or_false] at hk
  rcases hk with rfl | rfl | rfl
  · simp [toyAead, toyTag]
  · exact absurd rfl hne
  · simp [toyAead, toyTag]
-- the low-entropy law holds on the document's example
example : LowEntropy.encode [0x12, 0x34, 0x56, 0x78] 1 0x0f0f0f0f 0 false = some [1, 2, 3, 4, 5, 6, 7, 8] ∧
    LowEntropy.decode [1, 2, 3, 4, 5, 6, 7, 8] [0x12, 0x34, 0x56, (0x78 : UInt8)].length 1 0x0f0f0f0f 0
      = some [0x12, 0x34, 0x56, 0x78] ∧
    LowEntropy.encodedLen [0x12, 0x34, 0x56, (0x78 : UInt8)].length 1 = some [1, 2, 3, 4, 5, 6, 7, (8 : UInt8)].length := by
  decide
-- carry over all 24 bytes
example : incr (List.replicate 24 0xff) = List.replicate 24 0 := by decide
example : incr ([0, 0, 0xff, 0xff] : Bytes) = [0, 1, 0, 0] := by decide

/-! ## The server → client direction (reference server, `Mieru.Model.SpecServer`)

The framing theorems above are direction-agnostic (a `Segment` is any metadata of any type).
What a third-party SERVER adds to the codec is (a) the key it answers under — the document gives
the server three candidates and the client one key — and (b) the segments of the server
direction, with lengths filled in from freely chosen paddings.  The harness stage
`harness/props/c09_server.go` runs these definitions (driver `Mieru.Driver.SpecServer`) against a
real mieru client on both transports. -/

/-- the low-entropy hypothesis `LELaw` of the framing theorems holds (C17's round trip and length
    law): the theorems of this section need no such hypothesis, and the ones above can be used
    with `spec_le_law` -/
theorem spec_le_law : LELaw := leLaw

/-- Every segment the reference server builds within the documented limits is well formed (so
    the round-trip theorems apply to it): open-session response with 0..1024 piggy-backed bytes
    and any `padding 2` of 0..255 bytes; data and ack with any `padding 1` / `padding 2` of
    0..255 bytes; low-entropy data for every valid (mode, mask, rotation) once the encoded length
    exists; close request / response. -/
theorem spec_server_segments_wf (c : Srv.Ctx) (hc : c.ok) :
    (∀ payload pad2 : Bytes, payload.length ≤ 1024 → pad2.length < 256 → (Srv.openResp c payload pad2).wf) ∧
    (∀ (fragment : Nat) (payload pad1 pad2 : Bytes), fragment < 256 → payload.length < 65536 →
      pad1.length < 256 → pad2.length < 256 → (Srv.data c fragment payload pad1 pad2).wf) ∧
    (∀ pad1 pad2 : Bytes, pad1.length < 256 → pad2.length < 256 → (Srv.ack c pad1 pad2).wf) ∧
    (∀ (fragment mode mask rot : Nat) (payload pad1 pad2 : Bytes) (s : Segment), fragment < 256 →
      mask < 2 ^ 32 → LowEntropy.validParams mode mask rot = true → payload.length ≤ 32768 →
      pad1.length < 256 → pad2.length < 256 →
      Srv.dataLE c fragment mode mask rot payload pad1 pad2 = some s → s.wf) ∧
    (∀ (status : Nat) (pad2 : Bytes), status < 256 → pad2.length < 256 → (Srv.closeReq c status pad2).wf) ∧
    (∀ pad2 : Bytes, pad2.length < 256 → (Srv.closeResp c pad2).wf) :=
  ⟨fun p p2 hp h2 => Srv.openResp_wf c hc p p2 hp h2,
   fun f p p1 p2 hf hp h1 h2 => Srv.data_wf c hc f hf p p1 p2 hp h1 h2,
   fun p1 p2 h1 h2 => Srv.ack_wf c hc p1 p2 h1 h2,
   fun f mo mk ro p p1 p2 s hf hm hv hp h1 h2 hs => Srv.dataLE_wf c hc f hf mo mk ro hm hv p p1 p2 hp h1 h2 s hs,
   fun st p2 hs h2 => Srv.closeReq_wf c hc st hs p2 h2,
   fun p2 h2 => Srv.closeResp_wf c hc p2 h2⟩

/-- "the maximum length for an individual fragment is 32768 bytes. The exception is low entropy
    mode `LOW_ENTROPY_MODE_32`, whose maximum is 32764 bytes so its encoded length fits the 16-bit
    `payload length` field": the low-entropy constructor accepts every non-empty fragment up to
    exactly these limits, and refuses 32765..32768 bytes in mode 1 -/
theorem spec_server_le_fragment_limits (c : Srv.Ctx) (fragment mode mask rot : Nat) (payload pad1 pad2 : Bytes)
    (hm : 1 ≤ mode ∧ mode ≤ 4) (hn : 1 ≤ payload.length) (hmax : payload.length ≤ 32768) :
    (Srv.dataLE c fragment mode mask rot payload pad1 pad2).isSome = true ↔
      (mode = 1 → payload.length ≤ 32764) := by
  obtain ⟨h1, h4⟩ := hm
  have hmode : mode = 1 ∨ mode = 2 ∨ mode = 3 ∨ mode = 4 := by omega
  simp only [Srv.dataLE, Option.isSome_map]
  unfold LowEntropy.encodedLen LowEntropy.ceilDiv
  rcases hmode with rfl | rfl | rfl | rfl <;> simp only [LowEntropy.sourceBytes] <;>
    (split <;> first | omega | (split <;> simp <;> omega))

/-- **Both directions of one TCP connection**: the reference server feeds the client's bytes to
    a receiver that has only the candidate keys, answers under the key that receiver settled on,
    with any well-formed segments; a client that knows only its own key decodes exactly those
    segments, nothing left over. -/
theorem spec_tcp_reply_roundtrip (A : AeadFns) (hA : AeadLaws A)
    (cs : List (Segment × Bool)) (hcne : cs ≠ []) (hcw : ∀ x ∈ cs, x.1.wf)
    (tc : Tx) (cands : List Bytes) (hsync : InSync A tc (Rx.new cands))
    (up : Bytes) (hup : sealAll A tc cs = some up)
    (n0 : Bytes) (hn : n0.length = 24) (ts : Tx)
    (hts : Srv.replyTx (feed A (Rx.new cands) up) n0 = some ts)
    (ss : List (Segment × Bool)) (hsw : ∀ x ∈ ss, x.1.wf) (down : Bytes) (hdown : sealAll A ts ss = some down) :
    ts.key = tc.key ∧
    (feed A (Rx.new [tc.key]) down).out = ss.map (fun x => (x.1.md, x.1.payload)) ∧
    (feed A (Rx.new [tc.key]) down).dead = none ∧ (feed A (Rx.new [tc.key]) down).buf = [] :=
  Srv.tcp_duplex A hA leLaw cs hcne hcw tc cands hsync up hup n0 hn ts hts ss hsw down hdown

/-- the reference server always can answer: after at least one well-formed client segment its
    receiver holds the client's key -/
theorem spec_tcp_reply_key (A : AeadFns) (hA : AeadLaws A)
    (cs : List (Segment × Bool)) (hcne : cs ≠ []) (hcw : ∀ x ∈ cs, x.1.wf)
    (tc : Tx) (cands : List Bytes) (hsync : InSync A tc (Rx.new cands))
    (up : Bytes) (hup : sealAll A tc cs = some up) (n0 : Bytes) :
    Srv.replyTx (feed A (Rx.new cands) up) n0 = some ⟨tc.key, n0, false⟩ := by
  simp only [Srv.replyTx, Srv.feed_key A hA leLaw cs hcne hcw tc cands hsync up hup, Option.map_some]

/-- **UDP request and reply**: the first candidate key that opens the client's datagram is the
    client's, the datagram decodes to what was sealed, and a reply sealed under that key with a
    fresh nonce is opened by the client under its own key. -/
theorem spec_udp_reply_roundtrip (A : AeadFns) (hA : AeadLaws A) (kc nonce : Bytes) (hn : nonce.length = 24)
    (s : Segment) (hw : s.wf) (lePad : Bool) (d : Bytes) (hs : udpSeal A kc nonce s lePad = some d)
    (cands : List Bytes) (hin : kc ∈ cands)
    (hc : ∀ k ∈ cands, k ≠ kc → A.openF k nonce (A.sealF kc nonce s.md.encode) = none)
    (nonce' : Bytes) (hn' : nonce'.length = 24) (s' : Segment) (hw' : s'.wf) (lePad' : Bool) :
    ∃ k, Srv.udpOpenCands A d cands = some (k, .ok (s.md, s.payload)) ∧
      ∀ d', udpSeal A k nonce' s' lePad' = some d' → udpOpen A kc d' = .ok (s'.md, s'.payload) :=
  ⟨kc, Srv.udpOpenCands_finds A hA leLaw kc nonce hn s hw lePad d hs cands hin hc,
   fun d' hd' => udp_roundtrip A hA leLaw kc nonce' hn' s' hw' lePad' d' hd'⟩

/-! ## Round 3: the layouts as the CODE lays them out, any chunking, the executable AEAD -/

/-- field names of metadata.go → field names of the document's tables -/
def goField : String → String
  | "statusCode" => "status" | "lowEntropyMode" => "mode" | "lowEntropyMask" => "mask"
  | "extractedPayloadLen" => "extractedLen" | "lowEntropyMaskRotation" => "rotation" | s => s

/-- a regenerated (offset, width, field, guard, byte order) table as a document table; `le` keeps
    the rows guarded by `if isLowEntropyProtocol(…)` -/
def asSpec (rows : List (Nat × Nat × String × String × String)) (le : Bool) : List (String × Nat × Nat) :=
  (rows.filter (fun r => le || r.2.2.2.1 == "")).map fun r => (goField r.2.2.1, r.1, r.2.1)

/-- **The three layouts of the code are the three layouts of the document.**  The tables are
    REGENERATED on every run from the bodies of `sessionStruct.Marshal/Unmarshal` and
    `dataAckStruct.Marshal/Unmarshal` (every `b[i] = …`, `binary.BigEndian.PutUintNN(b[i:], …)`,
    `b[i]`, `binary.BigEndian.UintNN(b[i:])`): each field is stored at, and read from, exactly the
    (offset, width) of the document's table, every multi-byte field big endian, the low-entropy
    extension under the low-entropy guard.  With `spec_offsets` (the reference encoder places every
    field there, for all values) a moved, resized, renamed or byte-swapped field on EITHER side of
    the code breaks this theorem at build time. -/
theorem spec_offsets_match_gen :
    asSpec Mieru.Gen.Wire.sessionMarshal false = sessionOffsets ∧
    asSpec Mieru.Gen.Wire.sessionUnmarshal false = sessionOffsets ∧
    asSpec Mieru.Gen.Wire.dataAckMarshal false = dataOffsets ∧
    asSpec Mieru.Gen.Wire.dataAckUnmarshal false = dataOffsets ∧
    asSpec Mieru.Gen.Wire.dataAckMarshal true = leOffsets ∧
    asSpec Mieru.Gen.Wire.dataAckUnmarshal true = leOffsets ∧
    (∀ r ∈ Mieru.Gen.Wire.sessionMarshal ++ Mieru.Gen.Wire.sessionUnmarshal ++ Mieru.Gen.Wire.dataAckMarshal ++
        Mieru.Gen.Wire.dataAckUnmarshal, (r.2.1 = 1 ∧ r.2.2.2.2 = "byte") ∨ r.2.2.2.2 = "BigEndian") := by decide

/-- **Chunking independence of the reference stream receiver**: however the network cuts the
    byte stream, for every receiver state, with no hypothesis on the AEAD or the bytes. -/
theorem spec_feed_chunking_independent (A : AeadFns) (r : Rx) (a b : Bytes) (cands : List Bytes) (chunks : List Bytes) :
    feed A (feed A r a) b = feed A r (a ++ b) ∧
    chunks.foldl (feed A) (Rx.new cands) = feed A (Rx.new cands) chunks.flatten :=
  ⟨feed_feed A r a b, foldl_feed_new A cands chunks⟩

/-- **The framing theorems for the executable AEAD's shape**: an AEAD that is lawful on 32-byte keys
    and 24-byte nonces (and may refuse every other size, as `realAead` does).  UDP datagram round
    trip; whole TCP direction under any chunking, with the key-commitment assumption restricted to
    the ONE ciphertext the sender produces first.  No low-entropy hypothesis (`spec_le_law`). -/
theorem spec_framing_32_24 (A : AeadFns) (hA : AeadLaws32 A) :
    (∀ (key nonce : Bytes), key.length = 32 → nonce.length = 24 → ∀ (s : Segment), s.wf → ∀ (lePad : Bool) (d : Bytes),
      udpSeal A key nonce s lePad = some d → udpOpen A key d = .ok (s.md, s.payload)) ∧
    (∀ (segs : List (Segment × Bool)), (∀ x ∈ segs, x.1.wf) → ∀ (t : Tx), t.key.length = 32 → t.nonce.length = 24 →
      ∀ (cands : List Bytes), (∀ k ∈ cands, k.length = 32) → InSyncFor A t (Rx.new cands) (firstMeta segs) →
      ∀ (bytes : Bytes), sealAll A t segs = some bytes → ∀ (chunks : List Bytes), chunks.flatten = bytes →
      (chunks.foldl (feed A) (Rx.new cands)).out = segs.map (fun x => (x.1.md, x.1.payload)) ∧
      (chunks.foldl (feed A) (Rx.new cands)).dead = none ∧ (chunks.foldl (feed A) (Rx.new cands)).buf = []) :=
  ⟨fun key nonce hk hn s hw lePad d hs => udp_roundtrip32 A hA key nonce hk hn s hw lePad d hs,
   fun segs hw t hk hn cands hc hsync bytes hs chunks hch =>
     tcp_stream_roundtrip32 A hA segs hw t hk hn cands hc hsync bytes hs chunks hch⟩

/-- the corollary for the AEAD the driver runs, under the single residual hypothesis "XChaCha20-Poly1305
    opens what it sealed, 16 bytes longer, on 32-byte keys and 24-byte nonces" -/
theorem spec_framing_real (hX : AeadLaws32 realAead) :
    (∀ (key nonce : Bytes), key.length = 32 → nonce.length = 24 → ∀ (s : Segment), s.wf → ∀ (lePad : Bool) (d : Bytes),
      udpSeal realAead key nonce s lePad = some d → udpOpen realAead key d = .ok (s.md, s.payload)) ∧
    (∀ (segs : List (Segment × Bool)), (∀ x ∈ segs, x.1.wf) → ∀ (t : Tx), t.key.length = 32 → t.nonce.length = 24 →
      ∀ (cands : List Bytes), (∀ k ∈ cands, k.length = 32) → InSyncFor realAead t (Rx.new cands) (firstMeta segs) →
      ∀ (bytes : Bytes), sealAll realAead t segs = some bytes → ∀ (chunks : List Bytes), chunks.flatten = bytes →
      (chunks.foldl (feed realAead) (Rx.new cands)).out = segs.map (fun x => (x.1.md, x.1.payload)) ∧
      (chunks.foldl (feed realAead) (Rx.new cands)).dead = none ∧
      (chunks.foldl (feed realAead) (Rx.new cands)).buf = []) :=
  spec_framing_32_24 realAead hX

-- `AeadLaws32` is inhabited (the toy AEAD), and `realAead` could not satisfy the unrestricted laws:
example : AeadLaws32 toyAead := toy_laws32
example : ¬ AeadLaws realAead := fun h => by
  have := h.open_seal [] [] []
  simp [realAead] at this

/-! ### Non-vacuity of the server-direction theorems -/

-- a server context within range, and segments at the documented extremes built from it
example : (Srv.Ctx.mk 29836258 4294967295 0 1 4096).ok := by decide
example : (Srv.openResp ⟨29836258, 7, 0, 1, 256⟩ (List.replicate 1024 0xab) (List.replicate 255 0x20)).wf :=
  (spec_server_segments_wf _ (by decide)).1 _ _ (by rw [List.length_replicate]; omega) (by rw [List.length_replicate]; omega)
example : (Srv.data ⟨29836258, 7, 1, 1, 256⟩ 0 (List.replicate 32768 1) (List.replicate 255 2) (List.replicate 255 3)).wf :=
  (spec_server_segments_wf _ (by decide)).2.1 _ _ _ _ (by decide) (by rw [List.length_replicate]; omega) (by rw [List.length_replicate]; omega) (by rw [List.length_replicate]; omega)
-- the low-entropy constructor accepts the document's example parameters, and the result is well formed
example : ∃ s, Srv.dataLE ⟨29836258, 7, 1, 1, 256⟩ 0 1 0x0f0f0f0f 0 [0x12, 0x34, 0x56, 0x78] [9] [8, 8] = some s ∧
    s.md = .le ⟨11, 1, 29836258, 7, 1, 1, 256, 0, 1, 8, 2, 0x0f0f0f0f, 4, 0⟩ ∧ s.wf := by
  refine ⟨_, rfl, rfl, ?_⟩
  exact (spec_server_segments_wf ⟨29836258, 7, 1, 1, 256⟩ (by decide)).2.2.2.1 0 1 0x0f0f0f0f 0
    [0x12, 0x34, 0x56, 0x78] [9] [8, 8] _ (by decide) (by decide) (by decide) (by decide) (by decide) (by decide) rfl
-- the fragment limits are met with equality: 32764 bytes in mode 1, 32768 in mode 4; 32765 is refused in mode 1
example : (Srv.dataLE ⟨0, 1, 1, 1, 1⟩ 0 1 0 0 (List.replicate 32764 0) [] []).isSome = true ∧
    (Srv.dataLE ⟨0, 1, 1, 1, 1⟩ 0 4 0 0 (List.replicate 32768 0) [] []).isSome = true ∧
    (Srv.dataLE ⟨0, 1, 1, 1, 1⟩ 0 1 0 0 (List.replicate 32765 0) [] []).isSome = false := by
  refine ⟨?_, ?_, ?_⟩
  · exact (spec_server_le_fragment_limits _ 0 1 0 0 _ [] [] (by decide) (by rw [List.length_replicate]; omega) (by rw [List.length_replicate]; omega)).2 (fun _ => by rw [List.length_replicate]; omega)
  · exact (spec_server_le_fragment_limits _ 0 4 0 0 _ [] [] (by decide) (by rw [List.length_replicate]; omega) (by rw [List.length_replicate]; omega)).2 (fun h => absurd h (by decide))
  · have h := spec_server_le_fragment_limits ⟨0, 1, 1, 1, 1⟩ 0 1 0 0 (List.replicate 32765 0) [] [] (by decide) (by rw [List.length_replicate]; omega) (by rw [List.length_replicate]; omega)
    cases hx : (Srv.dataLE ⟨0, 1, 1, 1, 1⟩ 0 1 0 0 (List.replicate 32765 0) [] []).isSome
    · rfl
    · have := h.1 hx rfl
      rw [List.length_replicate] at this; omega
-- the toy AEAD: a client segment, the receiver with three candidates learns the client's key and
-- the reply sender is built under it (hypothesis `hts` of `spec_tcp_reply_roundtrip`)
example : ∃ up, sealAll toyAead ⟨[1], List.replicate 24 7, false⟩
      [(⟨.session ⟨2, 29836258, 7, 0, 0, 3, 2⟩, [1, 2, 3], [], [8, 8]⟩, false)] = some up ∧
    (Srv.replyTx (feed toyAead (Rx.new [[0], [1], [2]]) up) (List.replicate 24 9)).map (·.key) = some [1] := by
  refine ⟨_, rfl, ?_⟩
  decide
-- UDP: the second of three candidates opens the toy datagram, the others fail on the metadata
example : ∃ d, udpSeal toyAead [1] (List.replicate 24 7) ⟨.session ⟨2, 29836258, 7, 0, 0, 3, 2⟩, [1, 2, 3], [], [8, 8]⟩ false = some d ∧
    (Srv.udpOpenCands toyAead d [[0], [1], [2]]).map (·.1) = some [1] := by
  refine ⟨_, rfl, ?_⟩
  decide

end Mieru.C09
