import Mieru.Gen.Consts
import Mieru.Proofs.Discovery
import Mieru.Proofs.SrcCache
/-!
# C07 — sessions are attributed to the authenticating user despite caches and reloads

Model: `Mieru.Discovery.tryState` (pkg/protocol/serveruser/registry.go) over a generation of `n`
users with ids `1..n` in name order, abstract `hint`/`auth` predicates, arbitrary cached ids;
`Mieru.SrcCache` (source_user_cache.go, one bucket); the reload transition system
`Mieru.Discovery.Step`.  Tied to the code on every run by harness/props/c07.go.
-/
set_option linter.unusedSimpArgs false
set_option linter.unusedVariables false
namespace Mieru.C07
open Mieru.Discovery

variable (n : Nat) (hint auth : Nat → Bool) (cached : List Nat) (mandatory : Bool)

/-- a user of the generation -/
def IsUser (n u : Nat) : Prop := 1 ≤ u ∧ u ≤ n

/-- `tryState` returns user `u` only if `u` is a registered user whose credential opens the
    segment — whatever the cache returned (stale, duplicate, zero, out-of-range ids included) -/
theorem tryState_sound (u : Nat) (o : Origin)
    (h : (tryState n hint auth cached mandatory).user = some (u, o)) :
    IsUser n u ∧ auth u = true := by
  unfold tryState at h
  split at h
  · rename_i u1 a1 h1
    simp only [Option.some.injEq, Prod.mk.injEq] at h
    obtain ⟨rfl, _⟩ := h
    obtain ⟨ha, _, hv, _⟩ := cp_some _ _ _ _ h1
    exact ⟨(validID_iff n _).mp hv, ha⟩
  · split at h
    · rename_i u2 a2 h2
      simp only [Option.some.injEq, Prod.mk.injEq] at h
      obtain ⟨rfl, _⟩ := h
      obtain ⟨ha, _, hm⟩ := rp_some _ _ _ _ h2
      exact ⟨(mem_ids n _).mp hm, ha⟩
    · split at h
      · simp at h
      · split at h
        · rename_i u3 a3 h3
          simp only [Option.some.injEq, Prod.mk.injEq] at h
          obtain ⟨rfl, _⟩ := h
          obtain ⟨ha, _, hv, _⟩ := cp_some _ _ _ _ h3
          exact ⟨(validID_iff n _).mp hv, ha⟩
        · split at h
          · rename_i u4 a4 h4
            simp only [Option.some.injEq, Prod.mk.injEq] at h
            obtain ⟨rfl, _⟩ := h
            obtain ⟨ha, _, hm⟩ := rp_some _ _ _ _ h4
            exact ⟨(mem_ids n _).mp hm, ha⟩
          · simp at h

/-- if some user named by the hint authenticates, the result is a user named by the hint that
    authenticates (found in one of the two hint phases) — also when a cached user with the same
    credential but another name would authenticate too -/
theorem tryState_hint_precedence (w : Nat) (hw : IsUser n w) (hh : hint w = true) (ha : auth w = true) :
    ∃ u o, (tryState n hint auth cached mandatory).user = some (u, o) ∧
      IsUser n u ∧ hint u = true ∧ auth u = true ∧ (o = .cachedHint ∨ o = .registryHint) := by
  unfold tryState
  split
  · rename_i u1 a1 h1
    obtain ⟨ha1, hh1, hv, _⟩ := cp_some _ _ _ _ h1
    exact ⟨u1, .cachedHint, rfl, (validID_iff n _).mp hv, hh1, ha1, Or.inl rfl⟩
  · rename_i a1 h1
    split
    · rename_i u2 a2 h2
      obtain ⟨ha2, hh2, hm⟩ := rp_some _ _ _ _ h2
      exact ⟨u2, .registryHint, rfl, (mem_ids n _).mp hm, hh2, ha2, Or.inr rfl⟩
    · rename_i a2 h2
      exfalso
      have hatt := cp_none _ _ _ h1
      obtain ⟨_, hall⟩ := rp_none _ _ _ h2
      by_cases hin : w ∈ a1.att
      · rcases hatt w hin with h0 | hf
        · simp at h0
        · rw [ha] at hf; cases hf
      · have := hall w ((mem_ids n w).mpr hw) hh hin
        rw [ha] at this; cases this

/-- every user fails in a run that returns nobody with optional hints -/
theorem all_fail_of_none (hm : mandatory = false)
    (h : (tryState n hint auth cached mandatory).user = none) :
    ∀ w, IsUser n w → auth w = false := by
  intro w hw
  unfold tryState at h
  split at h
  · simp at h
  · rename_i a1 h1
    split at h
    · simp at h
    · rename_i a2 h2
      subst hm
      simp only [Bool.false_eq_true, if_false] at h
      split at h
      · simp at h
      · rename_i a3 h3
        split at h
        · simp at h
        · rename_i a4 h4
          have hatt1 := cp_none _ _ _ h1
          obtain ⟨he2, hall2⟩ := rp_none _ _ _ h2
          have hatt3 := cp_none _ _ _ h3
          obtain ⟨he4, hall4⟩ := rp_none _ _ _ h4
          have hmem := (mem_ids n w).mpr hw
          -- everybody in `attempted` failed
          have hfail1 : ∀ x ∈ a1.att, auth x = false := by
            intro x hx
            rcases hatt1 x hx with h0 | hf
            · simp at h0
            · exact hf
          have hfail3 : ∀ x ∈ a3.att, auth x = false := by
            intro x hx
            rcases hatt3 x hx with h0 | hf
            · rw [he2] at h0; exact hfail1 x h0
            · exact hf
          cases hhw : hint w with
          | true =>
            by_cases hin : w ∈ a1.att
            · exact hfail1 w hin
            · exact hall2 w hmem hhw hin
          | false =>
            by_cases hin : w ∈ a3.att
            · exact hfail3 w hin
            · exact hall4 w hmem hhw hin

/-- with optional hints: somebody is returned iff some registered credential authenticates -/
theorem tryState_complete_optional (hm : mandatory = false) :
    (∃ u o, (tryState n hint auth cached mandatory).user = some (u, o)) ↔
    (∃ w, IsUser n w ∧ auth w = true) := by
  constructor
  · rintro ⟨u, o, h⟩
    exact ⟨u, tryState_sound n hint auth cached mandatory u o h⟩
  · rintro ⟨w, hw, ha⟩
    cases hres : (tryState n hint auth cached mandatory).user with
    | some p => exact ⟨p.1, p.2, rfl⟩
    | none =>
      have := all_fail_of_none n hint auth cached mandatory hm hres w hw
      rw [ha] at this; cases this

/-- with mandatory hints: whoever is returned is named by the hint (and authenticates); if no
    user named by the hint authenticates, the segment is rejected — even if another registered
    credential would open it -/
theorem tryState_mandatory (hm : mandatory = true) :
    (∀ u o, (tryState n hint auth cached mandatory).user = some (u, o) →
        IsUser n u ∧ hint u = true ∧ auth u = true) ∧
    ((∀ w, IsUser n w → hint w = true → auth w = false) →
        (tryState n hint auth cached mandatory).user = none) := by
  have key : ∀ u o, (tryState n hint auth cached mandatory).user = some (u, o) →
      IsUser n u ∧ hint u = true ∧ auth u = true := by
    intro u o h
    unfold tryState at h
    split at h
    · rename_i u1 a1 h1
      simp only [Option.some.injEq, Prod.mk.injEq] at h
      obtain ⟨rfl, _⟩ := h
      obtain ⟨ha, hh, hv, _⟩ := cp_some _ _ _ _ h1
      exact ⟨(validID_iff n _).mp hv, hh, ha⟩
    · split at h
      · rename_i u2 a2 h2
        simp only [Option.some.injEq, Prod.mk.injEq] at h
        obtain ⟨rfl, _⟩ := h
        obtain ⟨ha, hh, hmm⟩ := rp_some _ _ _ _ h2
        exact ⟨(mem_ids n _).mp hmm, hh, ha⟩
      · subst hm
        simp at h
  refine ⟨key, ?_⟩
  intro hnone
  cases hres : (tryState n hint auth cached mandatory).user with
  | none => rfl
  | some p =>
    obtain ⟨hu, hh, ha⟩ := key p.1 p.2 hres
    have := hnone p.1 hu hh
    rw [ha] at this; cases this

/-- DISTINCT CREDENTIALS (at most one registered user authenticates): accept/reject and the
    attributed user do not depend on what the source cache returned — any two cached-id lists
    (so also: any two source addresses, a cold cache, expired or evicted contents) give the same
    user -/
theorem tryState_cache_independent
    (huniq : ∀ v w, IsUser n v → IsUser n w → auth v = true → auth w = true → v = w)
    (cached' : List Nat) :
    ((tryState n hint auth cached mandatory).user.map (·.1)) =
    ((tryState n hint auth cached' mandatory).user.map (·.1)) := by
  cases hm : mandatory with
  | false =>
    cases h1 : (tryState n hint auth cached false).user with
    | none =>
      cases h2 : (tryState n hint auth cached' false).user with
      | none => rfl
      | some p2 =>
        obtain ⟨hu, ha⟩ := tryState_sound n hint auth cached' false p2.1 p2.2 h2
        have := all_fail_of_none n hint auth cached false rfl h1 p2.1 hu
        rw [ha] at this; cases this
    | some p1 =>
      obtain ⟨hu1, ha1⟩ := tryState_sound n hint auth cached false p1.1 p1.2 h1
      cases h2 : (tryState n hint auth cached' false).user with
      | none =>
        have := all_fail_of_none n hint auth cached' false rfl h2 p1.1 hu1
        rw [ha1] at this; cases this
      | some p2 =>
        obtain ⟨hu2, ha2⟩ := tryState_sound n hint auth cached' false p2.1 p2.2 h2
        simp only [Option.map_some, Option.some.injEq]
        exact huniq _ _ hu1 hu2 ha1 ha2
  | true =>
    obtain ⟨k1, n1⟩ := tryState_mandatory n hint auth cached true rfl
    obtain ⟨k2, n2⟩ := tryState_mandatory n hint auth cached' true rfl
    cases h1 : (tryState n hint auth cached true).user with
    | none =>
      cases h2 : (tryState n hint auth cached' true).user with
      | none => rfl
      | some p2 =>
        obtain ⟨hu, hh, ha⟩ := k2 p2.1 p2.2 h2
        obtain ⟨u, o, hr, _⟩ := tryState_hint_precedence n hint auth cached true p2.1 hu hh ha
        rw [h1] at hr; cases hr
    | some p1 =>
      obtain ⟨hu1, hh1, ha1⟩ := k1 p1.1 p1.2 h1
      cases h2 : (tryState n hint auth cached' true).user with
      | none =>
        obtain ⟨u, o, hr, _⟩ := tryState_hint_precedence n hint auth cached' true p1.1 hu1 hh1 ha1
        rw [h2] at hr; cases hr
      | some p2 =>
        obtain ⟨hu2, _, ha2⟩ := k2 p2.1 p2.2 h2
        simp only [Option.map_some, Option.some.injEq]
        exact huniq _ _ hu1 hu2 ha1 ha2

/-- each user's decryptor is run at most once per `tryState` (the cache returns at most 16 ids) -/
theorem tryState_each_user_once (hlen : cached.length ≤ 16) :
    (tryState n hint auth cached mandatory).tried.Nodup := by
  have hadd := cnt_add (hint := hint) cached
  have hids := ids_nodup n
  -- phase 1
  cases h1 : cachedPhase n hint auth true cached { att := [], tried := [] } with
  | mk r1 a1 =>
  obtain ⟨t1, ht1, hatt1, hnd1, hp1, hl1⟩ := cp_spec cached _ a1 r1 h1
    (by simp only [List.length_nil, slots]; omega)
  simp only [List.nil_append] at ht1 hatt1
  -- phase 2
  cases h2 : registryPhase hint auth true (ids n) a1 with
  | mk r2 a2 =>
  obtain ⟨t2, ht2, hatt2, hsub2, hp2⟩ := rp_spec (ids n) a1 a2 r2 h2
  have hnd2 : t2.Nodup := hsub2.nodup hids
  have hnd12 : (t1 ++ t2).Nodup := nodup_app hnd1 hnd2 (fun x hx hx2 => (hp2 x hx2).1 (hatt1 ▸ hx))
  -- phase 3
  cases h3 : cachedPhase n hint auth false cached a2 with
  | mk r3 a3 =>
  obtain ⟨t3, ht3, hatt3, hnd3, hp3, hl3⟩ := cp_spec cached a2 a3 r3 h3
    (by rw [hatt2, hatt1]; simp only [slots]; omega)
  have hnd123 : ((t1 ++ t2) ++ t3).Nodup := by
    refine nodup_app hnd12 hnd3 ?_
    intro x hx hx3
    have hf := (hp3 x hx3).2
    rcases List.mem_append.mp hx with hx1 | hx2
    · rw [(hp1 x hx1).2] at hf; cases hf
    · rw [(hp2 x hx2).2] at hf; cases hf
  -- phase 4
  cases h4 : registryPhase hint auth false (ids n) a3 with
  | mk r4 a4 =>
  obtain ⟨t4, ht4, hatt4, hsub4, hp4⟩ := rp_spec (ids n) a3 a4 r4 h4
  have hnd4 : t4.Nodup := hsub4.nodup hids
  have hnd1234 : (((t1 ++ t2) ++ t3) ++ t4).Nodup := by
    refine nodup_app hnd123 hnd4 ?_
    intro x hx hx4
    have hf := (hp4 x hx4).2
    have hnin := (hp4 x hx4).1
    rcases List.mem_append.mp hx with hx12 | hx3
    · rcases List.mem_append.mp hx12 with hx1 | hx2
      · rw [(hp1 x hx1).2] at hf; cases hf
      · rw [(hp2 x hx2).2] at hf; cases hf
    · apply hnin
      rw [hatt3]
      exact List.mem_append.mpr (Or.inr hx3)
  have e1 : a1.tried = t1 := ht1
  have e2 : a2.tried = t1 ++ t2 := by rw [ht2, e1]
  have e3 : a3.tried = (t1 ++ t2) ++ t3 := by rw [ht3, e2]
  have e4 : a4.tried = ((t1 ++ t2) ++ t3) ++ t4 := by rw [ht4, e3]
  unfold tryState
  rw [h1]
  cases r1 with
  | some u => simp only [e1]; exact hnd1
  | none =>
    simp only
    rw [h2]
    cases r2 with
    | some u => simp only [e2]; exact hnd12
    | none =>
      simp only
      cases mandatory with
      | true => simp only [if_true, e2]; exact hnd12
      | false =>
        simp only [Bool.false_eq_true, if_false]
        rw [h3]
        cases r3 with
        | some u => simp only [e3]; exact hnd123
        | none =>
          simp only
          rw [h4]
          cases r4 with
          | some u => simp only [e4]; exact hnd1234
          | none => simp only [e4]; exact hnd1234

/-- ids the cache returns that name nobody in this generation (0, above `n`) are skipped without
    any effect: same result, same decryptor runs as if they were not there -/
theorem lookup_stale_ids_harmless :
    tryState n hint auth cached mandatory
      = tryState n hint auth (cached.filter (validID n)) mandatory := by
  unfold tryState
  simp only [cp_filter_valid]

/-! ## reload: `SetUsers` ‖ `Discover` -/

/-- generation `g` was the published one at some instant since discovery started in `s0` -/
def CurrentSince (s0 s : Sys) (g : Nat) : Prop :=
  g = s0.published ∨ (g ∈ s.history ∧ g ∉ s0.history)

theorem reach_inv (rc : Bool) (s0 s : Sys) (h0 : s0.disc = .idle) (hr : Reach rc s0 s) :
    (∀ x, x ∈ s0.history → x ∈ s.history) ∧
    CurrentSince s0 s s.published ∧
    (∀ g, s.disc = .tried g ∨ s.disc = .returned g → CurrentSince s0 s g) := by
  induction hr with
  | refl =>
    refine ⟨fun _ h => h, Or.inl rfl, ?_⟩
    intro g hg
    rw [h0] at hg
    rcases hg with hg | hg <;> cases hg
  | step _ hstep ih =>
    obtain ⟨hmono, hpub, hdisc⟩ := ih
    cases hstep with
    | reload g hfresh =>
      refine ⟨fun x hx => List.mem_append.mpr (Or.inl (hmono x hx)), ?_, ?_⟩
      · right
        exact ⟨List.mem_append.mpr (Or.inr (List.mem_singleton.mpr rfl)), fun hin => hfresh (hmono g hin)⟩
      · intro g' hg'
        rcases hdisc g' hg' with h | ⟨h1, h2⟩
        · exact Or.inl h
        · exact Or.inr ⟨List.mem_append.mpr (Or.inl h1), h2⟩
    | load hidle =>
      refine ⟨hmono, hpub, ?_⟩
      intro g' hg'
      simp only [DPhase.tried.injEq, reduceCtorEq, or_false] at hg'
      subst hg'
      exact hpub
    | retry g hd hreq hne =>
      refine ⟨hmono, hpub, ?_⟩
      intro g' hg'
      rcases hg' with hg' | hg' <;> cases hg'
    | ret g hd hok =>
      refine ⟨hmono, hpub, ?_⟩
      intro g' hg'
      simp only [reduceCtorEq, DPhase.returned.injEq, false_or] at hg'
      subst hg'
      exact hdisc g (Or.inl hd)

/-- OVER ALL INTERLEAVINGS of reloads with one discovery (with or without `requireCurrent`): the
    generation a result is attributed to was the published one at some instant after the
    discovery started -/
theorem discover_generation_current (rc : Bool) (s0 s : Sys) (h0 : s0.disc = .idle)
    (hr : Reach rc s0 s) (g : Nat) (hg : s.disc = .returned g) : CurrentSince s0 s g :=
  (reach_inv rc s0 s h0 hr).2.2 g (Or.inr hg)

/-- hence: once a reload has completed, a discovery that starts afterwards is never attributed to
    a retired generation (so no credential that is no longer registered authenticates it) -/
theorem discover_never_retired (rc : Bool) (s0 s : Sys) (h0 : s0.disc = .idle)
    (hr : Reach rc s0 s) (old : Nat) (hold : old ∈ s0.history) (hne : old ≠ s0.published) :
    s.disc ≠ .returned old := by
  intro hg
  rcases discover_generation_current rc s0 s h0 hr old hg with h | ⟨_, h⟩
  · exact hne h
  · exact h hold

/-- with `requireCurrent` (TCP) the result is handed over only at an instant at which its
    generation IS the published one -/
theorem discover_requireCurrent_at_return (s s' : Sys) (g : Nat) (hstep : Step true s s')
    (hbefore : ∀ g', s.disc ≠ .returned g') (hafter : s'.disc = .returned g) : s.published = g := by
  cases hstep with
  | reload g' hfresh => exact absurd hafter (hbefore g)
  | load hidle => simp at hafter
  | retry g' hd hreq hne => simp at hafter
  | ret g' hd hok =>
    simp only [DPhase.returned.injEq] at hafter
    subst hafter
    rcases hok with h | h
    · cases h
    · exact h

/-- non-vacuity: a reload racing with a discovery; the stale result is retried -/
example : Reach true ⟨0, [0], .idle, 0⟩ ⟨1, [0, 1], .returned 1, 0⟩ := by
  refine .step (.step (.step (.step (.step (.refl _) (.load _ rfl)) (.reload _ 1 (by decide)))
    (.retry _ 0 rfl rfl (by decide))) (.load _ rfl)) (.ret _ 1 rfl (Or.inr rfl))

/-! ## the source-user cache -/

open Mieru.SrcCache in
/-- After ANY history of recorded authentications (any keys sharing the bucket, any user ids, any
    ticks — so every expiry / eviction / way-replacement pattern), `lookup key now` returns only
    user ids that were recorded for EXACTLY that key at a tick less than 600 ticks before `now`
    (wrapping 32-bit arithmetic), each at most once, at most 16 of them. -/
theorem lookup_sound (ops : List (Nat × Nat × Nat)) (key now : Nat) :
    (∀ id ∈ lookup (run ops) key now,
        id ≠ 0 ∧ ∃ t, (key, id, t) ∈ ops ∧ age now t < life) ∧
    (lookup (run ops) key now).Nodup ∧
    (lookup (run ops) key now).length ≤ 16 := by
  have hinv := inv_run ops
  unfold lookup
  split
  · rename_i e hfind
    have hmem : some e ∈ run ops := List.mem_of_find?_eq_some hfind
    have hkey : e.key = key := by
      have := List.find?_some hfind
      simpa [isKey] using this
    obtain ⟨hlen, hslots⟩ := hinv e hmem
    split
    · exact ⟨by simp, List.nodup_nil, by simp⟩
    · obtain ⟨hlive, hnd, hl⟩ := candidates_spec now e.users e.users [] (fun _ h => h) (by simp) (by simp)
      have hperm : ((sortByAge (candidates now e.users [])).map (·.1)).Perm
          ((candidates now e.users []).map (·.1)) := (sortByAge_perm _).map _
      refine ⟨?_, hperm.nodup_iff.mpr hnd, ?_⟩
      · intro id hid
        obtain ⟨hne, seen, hin, hexp⟩ := hlive id (hperm.mem_iff.mp hid)
        refine ⟨hne, seen, ?_, ?_⟩
        · have := hslots (id, seen) hin hne
          simpa [hkey] using this
        · simpa [expired] using hexp
      · rw [hperm.length_eq]
        simp only [List.length_map, List.length_nil, Nat.zero_add] at hl ⊢
        rw [hlen] at hl
        exact hl
  · exact ⟨by simp, List.nodup_nil, by simp⟩

open Mieru.SrcCache in
/-- non-vacuity: two users recorded for source 7, one for a colliding source 9; the lookup for 7
    returns exactly the two, most recent first, and nothing of source 9 -/
example : lookup (run [(7, 3, 100), (9, 5, 110), (7, 4, 120)]) 7 130 = [4, 3] := by decide

open Mieru.SrcCache in
/-- … and 600 ticks later the older association has expired -/
example : lookup (run [(7, 3, 100), (9, 5, 110), (7, 4, 120)]) 7 700 = [4] := by decide

/-! ## non-vacuity and the shared-credential boundary

Three users; users 2 and 3 share one credential (both authenticate). -/

/-- the hint names user 3, the cache holds user 2: the hinted user wins (registry hint phase) -/
example : (tryState 3 (fun i => i == 3) (fun i => i == 2 || i == 3) [2] false).user
    = some (3, .registryHint) := by decide
/-- the hint names nobody: with a shared credential the attribution DOES follow the cache … -/
example : (tryState 3 (fun _ => false) (fun i => i == 2 || i == 3) [3] false).user
    = some (3, .cachedFallback) := by decide
/-- … and a cold cache gives the first in name order (this is why cache independence is stated
    for distinct credentials only) -/
example : (tryState 3 (fun _ => false) (fun i => i == 2 || i == 3) [] false).user
    = some (2, .registryFallback) := by decide
/-- mandatory hints: same segment, rejected -/
example : (tryState 3 (fun _ => false) (fun i => i == 2 || i == 3) [3] true).user = none := by decide
/-- stale / duplicate / out-of-range cached ids, every user tried once -/
example : (tryState 3 (fun i => i == 1) (fun i => i == 3) [0, 9, 2, 2, 1, 1] false)
    = { user := some (3, .registryFallback), tried := [1, 2, 3] } := by decide

/-- tie (T): the cache geometry and lifetime the model uses are the constants of the CURRENT source
    (regenerated into `Mieru.Gen.Consts` from the compiled repository on every run) -/
theorem cache_constants_match_source :
    (Mieru.SrcCache.life : Int) = Mieru.Gen.sourceUserCacheLifeSeconds ∧
    (Mieru.SrcCache.nWays : Int) = Mieru.Gen.sourceUserCacheWays ∧
    (Mieru.SrcCache.nSlots : Int) = Mieru.Gen.sourceUserCacheUsers ∧
    (Mieru.Discovery.slots : Int) = Mieru.Gen.sourceUserCacheUsers := by decide

end Mieru.C07
