import Mieru.Gen.Consts
import Mieru.Proofs.Discovery
import Mieru.Proofs.SrcCache
import Mieru.Proofs.Session
import Mieru.Model.Reload
import Mieru.Proofs.SrcCacheGen
/-!
# C07 — sessions are attributed to the authenticating user despite caches and reloads

Model: `Mieru.Discovery.tryState` (pkg/protocol/serveruser/registry.go) over a generation of `n`
users with ids `1..n` in name order, abstract `hint`/`auth` predicates, arbitrary cached ids;
`Mieru.SrcCache` (source_user_cache.go, one bucket); `Mieru.Session` (the server branch of
`readOneSegment` on both underlays: existing-session match ∨ Discover); `Mieru.Reload` (`SetUsers` ‖
`discoverUser` with the user sets).  Tied to the code on every run by harness/props/c07*.go.
-/
set_option linter.unusedSimpArgs false
set_option linter.unusedVariables false
namespace Mieru.C07
open Mieru.Discovery

variable (n : Nat) (hint auth : Nat → Bool) (cached : List Nat) (mandatory : Bool)

/-- a user of the generation -/
def IsUser (n u : Nat) : Prop := 1 ≤ u ∧ u ≤ n

/-- `tryState` returns user `u` only if `u` is a registered user whose credential opens the
    segment — whatever the cache returned (stale, duplicate, zero, out-of-range ids included) -/
theorem tryState_sound (u : Nat) (o : Origin)
    (h : (tryState n hint auth cached mandatory).user = some (u, o)) :
    IsUser n u ∧ auth u = true := by
  unfold tryState at h
  split at h
  · rename_i u1 a1 h1
    simp only [Option.some.injEq, Prod.mk.injEq] at h
    obtain ⟨rfl, _⟩ := h
    obtain ⟨ha, _, hv, _⟩ := cp_some _ _ _ _ h1
    exact ⟨(validID_iff n _).mp hv, ha⟩
  · split at h
    · rename_i u2 a2 h2
      simp only [Option.some.injEq, Prod.mk.injEq] at h
      obtain ⟨rfl, _⟩ := h
      obtain ⟨ha, _, hm⟩ := rp_some _ _ _ _ h2
      exact ⟨(mem_ids n _).mp hm, ha⟩
    · split at h
      · simp at h
      · split at h
        · rename_i u3 a3 h3
          simp only [Option.some.injEq, Prod.mk.injEq] at h
          obtain ⟨rfl, _⟩ := h
          obtain ⟨ha, _, hv, _⟩ := cp_some _ _ _ _ h3
          exact ⟨(validID_iff n _).mp hv, ha⟩
        · split at h
          · rename_i u4 a4 h4
            simp only [Option.some.injEq, Prod.mk.injEq] at h
            obtain ⟨rfl, _⟩ := h
            obtain ⟨ha, _, hm⟩ := rp_some _ _ _ _ h4
            exact ⟨(mem_ids n _).mp hm, ha⟩
          · simp at h

/-- if some user named by the hint authenticates, the result is a user named by the hint that
    authenticates (found in one of the two hint phases) — also when a cached user with the same
    credential but another name would authenticate too -/
theorem tryState_hint_precedence (w : Nat) (hw : IsUser n w) (hh : hint w = true) (ha : auth w = true) :
    ∃ u o, (tryState n hint auth cached mandatory).user = some (u, o) ∧
      IsUser n u ∧ hint u = true ∧ auth u = true ∧ (o = .cachedHint ∨ o = .registryHint) := by
  unfold tryState
  split
  · rename_i u1 a1 h1
    obtain ⟨ha1, hh1, hv, _⟩ := cp_some _ _ _ _ h1
    exact ⟨u1, .cachedHint, rfl, (validID_iff n _).mp hv, hh1, ha1, Or.inl rfl⟩
  · rename_i a1 h1
    split
    · rename_i u2 a2 h2
      obtain ⟨ha2, hh2, hm⟩ := rp_some _ _ _ _ h2
      exact ⟨u2, .registryHint, rfl, (mem_ids n _).mp hm, hh2, ha2, Or.inr rfl⟩
    · rename_i a2 h2
      exfalso
      have hatt := cp_none _ _ _ h1
      obtain ⟨_, hall⟩ := rp_none _ _ _ h2
      by_cases hin : w ∈ a1.att
      · rcases hatt w hin with h0 | hf
        · simp at h0
        · rw [ha] at hf; cases hf
      · have := hall w ((mem_ids n w).mpr hw) hh hin
        rw [ha] at this; cases this

/-- every user fails in a run that returns nobody with optional hints -/
theorem all_fail_of_none (hm : mandatory = false)
    (h : (tryState n hint auth cached mandatory).user = none) :
    ∀ w, IsUser n w → auth w = false := by
  intro w hw
  unfold tryState at h
  split at h
  · simp at h
  · rename_i a1 h1
    split at h
    · simp at h
    · rename_i a2 h2
      subst hm
      simp only [Bool.false_eq_true, if_false] at h
      split at h
      · simp at h
      · rename_i a3 h3
        split at h
        · simp at h
        · rename_i a4 h4
          have hatt1 := cp_none _ _ _ h1
          obtain ⟨he2, hall2⟩ := rp_none _ _ _ h2
          have hatt3 := cp_none _ _ _ h3
          obtain ⟨he4, hall4⟩ := rp_none _ _ _ h4
          have hmem := (mem_ids n w).mpr hw
          -- everybody in `attempted` failed
          have hfail1 : ∀ x ∈ a1.att, auth x = false := by
            intro x hx
            rcases hatt1 x hx with h0 | hf
            · simp at h0
            · exact hf
          have hfail3 : ∀ x ∈ a3.att, auth x = false := by
            intro x hx
            rcases hatt3 x hx with h0 | hf
            · rw [he2] at h0; exact hfail1 x h0
            · exact hf
          cases hhw : hint w with
          | true =>
            by_cases hin : w ∈ a1.att
            · exact hfail1 w hin
            · exact hall2 w hmem hhw hin
          | false =>
            by_cases hin : w ∈ a3.att
            · exact hfail3 w hin
            · exact hall4 w hmem hhw hin

/-- with optional hints: somebody is returned iff some registered credential authenticates -/
theorem tryState_complete_optional (hm : mandatory = false) :
    (∃ u o, (tryState n hint auth cached mandatory).user = some (u, o)) ↔
    (∃ w, IsUser n w ∧ auth w = true) := by
  constructor
  · rintro ⟨u, o, h⟩
    exact ⟨u, tryState_sound n hint auth cached mandatory u o h⟩
  · rintro ⟨w, hw, ha⟩
    cases hres : (tryState n hint auth cached mandatory).user with
    | some p => exact ⟨p.1, p.2, rfl⟩
    | none =>
      have := all_fail_of_none n hint auth cached mandatory hm hres w hw
      rw [ha] at this; cases this

/-- with mandatory hints: whoever is returned is named by the hint (and authenticates); if no
    user named by the hint authenticates, the segment is rejected — even if another registered
    credential would open it -/
theorem tryState_mandatory (hm : mandatory = true) :
    (∀ u o, (tryState n hint auth cached mandatory).user = some (u, o) →
        IsUser n u ∧ hint u = true ∧ auth u = true) ∧
    ((∀ w, IsUser n w → hint w = true → auth w = false) →
        (tryState n hint auth cached mandatory).user = none) := by
  have key : ∀ u o, (tryState n hint auth cached mandatory).user = some (u, o) →
      IsUser n u ∧ hint u = true ∧ auth u = true := by
    intro u o h
    unfold tryState at h
    split at h
    · rename_i u1 a1 h1
      simp only [Option.some.injEq, Prod.mk.injEq] at h
      obtain ⟨rfl, _⟩ := h
      obtain ⟨ha, hh, hv, _⟩ := cp_some _ _ _ _ h1
      exact ⟨(validID_iff n _).mp hv, hh, ha⟩
    · split at h
      · rename_i u2 a2 h2
        simp only [Option.some.injEq, Prod.mk.injEq] at h
        obtain ⟨rfl, _⟩ := h
        obtain ⟨ha, hh, hmm⟩ := rp_some _ _ _ _ h2
        exact ⟨(mem_ids n _).mp hmm, hh, ha⟩
      · subst hm
        simp at h
  refine ⟨key, ?_⟩
  intro hnone
  cases hres : (tryState n hint auth cached mandatory).user with
  | none => rfl
  | some p =>
    obtain ⟨hu, hh, ha⟩ := key p.1 p.2 hres
    have := hnone p.1 hu hh
    rw [ha] at this; cases this

/-- DISTINCT CREDENTIALS (at most one registered user authenticates): accept/reject and the
    attributed user do not depend on what the source cache returned — any two cached-id lists
    (so also: any two source addresses, a cold cache, expired or evicted contents) give the same
    user -/
theorem tryState_cache_independent
    (huniq : ∀ v w, IsUser n v → IsUser n w → auth v = true → auth w = true → v = w)
    (cached' : List Nat) :
    ((tryState n hint auth cached mandatory).user.map (·.1)) =
    ((tryState n hint auth cached' mandatory).user.map (·.1)) := by
  cases hm : mandatory with
  | false =>
    cases h1 : (tryState n hint auth cached false).user with
    | none =>
      cases h2 : (tryState n hint auth cached' false).user with
      | none => rfl
      | some p2 =>
        obtain ⟨hu, ha⟩ := tryState_sound n hint auth cached' false p2.1 p2.2 h2
        have := all_fail_of_none n hint auth cached false rfl h1 p2.1 hu
        rw [ha] at this; cases this
    | some p1 =>
      obtain ⟨hu1, ha1⟩ := tryState_sound n hint auth cached false p1.1 p1.2 h1
      cases h2 : (tryState n hint auth cached' false).user with
      | none =>
        have := all_fail_of_none n hint auth cached' false rfl h2 p1.1 hu1
        rw [ha1] at this; cases this
      | some p2 =>
        obtain ⟨hu2, ha2⟩ := tryState_sound n hint auth cached' false p2.1 p2.2 h2
        simp only [Option.map_some, Option.some.injEq]
        exact huniq _ _ hu1 hu2 ha1 ha2
  | true =>
    obtain ⟨k1, n1⟩ := tryState_mandatory n hint auth cached true rfl
    obtain ⟨k2, n2⟩ := tryState_mandatory n hint auth cached' true rfl
    cases h1 : (tryState n hint auth cached true).user with
    | none =>
      cases h2 : (tryState n hint auth cached' true).user with
      | none => rfl
      | some p2 =>
        obtain ⟨hu, hh, ha⟩ := k2 p2.1 p2.2 h2
        obtain ⟨u, o, hr, _⟩ := tryState_hint_precedence n hint auth cached true p2.1 hu hh ha
        rw [h1] at hr; cases hr
    | some p1 =>
      obtain ⟨hu1, hh1, ha1⟩ := k1 p1.1 p1.2 h1
      cases h2 : (tryState n hint auth cached' true).user with
      | none =>
        obtain ⟨u, o, hr, _⟩ := tryState_hint_precedence n hint auth cached' true p1.1 hu1 hh1 ha1
        rw [h2] at hr; cases hr
      | some p2 =>
        obtain ⟨hu2, _, ha2⟩ := k2 p2.1 p2.2 h2
        simp only [Option.map_some, Option.some.injEq]
        exact huniq _ _ hu1 hu2 ha1 ha2

/-- each user's decryptor is run at most once per `tryState` (the cache returns at most 16 ids) -/
theorem tryState_each_user_once (hlen : cached.length ≤ 16) :
    (tryState n hint auth cached mandatory).tried.Nodup := by
  have hadd := cnt_add (hint := hint) cached
  have hids := ids_nodup n
  -- phase 1
  cases h1 : cachedPhase n hint auth true cached { att := [], tried := [] } with
  | mk r1 a1 =>
  obtain ⟨t1, ht1, hatt1, hnd1, hp1, hl1⟩ := cp_spec cached _ a1 r1 h1
    (by simp only [List.length_nil, slots]; omega)
  simp only [List.nil_append] at ht1 hatt1
  -- phase 2
  cases h2 : registryPhase hint auth true (ids n) a1 with
  | mk r2 a2 =>
  obtain ⟨t2, ht2, hatt2, hsub2, hp2⟩ := rp_spec (ids n) a1 a2 r2 h2
  have hnd2 : t2.Nodup := hsub2.nodup hids
  have hnd12 : (t1 ++ t2).Nodup := nodup_app hnd1 hnd2 (fun x hx hx2 => (hp2 x hx2).1 (hatt1 ▸ hx))
  -- phase 3
  cases h3 : cachedPhase n hint auth false cached a2 with
  | mk r3 a3 =>
  obtain ⟨t3, ht3, hatt3, hnd3, hp3, hl3⟩ := cp_spec cached a2 a3 r3 h3
    (by rw [hatt2, hatt1]; simp only [slots]; omega)
  have hnd123 : ((t1 ++ t2) ++ t3).Nodup := by
    refine nodup_app hnd12 hnd3 ?_
    intro x hx hx3
    have hf := (hp3 x hx3).2
    rcases List.mem_append.mp hx with hx1 | hx2
    · rw [(hp1 x hx1).2] at hf; cases hf
    · rw [(hp2 x hx2).2] at hf; cases hf
  -- phase 4
  cases h4 : registryPhase hint auth false (ids n) a3 with
  | mk r4 a4 =>
  obtain ⟨t4, ht4, hatt4, hsub4, hp4⟩ := rp_spec (ids n) a3 a4 r4 h4
  have hnd4 : t4.Nodup := hsub4.nodup hids
  have hnd1234 : (((t1 ++ t2) ++ t3) ++ t4).Nodup := by
    refine nodup_app hnd123 hnd4 ?_
    intro x hx hx4
    have hf := (hp4 x hx4).2
    have hnin := (hp4 x hx4).1
    rcases List.mem_append.mp hx with hx12 | hx3
    · rcases List.mem_append.mp hx12 with hx1 | hx2
      · rw [(hp1 x hx1).2] at hf; cases hf
      · rw [(hp2 x hx2).2] at hf; cases hf
    · apply hnin
      rw [hatt3]
      exact List.mem_append.mpr (Or.inr hx3)
  have e1 : a1.tried = t1 := ht1
  have e2 : a2.tried = t1 ++ t2 := by rw [ht2, e1]
  have e3 : a3.tried = (t1 ++ t2) ++ t3 := by rw [ht3, e2]
  have e4 : a4.tried = ((t1 ++ t2) ++ t3) ++ t4 := by rw [ht4, e3]
  unfold tryState
  rw [h1]
  cases r1 with
  | some u => simp only [e1]; exact hnd1
  | none =>
    simp only
    rw [h2]
    cases r2 with
    | some u => simp only [e2]; exact hnd12
    | none =>
      simp only
      cases mandatory with
      | true => simp only [if_true, e2]; exact hnd12
      | false =>
        simp only [Bool.false_eq_true, if_false]
        rw [h3]
        cases r3 with
        | some u => simp only [e3]; exact hnd123
        | none =>
          simp only
          rw [h4]
          cases r4 with
          | some u => simp only [e4]; exact hnd1234
          | none => simp only [e4]; exact hnd1234

/-- ids the cache returns that name nobody in this generation (0, above `n`) are skipped without
    any effect: same result, same decryptor runs as if they were not there -/
theorem lookup_stale_ids_harmless :
    tryState n hint auth cached mandatory
      = tryState n hint auth (cached.filter (validID n)) mandatory := by
  unfold tryState
  simp only [cp_filter_valid]

/-! ## the source-user cache -/

open Mieru.SrcCache in
/-- After ANY history of recorded authentications (any keys sharing the bucket, any user ids, any
    ticks — so every expiry / eviction / way-replacement pattern), `lookup key now` returns only
    user ids that were recorded for EXACTLY that key at a tick less than 600 ticks before `now`
    (wrapping 32-bit arithmetic), each at most once, at most 16 of them. -/
theorem lookup_sound (ops : List (Nat × Nat × Nat)) (key now : Nat) :
    (∀ id ∈ lookup (run ops) key now,
        id ≠ 0 ∧ ∃ t, (key, id, t) ∈ ops ∧ age now t < life) ∧
    (lookup (run ops) key now).Nodup ∧
    (lookup (run ops) key now).length ≤ 16 := by
  have hinv := inv_run ops
  unfold lookup
  split
  · rename_i e hfind
    have hmem : some e ∈ run ops := List.mem_of_find?_eq_some hfind
    have hkey : e.key = key := by
      have := List.find?_some hfind
      simpa [isKey] using this
    obtain ⟨hlen, hslots⟩ := hinv e hmem
    split
    · exact ⟨by simp, List.nodup_nil, by simp⟩
    · obtain ⟨hlive, hnd, hl⟩ := candidates_spec now e.users e.users [] (fun _ h => h) (by simp) (by simp)
      have hperm : ((sortByAge (candidates now e.users [])).map (·.1)).Perm
          ((candidates now e.users []).map (·.1)) := (sortByAge_perm _).map _
      refine ⟨?_, hperm.nodup_iff.mpr hnd, ?_⟩
      · intro id hid
        obtain ⟨hne, seen, hin, hexp⟩ := hlive id (hperm.mem_iff.mp hid)
        refine ⟨hne, seen, ?_, ?_⟩
        · have := hslots (id, seen) hin hne
          simpa [hkey] using this
        · simpa [expired] using hexp
      · rw [hperm.length_eq]
        simp only [List.length_map, List.length_nil, Nat.zero_add] at hl ⊢
        rw [hlen] at hl
        exact hl
  · exact ⟨by simp, List.nodup_nil, by simp⟩

open Mieru.SrcCache in
/-- COMPOSED (audit U2): on what the cache can actually return — after ANY history of records, for
    any key and instant — no user's decryptor runs twice in a `tryState`; the capacity hypothesis of
    `tryState_each_user_once` is discharged by `lookup_sound` -/
theorem tryState_on_lookup_each_user_once (ops : List (Nat × Nat × Nat)) (key now : Nat) :
    (tryState n hint auth (lookup (run ops) key now) mandatory).tried.Nodup :=
  tryState_each_user_once n hint auth _ mandatory (lookup_sound ops key now).2.2

open Mieru.SrcCache in
/-- MRU ORDER AND COMPLETENESS of `lookup` (audit W3) — for ANY bucket: if the first way holding
    `key` is `e` and the source has not expired, `lookup` returns EXACTLY the users with a live
    (non-empty, unexpired) slot in `e`, each with the age of its freshest live slot, sorted by that
    age — most recently seen first — and stably (users of equal age in the order of the candidate
    scan).  A `lookup` that returns `[]`, or the right users in another order, does not satisfy this. -/
theorem lookup_mru_order (b : Bucket) (key now : Nat) (e : Entry)
    (hfind : b.find? (isKey key) = some (some e)) (hlive : expired now e.lastActive = false) :
    lookup b key now = (lookupAged b key now).map (·.1) ∧
    (lookupAged b key now).Pairwise (fun a c => a.2 ≤ c.2) ∧
    (∀ k, (lookupAged b key now).filter (fun c => c.2 == k)
        = (candidates now e.users []).filter (fun c => c.2 == k)) ∧
    (∀ id, id ∈ lookup b key now ↔ id ≠ 0 ∧ ∃ seen, (id, seen) ∈ e.users ∧ expired now seen = false) ∧
    (∀ p ∈ lookupAged b key now,
        (∃ seen, (p.1, seen) ∈ e.users ∧ expired now seen = false ∧ p.2 = age now seen) ∧
        ∀ seen, (p.1, seen) ∈ e.users → expired now seen = false → p.2 ≤ age now seen) := by
  have hl : lookup b key now = (sortByAge (candidates now e.users [])).map (·.1) := by
    unfold lookup; rw [hfind]; simp [hlive]
  have ha : lookupAged b key now = sortByAge (candidates now e.users []) := by
    unfold lookupAged; rw [hfind]; simp [hlive]
  obtain ⟨_, h2, h3, h4⟩ := candidates_ok_nil now e.users
  have hperm := sortByAge_perm (candidates now e.users [])
  refine ⟨by rw [hl, ha], by rw [ha]; exact sortByAge_sorted _, fun k => by rw [ha]; exact sortByAge_stable _ k, ?_, ?_⟩
  · intro id
    rw [hl]
    constructor
    · intro hin
      obtain ⟨c, hc, hce⟩ := List.mem_map.mp hin
      obtain ⟨hne, seen, hs, he, _⟩ := h2 c (hperm.mem_iff.mp hc)
      subst hce
      exact ⟨hne, seen, hs, he⟩
    · rintro ⟨hne, seen, hs, he⟩
      obtain ⟨c, hc, hce⟩ := List.mem_map.mp (h4 id seen hs hne he)
      exact List.mem_map.mpr ⟨c, hperm.mem_iff.mpr hc, hce⟩
  · intro p hp
    rw [ha] at hp
    have hp' := hperm.mem_iff.mp hp
    obtain ⟨_, seen, hs, he, hage⟩ := h2 p hp'
    exact ⟨⟨seen, hs, he, hage⟩, h3 p hp'⟩

open Mieru.SrcCache in
/-- non-vacuity: a way whose slots hold user 3 twice (ages 30 and 10), user 4 (age 10), an expired
    slot of user 5 and an empty slot: users 3 and 4, each once, both of age 10, in slot order -/
example : lookupAged [some ⟨7, 995, [(3, 970), (4, 990), (0, 0), (5, 300), (3, 990)]⟩] 7 1000 = [(3, 10), (4, 10)] ∧
    lookupAged [some ⟨7, 995, [(4, 970), (3, 990)]⟩] 7 1000 = [(3, 10), (4, 30)] ∧
    lookupAged [some ⟨7, 995, [(4, 970), (3, 990)]⟩] 7 1600 = [] := by decide

open Mieru.SrcCache in
/-- non-vacuity: two users recorded for source 7, one for a colliding source 9; the lookup for 7
    returns exactly the two, most recent first, and nothing of source 9 -/
example : lookup (run [(7, 3, 100), (9, 5, 110), (7, 4, 120)]) 7 130 = [4, 3] := by decide

open Mieru.SrcCache in
/-- … and 600 ticks later the older association has expired -/
example : lookup (run [(7, 3, 100), (9, 5, 110), (7, 4, 120)]) 7 700 = [4] := by decide

/-! ## non-vacuity and the shared-credential boundary

Three users; users 2 and 3 share one credential (both authenticate). -/

/-- the hint names user 3, the cache holds user 2: the hinted user wins (registry hint phase) -/
example : (tryState 3 (fun i => i == 3) (fun i => i == 2 || i == 3) [2] false).user
    = some (3, .registryHint) := by decide
/-- the hint names nobody: with a shared credential the attribution DOES follow the cache … -/
example : (tryState 3 (fun _ => false) (fun i => i == 2 || i == 3) [3] false).user
    = some (3, .cachedFallback) := by decide
/-- … and a cold cache gives the first in name order (this is why cache independence is stated
    for distinct credentials only) -/
example : (tryState 3 (fun _ => false) (fun i => i == 2 || i == 3) [] false).user
    = some (2, .registryFallback) := by decide
/-- mandatory hints: same segment, rejected -/
example : (tryState 3 (fun _ => false) (fun i => i == 2 || i == 3) [3] true).user = none := by decide
/-- stale / duplicate / out-of-range cached ids, every user tried once -/
example : (tryState 3 (fun i => i == 1) (fun i => i == 3) [0, 9, 2, 2, 1, 1] false)
    = { user := some (3, .registryFallback), tried := [1, 2, 3] } := by decide

/-- (audit W2) `tryState_cache_independent` instantiated: only user 3 authenticates (distinct
    credentials); a cache holding other users and one holding user 3, duplicates and a stale id
    attribute the segment to the same user -/
example : ((tryState 3 (fun _ => false) (fun i => i == 3) [1, 2] false).user.map (·.1))
    = ((tryState 3 (fun _ => false) (fun i => i == 3) [3, 3, 9] false).user.map (·.1)) :=
  tryState_cache_independent 3 _ _ [1, 2] false
    (by intro v w _ _ hv hw; simp only [beq_iff_eq] at hv hw; omega) [3, 3, 9]

/-! ## tie (T): the model against definitions REGENERATED from source_user_cache.go / registry.go
(`Mieru.Gen.SrcCache`, written by tools/goextract/c07srccache.go from the current working tree on every run) -/

/-- the model's wrapping 32-bit age IS the translation of `sourceUserCacheAge` (uint32 `now - then`) -/
theorem srccache_age_eq_gen (now seen : Nat) :
    Mieru.SrcCache.age now seen = Mieru.Gen.SrcCache.sourceUserCacheAge now seen :=
  Mieru.SrcCache.age_eq_gen now seen

/-- the model's expiry test IS the translation of `sourceUserCacheExpired` (`age >= 600`) -/
theorem srccache_expired_eq_gen (now seen : Nat) :
    Mieru.SrcCache.expired now seen = Mieru.Gen.SrcCache.sourceUserCacheExpired now seen :=
  Mieru.SrcCache.expired_eq_gen now seen

/-- the 64-bit slot word the code stores atomically carries exactly the pair (user id, tick) the model
    keeps: `sourceUserCacheUnpackUser (sourceUserCachePackUser id tick) = (id, tick)` (mod 2^32) -/
theorem srccache_slot_word_roundtrip (id tick : Nat) :
    Mieru.Gen.SrcCache.sourceUserCacheUnpackUser (Mieru.Gen.SrcCache.sourceUserCachePackUser id tick)
      = (id % 4294967296, tick % 4294967296) :=
  Mieru.SrcCache.slot_word_roundtrip id tick

open Mieru.Gen.SrcCache in
/-- STRUCTURE PINNED (functions with 16-way loops over atomics are not translated; the conditions,
    their order and the writes the model mirrors are extracted as source text and pinned here):
    * `lookup`: first way with the key (`continue` otherwise), an expired source ends the search
      (`break`), empty / expired slots skipped, a duplicate keeps the SMALLER age (`<`), insertion
      sort shifts while STRICTLY younger (`<`: stable) — `Mieru.SrcCache.lookup/candidates/insertByAge`;
    * `recordUser`: own slot, first empty, first expired, STRICTLY oldest live (`>`), chosen in that
      order — `Mieru.SrcCache.pickSlot`;
    * `recordAuthenticatedInTable`: first way holding the key; `lastActive` refreshed; a fresh entry
      gets `lastActive = now` and the user in slot 0 — `Mieru.SrcCache.record/freshEntry`;
    * `tryState`: the four phases in the model's order, the mandatory stop between the second and the
      third, the skip conditions of each phase; `markUserIDAttempted`, `userByID` guards;
    * `discoverUser`: empty generation returns at once, the `requireCurrent` re-check comes after
      `tryState` and the seam and before the rejection — `Mieru.Reload.Step`;
    * `SetUsers` swaps the pointer, `retire` detaches the table. -/
theorem source_structure_pinned :
    lookupConds = ["if c == nil => return", "if c.stats != nil", "if table == nil => return", "if c.stats != nil",
      "for way := 0; way < sourceUserCacheWays; way++", "if entry == nil || entry.key != key => continue",
      "if sourceUserCacheExpired(now, entry.lastActive.Load()) => break", "for i := 0; i < sourceUserCacheUsers; i++",
      "if userID == 0 || sourceUserCacheExpired(now, seen) => continue", "for j := 0; j < count; j++",
      "if candidates[j].id == userID => break", "if duplicate >= 0 => continue",
      "if age < candidates[duplicate].age => candidates[duplicate].age = age", "for i := 1; i < count; i++",
      "for ; j > 0 && candidate.age < candidates[j-1].age; ", "for i := 0; i < count; i++", "if count > 0 => return",
      "if c.stats != nil", "if c.stats != nil"] ∧
    recordUserConds = ["for i := 0; i < sourceUserCacheUsers; i++", "case id == userID && same < 0",
      "case id == 0 && empty < 0", "case id != 0 && sourceUserCacheExpired(now, seen) && expired < 0",
      "case id != 0 && !sourceUserCacheExpired(now, seen)", "if oldest < 0 || age > oldestAge",
      "if slot < 0 => slot = empty", "if slot < 0 => slot = expired", "if slot < 0 => slot = oldest",
      "if oldID == userID && oldTick == now => return",
      "if entry.users[slot].CompareAndSwap(old, sourceUserCachePackUser(userID, now)) => return"] ∧
    recordUserSlotChoice = ["slot := same", "if slot < 0 { slot = empty }", "if slot < 0 { slot = expired }",
      "if slot < 0 { slot = oldest }"] ∧
    recordUserStores = ["entry.users[slot].CompareAndSwap(old, sourceUserCachePackUser(userID, now))"] ∧
    recordAuthenticatedInTableConds = ["if c == nil || table == nil || userID == 0 => return",
      "for way := 0; way < sourceUserCacheWays; way++",
      "if ways[way] != nil && ways[way].key == key && match < 0 => match = way", "if match >= 0 => return",
      "if sourceExpired"] ∧
    recordAuthenticatedInTableStores = ["entry.lastActive.Store(now)", "replacement.lastActive.Store(now)",
      "replacement.users[0].Store(sourceUserCachePackUser(userID, now))", "bucket.ways[selection.way].Store(replacement)"] ∧
    recordAuthenticatedConds = ["if c == nil || userID == 0 => return", "if table == nil => return"] ∧
    registry_retireStores = ["c.table.Swap(nil)"] ∧
    registry_SetUsersStores = ["r.users.Swap(state)"] ∧
    registry_discoverUserConds = ["if len(encryptedMetadata) < cipher.DefaultNonceSize => return",
      "if publisher == nil => return", "if state == nil || len(state.users) == 0 => return",
      "if hintMandatory != nil => mandatory = hintMandatory.Load()", "if afterAttempt != nil",
      "if requireCurrent && publisher.Load() != state => continue", "if result.block == nil => return",
      "if state.cache != nil && state.cache.stats != nil && (result.origin == matchCachedHint || result.origin == matchCachedFallback)"] ∧
    registry_tryStateConds = ["if source.valid && state.cache != nil => cachedIDs, cachedCount = state.cache.lookup(source.key)",
      "for i := 0; i < cachedCount; i++",
      "if user == nil || userIDWasAttempted(&attemptedCachedIDs, attemptedCachedCount, user.id) || !cipher.CheckUserFromHint([]byte(user.name), nonce) => continue",
      "if result.block != nil => return", "if state.cache != nil && state.cache.stats != nil",
      "if userIDWasAttempted(&attemptedCachedIDs, attemptedCachedCount, user.id) || !cipher.CheckUserFromHint([]byte(user.name), nonce) => continue",
      "if result.block != nil => return", "if hintMandatory => return", "for i := 0; i < cachedCount; i++",
      "if user == nil || userIDWasAttempted(&attemptedCachedIDs, attemptedCachedCount, user.id) => continue",
      "if cipher.CheckUserFromHint([]byte(user.name), nonce) => continue", "if result.block != nil => return",
      "if userIDWasAttempted(&attemptedCachedIDs, attemptedCachedCount, user.id) => continue",
      "if cipher.CheckUserFromHint([]byte(user.name), nonce) => continue", "if result.block != nil => return"] ∧
    tryStatePhases = ["matchCachedHint", "matchRegistryHint", "matchCachedFallback", "matchRegistryFallback"] ∧
    registry_markUserIDAttemptedConds = ["if count < len(attempted) && !userIDWasAttempted(attempted, count, userID) => return"] ∧
    registry_userByIDConds = ["if state == nil || userID == 0 || userID > uint32(len(state.users)) => return",
      "if user.id != userID => return"] := by
  refine ⟨rfl, rfl, rfl, rfl, rfl, rfl, rfl, rfl, rfl, rfl, rfl, rfl, rfl, rfl⟩

/-- tie (T): the cache geometry and lifetime the model uses are the constants of the CURRENT source
    (regenerated into `Mieru.Gen.Consts` from the compiled repository on every run) -/
theorem cache_constants_match_source :
    (Mieru.SrcCache.life : Int) = Mieru.Gen.sourceUserCacheLifeSeconds ∧
    (Mieru.SrcCache.nWays : Int) = Mieru.Gen.sourceUserCacheWays ∧
    (Mieru.SrcCache.nSlots : Int) = Mieru.Gen.sourceUserCacheUsers ∧
    (Mieru.Discovery.slots : Int) = Mieru.Gen.sourceUserCacheUsers := by decide

/-! ## SESSIONS: the server branch of `readOneSegment` (existing-session match ∨ `Discover`)

`Mieru.Session` (Model/Session.lean).  Clause 1 of the property is a statement about the SESSIONS a
server accepts; the theorems below compose the `tryState` theorems with the branch structure of
the two underlays.  They also say exactly what happens to sessions that never reach `Discover`
(audit item G1): on UDP a datagram from the ip:port of a live session that opens under that
session's cipher, on TCP every segment after the first of a connection.  Such a session is
attributed to the user the carrying session / connection was authenticated as — a user of the
generation published THEN, not necessarily of the one published now.  "New connection" in the
property's reload clause is therefore read as: a segment that no live carrier opens (UDP: no live
session from that ip:port holds a cipher that opens it; TCP: the first segment of a connection).
For those the clause is a theorem (`udp_new_connection_not_retired`, `tcp_new_connection_not_retired`);
for the others the exact behaviour of the code is a theorem too (`udp_retired_only_via_live_session`,
`udp_retired_generation_dies_out` and the TCP twins), reproduced on the real server by
harness/props/c07_sessions.go. -/

section sessions
open Mieru.Session

/-- `Registry.Discover` returns only a user of that generation whose credential sealed the segment -/
theorem discover_sound (g : Gen) (m : Bool) (s : Seg) (u : User) (h : discover g m s = some u) :
    u ∈ g ∧ s.key = some u.cred := by
  unfold discover at h
  split at h
  · rename_i id o hr
    obtain ⟨_, ha⟩ := tryState_sound _ _ _ _ _ id o hr
    obtain ⟨u', hu', hk⟩ := (authOf_true g s id).mp ha
    rw [hu'] at h
    have hue : u' = u := Option.some.inj h
    subst hue
    exact ⟨(userAt_some g id u' hu').2.2.2, hk⟩
  · cases h

/-- … preferring a user named by the segment's hint: if a hinted user's credential sealed it, the
    result is a hinted user whose credential sealed it -/
theorem discover_prefers_hint (g : Gen) (m : Bool) (s : Seg) (w : User) (hw : w ∈ g)
    (hh : w.name ∈ s.hinted) (ha : s.key = some w.cred) :
    ∃ u, discover g m s = some u ∧ u ∈ g ∧ u.name ∈ s.hinted ∧ s.key = some u.cred := by
  obtain ⟨id, h1, h2, hid⟩ := userAt_of_mem g w hw
  obtain ⟨u, o, hr, hu, hhu, hau, _⟩ := tryState_hint_precedence g.length (hintOf g s) (authOf g s) s.cached m id
    ⟨h1, h2⟩ ((hintOf_true g s id).mpr ⟨w, hid, hh⟩) ((authOf_true g s id).mpr ⟨w, hid, ha⟩)
  obtain ⟨x, hx, hxh⟩ := (hintOf_true g s u).mp hhu
  obtain ⟨x', hx', hxa⟩ := (authOf_true g s u).mp hau
  rw [hx] at hx'; cases hx'
  refine ⟨x, ?_, (userAt_some g u x hx).2.2.2, hxh, hxa⟩
  unfold discover
  rw [hr]
  exact hx

/-- rejection: with optional hints exactly the segments no registered credential sealed; with
    mandatory hints exactly those no HINTED registered credential sealed -/
theorem discover_rejects (g : Gen) (m : Bool) (s : Seg) :
    (m = false → (discover g m s = none ↔ ∀ u ∈ g, s.key ≠ some u.cred)) ∧
    (m = true → (discover g m s = none ↔ ∀ u ∈ g, u.name ∈ s.hinted → s.key ≠ some u.cred)) := by
  have hsome : ∀ id o, (tryState g.length (hintOf g s) (authOf g s) s.cached m).user = some (id, o) →
      ∃ u, discover g m s = some u := by
    intro id o hr
    obtain ⟨hu, _⟩ := tryState_sound _ _ _ _ _ id o hr
    obtain ⟨u, hu'⟩ := userAt_valid g id hu.1 hu.2
    exact ⟨u, by unfold discover; rw [hr]; exact hu'⟩
  constructor
  · intro hm
    constructor
    · intro hn u hu hk
      obtain ⟨id, h1, h2, hid⟩ := userAt_of_mem g u hu
      obtain ⟨u', o, hr⟩ := (tryState_complete_optional g.length (hintOf g s) (authOf g s) s.cached m hm).mpr
        ⟨id, ⟨h1, h2⟩, (authOf_true g s id).mpr ⟨u, hid, hk⟩⟩
      obtain ⟨x, hx⟩ := hsome u' o hr
      rw [hn] at hx; cases hx
    · intro hall
      cases hd : discover g m s with
      | none => rfl
      | some u =>
        obtain ⟨hu, hk⟩ := discover_sound g m s u hd
        exact absurd hk (hall u hu)
  · intro hm
    constructor
    · intro hn u hu hh hk
      obtain ⟨x, hx, _⟩ := discover_prefers_hint g m s u hu hh hk
      rw [hn] at hx; cases hx
    · intro hall
      have hnone := (tryState_mandatory g.length (hintOf g s) (authOf g s) s.cached m hm).2 (by
        intro w hw hhw
        obtain ⟨x, hx, hxh⟩ := (hintOf_true g s w).mp hhw
        cases ha : authOf g s w with
        | false => rfl
        | true =>
          obtain ⟨x', hx', hxa⟩ := (authOf_true g s w).mp ha
          rw [hx] at hx'; cases hx'
          exact absurd hxa (hall x (userAt_some g w x hx).2.2.2 hxh))
      unfold discover
      rw [hnone]

/-- with mandatory hints whoever is returned is named by the hint -/
theorem discover_mandatory_hinted (g : Gen) (s : Seg) (u : User) (h : discover g true s = some u) :
    u.name ∈ s.hinted := by
  unfold discover at h
  split at h
  · rename_i id o hr
    obtain ⟨_, hh, _⟩ := (tryState_mandatory g.length (hintOf g s) (authOf g s) s.cached true rfl).1 id o hr
    obtain ⟨x, hx, hxh⟩ := (hintOf_true g s id).mp hh
    rw [hx] at h; cases h
    exact hxh
  · cases h

/-- DISTINCT CREDENTIALS: the result of `Registry.Discover` does not depend on what the source cache
    returned, nor on the source address -/
theorem discover_cache_source_independent (g : Gen) (m : Bool) (s : Seg)
    (hd : (g.map (·.cred)).Nodup) (cached' : List Nat) (addr' pick' : Nat) :
    discover g m { s with cached := cached', addr := addr', pick := pick' } = discover g m s := by
  have huniq : ∀ v w, IsUser g.length v → IsUser g.length w → authOf g s v = true → authOf g s w = true → v = w := by
    intro v w hv hw hav haw
    obtain ⟨uv, huv, hkv⟩ := (authOf_true g s v).mp hav
    obtain ⟨uw, huw, hkw⟩ := (authOf_true g s w).mp haw
    have h1 := (userAt_some g v uv huv).2.2.1
    have h2 := (userAt_some g w uw huw).2.2.1
    have hc : uv.cred = uw.cred := by rw [hkv] at hkw; exact (Option.some.inj hkw)
    have hv1 : v - 1 < (g.map (·.cred)).length := by simp only [List.length_map]; have := hv.1; have := hv.2; omega
    have hw1 : w - 1 < (g.map (·.cred)).length := by simp only [List.length_map]; have := hw.1; have := hw.2; omega
    have e1 : (g.map (·.cred))[v - 1]? = some uv.cred := by simp [List.getElem?_map, h1]
    have e2 : (g.map (·.cred))[w - 1]? = some uw.cred := by simp [List.getElem?_map, h2]
    have : v - 1 = w - 1 := (List.getElem?_inj hv1 hd).mp (by rw [e1, e2, hc])
    have := hv.1; have := hw.1; omega
  have hind := tryState_cache_independent g.length (hintOf g s) (authOf g s) s.cached m huniq cached'
  rw [discover_eq_bind, discover_eq_bind]
  have h1 : hintOf g { s with cached := cached', addr := addr', pick := pick' } = hintOf g s := rfl
  have h2 : authOf g { s with cached := cached', addr := addr', pick := pick' } = authOf g s := rfl
  rw [h1, h2]
  simp only
  rw [← hind]

/-! ### UDP -/

/-- CLAUSE 1 FOR SESSIONS (UDP): every session the server accepts is attributed to a user `u` of a
    generation that was published, and `u`'s credential sealed the session's first segment.  If
    the segment reached `Registry.Discover` (`via = true`) that generation is the published one, a
    hinted user whose credential sealed the segment has precedence, and with mandatory hints the
    user is hinted.  Otherwise (`via = false`) a live session from the same ip:port whose cipher
    opens the segment exists and the new session inherits its user and generation. -/
theorem udp_session_attributed (st st' : UServer) (s : Seg) (name gi : Nat) (via : Bool)
    (hinv : UInv st) (h : udpSeg st s = (st', .accepted name gi via)) :
    ∃ g u, st.gens[gi]? = some g ∧ u ∈ g ∧ u.name = name ∧ s.key = some u.cred ∧
      (via = true → matching st.sessions s = [] ∧ gi = st.gens.length - 1 ∧ g = current st.gens ∧
        ((∃ w ∈ g, w.name ∈ s.hinted ∧ s.key = some w.cred) → name ∈ s.hinted) ∧
        (st.mandatory = true → name ∈ s.hinted)) ∧
      (via = false → ∃ x ∈ st.sessions, x.addr = s.addr ∧ s.key = some x.key ∧ x.user = name ∧ x.gen = gi) := by
  obtain ⟨k, _, _, _, _, horg⟩ := udpSeg_accepted st st' s name gi via h
  cases horg with
  | existing x hx ha hk e1 e2 e3 =>
    obtain ⟨g, hg, u, hu, hn, hc⟩ := hinv x hx
    subst e2 e3
    refine ⟨g, u, hg, hu, hn, by rw [hk, hc], (fun hv => by cases hv), fun _ => ⟨x, hx, ha, hk, rfl, rfl⟩⟩
  | discovered hno u hd e1 e2 e3 =>
    obtain ⟨hu, hk⟩ := discover_sound _ _ _ _ hd
    have hne := gens_ne_nil_of_mem_current _ _ hu
    subst e2 e3
    refine ⟨current st.gens, u, current_eq_getElem _ hne, hu, rfl, hk, ?_, (fun hv => by cases hv)⟩
    intro _
    refine ⟨hno, rfl, rfl, ?_, ?_⟩
    · rintro ⟨w, hw, hh, ha⟩
      obtain ⟨u', hd', _, hh', _⟩ := discover_prefers_hint _ st.mandatory s w hw hh ha
      rw [hd] at hd'; cases hd'
      exact hh'
    · intro hm
      rw [hm] at hd
      exact discover_mandatory_hinted _ _ _ hd

/-- the attribution invariant is preserved by every event (segments of any kind from anybody,
    reloads, removals) -/
theorem udp_inv_step (st : UServer) (e : Ev) (hinv : UInv st) : UInv (udpStep st e).1 := by
  obtain ⟨m, hg, _⟩ := udpStep_gens st e
  intro y hy
  rw [hg]
  rcases udpStep_sessions st e y hy with hold | ⟨s, name, gi, via, k, he, hacc, hyeq, horg⟩
  · exact (hinv y hold).mono m
  · subst hyeq
    apply Attributed.mono
    cases horg with
    | existing x hx ha hk e1 e2 e3 =>
      subst e1 e2 e3
      exact hinv x hx
    | discovered hno u hd e1 e2 e3 =>
      obtain ⟨hu, hk⟩ := discover_sound _ _ _ _ hd
      subst e1 e2 e3
      exact ⟨current st.gens, current_eq_getElem _ (gens_ne_nil_of_mem_current _ _ hu), u, hu, rfl, rfl⟩

/-- hence, over EVERY history: every live session is attributed to a user of a generation that was
    published, whose credential is the one the session's cipher holds -/
theorem udp_sessions_always_attributed (st : UServer) (evs : List Ev) (hinv : UInv st) :
    UInv (udpRun st evs) := by
  induction evs generalizing st with
  | nil => exact hinv
  | cons e es ih => exact ih _ (udp_inv_step st e hinv)

/-- a segment nobody sealed (garbage, forged) creates nothing, whatever sessions exist -/
theorem udp_garbage_dropped (st : UServer) (s : Seg) (hk : s.key = none) : udpSeg st s = (st, .dropped) := by
  have hm : matching st.sessions s = [] := by
    apply List.eq_nil_iff_forall_not_mem.mpr
    intro x hx
    have := ((mem_matching _ _ _).mp hx).2.2
    rw [hk] at this; cases this
  rw [udpSeg_no_match st s hm]
  have : discover (current st.gens) st.mandatory s = none := by
    cases hd : discover (current st.gens) st.mandatory s with
    | none => rfl
    | some u => have := (discover_sound _ _ _ _ hd).2; rw [hk] at this; cases this
  rw [this]

/-- RELOAD CLAUSE, new connections (UDP): a segment that no live session from its ip:port opens and
    that no credential registered in the PUBLISHED generation sealed is dropped: nothing is
    created — however recently that credential was still registered -/
theorem udp_new_connection_not_retired (st : UServer) (s : Seg)
    (hnew : matching st.sessions s = [])
    (hret : ∀ u ∈ current st.gens, s.key ≠ some u.cred) : udpSeg st s = (st, .dropped) := by
  rw [udpSeg_no_match st s hnew]
  have : discover (current st.gens) st.mandatory s = none := by
    cases hd : discover (current st.gens) st.mandatory s with
    | none => rfl
    | some u => obtain ⟨hu, hk⟩ := discover_sound _ _ _ _ hd; exact absurd hk (hret u hu)
  rw [this]

/-- … and the exact extent of what the code does otherwise (G1): a session attributed through a
    credential that is NOT registered in the published generation is accepted only without
    consulting the registry, through a live session from the same ip:port whose cipher opens the
    segment, and it inherits that session's user and generation -/
theorem udp_retired_only_via_live_session (st st' : UServer) (s : Seg) (name gi : Nat) (via : Bool)
    (hinv : UInv st) (hret : ∀ u ∈ current st.gens, s.key ≠ some u.cred)
    (h : udpSeg st s = (st', .accepted name gi via)) :
    via = false ∧ ∃ x ∈ st.sessions, x.addr = s.addr ∧ s.key = some x.key ∧ x.user = name ∧ x.gen = gi := by
  obtain ⟨g, u, hg, hu, hn, hk, hvia, hex⟩ := udp_session_attributed st st' s name gi via hinv h
  cases via with
  | false => exact ⟨rfl, hex rfl⟩
  | true =>
    obtain ⟨_, _, hcur, _⟩ := hvia rfl
    subst hcur
    exact absurd hk (hret u hu)

/-- … which dies out: once no live session belongs to a retired generation, no session ever belongs
    to it again — whatever arrives later -/
theorem udp_retired_generation_dies_out (st : UServer) (evs : List Ev) (gi : Nat)
    (hretired : gi + 1 < st.gens.length) (hnone : ∀ x ∈ st.sessions, x.gen ≠ gi) :
    ∀ x ∈ (udpRun st evs).sessions, x.gen ≠ gi := by
  induction evs generalizing st with
  | nil => exact hnone
  | cons e es ih =>
    obtain ⟨m, hg, _⟩ := udpStep_gens st e
    apply ih (udpStep st e).1
    · rw [hg, List.length_append]; omega
    · intro y hy
      rcases udpStep_sessions st e y hy with hold | ⟨s, name, gi', via, k, he, hacc, hyeq, horg⟩
      · exact hnone y hold
      · subst hyeq
        cases horg with
        | existing x hx ha hk e1 e2 e3 => subst e3; exact hnone x hx
        | discovered hno u hd e1 e2 e3 => subst e3; simp only; omega

/-! ### TCP -/

/-- CLAUSE 1 FOR SESSIONS (TCP): every session the server accepts is attributed to a user `u` of a
    generation that was published, whose credential sealed the segment.  `via = true`: it is the
    FIRST segment of a connection, it went through `Registry.Discover` on the published generation
    (hint precedence, mandatory hints as for UDP).  `via = false`: the connection was established
    by an earlier first segment and the session inherits the connection's user and generation. -/
theorem tcp_session_attributed (st st' : TServer) (s : Seg) (name gi : Nat) (via : Bool)
    (hinv : TInv st) (h : tcpSeg st s = (st', .accepted name gi via)) :
    ∃ g u, st.gens[gi]? = some g ∧ u ∈ g ∧ u.name = name ∧ s.key = some u.cred ∧
      (via = true → st.conns.lookup s.addr = none ∧ gi = st.gens.length - 1 ∧ g = current st.gens ∧
        ((∃ w ∈ g, w.name ∈ s.hinted ∧ s.key = some w.cred) → name ∈ s.hinted) ∧
        (st.mandatory = true → name ∈ s.hinted)) ∧
      (via = false → ∃ k, st.conns.lookup s.addr = some (.est k name gi) ∧ s.key = some k) := by
  have hf := tcpSeg_frame st s
  rw [h] at hf
  obtain ⟨k, _, _, _, horg⟩ := hf.accepted name gi via rfl
  cases horg with
  | established hc hk =>
    obtain ⟨g, hg, u, hu, hn, hcr⟩ := hinv.2 _ _ _ _ (lookup_mem _ _ _ hc)
    exact ⟨g, u, hg, hu, hn, by rw [hk, hcr], (fun hv => by cases hv), fun _ => ⟨k, hc, hk⟩⟩
  | discovered hno u hd e1 e2 e3 =>
    obtain ⟨hu, hk⟩ := discover_sound _ _ _ _ hd
    have hne := gens_ne_nil_of_mem_current _ _ hu
    subst e2 e3
    refine ⟨current st.gens, u, current_eq_getElem _ hne, hu, rfl, hk, ?_, (fun hv => by cases hv)⟩
    intro _
    refine ⟨hno, rfl, rfl, ?_, ?_⟩
    · rintro ⟨w, hw, hh, ha⟩
      obtain ⟨u', hd', _, hh', _⟩ := discover_prefers_hint _ st.mandatory s w hw hh ha
      rw [hd] at hd'; cases hd'
      exact hh'
    · intro hm
      rw [hm] at hd
      exact discover_mandatory_hinted _ _ _ hd

theorem tcp_inv_step (st : TServer) (e : Ev) (hinv : TInv st) : TInv (tcpStep st e).1 := by
  cases e with
  | reload g => exact ⟨fun x hx => (hinv.1 x hx).mono [g], fun a k u gg h => (hinv.2 a k u gg h).mono [g]⟩
  | gone a sid =>
    refine ⟨fun x hx => ?_, hinv.2⟩
    simp only [tcpStep, List.mem_filter] at hx
    exact hinv.1 x hx.1
  | connClosed a =>
    refine ⟨fun x hx => ?_, fun a' k u g hin => ?_⟩
    · simp only [tcpStep, List.mem_filter] at hx
      exact hinv.1 x hx.1
    · simp only [tcpStep, List.mem_filter] at hin
      exact hinv.2 a' k u g hin.1
  | seg s =>
    have hf := tcpSeg_frame st s
    have horg : ∀ k name gi via, TOrigin st s k name gi via → Attributed st.gens k name gi := by
      intro k name gi via ho
      cases ho with
      | established hc hk => exact hinv.2 _ _ _ _ (lookup_mem _ _ _ hc)
      | discovered hno u hd e1 e2 e3 =>
        obtain ⟨hu, hk⟩ := discover_sound _ _ _ _ hd
        subst e1 e2 e3
        exact ⟨current st.gens, current_eq_getElem _ (gens_ne_nil_of_mem_current _ _ hu), u, hu, rfl, rfl⟩
    refine ⟨fun y hy => ?_, fun a k u g hin => ?_⟩
    · simp only [tcpStep] at hy ⊢
      rw [hf.gens]
      rcases hf.sessions y hy with hold | ⟨name, gi, via, k, _, hyeq, _, _, ho⟩
      · exact hinv.1 y hold
      · subst hyeq; exact horg _ _ _ _ ho
    · simp only [tcpStep] at hin ⊢
      rw [hf.gens]
      rcases hf.conns a k u g hin with hold | ⟨_, _, ho⟩
      · exact hinv.2 a k u g hold
      · exact horg _ _ _ _ ho

/-- over EVERY history: every live session and every established connection is attributed to a user
    of a generation that was published, whose credential is the one its cipher holds -/
theorem tcp_sessions_always_attributed (st : TServer) (evs : List Ev) (hinv : TInv st) :
    TInv (tcpRun st evs) := by
  induction evs generalizing st with
  | nil => exact hinv
  | cons e es ih => exact ih _ (tcp_inv_step st e hinv)

/-- RELOAD CLAUSE, new connections (TCP): the first segment of a connection that no credential
    registered in the PUBLISHED generation sealed creates no session and the connection is closed -/
theorem tcp_new_connection_not_retired (st : TServer) (s : Seg)
    (hnew : st.conns.lookup s.addr = none)
    (hret : ∀ u ∈ current st.gens, s.key ≠ some u.cred) : tcpSeg st s = tKill st s.addr := by
  have : discover (current st.gens) st.mandatory s = none := by
    cases hd : discover (current st.gens) st.mandatory s with
    | none => rfl
    | some u => obtain ⟨hu, hk⟩ := discover_sound _ _ _ _ hd; exact absurd hk (hret u hu)
  unfold tcpSeg
  rw [hnew]
  simp only [this]

/-- … and what the code does otherwise (G1): a session attributed through a credential that is not
    registered in the published generation is accepted only on a connection that was established
    (by its own first segment) with that credential, and inherits the connection's user and
    generation -/
theorem tcp_retired_only_via_established_connection (st st' : TServer) (s : Seg) (name gi : Nat) (via : Bool)
    (hinv : TInv st) (hret : ∀ u ∈ current st.gens, s.key ≠ some u.cred)
    (h : tcpSeg st s = (st', .accepted name gi via)) :
    via = false ∧ ∃ k, st.conns.lookup s.addr = some (.est k name gi) ∧ s.key = some k := by
  obtain ⟨g, u, hg, hu, hn, hk, hvia, hex⟩ := tcp_session_attributed st st' s name gi via hinv h
  cases via with
  | false => exact ⟨rfl, hex rfl⟩
  | true =>
    obtain ⟨_, _, hcur, _⟩ := hvia rfl
    subst hcur
    exact absurd hk (hret u hu)

/-- … which dies out with the last connection of the retired generation -/
theorem tcp_retired_generation_dies_out (st : TServer) (evs : List Ev) (gi : Nat)
    (hretired : gi + 1 < st.gens.length)
    (hnone : (∀ x ∈ st.sessions, x.gen ≠ gi) ∧ (∀ a k u g, (a, CState.est k u g) ∈ st.conns → g ≠ gi)) :
    (∀ x ∈ (tcpRun st evs).sessions, x.gen ≠ gi) ∧
    (∀ a k u g, (a, CState.est k u g) ∈ (tcpRun st evs).conns → g ≠ gi) := by
  induction evs generalizing st with
  | nil => exact hnone
  | cons e es ih =>
    apply ih (tcpStep st e).1
    · cases e with
      | reload g => simp only [tcpStep, List.length_append, List.length_singleton]; omega
      | gone a sid => exact hretired
      | connClosed a => exact hretired
      | seg s => simp only [tcpStep]; rw [(tcpSeg_frame st s).gens]; exact hretired
    · cases e with
      | reload g => exact hnone
      | gone a sid =>
        refine ⟨fun x hx => ?_, hnone.2⟩
        simp only [tcpStep, List.mem_filter] at hx
        exact hnone.1 x hx.1
      | connClosed a =>
        refine ⟨fun x hx => ?_, fun a' k u g hin => ?_⟩
        · simp only [tcpStep, List.mem_filter] at hx
          exact hnone.1 x hx.1
        · simp only [tcpStep, List.mem_filter] at hin
          exact hnone.2 a' k u g hin.1
      | seg s =>
        have hf := tcpSeg_frame st s
        have horg : ∀ k name g via, TOrigin st s k name g via → g ≠ gi := by
          intro k name g via ho
          cases ho with
          | established hc hk => exact hnone.2 _ _ _ _ (lookup_mem _ _ _ hc)
          | discovered hno u hd e1 e2 e3 => subst e3; omega
        refine ⟨fun y hy => ?_, fun a k u g hin => ?_⟩
        · simp only [tcpStep] at hy
          rcases hf.sessions y hy with hold | ⟨name, g, via, k, _, hyeq, _, _, ho⟩
          · exact hnone.1 y hold
          · subst hyeq; exact horg _ _ _ _ ho
        · simp only [tcpStep] at hin
          rcases hf.conns a k u g hin with hold | ⟨_, _, ho⟩
          · exact hnone.2 a k u g hold
          · exact horg _ _ _ _ ho

/-! ### non-vacuity, and the G1 behaviour exhibited

alice (name 1, credential 10) and bob (name 2, credential 20); then a reload that removes bob. -/

def g0 : Gen := [⟨1, 10⟩, ⟨2, 20⟩]
def g1 : Gen := [⟨1, 10⟩]
/-- bob's honest open request: sealed under his credential, hint names him -/
def bobOpen (addr sid : Nat) : Seg :=
  { addr := addr, key := some 20, hinted := [2], openReq := true, sid := sid, cached := [], pick := 0 }

/-- UDP: bob (address 7) opens a session; the user list is reloaded without bob; the same ip:port
    opens ANOTHER session — accepted without the registry, attributed to bob of generation 0; from a
    fresh ip:port the same credential is refused; after bob's sessions are gone it is refused from
    address 7 too -/
example : udpOuts ⟨[g0], false, []⟩
    [.seg (bobOpen 7 1), .reload g1, .seg (bobOpen 7 2), .seg (bobOpen 8 3),
     .gone 7 1, .gone 7 2, .seg (bobOpen 7 4)]
    = [.accepted 2 0 true, .quiet, .accepted 2 0 false, .dropped, .quiet, .quiet, .dropped] := by decide

/-- TCP: the same on one connection (7): sessions keep being opened on the established connection
    after the reload, even when no session is left on it; a new connection (8) is refused -/
example : tcpOuts ⟨[g0], false, [], []⟩
    [.seg (bobOpen 7 1), .reload g1, .seg (bobOpen 7 2), .seg (bobOpen 8 3),
     .gone 7 1, .gone 7 2, .seg (bobOpen 7 4), .connClosed 7, .seg (bobOpen 7 5)]
    = [.accepted 2 0 true, .quiet, .accepted 2 0 false, .dropped, .quiet, .quiet, .accepted 2 0 false,
       .quiet, .dropped] := by decide

/-- the existing-session path does not look at the hint: with MANDATORY hints a segment sealed by bob
    whose hint names nobody is accepted from the ip:port of bob's live session and refused from any
    other — so the source-independence clause holds for `Registry.Discover`
    (`discover_cache_source_independent`), not for segments that bypass it -/
example : udpOuts ⟨[g0], true, []⟩
    [.seg (bobOpen 7 1), .seg { bobOpen 7 2 with hinted := [] }, .seg { bobOpen 8 3 with hinted := [] }]
    = [.accepted 2 0 true, .accepted 2 0 false, .dropped] := by decide

end sessions

/-! ## RELOAD: `SetUsers` ‖ `discoverUser`, with the user sets (`Mieru.Reload`) -/

section reload
open Mieru.Session Mieru.Reload

theorem Reach.trans {rc mand : Bool} {seg : Seg} {a b c : Sys}
    (h1 : Reach rc mand seg a b) (h2 : Reach rc mand seg b c) : Reach rc mand seg a c := by
  induction h2 with
  | refl => exact h1
  | step _ hs ih => exact .step ih hs

/-- invariant of the transition system, over ALL interleavings: the generations only grow, and a
    pending or returned outcome was computed on a generation published since the discovery started;
    an accepted user is a user of THAT generation whose credential sealed the segment -/
theorem reload_inv (rc mand : Bool) (seg : Seg) (s0 s : Sys) (h0 : s0.disc = .idle)
    (hr : Reach rc mand seg s0 s) :
    (∃ m, s.gens = s0.gens ++ m) ∧
    (∀ gi res, (s.disc = .tried gi res ∨ s.disc = .returned gi res) →
      s0.published ≤ gi ∧ gi ≤ s.published ∧
      ∀ u, res = some u → ∃ g, s.gens[gi]? = some g ∧ u ∈ g ∧ seg.key = some u.cred) := by
  induction hr with
  | refl =>
    refine ⟨⟨[], by simp⟩, ?_⟩
    intro gi res hd
    rw [h0] at hd
    rcases hd with hd | hd <;> cases hd
  | @step b c hab hstep ih =>
    obtain ⟨⟨m, hm⟩, hdisc⟩ := ih
    have hpub : s0.published ≤ b.published := by
      simp only [Sys.published, hm, List.length_append]; omega
    cases hstep with
    | reload g =>
      refine ⟨⟨m ++ [g], by simp [hm]⟩, ?_⟩
      intro gi res hd
      obtain ⟨h1, h2, h3⟩ := hdisc gi res hd
      refine ⟨h1, by simp only [Sys.published, List.length_append, List.length_singleton] at h2 ⊢; omega, ?_⟩
      intro u hu
      obtain ⟨gg, hg, hrest⟩ := h3 u hu
      exact ⟨gg, getElem?_append_some _ _ _ _ hg, hrest⟩
    | loadEmpty hidle he =>
      refine ⟨⟨m, hm⟩, ?_⟩
      intro gi res hd
      simp only [reduceCtorEq, DPhase.returned.injEq, false_or] at hd
      obtain ⟨rfl, rfl⟩ := hd
      exact ⟨hpub, Nat.le_refl _, fun u hu => by cases hu⟩
    | load hidle hne cached =>
      refine ⟨⟨m, hm⟩, ?_⟩
      intro gi res hd
      simp only [DPhase.tried.injEq, reduceCtorEq, or_false] at hd
      obtain ⟨rfl, rfl⟩ := hd
      refine ⟨hpub, Nat.le_refl _, ?_⟩
      intro u hu
      obtain ⟨hmem, hk⟩ := discover_sound _ _ _ _ hu
      exact ⟨current b.gens, current_eq_getElem _ (gens_ne_nil_of_mem_current _ _ hmem), hmem, hk⟩
    | retry gi res hd hreq hne =>
      refine ⟨⟨m, hm⟩, ?_⟩
      intro gi' res' hd'
      rcases hd' with hd' | hd' <;> cases hd'
    | ret gi res hd hok =>
      refine ⟨⟨m, hm⟩, ?_⟩
      intro gi' res' hd'
      simp only [reduceCtorEq, DPhase.returned.injEq, false_or] at hd'
      obtain ⟨rfl, rfl⟩ := hd'
      exact hdisc gi res (Or.inl hd)

/-- OVER ALL INTERLEAVINGS of reloads with one discovery (with or without `requireCurrent`): a
    discovery that returns user `u` attributed to generation `gi`: `u` is a user of generation `gi`
    and `u`'s credential sealed the segment; generation `gi` was the published one at some instant
    after the discovery started (its index lies between the one published at the start and the one
    published now; generation `i` is the published one from its own `SetUsers` to the next) -/
theorem discover_result_authentic_and_current (rc mand : Bool) (seg : Seg) (s0 s : Sys)
    (h0 : s0.disc = .idle) (hr : Reach rc mand seg s0 s) (gi : Nat) (u : User)
    (hg : s.disc = .returned gi (some u)) :
    s0.published ≤ gi ∧ gi ≤ s.published ∧ ∃ g, s.gens[gi]? = some g ∧ u ∈ g ∧ seg.key = some u.cred := by
  obtain ⟨h1, h2, h3⟩ := (reload_inv rc mand seg s0 s h0 hr).2 gi (some u) (Or.inr hg)
  exact ⟨h1, h2, h3 u rfl⟩

/-- with `requireCurrent` (TCP) the outcome is handed over only at an instant at which its
    generation IS the published one -/
theorem discover_requireCurrent_at_return (mand : Bool) (seg : Seg) (s s' : Sys) (gi : Nat) (res : Option User)
    (hstep : Step true mand seg s s') (hbefore : ∀ g r, s.disc ≠ .returned g r)
    (hafter : s'.disc = .returned gi res) : gi = s.published := by
  cases hstep with
  | reload g => exact absurd hafter (hbefore gi res)
  | loadEmpty hidle he => simp only [DPhase.returned.injEq] at hafter; exact hafter.1.symm
  | load hidle hne cached => simp at hafter
  | retry gi' res' hd hreq hne => simp at hafter
  | ret gi' res' hd hok =>
    simp only [DPhase.returned.injEq] at hafter
    obtain ⟨rfl, _⟩ := hafter
    rcases hok with h | h
    · cases h
    · exact h.symm

/-- THE RELOAD CLAUSE for `Registry.Discover`: a credential `c` that is registered in no generation
    published since the discovery started — in particular one that a `SetUsers` which RETURNED
    before the discovery started has removed — never authenticates it: no interleaving returns a
    user for a segment sealed under `c` -/
theorem discover_never_retired_credential (rc mand : Bool) (seg : Seg) (s0 s : Sys)
    (h0 : s0.disc = .idle) (hr : Reach rc mand seg s0 s) (c : Nat) (hk : seg.key = some c)
    (hretired : ∀ i g, s0.published ≤ i → s.gens[i]? = some g → ∀ u ∈ g, u.cred ≠ c) :
    ∀ gi u, s.disc ≠ .returned gi (some u) := by
  intro gi u hg
  obtain ⟨h1, _, g, hgg, hu, hku⟩ := discover_result_authentic_and_current rc mand seg s0 s h0 hr gi u hg
  rw [hk] at hku
  exact hretired gi g h1 hgg u hu (Option.some.inj hku).symm

theorem reach_reloads (rc mand : Bool) (seg : Seg) (d : DPhase) (gens seam : List Gen) :
    Reach rc mand seg ⟨gens, d⟩ ⟨gens ++ seam, d⟩ := by
  induction seam generalizing gens with
  | nil => simp only [List.append_nil]; exact .refl _
  | cons g t ih =>
    have h1 : Reach rc mand seg ⟨gens, d⟩ ⟨gens ++ [g], d⟩ := .step (.refl _) (.reload _ g)
    have h2 := ih (gens ++ [g])
    rw [List.append_assoc] at h2
    exact Reach.trans h1 h2

/-- the loop as a function of a schedule (`Mieru.Reload.run`, the definition the harness compares with
    `discoverUser` attempt by attempt) only produces outcomes of the transition system: every theorem
    above applies to them -/
theorem run_reach (rc mand : Bool) (seg : Seg) (sched : List (List Nat × List Gen)) (gens : List Gen)
    (acc : List Attempt) (gens' : List Gen) (atts : List Attempt) (gi : Nat) (res : Option User)
    (h : run rc mand seg gens sched acc = (gens', atts, some (gi, res))) :
    Reach rc mand seg ⟨gens, .idle⟩ ⟨gens', .returned gi res⟩ := by
  induction sched generalizing gens acc with
  | nil => simp [run] at h
  | cons p rest ih =>
    obtain ⟨cached, seam⟩ := p
    unfold run at h
    split at h
    · rename_i he
      simp only [Prod.mk.injEq, Option.some.injEq] at h
      obtain ⟨rfl, _, rfl, rfl⟩ := h
      exact .step (.refl _) (.loadEmpty _ rfl he)
    · rename_i hne
      have hload : Reach rc mand seg ⟨gens, .idle⟩
          ⟨gens, .tried (gens.length - 1) (discover (current gens) mand { seg with cached := cached })⟩ :=
        .step (.refl _) (.load _ rfl hne cached)
      have hseam := reach_reloads rc mand seg
        (.tried (gens.length - 1) (discover (current gens) mand { seg with cached := cached })) gens seam
      have hmid := Reach.trans hload hseam
      simp only at h
      split at h
      · rename_i hc
        have hretry : Reach rc mand seg ⟨gens, .idle⟩ ⟨gens ++ seam, .idle⟩ :=
          .step hmid (.retry _ _ _ rfl hc.1 hc.2)
        exact Reach.trans hretry (ih _ _ h)
      · rename_i hc
        simp only [Prod.mk.injEq, Option.some.injEq] at h
        obtain ⟨rfl, _, rfl, rfl⟩ := h
        refine .step hmid (.ret _ _ _ rfl ?_)
        cases rc with
        | false => exact Or.inl rfl
        | true =>
          right
          simp only [true_and, Decidable.not_not] at hc
          exact hc

/-! non-vacuity: alice (1, credential 10), bob (2, credential 20); `g1` has lost bob -/

def bobSeg : Seg := { addr := 0, key := some 20, hinted := [2], openReq := true, sid := 1, cached := [], pick := 0 }

/-- `requireCurrent`: a reload that removes bob lands between `tryState` and the re-check — the
    stale acceptance is discarded and the retry on the new generation rejects; the two attempts ran
    bob's decryptor, then alice's -/
example : run true false bobSeg [g0] [([], [g1]), ([], [])] []
    = ([g0, g1], [⟨0, [2], some ⟨2, 20⟩⟩, ⟨1, [1], none⟩], some (1, none)) := by decide

/-- no `requireCurrent` (UDP): the same reload during the discovery — the result computed on the
    generation that was published when the discovery loaded it is returned; it IS a generation
    published after the discovery started, as `discover_result_authentic_and_current` says, but it is
    retired by the time of the return -/
example : run false false bobSeg [g0] [([], [g1])] []
    = ([g0, g1], [⟨0, [2], some ⟨2, 20⟩⟩], some (0, some ⟨2, 20⟩)) := by decide

/-- a discovery that STARTS after the reload has completed never returns bob, with or without
    `requireCurrent` (instance of `discover_never_retired_credential`: published index 1 at the start) -/
example : ∀ rc, (run rc false bobSeg [g0, g1] [([2], [])] []).2.2 = some (1, none) := by decide

/-- two reloads inside one discovery, the second during the retry -/
example : run true false bobSeg [g0] [([], [g1]), ([], [g0]), ([], [])] []
    = ([g0, g1, g0], [⟨0, [2], some ⟨2, 20⟩⟩, ⟨1, [1], none⟩, ⟨2, [2], some ⟨2, 20⟩⟩], some (2, some ⟨2, 20⟩)) := by decide

/-- a reload to an empty user set: the retry returns the error at once -/
example : run true false bobSeg [g0] [([], [[]]), ([], [])] [] = ([g0, []], [⟨0, [2], some ⟨2, 20⟩⟩], some (1, none)) := by
  decide

end reload

end Mieru.C07
