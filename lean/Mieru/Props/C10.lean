import Mieru.Proofs.Dispatch
import Mieru.Proofs.DispatchSites
import Mieru.Proofs.SocksReq
import Mieru.Gen.Arith
import Mieru.Gen.Facts
import Mieru.Gen.C10
/-!
# C10 — no input from the network can crash the process

Objects: `Mieru.Dispatch` (Model/Dispatch.lean) is a total function from (role, transport, session
table with owners, decoded metadata, facts about the arrival: who could decrypt it, lengths, replay)
to an outcome in {drop, closeSession, closeUnderlay, deliver, createSession, **panic**} — `panic` is
an outcome of the MODEL wherever the code has a `panic(` on that path (the six identity checks of
`Session.input`, `segmentTree.checkProtocolType`, the two error-type assertions of the TCP event loop).
The theorems say that no input reaches it, for all inputs and all histories:

* `dispatch_never_panics_tcp` / `tcp_history_never_panics`: on a TCP underlay every session belongs to
  the one user whose key opened the connection, so the identity panics are unreachable for EVERY segment;
* `dispatch_never_panics_udp` / `udp_history_never_panics`: the same at full strength on the shared UDP
  socket — true of the code AFTER the repository's `fix: discard a UDP segment whose decrypting user
  differs from the owner of the target session`; FALSE before it (regression `example`s at the end:
  one datagram of bob carrying alice's session id);
* `udp_listener_never_closes`, `udp_other_users_untouched`: a misbehaving peer loses at most its own
  session: the shared listener's event loop never returns, and a datagram that authenticates as one user
  leaves every other user's session bit-for-bit unchanged;
* `tree_insert_types_ok`, `typed_errors_only`: the guards of the remaining panic sites;
* the model follows the code as merged: a wrong-direction segment is discarded on the packet transport and
  closes the session on the stream transport; stream data must carry the session's next sequence number;
* `socks_parse_total`, `socks_roundtrip`, `socks_truncated_rejected`, …: the SOCKS5 request / reply /
  address / UDP-header parsers are total, exact and reject every truncation.

Ties to the code, checked on every run: (T) the classifiers, the direction tables, the `Session.input`
dispatch chain, the tree-insert guards, the error expressions of the stream reader, the owner check in
front of every UDP delivery and the complete list of `panic(` sites are REGENERATED from the working tree
(`Mieru.Gen.Arith`, `Mieru.Gen.Facts`) and compared with the model / the reviewed table here; (C)
harness/props/c10.go runs real endpoints in a child process against the hostile-input language and
compares every observed outcome with `Dispatch.udpStep` / `tcpStep`.

Hypotheses and why they are not vacuous: `Env.wf` — the registry never holds a user with an empty name
(`buildState` skips such entries; the harness registers named users); `UdpInv` / `TcpInv` — hold in the
initial states (`udpInv_nil`, `tcpInv_init`) and are PRESERVED by every step (part of each theorem),
so they hold along every history.
-/
namespace Mieru.C10
open Mieru Mieru.Dispatch

/-! ## Ties (T): the model's tables are the code's tables -/

/-- the hand-written classifiers of the model equal the regenerated ones on every protocol byte -/
theorem classifiers_agree :
    (List.range 256).all (fun p =>
      isSessionProtocol p == Gen.Arith.isSessionProtocol p &&
      isLowEntropyProtocol p == Gen.Arith.isLowEntropyProtocol p &&
      isDataProtocol p == Gen.Arith.isDataProtocol p &&
      isAckProtocol p == Gen.Arith.isAckProtocol p &&
      isDataAckProtocol p == Gen.Arith.isDataAckProtocol p) = true := by decide +kernel

/-- everything `Session.input` hands to `inputData` (and `inputData` inserts into a segment tree) has a
    type `segmentTree.checkProtocolType` accepts — over all 256 protocol bytes of the REGENERATED
    classifiers, with the routing condition and the guard read off the source -/
theorem tree_insert_types_ok :
    (List.range 256).all (fun p =>
      !(((p : Int) == Gen.openSessionRequest || (p : Int) == Gen.openSessionResponse || Gen.Arith.isDataProtocol p)) ||
      (Gen.Arith.isSessionProtocol p || Gen.Arith.isDataProtocol p)) = true ∧
    Gen.Facts.sessionInputDispatch =
      [("inputData", "protocol == openSessionRequest || protocol == openSessionResponse || isDataProtocol(protocol)"),
       ("inputAck", "isAckProtocol(protocol)"),
       ("inputClose", "protocol == closeSessionRequest || protocol == closeSessionResponse")] ∧
    Gen.Facts.treeInsertGuards.take 3 = ["t.checkNil(seg)", "t.checkSeq(seg)", "t.checkProtocolType(seg)"] ∧
    Gen.Facts.treeInsertTypeCondition = ["isSessionProtocol(protocol) || isDataProtocol(protocol)"] := by
  refine ⟨by decide +kernel, by decide, by decide, by decide⟩

/-- in the model: whatever is routed to `inputData` passes the insert guard, for every number -/
theorem tree_insert_guard_model (p : Nat) (h : (p == 2 || p == 3 || isDataProtocol p) = true) :
    treeInsertOk p = true := treeInsertOk_of_routed p h

/-- the direction tables of `Session.input`, `validateServerSegmentDirection` and
    `validateNewServerSessionSegment` in the model are the ones in the source -/
theorem direction_tables_expected :
    Gen.Facts.sessionInputClientAccepts =
      ["openSessionResponse", "dataServerToClient", "dataServerToClientLowEntropy", "ackServerToClient",
       "closeSessionRequest", "closeSessionResponse"] ∧
    clientAccepts.map Int.ofNat =
      [Gen.openSessionResponse, Gen.dataServerToClient, Gen.dataServerToClientLowEntropy, Gen.ackServerToClient,
       Gen.closeSessionRequest, Gen.closeSessionResponse] ∧
    Gen.Facts.sessionInputServerAccepts =
      ["openSessionRequest", "dataClientToServer", "dataClientToServerLowEntropy", "ackClientToServer",
       "closeSessionRequest", "closeSessionResponse"] ∧
    serverAccepts.map Int.ofNat =
      [Gen.openSessionRequest, Gen.dataClientToServer, Gen.dataClientToServerLowEntropy, Gen.ackClientToServer,
       Gen.closeSessionRequest, Gen.closeSessionResponse] ∧
    Gen.Facts.serverDirectionCases =
      ["openSessionRequest => return nil", "closeSessionRequest => return nil", "closeSessionResponse => return nil",
       "dataClientToServer => return nil", "dataClientToServerLowEntropy => return nil", "ackClientToServer => return nil"] ∧
    serverDirectionOk.map Int.ofNat =
      [Gen.openSessionRequest, Gen.closeSessionRequest, Gen.closeSessionResponse, Gen.dataClientToServer,
       Gen.dataClientToServerLowEntropy, Gen.ackClientToServer] ∧
    Gen.Facts.newServerSessionRejects =
      ["seg == nil || seg.metadata == nil", "!ok || ss.Protocol() != openSessionRequest", "ss.sessionID == 0"] ∧
    (Gen.maxSessionOpenPayload = 1024 ∧ Gen.packetNonHeaderPosition = 72 ∧ Gen.aeadOverhead = 16 ∧ Gen.maxPDU = 32768) := by
  refine ⟨by decide, by decide, by decide, by decide, by decide, by decide, by decide, by decide⟩

/-- the repair is where the model says it is: in underlay_packet.go every delivery to a session that
    already exists sits directly behind `isSegmentFromSessionOwner`; the only other deliveries are the
    open request to the session it just created and the open response on a client -/
theorem owner_check_guards_every_delivery :
    Gen.Facts.packetDeliveryGuards =
      [("PacketUnderlay.RunEventLoop", "!u.isSegmentFromSessionOwner(session.(*Session), seg)"),
       ("PacketUnderlay.onOpenSessionRequest", "err != nil"),
       ("PacketUnderlay.onOpenSessionResponse", "!found"),
       ("PacketUnderlay.onCloseSession", "!u.isSegmentFromSessionOwner(s, seg)")] ∧
    Gen.Facts.packetDeliveries.map (·.1) =
      ["PacketUnderlay.RunEventLoop", "PacketUnderlay.onOpenSessionRequest", "PacketUnderlay.onOpenSessionResponse",
       "PacketUnderlay.onCloseSession"] ∧
    Gen.Facts.packetOwnerChecks =
      [("PacketUnderlay.RunEventLoop", "session.(*Session), seg"), ("PacketUnderlay.onCloseSession", "s, seg")] := by
  refine ⟨by decide, by decide, by decide⟩

/-! ## The stream reader only produces typed errors -/

/-- every error leaving the model of `StreamUnderlay.readOneSegment` carries a type other than NO_ERROR and
    UNKNOWN_ERROR, so the two `panic(` in `StreamUnderlay.RunEventLoop` are unreachable -/
theorem typed_errors_only (r : Role) (st : TcpSt) (m : Md) (e : Env) (t : ErrType)
    (h : tcpRead r st m e = .error t) : t ≠ .noError ∧ t ≠ .unknownError := by
  rcases tcpRead_typed r st m e t h with h | h | h <;> subst h <;> exact ⟨by decide, by decide⟩

def wrapPrefix : List Char := "stderror.WrapErrorWithType(".toList
def netSuffix : List Char := ", stderror.NETWORK_ERROR)".toList
def cryptoSuffix : List Char := ", stderror.CRYPTO_ERROR)".toList
def replaySuffix : List Char := ", stderror.REPLAY_ERROR)".toList
def protoSuffix : List Char := ", stderror.PROTOCOL_ERROR)".toList

/-- structural tie for `typed_errors_only` (the wrapped expression may be any error value — `err`,
    `io.ErrClosedPipe`, … — what matters is the type argument): every non-nil error a `return` of the stream reader can
    produce is built by `stderror.WrapErrorWithType` with one of the four real types, or is such a value
    passed through unchanged; and the event loop's reaction to the types is the one modelled -/
theorem stream_read_errors_are_typed :
    Gen.Facts.streamReadErrorReturns.all (fun x =>
      (wrapPrefix.isPrefixOf x.2.toList &&
        (netSuffix.isSuffixOf x.2.toList || cryptoSuffix.isSuffixOf x.2.toList ||
         replaySuffix.isSuffixOf x.2.toList || protoSuffix.isSuffixOf x.2.toList)) ||
      (x.1 == "StreamUnderlay.readOneSegment" && x.2 == "err")) = true ∧
    (Gen.Facts.streamReadErrorReturns.filter (fun x => x.2 == "err")).length = 1 ∧
    Gen.Facts.streamErrorTypeReactions =
      ["errType == stderror.NO_ERROR => panic", "errType == stderror.UNKNOWN_ERROR => panic",
       "errType == stderror.CRYPTO_ERROR || errType == stderror.REPLAY_ERROR => t.drainAfterError"] := by
  refine ⟨by decide, by decide, by decide⟩

/-! ## TCP -/

/-- a connection nobody has spoken on yet satisfies the invariant (server: empty table; client: the
    sessions dialed locally have no cipher and no policy yet) -/
theorem tcpInv_init (r : Role) (cu : String) (hcu : r = .client → cu ≠ "") (ids : List Nat) (hn : ids.Nodup) :
    TcpInv r { clientUser := cu, table := ids.map fun i => { id := i } } := by
  refine ⟨hcu, ?_, ?_, ?_⟩
  · simp only [List.map_map]
    have : ((fun x : Sess => x.id) ∘ fun i => ({ id := i } : Sess)) = id := rfl
    rw [this, List.map_id]; exact hn
  · intro _
    refine ⟨rfl, ?_⟩
    intro s hs
    obtain ⟨i, _, rfl⟩ := List.mem_map.mp hs
    exact ⟨rfl, rfl⟩
  · intro u hu; cases hu

/-- ONE segment, any content whatsoever, on a TCP connection whose sessions all belong to the
    connection's authenticated user: the outcome is never `panic`, and the invariant holds afterwards -/
theorem dispatch_never_panics_tcp (r : Role) (st : TcpSt) (m : Md) (e : Env) (hinv : TcpInv r st) (hw : e.wf) :
    (tcpStep r st m e).outcome ≠ .panic ∧ TcpInv r (tcpStep r st m e).st :=
  ⟨(tcpStep_safe r st m e hinv hw).noPanic, (tcpStep_safe r st m e hinv hw).inv⟩

/-- every history of segments on a TCP connection, from the first byte on -/
theorem tcp_history_never_panics (r : Role) (cu : String) (hcu : r = .client → cu ≠ "") (ids : List Nat)
    (hn : ids.Nodup) (l : List (Md × Env)) (hw : ∀ x ∈ l, x.2.wf) :
    Outcome.panic ∉ (tcpRun r { clientUser := cu, table := ids.map fun i => { id := i } } l).1 :=
  (tcpRun_safe r l _ (tcpInv_init r cu hcu ids hn) hw).1

/-! ## UDP -/

/-- ONE datagram, any content, from any sender with or without a credential, carrying any session id
    (including another user's): the outcome is never `panic`, and the invariant holds afterwards.
    Full strength; true of the repaired code only (see the regression examples below). -/
theorem dispatch_never_panics_udp (r : Role) (t : List Sess) (m : Md) (e : Env) (hinv : UdpInv r t) (hw : e.wf) :
    (udpStep r t m e).outcome ≠ .panic ∧ UdpInv r (udpStep r t m e).table :=
  ⟨(udpStep_safe r t m e hinv hw).noPanic, (udpStep_safe r t m e hinv hw).inv⟩

/-- the shared UDP listener's event loop never returns because of what a datagram contains -/
theorem udp_listener_never_closes (r : Role) (t : List Sess) (m : Md) (e : Env) (hinv : UdpInv r t) (hw : e.wf) :
    (udpStep r t m e).outcome ≠ .closeUnderlay :=
  (udpStep_safe r t m e hinv hw).noCloseUnderlay

/-- **The shared listener survives every datagram, whatever happens to the reply.**  One iteration of
    `PacketUnderlay.RunEventLoop` INCLUDING its own `return`s (`udpLoopStep true` = the code since "fix: a close
    request that cannot be sent does not stop the packet event loop"): for every datagram, every sender, and
    whether or not the socket can send to the datagram's source address (`replyWriteOk` — false for a source
    port 0, which the kernel delivers but refuses to send to), the loop does not return: the one socket all
    users of a server share stays open. (Audit A, C10 §2: the previous statement was about a model without the
    loop's `return`; see the regression example below for the code before the repair.) -/
theorem udp_listener_survives_failed_reply (r : Role) (t : List Sess) (m : Md) (e : Env) (hinv : UdpInv r t) (hw : e.wf) :
    (udpLoopStep true r t m e).outcome ≠ .closeUnderlay ∧ (udpLoopStep true r t m e).outcome ≠ .panic ∧
    UdpInv r (udpLoopStep true r t m e).table := by
  have h : udpLoopStep true r t m e = udpStep r t m e := by
    unfold udpLoopStep udpLoopStepWith udpStep; simp
  rw [h]
  exact ⟨(udpStep_safe r t m e hinv hw).noCloseUnderlay, (udpStep_safe r t m e hinv hw).noPanic, (udpStep_safe r t m e hinv hw).inv⟩

/-- tie (T) for it: the `return`s of `PacketUnderlay.RunEventLoop`, regenerated with the conditions they sit under —
    nil socket, shutdown (`ctx.Done`, `u.done`), a failed socket read — and NOTHING that depends on a segment or on
    `writeOneSegment`; what a return triggers is `u.conn.Close()`; and no code outside the command-line front end
    ends the process (`os.Exit`, `log.Fatal*`, …) -/
theorem packet_loop_returns_expected :
    Gen.C10.packetLoopReturns =
      [("if u.conn == nil", "stderror.ErrNullPointer"),
       ("select <-ctx.Done()", "nil"),
       ("select <-u.done", "nil"),
       ("if err != nil / select <-u.done", "nil"),
       ("if err != nil", "fmt.Errorf(…)")] ∧
    Gen.C10.packetLoopDefers = ["u.conn.Close()"] ∧
    Gen.C10.exitSites = [] := by
  refine ⟨by decide, by decide, by decide⟩

/-- every history of datagrams on a UDP endpoint, starting from no sessions -/
theorem udp_history_never_panics (r : Role) (l : List (Md × Env)) (hw : ∀ x ∈ l, x.2.wf) :
    Outcome.panic ∉ (udpRun r [] l).1 ∧ Outcome.closeUnderlay ∉ (udpRun r [] l).1 :=
  ⟨(udpRun_safe r l [] (udpInv_nil r) hw).1, (udpRun_safe r l [] (udpInv_nil r) hw).2.1⟩

/-- other users' sessions keep working: a datagram that does not authenticate as the owner `p` of a
    session (it authenticates as somebody else, or as nobody) leaves that session exactly as it was —
    not closed, not re-keyed, not fed — whatever session id and protocol type it carries -/
theorem udp_other_users_untouched (t : List Sess) (m : Md) (e : Env) (hinv : UdpInv .server t) (hw : e.wf)
    (s : Sess) (hs : s ∈ t) (p : String) (hp : s.policy = some p) (hk : e.keyUser ≠ some p) :
    s ∈ (udpStep .server t m e).table := by
  unfold udpStep udpStepWith
  split
  · exact hs
  · rename_i g hread
    obtain ⟨u, _, hb, _, hku, _⟩ := udpRead_server t m e g hinv hw hread
    have hpu : p ≠ u := fun h => hk (by rw [hku, h])
    exact udpDispatch_other t g e s u p hinv.nodup hs hb hp hpu

/-! ## SOCKS5 messages -/

open Mieru.SocksReq Mieru.SocksMsg in
/-- `Request.ReadFromSocks5` / `Response.ReadFromSocks5` on ANY byte string: either a message — and then
    the input is exactly the consumed bytes followed by what is left unread, the address is well formed
    (4 / 16 / ≤ 255 bytes, port < 2^16) and at least 7 bytes were consumed — or one of three named
    errors. Nothing else can happen; no index leaves the input. -/
theorem socks_parse_total (r : PoS.Bytes) :
    (∃ m rest, parseMsg r = .ok (m, rest) ∧ r = m.raw ++ rest ∧ m.addr.wf ∧ 7 ≤ m.raw.length ∧
        r[0]? = some 0x05 ∧ r[1]? = some m.code) ∨
    parseMsg r = .error .short ∨ parseMsg r = .error .badVersion ∨ parseMsg r = .error .unrecognized := by
  cases h : parseMsg r with
  | ok x =>
    obtain ⟨m, rest⟩ := x
    obtain ⟨h1, h2, h3, h4, h5, _⟩ := parseMsg_ok r m rest h
    exact Or.inl ⟨m, rest, rfl, h1, h2, h3, h4, h5⟩
  | error e =>
    cases e with
    | short => exact Or.inr (Or.inl rfl)
    | badVersion => exact Or.inr (Or.inr (Or.inl rfl))
    | unrecognized => exact Or.inr (Or.inr (Or.inr rfl))

open Mieru.SocksReq Mieru.SocksMsg in
/-- the same for `ReadSocks5Request` / `ReadSocks5Response` (replies of an egress proxy) -/
theorem socks_parse4_total (r : PoS.Bytes) :
    (∃ m rest, parseMsg4 r = .ok (m, rest) ∧ r = m.raw ++ rest ∧ m.addr.wf ∧ 7 ≤ m.raw.length) ∨
    parseMsg4 r = .error .short ∨ parseMsg4 r = .error .unrecognized := by
  cases h : parseMsg4 r with
  | ok x =>
    obtain ⟨m, rest⟩ := x
    obtain ⟨h1, h2, h3, _, _⟩ := parseMsg4_ok r m rest h
    exact Or.inl ⟨m, rest, rfl, h1, h2, h3⟩
  | error e =>
    cases e with
    | short => exact Or.inr (Or.inl rfl)
    | unrecognized => exact Or.inr (Or.inr rfl)
    | badVersion =>
      exfalso
      unfold parseMsg4 at h
      split at h
      · unfold liftAddr at h
        split at h <;> cases h
      · cases h

open Mieru.SocksReq Mieru.SocksMsg in
/-- what `WriteToSocks5` writes, `ReadFromSocks5` reads back — same code, same address — and leaves
    whatever follows unread -/
theorem socks_roundtrip (c : UInt8) (a : AddrPort) (hw : a.wf) (hc : a.canonical) (rest : PoS.Bytes) :
    ∃ b, buildMsg c a = some b ∧ parseMsg (b ++ rest) = .ok ({ code := c, addr := a, raw := b }, rest) ∧
      parseMsg4 (b ++ rest) = .ok ({ code := c, addr := a, raw := b }, rest) := by
  obtain ⟨h, hb, _⟩ := buildAddr_some a hw hc
  have hbm : buildMsg c a = some ((0x05 : UInt8) :: c :: 0x00 :: h) := by simp [buildMsg, hb]
  have hp := parseMsg_build c a hw hc _ rest hbm
  refine ⟨_, hbm, hp, ?_⟩
  rw [parseMsg4_eq _ (by simp)]
  exact hp

open Mieru.SocksReq Mieru.SocksMsg in
/-- a request or reply cut short at ANY offset is reported as short, never as a (different) message -/
theorem socks_truncated_rejected (r : PoS.Bytes) (m : Msg) (rest : PoS.Bytes) (h : parseMsg r = .ok (m, rest))
    (j : Nat) (hj : j < m.raw.length) : parseMsg (r.take j) = .error .short :=
  parseMsg_take_short r m rest h j hj

open Mieru.SocksMsg in
/-- `AddrSpec.ReadFromSocks5` and `parseSocks5UDPDatagram` on any byte string (every ATYP, domain
    length 0 and 255 included): a well-formed address or a named error (the exact split of an accepted
    UDP datagram into header ++ payload is C18's `udp_header_total`) -/
theorem socks_addr_and_udp_header_total (r : PoS.Bytes) :
    ((∃ a rest, parseAddr r = .ok (a, rest) ∧ a.wf ∧ ∃ used, r = used ++ rest ∧ 4 ≤ used.length) ∨
      parseAddr r = .error .short ∨ parseAddr r = .error .unrecognized) ∧
    ((∃ d, parseUDP r = .ok d ∧ d.dst.wf) ∨ ∃ e, parseUDP r = .error e) := by
  constructor
  · cases h : parseAddr r with
    | ok x =>
      obtain ⟨a, rest⟩ := x
      obtain ⟨hwf, used, hu, hl, _⟩ := parseAddr_ok r a rest h
      exact Or.inl ⟨a, rest, rfl, hwf, used, hu, hl⟩
    | error e => cases e <;> simp
  · cases h : parseUDP r with
    | ok d =>
      obtain ⟨rest, a, payload, _, hpa, hd⟩ := parseUDP_ok_inv r d h
      obtain ⟨hwf, _⟩ := parseAddr_ok rest a payload hpa
      exact Or.inl ⟨d, rfl, by rw [hd]; exact hwf⟩
    | error e => exact Or.inr ⟨e, rfl⟩

/-! ## Every `panic(` in the network-reachable packages is accounted for -/

/-- the regenerated list of panic sites equals the reviewed table (Proofs/DispatchSites.lean), site by
    site and in order; no `recover()` exists that the argument would have to consider -/
theorem panic_sites_expected :
    Gen.Facts.panicSites = sitesOf expectedPanicSites ∧
    Gen.Facts.panicSitesSupport = sitesOf expectedPanicSitesSupport ∧
    Gen.Facts.recoverSites = [] := by
  refine ⟨by decide, by decide, by decide⟩

/-- the sites fed by decrypted peer data are exactly the ones the theorems above guard -/
theorem guarded_sites_are_the_data_fed_ones :
    (expectedPanicSites.filter fun x => x.2.2 == .guardedOwner || x.2.2 == .guardedInsert || x.2.2 == .guardedTyped).map (·.2.1) =
      ["segmentTree.checkProtocolType", "Session.input", "Session.input", "Session.input", "Session.input",
       "Session.input", "Session.input", "StreamUnderlay.RunEventLoop", "StreamUnderlay.RunEventLoop"] := by decide

/-! ## Non-vacuity and regression examples -/

example : UdpInv .server twoUsers :=
  ⟨by decide, fun _ s hs => by
    simp only [twoUsers, List.mem_cons, List.mem_nil_iff, or_false] at hs
    rcases hs with rfl | rfl
    · exact ⟨"bob", by decide, rfl, Or.inr rfl⟩
    · exact ⟨"alice", by decide, rfl, Or.inr rfl⟩⟩

-- THE WITNESS (`crossUserAck`, Proofs/DispatchSites.lean): one ackClientToServer, validly encrypted by registered
-- user bob (from a fresh address), carrying alice's session id.
/-- before the repair it reaches alice's session with bob's cipher and panics the server -/
example : (udpStepWith false .server twoUsers crossUserAck.1 crossUserAck.2).outcome = .panic := by decide
/-- after the repair it is dropped and alice's session is untouched -/
example : (udpStep .server twoUsers crossUserAck.1 crossUserAck.2).outcome = .drop ∧
    (udpStep .server twoUsers crossUserAck.1 crossUserAck.2).table = twoUsers := by decide
/-- the same with a close request: before the repair a panic, now a drop (bob cannot close alice's session) -/
example : (udpStepWith false .server twoUsers { proto := 4, tsOk := true, sid := 7777 } crossUserAck.2).outcome = .panic ∧
    (udpStep .server twoUsers { proto := 4, tsOk := true, sid := 7777 } crossUserAck.2).outcome = .drop := by decide
/-- the second face of that defect — a WRONG-DIRECTION segment from bob (sent from the address his own
    sessions live at, so no discovery-time direction check applies) naming alice's session used to close
    alice's session — is gone twice over: the owner check drops it, and since `fix: drop wrong-direction
    segments on the packet transport` `Session.input` itself discards it -/
example : (udpStepWith false .server twoUsers { proto := 7, tsOk := true, sid := 7777 }
      { src := 1, keyUser := some "bob", body := { len := 0, payloadAuth := false } }).outcome = .drop ∧
    (udpStep .server twoUsers { proto := 7, tsOk := true, sid := 7777 }
      { src := 1, keyUser := some "bob", body := { len := 0, payloadAuth := false } }).outcome = .drop := by decide
/-- the owner's own traffic still flows: alice's ack is delivered, her close request closes her session -/
example : (udpStep .server twoUsers { proto := 8, tsOk := true, sid := 7777 }
      { src := 99, keyUser := some "alice", body := { len := 0, payloadAuth := false } }).outcome = .deliver ∧
    (udpStep .server twoUsers { proto := 4, tsOk := true, sid := 7777 }
      { src := 99, keyUser := some "alice", body := { len := 0, payloadAuth := false } }).outcome = .closeSession := by decide
/-- UDP: a wrong-direction data segment is discarded whether it comes from the session's own address
    (by `Session.input`) or from a fresh one (at user discovery) — a reflected datagram cannot tear a
    session down; the session stays open; an unknown protocol number is dropped -/
example : (udpStep .server twoUsers { proto := 7, tsOk := true, sid := 1111 }
      { src := 1, keyUser := some "bob", body := { len := 0, payloadAuth := false } }).outcome = .drop ∧
    (udpStep .server twoUsers { proto := 7, tsOk := true, sid := 1111 }
      { src := 1, keyUser := some "bob", body := { len := 0, payloadAuth := false } }).table = twoUsers ∧
    (udpStep .server twoUsers { proto := 7, tsOk := true, sid := 1111 }
      { src := 5, keyUser := some "bob", body := { len := 0, payloadAuth := false } }).outcome = .drop ∧
    (udpStep .server twoUsers { proto := 200, tsOk := true, sid := 1111 }
      { src := 1, keyUser := some "bob", body := { len := 0, payloadAuth := false } }).outcome = .drop := by decide
/-- REGRESSION (audit A, C10 §2; reproduced on the real server by `C10/server/udp/other-session-broken/seg/type=8/sid=value`
    from source port 0): ONE ack of registered user bob naming an unknown session, sent from an address the socket
    cannot send to. Before the repair the failed close request made the event loop return — the listener of ALL
    users closed (`closeUnderlay`); now it is a drop with `replyFailed`, alice's session untouched -/
example :
    (udpLoopStep false .server twoUsers { proto := 8, tsOk := true, sid := 424242 }
      { src := 3, keyUser := some "bob", replyWriteOk := false, body := { len := 0, payloadAuth := false } }).outcome = .closeUnderlay ∧
    (udpLoopStep true .server twoUsers { proto := 8, tsOk := true, sid := 424242 }
      { src := 3, keyUser := some "bob", replyWriteOk := false, body := { len := 0, payloadAuth := false } }).outcome = .drop ∧
    (udpLoopStep true .server twoUsers { proto := 8, tsOk := true, sid := 424242 }
      { src := 3, keyUser := some "bob", replyWriteOk := false, body := { len := 0, payloadAuth := false } }).replyFailed = true ∧
    (udpLoopStep true .server twoUsers { proto := 8, tsOk := true, sid := 424242 }
      { src := 3, keyUser := some "bob", replyWriteOk := false, body := { len := 0, payloadAuth := false } }).table = twoUsers ∧
    -- a writable source: the close request goes out
    (udpLoopStep true .server twoUsers { proto := 8, tsOk := true, sid := 424242 }
      { src := 3, keyUser := some "bob", body := { len := 0, payloadAuth := false } }).reply = true := by decide

/-- a new session: open request with a fresh id; id 0 is refused -/
example : (udpStep .server twoUsers { proto := 2, tsOk := true, sid := 4242 }
      { src := 5, keyUser := some "bob", body := { len := 0, payloadAuth := false } }).outcome = .createSession ∧
    (udpStep .server twoUsers { proto := 2, tsOk := true, sid := 0 }
      { src := 5, keyUser := some "bob", body := { len := 0, payloadAuth := false } }).outcome = .drop := by decide
/-- TCP: the first segment must be an open request with a non-zero id; afterwards a wrong-direction
    segment closes the session, an open response sent to a server closes the connection -/
example :
    (tcpStep .server {} { proto := 6, tsOk := true, sid := 5 } { keyUser := some "bob", body := { len := 0, payloadAuth := false } }).outcome = .closeUnderlay ∧
    (tcpStep .server {} { proto := 2, tsOk := true, sid := 0 } { keyUser := some "bob", body := { len := 0, payloadAuth := false } }).outcome = .closeUnderlay ∧
    (tcpStep .server {} { proto := 2, tsOk := true, sid := 5 } { keyUser := some "bob", body := { len := 0, payloadAuth := false } }).outcome = .createSession ∧
    (tcpRun .server {} [({ proto := 2, tsOk := true, sid := 5 }, { keyUser := some "bob", body := { len := 0, payloadAuth := false } }),
                        ({ proto := 7, tsOk := true, sid := 5 }, { keyUser := some "bob", body := { len := 0, payloadAuth := false } }),
                        ({ proto := 3, tsOk := true, sid := 5 }, { keyUser := some "bob", body := { len := 0, payloadAuth := false } })]).1
      = [.createSession, .closeSession, .closeUnderlay] := by decide
/-- TCP: data must carry the next sequence number of its session (the open request took 0): 1 is
    delivered, then 2; a gap (7) fails the session — the application gets an error, not the wrong bytes —
    and the connection lives on; on UDP any sequence number is absorbed -/
example :
    (tcpRun .server {} [({ proto := 2, tsOk := true, sid := 5 }, { keyUser := some "bob", body := { len := 0, payloadAuth := false } }),
                        ({ proto := 6, tsOk := true, sid := 5, seq := 1 }, { keyUser := some "bob", body := { len := 0, payloadAuth := false } }),
                        ({ proto := 10, tsOk := true, sid := 5, seq := 2, leMode := 1, leMask := 0x0f0f0f0f }, { keyUser := some "bob", body := { len := 0, payloadAuth := false } }),
                        ({ proto := 6, tsOk := true, sid := 5, seq := 7 }, { keyUser := some "bob", body := { len := 0, payloadAuth := false } }),
                        ({ proto := 6, tsOk := true, sid := 5, seq := 3 }, { keyUser := some "bob", body := { len := 0, payloadAuth := false } })]).1
      = [.createSession, .deliver, .deliver, .closeSession, .drop] ∧
    (tcpStep .server {} { proto := 2, tsOk := true, sid := 5, seq := 9 } { keyUser := some "bob", body := { len := 0, payloadAuth := false } }).outcome = .createSession ∧
    ((tcpStep .server {} { proto := 2, tsOk := true, sid := 5, seq := 9 } { keyUser := some "bob", body := { len := 0, payloadAuth := false } }).st.table.map (·.closed)) = [true] ∧
    (udpStep .server twoUsers { proto := 6, tsOk := true, sid := 1111, seq := 4000000000 }
      { src := 1, keyUser := some "bob", body := { len := 0, payloadAuth := false } }).outcome = .deliver := by decide
/-- the hypotheses of `tcp_history_never_panics` are met by a client with two dialed sessions -/
example : TcpInv .client { clientUser := "alice", table := [1001, 1002].map fun i => { id := i } } :=
  tcpInv_init .client "alice" (fun _ => by decide) [1001, 1002] (by decide)
/-- SOCKS5: CONNECT example.com:80 parses; the same bytes cut after 9 bytes are short -/
example : (SocksReq.parseMsg [5, 1, 0, 3, 3, 0x61, 0x2e, 0x62, 0, 80, 0xAA]).toOption.map (fun x => (x.1.code, x.1.addr.port, x.2)) =
      some (1, 80, [0xAA]) ∧
    SocksReq.parseMsg [5, 1, 0, 3, 3, 0x61, 0x2e, 0x62, 0] = .error .short ∧
    SocksReq.parseMsg [4, 1, 0, 1, 1, 2, 3, 4, 0, 80] = .error .badVersion ∧
    SocksReq.parseMsg [5, 1, 0, 9, 1, 2, 3, 4, 0, 80] = .error .unrecognized := ⟨rfl, rfl, rfl, rfl⟩

end Mieru.C10
