import Mieru.Proofs.StreamWire
import Mieru.Proofs.Fragment
import Mieru.Proofs.TcpSessionWire
import Mieru.Proofs.EarlyConn
import Mieru.Gen.Consts
import Mieru.Gen.Arith
import Mieru.Gen.Wire
/-!
# C01 — TCP transport: every byte delivered exactly once, in order, to the right session

The model (`Mieru.Model.StreamWire`) is one direction of one TCP connection: the sender seals the
32-byte metadata and the payload under a counter nonce and lays out
`[meta+tag][pad1][payload+tag][pad2]`; the receiver consumes bytes and takes every length from
opened metadata. The theorems quantify over every AEAD satisfying `open (seal p) = p` and
`|seal p| = |p| + 16`, every metadata codec that round-trips, every list of well-formed segments,
every padding content, and every way of cutting the byte stream into chunks.

Tie to the code: the captured wire of real client/server runs (harness/props/c01.go) is decoded by
an independent codec of the same layout and must carry exactly the written streams; constants and
fragment sizes come from `Mieru.Gen`.
Partial: that `sendMutex` / `oLock` serialise writers is a runtime fact (observed, not proved).
-/
namespace Mieru.C01
open Mieru Mieru.StreamWire Mieru.Fragment Mieru.Demux

variable (A : Aead) (M : MetaCodec)

theorem flatten_flatMap {α β : Type} (l : List α) (f : α → List (List β)) :
    (l.flatMap f).flatten = (l.map (fun x => (f x).flatten)).flatten := by
  induction l with
  | nil => simp
  | cons x xs ih => simp [List.flatMap_cons, ih]

/-- Chunking independence: however the network splits or coalesces the byte stream, the receiver
    ends in the same state. -/
theorem feed_chunking_independent (fuel : Nat) (r : Rx) (chunks : List Bytes) :
    chunks.foldl (feed A M fuel) r = feed A M fuel r chunks.flatten := by
  induction chunks generalizing r with
  | nil => simp [feed]
  | cons x xs ih => simp only [List.foldl_cons, List.flatten_cons, ih, feed_append]

/-- Framing round trip: for any well-formed segments (any payloads, any padding bytes and lengths),
    the receiver fed the encoded stream — in any chunking — emits exactly those segments, in order,
    nothing more, and does not fail. -/
theorem tcp_framing_roundtrip (fuel : Nat) (hfuel : 0 < fuel) (segs : List Seg) (hw : ∀ s ∈ segs, s.wf M)
    (c : Nat) (chunks : List Bytes) (hc : chunks.flatten = encodeAll A M c segs) :
    ∃ c', chunks.foldl (feed A M fuel) ⟨c, [], [], false⟩
      = ⟨c', [], segs.map (fun s => (s.md, s.payload)), false⟩ := by
  rw [feed_chunking_independent, hc]
  obtain ⟨c', h⟩ := feed_encodeAll A M fuel hfuel segs hw c []
  exact ⟨c', by simpa using h⟩

/-- An incomplete segment is never delivered and never an error: a strict prefix of a segment's
    encoding only makes the receiver wait. -/
theorem tcp_partial_segment_waits (c : Nat) (s : Seg) (h : s.wf M) (k : Nat) (hk : k < encLen s) :
    parseOne A M c ((encodeSeg A M c s).1.take k) = .need :=
  parseOne_prefix A M c s h k hk

/-- Fragmentation is content-preserving: the fragments of a write concatenate to the write, each has
    between 1 and `fragSize` bytes. -/
theorem fragment_join (maxPDU fragSize : Nat) (h1 : 0 < maxPDU) (h2 : 0 < fragSize) (b : Bytes) :
    (fragmentWrite maxPDU fragSize b).flatten = b ∧
    ∀ p ∈ fragmentWrite maxPDU fragSize b, 1 ≤ p.length ∧ p.length ≤ fragSize := by
  unfold fragmentWrite
  constructor
  · rw [flatten_flatMap]
    have : (pieces maxPDU b.length b).map (fun chunk => (pieces fragSize chunk.length chunk).flatten)
        = pieces maxPDU b.length b := by
      conv => rhs; rw [← List.map_id (pieces maxPDU b.length b)]
      apply List.map_congr_left
      intro chunk _
      exact pieces_flatten fragSize h2 _ _ (Nat.le_refl _)
    rw [this, pieces_flatten maxPDU h1 _ _ (Nat.le_refl _)]
  · intro p hp
    simp only [List.mem_flatMap] at hp
    obtain ⟨chunk, _, hp⟩ := hp
    exact pieces_bound fragSize h2 _ _ p hp

/-- A chunk of at most `maxPDU` bytes is cut into at most 256 fragments (so the fragment number fits
    the 8-bit field) whenever the fragment size is at least 128 bytes — which `Mieru.C14` proves for
    every supported MTU and mode; on the stream transport there is one fragment per chunk. -/
theorem fragment_count (fragSize : Nat) (h2 : 128 ≤ fragSize) (chunk : Bytes) (hl : chunk.length ≤ 32768) :
    (pieces fragSize chunk.length chunk).length ≤ 256 := by
  have := pieces_count fragSize (by omega) chunk.length chunk (Nat.le_refl _)
  by_cases h : (pieces fragSize chunk.length chunk).length ≤ 256
  · exact h
  · exfalso
    have h257 : 257 ≤ (pieces fragSize chunk.length chunk).length := by omega
    have : 257 * fragSize ≤ (pieces fragSize chunk.length chunk).length * fragSize := Nat.mul_le_mul_right _ h257
    omega

/-- Demultiplexing: whatever order-preserving interleaving of the sessions' segments travels on the
    shared connection, a session receives exactly its own segments, in its own order — nothing from
    another proxy connection. -/
theorem demux_interleave (sid : Nat) (mine others l : List (Nat × Bytes))
    (hm : Merge mine others l) (h1 : ∀ x ∈ mine, x.1 = sid) (h2 : ∀ x ∈ others, x.1 ≠ sid) :
    readAll (forSession sid l) = (mine.map (·.2)).flatten := by
  rw [forSession_merge sid mine others l hm h1 h2]; rfl

/-- Reads: any sequence of read sizes returns a prefix of the stream, and all of it once the sizes
    add up to its length. -/
theorem reads_are_prefix (ns : List Nat) (s : Bytes) :
    (reads ns s).flatten = s.take ns.sum ∧ (s.length ≤ ns.sum → (reads ns s).flatten = s) := by
  refine ⟨reads_flatten ns s, fun h => ?_⟩
  rw [reads_flatten, List.take_of_length_le h]

/-- End to end for one session on a shared connection: the application's writes are fragmented, the
    fragments travel interleaved with other sessions' segments, and the reader gets exactly the
    concatenation of the writes. -/
theorem tcp_end_to_end (maxPDU fragSize sid : Nat) (h1 : 0 < maxPDU) (h2 : 0 < fragSize)
    (writes : List Bytes) (others l : List (Nat × Bytes))
    (hm : Merge ((writes.flatMap (fragmentWrite maxPDU fragSize)).map (fun p => (sid, p))) others l)
    (ho : ∀ x ∈ others, x.1 ≠ sid) :
    readAll (forSession sid l) = writes.flatten := by
  rw [demux_interleave sid _ others l hm (by intro x hx; simp at hx; obtain ⟨_, _, rfl⟩ := hx; rfl) ho]
  simp only [List.map_map]
  have : ((fun (x : Nat × Bytes) => x.2) ∘ fun p => (sid, p)) = id := by funext p; rfl
  rw [this, List.map_id, flatten_flatMap]
  congr 1
  conv => rhs; rw [← List.map_id writes]
  apply List.map_congr_left
  intro b _
  exact (fragment_join maxPDU fragSize h1 h2 b).1

/-- the constants of the model are the ones the code compiles to -/
theorem framing_constants : Gen.metadataLength = 32 ∧ Gen.aeadOverhead = 16 ∧ Gen.nonceSize = 24 ∧
    Gen.maxPDU = 32768 ∧ Gen.maxSessionOpenPayload = 1024 ∧ Gen.streamOverhead = 64 := by decide

/-! ## Non-vacuity: a toy AEAD and codec satisfy the hypotheses, and a concrete two-segment stream
    with padding is decoded through 1-byte chunking. -/
def toyAead : Aead where
  sealF n p := p.map (· + UInt8.ofNat n) ++ List.replicate 16 (UInt8.ofNat n)
  openF n c := if c.drop (c.length - 16) = List.replicate 16 (UInt8.ofNat n) ∧ 16 ≤ c.length
    then some ((c.take (c.length - 16)).map (· - UInt8.ofNat n)) else none
  seal_len := by intro n p; simp
  open_seal := by
    intro n p
    simp only [List.length_append, List.length_map, List.length_replicate, Nat.add_sub_cancel]
    rw [List.drop_left' (by simp), List.take_left' (by simp)]
    simp [List.map_map, Function.comp_def]

def toyCodec : MetaCodec where
  enc m := [UInt8.ofNat m.prefixLen, UInt8.ofNat m.payloadLen, UInt8.ofNat m.suffixLen, UInt8.ofNat m.tag] ++ List.replicate 28 0
  dec b := match b with
    | a :: b :: c :: d :: _ => some ⟨a.toNat, b.toNat, c.toNat, d.toNat⟩
    | _ => none
  ok m := m.prefixLen < 256 && m.payloadLen < 256 && m.suffixLen < 256 && m.tag < 256
  enc_len := by intro m; simp
  dec_enc := by
    intro m h
    simp only [Bool.and_eq_true, decide_eq_true_eq] at h
    obtain ⟨⟨⟨h1, h2⟩, h3⟩, h4⟩ := h
    simp only [List.cons_append, List.nil_append, UInt8.toNat_ofNat']
    have e1 : m.prefixLen % 2 ^ 8 = m.prefixLen := Nat.mod_eq_of_lt (by omega)
    have e2 : m.payloadLen % 2 ^ 8 = m.payloadLen := Nat.mod_eq_of_lt (by omega)
    have e3 : m.suffixLen % 2 ^ 8 = m.suffixLen := Nat.mod_eq_of_lt (by omega)
    have e4 : m.tag % 2 ^ 8 = m.tag := Nat.mod_eq_of_lt (by omega)
    rw [e1, e2, e3, e4]

def seg1 : Seg := ⟨⟨2, 3, 1, 7⟩, [10, 20, 30], [0xAA, 0xBB], [0xCC]⟩
def seg2 : Seg := ⟨⟨0, 0, 4, 9⟩, [], [], [1, 2, 3, 4]⟩

example : seg1.wf toyCodec ∧ seg2.wf toyCodec := by
  unfold Seg.wf seg1 seg2; decide

/-- the two segments, sent back to back and delivered one byte at a time, are decoded exactly -/
example : ((encodeAll toyAead toyCodec 5 [seg1, seg2]).map (fun b => [b])).foldl (feed toyAead toyCodec 1) ⟨5, [], [], false⟩
    = ⟨8, [], [(seg1.md, seg1.payload), (seg2.md, seg2.payload)], false⟩ := by decide +kernel

/-! # The property's own sentence, composed

`Mieru.Model.TcpSession` is the session layer of the stream transport (`Session.Write` with the
open-request piggyback and the low-entropy decisions, `writeChunk`'s numbering, `Close`, the in-order
check of `inputData`, `Session.Read` with the unread tail, the attached → established → closed state
machine); `wrap` is what `writeOneSegment` adds; the wire in between is the DOCUMENTED one
(`Mieru.Model.Spec`: the three metadata layouts, the nonce sent once then incremented per encryption,
candidate keys on the first segment, low-entropy bodies) over any AEAD that is lawful on 32-byte keys
and 24-byte nonces.  The theorems below chain: application calls → queued segments → wrapped
segments → any order-preserving interleaving with other sessions' segments on the same connection →
sealed byte stream → any chunking by the network → reference receiver → demultiplexing by session id
→ in-order check → receive queue → `Read` calls of any sizes interleaved in any way with the
arrivals.  Conclusion: bytes read ++ bytes still pending = bytes of the `Write` calls that returned
success — nothing lost, duplicated, altered or taken from another proxy connection. -/

open Mieru.TcpSession in
/-- **One direction of one proxy connection, end to end** (the two instances follow).
    The sender has already queued `first` (nothing for a client; the open-session response for a
    server) and is open in state `s0`; `ops` are its application's `Write` / `Close` calls (any sizes,
    any low-entropy decisions); `ws` the underlay's stamps, paddings (0..255 bytes each) and masks;
    `others` the segments of other sessions sharing the TCP connection; `chunks` the way the network
    cut the byte stream; `r0` the peer session before it received anything; `es` any schedule of
    arrivals and `Read` calls (any buffer sizes) at the peer. -/
theorem tcp_direction_end_to_end (A : Spec.AeadFns) (hA : Spec.AeadLaws32 A) (fromClient : Bool)
    (sid : Nat) (hsid : sid < 2 ^ 32)
    (first : List TcpSession.Seg) (s0 : Sess) (hs0 : s0.open) (hs0n : s0.nextSend = first.length)
    (hfirst : first.map (·.seq) = List.range' 0 first.length)
    (hfirst2 : ∀ g ∈ first, g.lawful ∧ dataish g.kind ∧ g.payload = [])
    (ops : List Op) (hcount : (first ++ (run s0 ops).1).length ≤ 2 ^ 32)
    (ws : List Wrap) (hwl : ws.length = (first ++ (run s0 ops).1).length)
    (hws : ∀ p ∈ (first ++ (run s0 ops).1).zip ws, p.2.ok p.1.le)
    (mine : List (Spec.Segment × Bool)) (hmine : wrapAll fromClient sid (first ++ (run s0 ops).1) ws = some mine)
    (others l : List (Spec.Segment × Bool))
    (ho : ∀ x ∈ others, x.1.wf ∧ TcpSession.Spec.Meta.sessionID x.1.md ≠ sid) (hm : Merge mine others l)
    (t : Spec.Tx) (hk : t.key.length = 32) (hn : t.nonce.length = 24) (cands : List Bytes)
    (hc : ∀ k ∈ cands, k.length = 32) (hsync : Spec.InSyncFor A t (Spec.Rx.new cands) (Spec.firstMeta l))
    (bytes : Bytes) (hs : Spec.sealAll A t l = some bytes) (chunks : List Bytes) (hch : chunks.flatten = bytes)
    (r0 : Sess) (hr1 : r0.nextRecv = 0) (hr2 : r0.pending = []) (hr3 : r0.st ≠ .closed)
    (hr4 : r0.closeRequested = true → r0.st = .closed) (hr5 : r0.inErr = false)
    (es : List Ev)
    (harr : arrivals es = TcpSession.forSession sid (chunks.foldl (Spec.feed A) (Spec.Rx.new cands)).out) :
    (chunks.foldl (Spec.feed A) (Spec.Rx.new cands)).dead = none ∧
    TcpSession.forSession sid (chunks.foldl (Spec.feed A) (Spec.Rx.new cands)).out = first ++ (run s0 ops).1 ∧
    (runEv r0 es).1.flatten ++ (runEv r0 es).2.pending = accepted s0 ops ∧
    (runEv r0 es).2.inErr = false ∧
    ((∃ g ∈ (run s0 ops).1, g.kind = .closeReq) → (runEv r0 es).2.st = .closed) := by
  obtain ⟨r1, r2, r3⟩ := run_spec s0 ops
  have hseqs : (first ++ (run s0 ops).1).map (·.seq) = List.range' 0 (first ++ (run s0 ops).1).length := by
    rw [List.map_append, List.length_append, hfirst, r2, hs0n, ← List.range'_append_1]; simp
  obtain ⟨c1, _, c3⟩ := session_stream_core A hA fromClient sid hsid (first ++ (run s0 ops).1)
    (fun g hg => by
      rw [List.mem_append] at hg
      rcases hg with hg | hg
      · exact (hfirst2 g hg).1
      · exact run_lawful _ _ g hg) hseqs hcount ws hwl hws mine hmine others l ho hm t hk hn cands hc hsync
    bytes hs chunks hch
  rw [c3] at harr
  obtain ⟨ds, tail, e1, e2, e3⟩ := run_shape s0 ops hs0
  have hseqds : (first ++ ds).map (·.seq) = List.range' r0.nextRecv (first ++ ds).length := by
    have := hseqs
    rw [e1, ← List.append_assoc, List.map_append, List.length_append, ← List.range'_append_1] at this
    rw [hr1]
    exact (List.append_inj this (by simp)).1
  have htailp : (tail.map (·.payload)).flatten = [] := by
    rcases e3 with h | ⟨c, h, hc'⟩
    · simp [h]
    · have hmem : c ∈ (run s0 ops).1 := by rw [e1, h]; simp
      rw [h]
      simp [closeReq_payload _ _ c hmem hc']
  have hfirstp : (first.map (·.payload)).flatten = [] := by
    rw [List.flatten_eq_nil_iff]
    intro x hx
    rw [List.mem_map] at hx
    obtain ⟨g, hg, rfl⟩ := hx
    exact (hfirst2 g hg).2.2
  obtain ⟨s1, s2, s3⟩ := runEv_spec_close r0 es (first ++ ds) tail (by rw [harr, e1, List.append_assoc]) e3 hr3 hr4
    (fun g hg => by
      rw [List.mem_append] at hg
      rcases hg with hg | hg
      · exact (hfirst2 g hg).2.1
      · exact e2 g hg) hseqds
  refine ⟨c1, c3, ?_, s3.trans hr5, ?_⟩
  · rw [s1, hr2, ← r1, e1, List.map_append, List.map_append, List.flatten_append, List.flatten_append, htailp, hfirstp]
    simp
  · rintro ⟨g, hg, hgk⟩
    apply s2
    rw [e1, List.mem_append] at hg
    rcases hg with hg | hg
    · have := e2 g hg
      rw [hgk] at this
      simp [dataish] at this
    · intro h; rw [h] at hg; simp at hg

open Mieru.TcpSession in
/-- **Client → server.**  A fresh client session (ATTACHED: it becomes ESTABLISHED only when its
    application first reads) runs any program of `Write` / `Close` calls; the server session is the
    one the underlay created for the open request.  Everything the client wrote successfully — also
    what it wrote without ever calling `Read` and then closed — reaches the server application:
    read bytes ++ pending bytes = written bytes, whatever the paddings, the low-entropy choices, the
    other sessions on the connection, the chunking and the schedule of arrivals and reads; and the
    server session is closed behind the last byte iff the client closed. -/
theorem tcp_client_to_server_end_to_end (A : Spec.AeadFns) (hA : Spec.AeadLaws32 A)
    (sid : Nat) (hsid : sid < 2 ^ 32) (ops : List Op)
    (hcount : (run Sess.client ops).1.length ≤ 2 ^ 32)
    (ws : List Wrap) (hwl : ws.length = (run Sess.client ops).1.length)
    (hws : ∀ p ∈ (run Sess.client ops).1.zip ws, p.2.ok p.1.le)
    (mine : List (Spec.Segment × Bool)) (hmine : wrapAll true sid (run Sess.client ops).1 ws = some mine)
    (others l : List (Spec.Segment × Bool))
    (ho : ∀ x ∈ others, x.1.wf ∧ TcpSession.Spec.Meta.sessionID x.1.md ≠ sid) (hm : Merge mine others l)
    (t : Spec.Tx) (hk : t.key.length = 32) (hn : t.nonce.length = 24) (cands : List Bytes)
    (hc : ∀ k ∈ cands, k.length = 32) (hsync : Spec.InSyncFor A t (Spec.Rx.new cands) (Spec.firstMeta l))
    (bytes : Bytes) (hs : Spec.sealAll A t l = some bytes) (chunks : List Bytes) (hch : chunks.flatten = bytes)
    (es : List Ev)
    (harr : arrivals es = TcpSession.forSession sid (chunks.foldl (Spec.feed A) (Spec.Rx.new cands)).out) :
    (chunks.foldl (Spec.feed A) (Spec.Rx.new cands)).dead = none ∧
    TcpSession.forSession sid (chunks.foldl (Spec.feed A) (Spec.Rx.new cands)).out = (run Sess.client ops).1 ∧
    (runEv Sess.server es).1.flatten ++ (runEv Sess.server es).2.pending = accepted Sess.client ops ∧
    (runEv Sess.server es).2.inErr = false ∧
    ((∃ g ∈ (run Sess.client ops).1, g.kind = .closeReq) → (runEv Sess.server es).2.st = .closed) := by
  have := tcp_direction_end_to_end A hA true sid hsid [] Sess.client (by decide) rfl rfl (by simp) ops
    (by simpa using hcount) ws (by simpa using hwl) (by simpa using hws) mine (by simpa using hmine) others l ho hm
    t hk hn cands hc hsync bytes hs chunks hch Sess.server rfl rfl (by decide) (by decide) rfl es harr
  simpa using this

open Mieru.TcpSession in
/-- **Server → client.**  The server session is handed to the application by `Accept` BEFORE its
    input loop has processed the open request, so `ops` is any program of `Write` / `Close` calls
    with the processing of the open request (`Op.accept`, which queues the open-session response)
    at ANY position among them — the application's first writes may be numbered before the
    response.  `r0` is the client session in any state in which it has not yet received anything
    (it may have written any amount, it may never have read).  Conclusion as above, for the other
    direction — both directions hold at once, each under its own hypotheses, because they share no
    state but the key. -/
theorem tcp_server_to_client_end_to_end (A : Spec.AeadFns) (hA : Spec.AeadLaws32 A)
    (sid : Nat) (hsid : sid < 2 ^ 32) (ops : List Op)
    (hcount : (run Sess.server ops).1.length ≤ 2 ^ 32)
    (ws : List Wrap) (hwl : ws.length = (run Sess.server ops).1.length)
    (hws : ∀ q ∈ (run Sess.server ops).1.zip ws, q.2.ok q.1.le)
    (mine : List (Spec.Segment × Bool)) (hmine : wrapAll false sid (run Sess.server ops).1 ws = some mine)
    (others l : List (Spec.Segment × Bool))
    (ho : ∀ x ∈ others, x.1.wf ∧ TcpSession.Spec.Meta.sessionID x.1.md ≠ sid) (hm : Merge mine others l)
    (t : Spec.Tx) (hk : t.key.length = 32) (hn : t.nonce.length = 24) (cands : List Bytes)
    (hc : ∀ k ∈ cands, k.length = 32) (hsync : Spec.InSyncFor A t (Spec.Rx.new cands) (Spec.firstMeta l))
    (bytes : Bytes) (hs : Spec.sealAll A t l = some bytes) (chunks : List Bytes) (hch : chunks.flatten = bytes)
    (r0 : Sess) (hr1 : r0.nextRecv = 0) (hr2 : r0.pending = []) (hr3 : r0.st ≠ .closed)
    (hr4 : r0.closeRequested = true → r0.st = .closed) (hr5 : r0.inErr = false)
    (es : List Ev)
    (harr : arrivals es = TcpSession.forSession sid (chunks.foldl (Spec.feed A) (Spec.Rx.new cands)).out) :
    (chunks.foldl (Spec.feed A) (Spec.Rx.new cands)).dead = none ∧
    TcpSession.forSession sid (chunks.foldl (Spec.feed A) (Spec.Rx.new cands)).out = (run Sess.server ops).1 ∧
    (runEv r0 es).1.flatten ++ (runEv r0 es).2.pending = accepted Sess.server ops ∧
    (runEv r0 es).2.inErr = false ∧
    ((∃ g ∈ (run Sess.server ops).1, g.kind = .closeReq) → (runEv r0 es).2.st = .closed) := by
  have := tcp_direction_end_to_end A hA false sid hsid [] Sess.server (by decide) rfl rfl (by simp) ops
    (by simpa using hcount) ws (by simpa using hwl) (by simpa using hws) mine (by simpa using hmine) others l ho hm
    t hk hn cands hc hsync bytes hs chunks hch r0 hr1 hr2 hr3 hr4 hr5 es harr
  simpa using this

open Mieru.TcpSession in
/-- **A reader that sees end-of-stream has read everything**: `Read` reports EOF only when
    nothing is pending, so in the situation of the theorems above (bytes read ++ pending = bytes
    written) the bytes read are all the bytes the peer wrote before it closed. -/
theorem tcp_eof_means_everything (r : Sess) (n : Nat) (r' : Sess) (readSoFar written : Bytes)
    (hinv : readSoFar ++ r.pending = written) (h : read r n = (.eof, r')) : readSoFar = written := by
  rw [← hinv, read_eof r r' n h, List.append_nil]

open Mieru.TcpSession in
/-- **A short read ends on a segment boundary**: a `Read` that returns fewer bytes than its buffer
    holds has taken everything that had arrived, so the bytes delivered so far are exactly the
    payloads of the segments that arrived so far.  (This is what the harness's trace acceptor
    `acceptTrace` checks on the real `Session.Read`.) -/
theorem short_read_ends_on_segment_boundary (delivered : Bytes) (arrived : List TcpSession.Seg) (s s' : Sess)
    (n : Nat) (b : Bytes) (hinv : delivered ++ s.pending = (arrived.map (·.payload)).flatten)
    (h : read s n = (.data b, s')) (hlt : b.length < n) :
    delivered ++ b = (arrived.map (·.payload)).flatten ∧ s'.pending = [] := by
  obtain ⟨h1, _, h3⟩ := (read_spec s n).1 b s' h
  have := h3 hlt
  rw [this, List.append_nil] at h1
  exact ⟨by rw [h1]; exact hinv, this⟩

open Mieru.TcpSession in
/-- **The open-request piggyback boundary** (1024 / 1025, and never with low entropy), for every
    first write of a client session: at most 1024 bytes without low entropy travel in the open
    request alone; otherwise the open request is empty and all bytes follow as data segments. -/
theorem piggyback_boundary (lo : Option LE) (les : Nat → Option LE) (b : Bytes) :
    (lo = none → b.length ≤ 1024 → b ≠ [] → (write Sess.client lo les b).1 = [⟨.openReq, 0, 0, none, b⟩]) ∧
    ((lo ≠ none ∨ 1024 < b.length ∨ b = []) →
      (write Sess.client lo les b).1 = ⟨.openReq, 0, 0, none, []⟩ :: dataSegs les 1 b) := by
  constructor
  · intro h1 h2 h3
    have hp : piggy lo b = b := by simp [piggy, h1, h2, maxOpenPayload]
    simp [write, Sess.client, Sess.open, hp, h3]
  · intro h
    have hp : piggy lo b = [] := by
      unfold piggy
      rcases h with h | h | h
      · cases lo with
        | none => exact absurd rfl h
        | some l => simp
      · rw [if_neg]; simp only [maxOpenPayload]; omega
      · simp [h]
    simp [write, Sess.client, Sess.open, hp]

open Mieru.TcpSession in
/-- **The fragment boundaries of the stream transport**: `maxFragmentSize` for low entropy off and
    every mode, as regenerated from the current source (`Gen.Arith.maxFragmentSize`, any MTU), is the
    model's `fragSize`: 32768 bytes, 32764 in mode 1. -/
theorem fragment_size_matches_code (mtu : Int) (rot : Nat) :
    Gen.Arith.maxFragmentSize mtu Gen.streamTransport 0 = some ((fragSize none : Nat) : Int) ∧
    Gen.Arith.maxFragmentSize mtu Gen.streamTransport 1 = some ((fragSize (some ⟨1, rot⟩) : Nat) : Int) ∧
    Gen.Arith.maxFragmentSize mtu Gen.streamTransport 2 = some ((fragSize (some ⟨2, rot⟩) : Nat) : Int) ∧
    Gen.Arith.maxFragmentSize mtu Gen.streamTransport 3 = some ((fragSize (some ⟨3, rot⟩) : Nat) : Int) ∧
    Gen.Arith.maxFragmentSize mtu Gen.streamTransport 4 = some ((fragSize (some ⟨4, rot⟩) : Nat) : Int) ∧
    fragSize none = 32768 ∧ fragSize (some ⟨1, rot⟩) = 32764 ∧ fragSize (some ⟨2, rot⟩) = 32768 ∧
    fragSize (some ⟨3, rot⟩) = 32768 ∧ fragSize (some ⟨4, rot⟩) = 32768 := by
  have f0 : fragSize none = 32768 := rfl
  have f1 : fragSize (some ⟨1, rot⟩) = 32764 := rfl
  have f2 : fragSize (some ⟨2, rot⟩) = 32768 := rfl
  have f3 : fragSize (some ⟨3, rot⟩) = 32768 := rfl
  have f4 : fragSize (some ⟨4, rot⟩) = 32768 := rfl
  rw [f0, f1, f2, f3, f4]
  refine ⟨?_, ?_, ?_, ?_, ?_, rfl, rfl, rfl, rfl, rfl⟩ <;>
    simp [Gen.Arith.maxFragmentSize, Gen.Arith.maxFragmentSizeInternal,
      Gen.Arith.buildLowEntropyParams_sourceBytesPerChunk, Gen.Arith.buildLowEntropyParams_halfMaskOnes,
      Gen.maxPDU, Gen.lowEntropyChunkLen, Gen.streamTransport] <;> omega

/-! ## Tie (T): the statements of session.go / underlay_stream.go the session model rests on,
    regenerated from the current source on every run (`tools/goextract/wire.go` → `Mieru.Gen.Wire`) -/

open Mieru.TcpSession in
/-- **`writeChunk`'s fragment count is the model's**: the arithmetic `nFragment := 1; if len(b) >
    fragmentSize { nFragment = (len(b)-1)/fragmentSize + 1 }`, translated from the current source,
    gives exactly the number of segments the model's `writeChunk` queues, for every non-empty chunk
    and every low-entropy decision; and each fragment has `min(fragmentSize, len(ptr))` bytes. -/
theorem fragment_count_matches_code (seq : Nat) (le : Option LE) (b : Bytes) (hb : b ≠ []) :
    (((writeChunk seq le b).length : Nat) : Int) = Gen.Wire.writeChunkNFragment b.length (fragSize le) ∧
    ∀ rest : Bytes, rest ≠ [] →
      (((pieces (fragSize le) rest.length rest).head?.map (·.length)).getD 0 : Int)
        = Gen.Wire.writeChunkPartLen (fragSize le) rest.length := by
  have hf := fragSize_pos le
  have hn : 1 ≤ b.length := List.length_pos_iff.mpr hb
  constructor
  · rw [writeChunk, numberFrags_length, pieces_length _ hf _ _ (Nat.le_refl _)]
    unfold Gen.Wire.writeChunkNFragment
    by_cases h : (b.length : Int) > (fragSize le : Int)
    · rw [if_pos h]
      have e2 : b.length + fragSize le - 1 = (b.length - 1) + fragSize le := by omega
      rw [e2, Nat.add_div_right _ hf, Int.tdiv_eq_ediv_of_nonneg (by omega)]
      have : ((b.length : Int) - 1) = ((b.length - 1 : Nat) : Int) := by omega
      rw [this, ← Int.natCast_ediv]
      simp
    · rw [if_neg h]
      rw [Nat.div_eq_of_lt_le (k := 1) (by omega) (by omega)]
      rfl
  · intro rest hr
    have hpos : 0 < rest.length := List.length_pos_iff.mpr hr
    cases hl : rest.length with
    | zero => omega
    | succ n =>
      simp only [pieces, hr, if_false, List.head?_cons, Option.map_some, Option.getD_some, List.length_take,
        Gen.Wire.writeChunkPartLen]
      omega

/-- **The statements the model transcribes, as they stand in the current source.**
    `Session.Write` piggybacks iff `!sendLowEntropy && len(b) <= MaxSessionOpenPayload` and queues a
    COPY of the caller's bytes (`make` + `copy`, never the caller's slice); `writeChunk` copies each
    part, numbers fragments `nFragment-1 … 0` and takes one sequence number per fragment;
    `Session.Read` cuts the unread tail at `copied` (the bytes taken from THIS segment), never at the
    call's running total; `closeWithError` builds the close request when the session is ATTACHED or
    ESTABLISHED (`closeFlushes`); `inputData` insists on `seq == streamNextRecv` and advances by one;
    `writeOneSegment` lays a data segment out as metadata, padding 1, payload (low-entropy encoded in
    place), padding 2, and a session segment as metadata, payload, padding. -/
theorem session_code_facts :
    Gen.Wire.writePiggybackCondition = "!sendLowEntropy && len(b) <= MaxSessionOpenPayload" ∧
    Gen.Wire.writeOpenPayloadAssignments = ["make([]byte, len(b))"] ∧
    Gen.Wire.writeCopyCalls = ["copy(seg.payload, b)"] ∧
    Gen.Wire.writeChunkPayloadField = "make([]byte, partLen)" ∧
    Gen.Wire.writeChunkCopyCalls = ["copy(seg.payload, part)"] ∧
    Gen.Wire.writeChunkLoop = "i := nFragment - 1; i >= 0; i--" ∧
    Gen.Wire.writeChunkFragmentField = "uint8(i)" ∧
    Gen.Wire.writeChunkSeqField = "s.nextSend.Load()" ∧
    Gen.Wire.writeChunkNextSendCalls = ["s.nextSend.Load()", "s.nextSend.Add(1)"] ∧
    Gen.Wire.readUnreadBufAssignments = ["nil", "s.unreadBuf[copied:]", "seg.payload[copied:]"] ∧
    Gen.Wire.readCopiedAssignments = ["copy(b[n:], s.unreadBuf)", "copy(b[n:], seg.payload)"] ∧
    Gen.Wire.closeFlushCondition = "s.isState(sessionAttached) || s.isState(sessionEstablished)" ∧
    (TcpSession.closeFlushes .attached = true ∧ TcpSession.closeFlushes .established = true ∧
      TcpSession.closeFlushes .init = false ∧ TcpSession.closeFlushes .closed = false) ∧
    Gen.Wire.inputDataOrderCheck = "expected := s.streamNextRecv.Load(); seq != expected" ∧
    Gen.Wire.inputDataAdvance = "s.streamNextRecv.Add(1)" ∧
    Gen.Wire.writeOneSegmentSessionParts = ["t.send.Encrypt(dataToSend[:0], plaintextMetadata)",
      "t.send.Encrypt(dataToSend[offset:offset], seg.payload)", "copy(dataToSend[offset:], padding)",
      "t.writeWithPossibleFragment(dataToSend)"] ∧
    Gen.Wire.writeOneSegmentDataParts = ["t.send.Encrypt(dataToSend[:0], plaintextMetadata)",
      "copy(dataToSend[offset:], padding1)", "t.send.Encrypt(dataToSend[offset:offset], seg.payload)",
      "encodeLowEntropyEncryptedPayload(dataToSend[offset:offset+encryptedPayloadLen], das)",
      "copy(dataToSend[offset:], encryptedPayload)", "copy(dataToSend[offset:], padding2)",
      "t.conn.Write(dataToSend)"] := by decide

/-! ## Non-vacuity of the composed theorems: a concrete connection

A client writes 3 bytes (they travel in the open request), then closes without ever reading; a
data segment of ANOTHER session (id 8) travels between the two segments; the network delivers one
byte at a time; the server application reads 2 bytes before the close request has arrived and the
rest afterwards.  Every hypothesis of `tcp_client_to_server_end_to_end` is met (toy AEAD of C09). -/
namespace Example
open Mieru.TcpSession

def prog : List Op := [.write none (fun _ => none) [1, 2, 3], .close]
def w : Wrap := ⟨29836258, 0, 0, [], [5, 5], 0, false⟩
def key : Bytes := List.replicate 32 1
def t0 : Spec.Tx := ⟨key, List.replicate 24 7, false⟩
def other : Spec.Segment × Bool :=
  (⟨.data ⟨6, 29836258, 8, 1, 0, 256, 0, 1, 2, 0⟩, [0xEE, 0xFF], [9], []⟩, false)

example : (run Sess.client prog).1 = [⟨.openReq, 0, 0, none, [1, 2, 3]⟩, ⟨.closeReq, 1, 0, none, []⟩] ∧
    accepted Sess.client prog = [1, 2, 3] := by decide

example : ∃ m0 m1 bytes,
    wrapAll true 7 (run Sess.client prog).1 [w, w] = some [m0, m1] ∧
    Spec.sealAll Spec.toyAead t0 [m0, other, m1] = some bytes ∧
    -- the conclusion of the theorem for one-byte chunks and a reader that interleaves with arrivals
    ((runEv Sess.server [.input ⟨.openReq, 0, 0, none, [1, 2, 3]⟩, .read 2, .input ⟨.closeReq, 1, 0, none, []⟩,
        .read 10, .read 10]).1 = [[1, 2], [3]]) := by
  refine ⟨_, _, _, rfl, rfl, by decide⟩

/-- the theorem applied: all its hypotheses hold for this connection -/
example (mine : List (Spec.Segment × Bool)) (hmine : wrapAll true 7 (run Sess.client prog).1 [w, w] = some mine)
    (m0 m1 : Spec.Segment × Bool) (hm01 : mine = [m0, m1])
    (bytes : Bytes) (hs : Spec.sealAll Spec.toyAead t0 [m0, other, m1] = some bytes)
    (es : List Ev)
    (harr : arrivals es = TcpSession.forSession 7
      ((bytes.map (fun b => [b])).foldl (Spec.feed Spec.toyAead) (Spec.Rx.new [key])).out) :
    (runEv Sess.server es).1.flatten ++ (runEv Sess.server es).2.pending = [1, 2, 3] ∧
    (runEv Sess.server es).2.st = .closed := by
  have hws : ∀ p ∈ (run Sess.client prog).1.zip [w, w], p.2.ok p.1.le := by
    intro p hp
    have : p = (⟨.openReq, 0, 0, none, [1, 2, 3]⟩, w) ∨ p = (⟨.closeReq, 1, 0, none, []⟩, w) := by
      simpa [prog, run, write, close, Sess.client, Sess.open, piggy, maxOpenPayload, closeFlushes] using hp
    rcases this with rfl | rfl <;>
      exact ⟨by decide, by decide, by decide, by decide, by decide, by decide, fun l h => by cases h⟩
  have hsync : Spec.InSyncFor Spec.toyAead t0 (Spec.Rx.new [key]) (Spec.firstMeta [m0, other, m1]) := by
    left
    refine ⟨rfl, rfl, by decide, by simp [Spec.Rx.new, t0], ?_⟩
    intro k hk hne
    simp only [Spec.Rx.new, List.mem_singleton] at hk
    exact absurd hk hne
  have := tcp_client_to_server_end_to_end Spec.toyAead Spec.toy_laws32 7 (by decide) prog (by decide) [w, w] (by decide) hws
    mine hmine [other] [m0, other, m1]
    (by
      intro x hx
      simp only [List.mem_singleton] at hx
      subst hx
      exact ⟨⟨by decide, by decide, by decide, by decide, rfl⟩, by decide⟩)
    (by rw [hm01]; exact .left _ (.right _ (.left _ .nil))) t0 (by decide) (by decide) [key]
    (by intro k hk; simp only [List.mem_singleton] at hk; subst hk; decide) hsync bytes hs
    (bytes.map (fun b => [b])) (by simp [List.flatten_eq_flatMap, List.flatMap_map]) es harr
  obtain ⟨_, _, h3, _, h5⟩ := this
  exact ⟨by rw [h3]; decide, h5 ⟨⟨.closeReq, 1, 0, none, []⟩, by decide, rfl⟩⟩

-- a server application that writes before its input loop has processed the open request: the data
-- segment is numbered 0 and the open-session response 1; the client still reads exactly the bytes
example : (run Sess.server [.write none (fun _ => none) [7, 7], .accept [], .write none (fun _ => none) [8], .close]).1
    = [⟨.data, 0, 0, none, [7, 7]⟩, ⟨.openResp, 1, 0, none, []⟩, ⟨.data, 2, 0, none, [8]⟩, ⟨.closeReq, 3, 0, none, []⟩] ∧
    accepted Sess.server [.write none (fun _ => none) [7, 7], .accept [], .write none (fun _ => none) [8], .close]
      = [7, 7, 8] := by decide

-- the piggyback boundary, instantiated: 1024 bytes ride in the open request, 1025 do not
example (b : Bytes) (h : b.length = 1024) (les : Nat → Option LE) :
    (write Sess.client none les b).1 = [⟨.openReq, 0, 0, none, b⟩] :=
  (piggyback_boundary none les b).1 rfl (by omega) (by intro h0; rw [h0] at h; cases h)
example (b : Bytes) (h : b.length = 1025) (les : Nat → Option LE) :
    (write Sess.client none les b).1 = ⟨.openReq, 0, 0, none, []⟩ :: dataSegs les 1 b :=
  (piggyback_boundary none les b).2 (Or.inr (Or.inl (by omega)))
-- with low entropy even one byte does not ride in the open request
example (les : Nat → Option LE) :
    (write Sess.client (some ⟨1, 0⟩) les [0x42]).1 = ⟨.openReq, 0, 0, none, []⟩ :: dataSegs les 1 [0x42] :=
  (piggyback_boundary _ les _).2 (Or.inl (by simp))

end Example

/-! ## Round 4: the API handshake (`apis/internal/early_conn.go`) in both modes

`Mieru.Model.EarlyConn`: what `apis/client` DialContext puts between the application and the session
in HANDSHAKE_STANDARD (request written and response read inside `DialContext`) and in
HANDSHAKE_NO_WAIT / 0-RTT (request in front of the bytes of the application's first `Write`, in ONE
session `Write`; response read inside that call, before any `Read` can return), and what
`apis/server` `Accept` takes from the stream before the proxy application sees it. -/

open Mieru.EarlyConn in
/-- **The application byte streams do not depend on the handshake mode.**  `prog` is the client
    application's program of `Write` / `Read` calls on the connection `DialContext` returned; in
    0-RTT mode the documented requirement "the client writes first" is assumed (without it
    `acts_noWait_read`: the first `Read` never returns — nothing was sent).  Then, in EITHER mode:
    the client side's session `Write` calls concatenate to request ++ application bytes, the server's
    `Accept` (which cannot tell the modes apart) consumes exactly the request and leaves exactly the
    application bytes; and against the server→client session stream response ++ `sv` (`sv` = the
    server application's bytes) the client application's reads return what they would return on `sv`
    alone, partitioning it — no handshake byte reaches the application, no application byte is
    eaten by the handshake. -/
theorem api_streams_independent_of_handshake_mode (m : Mode) (req resp sv : Bytes) (prog : List Call)
    (hreq : Wf req) (hresp : Wf resp) (h : m = .standard ∨ WritesFirst prog) :
    ∃ as, acts m req prog = some as ∧
      (writesOf as).flatten = req ++ (appWrites prog).flatten ∧
      afterAccept (writesOf as).flatten = some (appWrites prog).flatten ∧
      exec as (resp ++ sv) = some (appReads prog sv) ∧
      (appReads prog sv).1.flatten ++ (appReads prog sv).2 = sv := by
  obtain ⟨as, h1, h2⟩ := c2s_stream m req prog h
  obtain ⟨as', h1', h3⟩ := s2c_reads m req resp sv prog hresp h
  rw [h1] at h1'
  cases h1'
  exact ⟨as, h1, h2, by rw [h2]; exact afterAccept_spec req _ hreq, h3, appReads_spec prog sv⟩

open Mieru.EarlyConn in
/-- the only difference between the modes, for the wire: the FIRST session `Write`.  Standard: the
    request alone, then every application write as it is; 0-RTT: request ++ first application
    write, then the rest as they are.  (`piggyback_boundary` says what the session makes of it: one
    open-session request carrying it iff at most 1024 bytes and low entropy off.) -/
theorem api_first_write_by_mode (req b : Bytes) (rest : List Call) :
    (acts .standard req (.write b :: rest)).map writesOf = some (req :: b :: appWrites rest) ∧
    (acts .noWait req (.write b :: rest)).map writesOf = some ((req ++ b) :: appWrites rest) ∧
    (∀ k, acts .noWait req (.read k :: rest) = none) := by
  refine ⟨?_, ?_, fun k => acts_noWait_read req k rest⟩
  · rw [acts_standard]; simp [writesOf, writesOf_map, appWrites, toAct]
  · rw [acts_noWait_write]; simp [writesOf, writesOf_map]

open Mieru.TcpSession Mieru.EarlyConn in
/-- **Composed with `tcp_client_to_server_end_to_end`.**  The client side of the API in either mode
    (0-RTT: the client writes first) runs its session writes on a fresh client session with any
    low-entropy decisions `ds`; under the hypotheses of the end-to-end theorem (any paddings, other
    sessions on the connection, chunking, schedule of arrivals and reads at the server) the bytes the
    server session hands out (read ++ pending) are request ++ application bytes, `Accept` consumes
    exactly the request, and what the proxy application reads is exactly what the client
    application wrote — the same in both modes. -/
theorem api_client_to_server_end_to_end (A : Spec.AeadFns) (hA : Spec.AeadLaws32 A)
    (m : Mode) (req : Bytes) (hreq : Wf req) (prog : List Call) (h : m = .standard ∨ WritesFirst prog)
    (ds : List (Option LE × (Nat → Option LE))) :
    ∃ as, acts m req prog = some as ∧
    ∀ (sid : Nat) (_ : sid < 2 ^ 32)
    (_ : (run Sess.client (toOps (writesOf as) ds)).1.length ≤ 2 ^ 32)
    (ws : List Wrap) (_ : ws.length = (run Sess.client (toOps (writesOf as) ds)).1.length)
    (_ : ∀ p ∈ (run Sess.client (toOps (writesOf as) ds)).1.zip ws, p.2.ok p.1.le)
    (mine : List (Spec.Segment × Bool))
    (_ : wrapAll true sid (run Sess.client (toOps (writesOf as) ds)).1 ws = some mine)
    (others l : List (Spec.Segment × Bool))
    (_ : ∀ x ∈ others, x.1.wf ∧ TcpSession.Spec.Meta.sessionID x.1.md ≠ sid) (_ : Merge mine others l)
    (t : Spec.Tx) (_ : t.key.length = 32) (_ : t.nonce.length = 24) (cands : List Bytes)
    (_ : ∀ k ∈ cands, k.length = 32) (_ : Spec.InSyncFor A t (Spec.Rx.new cands) (Spec.firstMeta l))
    (bytes : Bytes) (_ : Spec.sealAll A t l = some bytes) (chunks : List Bytes) (_ : chunks.flatten = bytes)
    (es : List Ev)
    (_ : arrivals es = TcpSession.forSession sid (chunks.foldl (Spec.feed A) (Spec.Rx.new cands)).out),
    (runEv Sess.server es).1.flatten ++ (runEv Sess.server es).2.pending = req ++ (appWrites prog).flatten ∧
    afterAccept ((runEv Sess.server es).1.flatten ++ (runEv Sess.server es).2.pending)
      = some (appWrites prog).flatten := by
  obtain ⟨as, h1, h2⟩ := c2s_stream m req prog h
  refine ⟨as, h1, ?_⟩
  intro sid hsid hcount ws hwl hws mine hmine others l ho hm t hk hn cands hc hsync bytes hs chunks hch es harr
  obtain ⟨_, _, e3, _, _⟩ := tcp_client_to_server_end_to_end A hA sid hsid (toOps (writesOf as) ds) hcount ws hwl hws
    mine hmine others l ho hm t hk hn cands hc hsync bytes hs chunks hch es harr
  rw [e3, accepted_toOps Sess.client (by decide) (writesOf as) ds, h2]
  exact ⟨rfl, afterAccept_spec req _ hreq⟩

namespace Example
open Mieru.EarlyConn
-- the request of the harness (CONNECT 10.9.9.9:80) and the reply it sends are complete messages;
-- a domain-name request too; a truncated one is not
example : Wf [5, 1, 0, 1, 10, 9, 9, 9, 0, 80] ∧ Wf [5, 0, 0, 1, 0, 0, 0, 0, 0, 0] ∧
    Wf [5, 1, 0, 3, 2, 0x61, 0x62, 1, 187] ∧ ¬ Wf [5, 1, 0, 3, 2, 0x61, 0x62, 1] := by decide
-- both modes on one program: write 2 bytes, read 3, write 1, read the rest
example :
    (acts .standard [5, 1, 0, 1, 10, 9, 9, 9, 0, 80] [.write [1, 2], .read 3, .write [3], .read 9]).map writesOf
      = some [[5, 1, 0, 1, 10, 9, 9, 9, 0, 80], [1, 2], [3]] ∧
    (acts .noWait [5, 1, 0, 1, 10, 9, 9, 9, 0, 80] [.write [1, 2], .read 3, .write [3], .read 9]).map writesOf
      = some [[5, 1, 0, 1, 10, 9, 9, 9, 0, 80, 1, 2], [3]] ∧
    ((acts .noWait [5, 1, 0, 1, 10, 9, 9, 9, 0, 80] [.write [1, 2], .read 3, .write [3], .read 9]).bind
      (exec · ([5, 0, 0, 1, 0, 0, 0, 0, 0, 0] ++ [7, 8, 9, 10]))) = some ([[7, 8, 9], [10]], []) ∧
    ((acts .standard [5, 1, 0, 1, 10, 9, 9, 9, 0, 80] [.write [1, 2], .read 3, .write [3], .read 9]).bind
      (exec · ([5, 0, 0, 1, 0, 0, 0, 0, 0, 0] ++ [7, 8, 9, 10]))) = some ([[7, 8, 9], [10]], []) := by decide
-- 0-RTT without the requirement: a client that reads first is stuck, one that never writes sends nothing
example : acts .noWait [5, 1, 0, 1, 10, 9, 9, 9, 0, 80] [.read 1, .write [1]] = none ∧
    acts .noWait [5, 1, 0, 1, 10, 9, 9, 9, 0, 80] [] = some [] := by decide
end Example

end Mieru.C01
