import Mieru.Proofs.StreamWire
import Mieru.Proofs.Fragment
import Mieru.Proofs.TcpSessionWire
import Mieru.Gen.Consts
import Mieru.Gen.Arith
/-!
# C01 — TCP transport: every byte delivered exactly once, in order, to the right session

The model (`Mieru.Model.StreamWire`) is one direction of one TCP connection: the sender seals the
32-byte metadata and the payload under a counter nonce and lays out
`[meta+tag][pad1][payload+tag][pad2]`; the receiver consumes bytes and takes every length from
opened metadata. The theorems quantify over every AEAD satisfying `open (seal p) = p` and
`|seal p| = |p| + 16`, every metadata codec that round-trips, every list of well-formed segments,
every padding content, and every way of cutting the byte stream into chunks.

Tie to the code: the captured wire of real client/server runs (harness/props/c01.go) is decoded by
an independent codec of the same layout and must carry exactly the written streams; constants and
fragment sizes come from `Mieru.Gen`.
Partial: that `sendMutex` / `oLock` serialise writers is a runtime fact (observed, not proved).
-/
namespace Mieru.C01
open Mieru Mieru.StreamWire Mieru.Fragment Mieru.Demux

variable (A : Aead) (M : MetaCodec)

theorem flatten_flatMap {α β : Type} (l : List α) (f : α → List (List β)) :
    (l.flatMap f).flatten = (l.map (fun x => (f x).flatten)).flatten := by
  induction l with
  | nil => simp
  | cons x xs ih => simp [List.flatMap_cons, ih]

/-- Chunking independence: however the network splits or coalesces the byte stream, the receiver
    ends in the same state. -/
theorem feed_chunking_independent (fuel : Nat) (r : Rx) (chunks : List Bytes) :
    chunks.foldl (feed A M fuel) r = feed A M fuel r chunks.flatten := by
  induction chunks generalizing r with
  | nil => simp [feed]
  | cons x xs ih => simp only [List.foldl_cons, List.flatten_cons, ih, feed_append]

/-- Framing round trip: for any well-formed segments (any payloads, any padding bytes and lengths),
    the receiver fed the encoded stream — in any chunking — emits exactly those segments, in order,
    nothing more, and does not fail. -/
theorem tcp_framing_roundtrip (fuel : Nat) (hfuel : 0 < fuel) (segs : List Seg) (hw : ∀ s ∈ segs, s.wf M)
    (c : Nat) (chunks : List Bytes) (hc : chunks.flatten = encodeAll A M c segs) :
    ∃ c', chunks.foldl (feed A M fuel) ⟨c, [], [], false⟩
      = ⟨c', [], segs.map (fun s => (s.md, s.payload)), false⟩ := by
  rw [feed_chunking_independent, hc]
  obtain ⟨c', h⟩ := feed_encodeAll A M fuel hfuel segs hw c []
  exact ⟨c', by simpa using h⟩

/-- An incomplete segment is never delivered and never an error: a strict prefix of a segment's
    encoding only makes the receiver wait. -/
theorem tcp_partial_segment_waits (c : Nat) (s : Seg) (h : s.wf M) (k : Nat) (hk : k < encLen s) :
    parseOne A M c ((encodeSeg A M c s).1.take k) = .need :=
  parseOne_prefix A M c s h k hk

/-- Fragmentation is content-preserving: the fragments of a write concatenate to the write, each has
    between 1 and `fragSize` bytes. -/
theorem fragment_join (maxPDU fragSize : Nat) (h1 : 0 < maxPDU) (h2 : 0 < fragSize) (b : Bytes) :
    (fragmentWrite maxPDU fragSize b).flatten = b ∧
    ∀ p ∈ fragmentWrite maxPDU fragSize b, 1 ≤ p.length ∧ p.length ≤ fragSize := by
  unfold fragmentWrite
  constructor
  · rw [flatten_flatMap]
    have : (pieces maxPDU b.length b).map (fun chunk => (pieces fragSize chunk.length chunk).flatten)
        = pieces maxPDU b.length b := by
      conv => rhs; rw [← List.map_id (pieces maxPDU b.length b)]
      apply List.map_congr_left
      intro chunk _
      exact pieces_flatten fragSize h2 _ _ (Nat.le_refl _)
    rw [this, pieces_flatten maxPDU h1 _ _ (Nat.le_refl _)]
  · intro p hp
    simp only [List.mem_flatMap] at hp
    obtain ⟨chunk, _, hp⟩ := hp
    exact pieces_bound fragSize h2 _ _ p hp

/-- A chunk of at most `maxPDU` bytes is cut into at most 256 fragments (so the fragment number fits
    the 8-bit field) whenever the fragment size is at least 128 bytes — which `Mieru.C14` proves for
    every supported MTU and mode; on the stream transport there is one fragment per chunk. -/
theorem fragment_count (fragSize : Nat) (h2 : 128 ≤ fragSize) (chunk : Bytes) (hl : chunk.length ≤ 32768) :
    (pieces fragSize chunk.length chunk).length ≤ 256 := by
  have := pieces_count fragSize (by omega) chunk.length chunk (Nat.le_refl _)
  by_cases h : (pieces fragSize chunk.length chunk).length ≤ 256
  · exact h
  · exfalso
    have h257 : 257 ≤ (pieces fragSize chunk.length chunk).length := by omega
    have : 257 * fragSize ≤ (pieces fragSize chunk.length chunk).length * fragSize := Nat.mul_le_mul_right _ h257
    omega

/-- Demultiplexing: whatever order-preserving interleaving of the sessions' segments travels on the
    shared connection, a session receives exactly its own segments, in its own order — nothing from
    another proxy connection. -/
theorem demux_interleave (sid : Nat) (mine others l : List (Nat × Bytes))
    (hm : Merge mine others l) (h1 : ∀ x ∈ mine, x.1 = sid) (h2 : ∀ x ∈ others, x.1 ≠ sid) :
    readAll (forSession sid l) = (mine.map (·.2)).flatten := by
  rw [forSession_merge sid mine others l hm h1 h2]; rfl

/-- Reads: any sequence of read sizes returns a prefix of the stream, and all of it once the sizes
    add up to its length. -/
theorem reads_are_prefix (ns : List Nat) (s : Bytes) :
    (reads ns s).flatten = s.take ns.sum ∧ (s.length ≤ ns.sum → (reads ns s).flatten = s) := by
  refine ⟨reads_flatten ns s, fun h => ?_⟩
  rw [reads_flatten, List.take_of_length_le h]

/-- End to end for one session on a shared connection: the application's writes are fragmented, the
    fragments travel interleaved with other sessions' segments, and the reader gets exactly the
    concatenation of the writes. -/
theorem tcp_end_to_end (maxPDU fragSize sid : Nat) (h1 : 0 < maxPDU) (h2 : 0 < fragSize)
    (writes : List Bytes) (others l : List (Nat × Bytes))
    (hm : Merge ((writes.flatMap (fragmentWrite maxPDU fragSize)).map (fun p => (sid, p))) others l)
    (ho : ∀ x ∈ others, x.1 ≠ sid) :
    readAll (forSession sid l) = writes.flatten := by
  rw [demux_interleave sid _ others l hm (by intro x hx; simp at hx; obtain ⟨_, _, rfl⟩ := hx; rfl) ho]
  simp only [List.map_map]
  have : ((fun (x : Nat × Bytes) => x.2) ∘ fun p => (sid, p)) = id := by funext p; rfl
  rw [this, List.map_id, flatten_flatMap]
  congr 1
  conv => rhs; rw [← List.map_id writes]
  apply List.map_congr_left
  intro b _
  exact (fragment_join maxPDU fragSize h1 h2 b).1

/-- the constants of the model are the ones the code compiles to -/
theorem framing_constants : Gen.metadataLength = 32 ∧ Gen.aeadOverhead = 16 ∧ Gen.nonceSize = 24 ∧
    Gen.maxPDU = 32768 ∧ Gen.maxSessionOpenPayload = 1024 ∧ Gen.streamOverhead = 64 := by decide

/-! ## Non-vacuity: a toy AEAD and codec satisfy the hypotheses, and a concrete two-segment stream
    with padding is decoded through 1-byte chunking. -/
def toyAead : Aead where
  sealF n p := p.map (· + UInt8.ofNat n) ++ List.replicate 16 (UInt8.ofNat n)
  openF n c := if c.drop (c.length - 16) = List.replicate 16 (UInt8.ofNat n) ∧ 16 ≤ c.length
    then some ((c.take (c.length - 16)).map (· - UInt8.ofNat n)) else none
  seal_len := by intro n p; simp
  open_seal := by
    intro n p
    simp only [List.length_append, List.length_map, List.length_replicate, Nat.add_sub_cancel]
    rw [List.drop_left' (by simp), List.take_left' (by simp)]
    simp [List.map_map, Function.comp_def]

def toyCodec : MetaCodec where
  enc m := [UInt8.ofNat m.prefixLen, UInt8.ofNat m.payloadLen, UInt8.ofNat m.suffixLen, UInt8.ofNat m.tag] ++ List.replicate 28 0
  dec b := match b with
    | a :: b :: c :: d :: _ => some ⟨a.toNat, b.toNat, c.toNat, d.toNat⟩
    | _ => none
  ok m := m.prefixLen < 256 && m.payloadLen < 256 && m.suffixLen < 256 && m.tag < 256
  enc_len := by intro m; simp
  dec_enc := by
    intro m h
    simp only [Bool.and_eq_true, decide_eq_true_eq] at h
    obtain ⟨⟨⟨h1, h2⟩, h3⟩, h4⟩ := h
    simp only [List.cons_append, List.nil_append, UInt8.toNat_ofNat']
    have e1 : m.prefixLen % 2 ^ 8 = m.prefixLen := Nat.mod_eq_of_lt (by omega)
    have e2 : m.payloadLen % 2 ^ 8 = m.payloadLen := Nat.mod_eq_of_lt (by omega)
    have e3 : m.suffixLen % 2 ^ 8 = m.suffixLen := Nat.mod_eq_of_lt (by omega)
    have e4 : m.tag % 2 ^ 8 = m.tag := Nat.mod_eq_of_lt (by omega)
    rw [e1, e2, e3, e4]

def seg1 : Seg := ⟨⟨2, 3, 1, 7⟩, [10, 20, 30], [0xAA, 0xBB], [0xCC]⟩
def seg2 : Seg := ⟨⟨0, 0, 4, 9⟩, [], [], [1, 2, 3, 4]⟩

example : seg1.wf toyCodec ∧ seg2.wf toyCodec := by
  unfold Seg.wf seg1 seg2; decide

/-- the two segments, sent back to back and delivered one byte at a time, are decoded exactly -/
example : ((encodeAll toyAead toyCodec 5 [seg1, seg2]).map (fun b => [b])).foldl (feed toyAead toyCodec 1) ⟨5, [], [], false⟩
    = ⟨8, [], [(seg1.md, seg1.payload), (seg2.md, seg2.payload)], false⟩ := by decide +kernel

/-! # The property's own sentence, composed

`Mieru.Model.TcpSession` is the session layer of the stream transport (`Session.Write` with the
open-request piggyback and the low-entropy decisions, `writeChunk`'s numbering, `Close`, the in-order
check of `inputData`, `Session.Read` with the unread tail, the attached → established → closed state
machine); `wrap` is what `writeOneSegment` adds; the wire in between is the DOCUMENTED one
(`Mieru.Model.Spec`: the three metadata layouts, the nonce sent once then incremented per encryption,
candidate keys on the first segment, low-entropy bodies) over any AEAD that is lawful on 32-byte keys
and 24-byte nonces.  The theorems below chain: application calls → queued segments → wrapped
segments → any order-preserving interleaving with other sessions' segments on the same connection →
sealed byte stream → any chunking by the network → reference receiver → demultiplexing by session id
→ in-order check → receive queue → `Read` calls of any sizes interleaved in any way with the
arrivals.  Conclusion: bytes read ++ bytes still pending = bytes of the `Write` calls that returned
success — nothing lost, duplicated, altered or taken from another proxy connection. -/

open Mieru.TcpSession in
/-- **Client → server, end to end.**  `ops` are the client application's `Write` / `Close` calls on
    a fresh connection (any sizes, any low-entropy decisions — also writes made while the session is
    still ATTACHED, i.e. before the client ever called `Read`); `ws` the underlay's stamps, paddings
    (0..255 bytes each) and masks; `others` the segments of other sessions sharing the TCP connection;
    `chunks` the way the network cut the byte stream; `es` any schedule of arrivals and `Read` calls
    (any buffer sizes) at the server.  Then the server session is handed exactly the client's
    segments, the bytes its application has read followed by what is still pending are exactly the
    bytes of the client's successful writes, no input error is raised, and if the client closed the
    session is closed behind the last byte. -/
theorem tcp_client_to_server_end_to_end (A : Spec.AeadFns) (hA : Spec.AeadLaws32 A)
    (sid : Nat) (hsid : sid < 2 ^ 32) (ops : List Op)
    (hcount : (run Sess.client ops).1.length ≤ 2 ^ 32)
    (ws : List Wrap) (hwl : ws.length = (run Sess.client ops).1.length)
    (hws : ∀ p ∈ (run Sess.client ops).1.zip ws, p.2.ok p.1.le)
    (mine : List (Spec.Segment × Bool)) (hmine : wrapAll true sid (run Sess.client ops).1 ws = some mine)
    (others l : List (Spec.Segment × Bool))
    (ho : ∀ x ∈ others, x.1.wf ∧ TcpSession.Spec.Meta.sessionID x.1.md ≠ sid) (hm : Merge mine others l)
    (t : Spec.Tx) (hk : t.key.length = 32) (hn : t.nonce.length = 24) (cands : List Bytes)
    (hc : ∀ k ∈ cands, k.length = 32) (hsync : Spec.InSyncFor A t (Spec.Rx.new cands) (Spec.firstMeta l))
    (bytes : Bytes) (hs : Spec.sealAll A t l = some bytes) (chunks : List Bytes) (hch : chunks.flatten = bytes)
    (es : List Ev)
    (harr : arrivals es = TcpSession.forSession sid (chunks.foldl (Spec.feed A) (Spec.Rx.new cands)).out) :
    (chunks.foldl (Spec.feed A) (Spec.Rx.new cands)).dead = none ∧
    TcpSession.forSession sid (chunks.foldl (Spec.feed A) (Spec.Rx.new cands)).out = (run Sess.client ops).1 ∧
    (runEv Sess.server es).1.flatten ++ (runEv Sess.server es).2.pending = accepted Sess.client ops ∧
    (runEv Sess.server es).2.inErr = false ∧
    ((∃ g ∈ (run Sess.client ops).1, g.kind = .closeReq) → (runEv Sess.server es).2.st = .closed) := by
  have hopen : Sess.client.open := by decide
  obtain ⟨r1, r2, r3⟩ := run_spec Sess.client ops
  obtain ⟨c1, _, c3⟩ := session_stream_core A hA true sid hsid (run Sess.client ops).1
    (fun g hg => run_lawful _ _ g hg) r2 hcount ws hwl hws mine hmine others l ho hm t hk hn cands hc hsync
    bytes hs chunks hch
  rw [c3] at harr
  obtain ⟨ds, tail, e1, e2, e3⟩ := run_shape Sess.client ops hopen
  have hseqds : ds.map (·.seq) = List.range' Sess.server.nextRecv ds.length := by
    have := r2
    rw [e1, List.map_append, List.length_append, ← List.range'_append_1] at this
    exact (List.append_inj this (by simp)).1
  have htailp : (tail.map (·.payload)).flatten = [] := by
    rcases e3 with h | ⟨c, h, hc'⟩
    · simp [h]
    · have hmem : c ∈ (run Sess.client ops).1 := by rw [e1, h]; simp
      rw [h]
      simp [closeReq_payload _ _ c hmem hc']
  obtain ⟨s1, s2, s3⟩ := runEv_spec_close Sess.server es ds tail (by rw [harr, e1]) e3 (by decide) (by decide) e2 hseqds
  refine ⟨c1, c3, ?_, s3, ?_⟩
  · rw [s1, ← r1, e1, List.map_append, List.flatten_append, htailp]
    simp [Sess.pending, Sess.server]
  · rintro ⟨g, hg, hgk⟩
    apply s2
    rw [e1, List.mem_append] at hg
    rcases hg with hg | hg
    · have := e2 g hg
      rw [hgk] at this
      simp [dataish] at this
    · intro h; rw [h] at hg; simp at hg

end Mieru.C01
