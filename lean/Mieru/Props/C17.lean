import Mieru.Proofs.LowEntropyCanon
import Mieru.Proofs.PdepLoop
import Mieru.Proofs.LowEntropyGenCodec
/-!
# C17 — low-entropy encoding is lossless, canonical, and identical on every CPU path

Theorems about `Mieru.Model.LowEntropy` (the bit-by-bit reference written from docs/protocol.md).
The model is tied to pkg/protocol/low_entropy.go, pkg/protocol/metadata.go and pkg/mathext/bit*.go
by the correspondence run of harness/props/c17.go (encoder, decoder, metadata validation, PDEP/PEXT
portable and BMI2) on every check.

Proved here, for ALL bodies, modes, masks, rotations and both polarities:
* length law, round trip, canonicity (the decoder accepts only the encoder's output), rejection of
  invalid parameters and inconsistent lengths, the rotation law `((i mod 64)·R) mod 64 = (i·R) mod 64`.
Also proved: the portable Go loop (`mask & -mask` / `mask &= mask-1`), transcribed on 64-bit naturals,
equals the bit-by-bit PDEP/PEXT spec for ALL 2^128 pairs (`pdepGo_eq_spec`, `pextGo_eq_spec`).

Round 3 — tie (T).  `Mieru.Gen.LE` is REGENERATED from pkg/mathext/bit.go and pkg/protocol/low_entropy.go on
every run (tools/goextract/lowentropy.go: `uint64` ↦ `UInt64`, loops ↦ fuel-bounded recursion).  Proved below:
the regenerated `pdepGeneric` / `pextGeneric` never run out of fuel and equal the specification for all 2^128
pairs; `rotateLowEntropyMask`, `validateLowEntropyCodecParams`, `lowEntropyEncodedPayloadLen` equal the model;
the encoder / decoder assembled from the regenerated statements (`GenDriver.LE.genEncode / genDecode`; only the
byte moves are hand-read, and their verbatim text is checked here) equal `encode` / `decode` for ALL inputs —
so round trip, length law, canonicity and rejection hold of the regenerated code (`gen_roundtrip`, …).
The word-level formulas of the Go code (`PDEP(source,mask) | ^PDEP(lowBits,mask)`, `PEXT`, `chunk & ^dataMask`)
against the bit lists: `encodeChunk_is_pdep`, `decodeChunk_is_pext`.
Not proved (trusted): the BMI2 instructions `PDEPQ` / `PEXTQ` are hardware.  What is checked: the dispatch and the
exact instruction lines of bit_amd64.s (`bmi2_dispatch_and_assembly_as_expected`) and a structured differential
sweep against the portable routine on every run (harness).
-/
namespace Mieru.C17
open Mieru Mieru.LowEntropy

/-- what `encode` computes when it accepts -/
theorem encode_eq (src : Bytes) (mode half rot : Nat) (pad : Bool) (e : Bytes)
    (h : encode src mode half rot pad = some e) :
    ∃ c el, validParams mode half rot = true ∧ sourceBytes mode = some c ∧ encodedLen src.length mode = some el ∧
      e = encodeFrom (fullMask half) rot pad 0 (chunksOf c src.length src) := by
  unfold encode at h
  split at h
  · simp at h
  · rename_i hv
    split at h
    · rename_i c el hc hel
      exact ⟨c, el, by simpa using hv, hc, hel, by simpa using h.symm⟩
    · simp at h

/-- Length law: the encoded body of an N-byte source is ceil(N / C) · 8 bytes. -/
theorem le_length (src : Bytes) (mode half rot : Nat) (pad : Bool) (e : Bytes)
    (h : encode src mode half rot pad = some e) :
    ∃ c, sourceBytes mode = some c ∧ e.length = ceilDiv src.length c * 8 := by
  obtain ⟨c, el, hv, hc, _, rfl⟩ := encode_eq src mode half rot pad e h
  obtain ⟨_, hc1, _⟩ := validParams_popcount mode half rot c hv hc
  refine ⟨c, hc, ?_⟩
  rw [encodeFrom_eq, flatten_length_all8 _ (encList_all8 _ _ _ _ _), encList_length,
    chunksOf_length c (by omega) _ _ (Nat.le_refl _), Nat.mul_comm]

/-- The encoder accepts every non-empty body whose chunk count fits the 16-bit length field, for
    every valid (mode, mask, rotation). -/
theorem le_encode_defined (src : Bytes) (mode half rot c : Nat) (pad : Bool)
    (hv : validParams mode half rot = true) (hc : sourceBytes mode = some c)
    (hne : src ≠ []) (hfit : ceilDiv src.length c ≤ 8191) :
    ∃ e, encode src mode half rot pad = some e := by
  have hl : src.length ≠ 0 := fun h => hne (List.eq_nil_of_length_eq_zero h)
  have h8 : ¬ ceilDiv src.length c > 65535 / 8 := by
    have : 65535 / 8 = 8191 := by decide
    omega
  simp [encode, hv, hc, encodedLen, hl, h8]

/-- Round trip: decoding what the encoder produced returns the original bytes — for every body,
    mode, half-mask of the mode's weight, rotation and padding polarity. -/
theorem le_roundtrip (src : Bytes) (mode half rot : Nat) (pad : Bool) (e : Bytes)
    (h : encode src mode half rot pad = some e) :
    decode e src.length mode half rot = some src := by
  obtain ⟨c, el, hv, hc, hel, rfl⟩ := encode_eq src mode half rot pad e h
  obtain ⟨hp, hc1, hc7⟩ := validParams_popcount mode half rot c hv hc
  have hm := fullMask_length half
  have hne : src ≠ [] := by
    intro hs; subst hs
    simp [encodedLen, hc] at hel
  have hpos : 0 < src.length := List.length_pos_iff.mpr hne
  -- the encoded length is the expected one
  have hlen : (encodeFrom (fullMask half) rot pad 0 (chunksOf c src.length src)).length = el := by
    have := le_length src mode half rot pad _ h
    obtain ⟨c', hc', hl⟩ := this
    rw [hc] at hc'; cases hc'
    unfold encodedLen at hel
    rw [hc] at hel
    simp only at hel
    split at hel
    · simp at hel
    · split at hel
      · simp at hel
      · simp at hel; omega
  -- cut back into the list of encoded chunks
  have hchunks : chunksOf 8 (encodeFrom (fullMask half) rot pad 0 (chunksOf c src.length src)).length
      (encodeFrom (fullMask half) rot pad 0 (chunksOf c src.length src))
      = encList (fullMask half) rot pad 0 (chunksOf c src.length src) := by
    rw [encodeFrom_eq]
    apply chunksOf_flatten _ (encList_all8 _ _ _ _ _)
    rw [flatten_length_all8 _ (encList_all8 _ _ _ _ _)]; omega
  unfold decode
  simp only [hv, Bool.not_true, Bool.false_eq_true, if_false, hc, hel, hlen, ne_eq, not_true_eq_false]
  rw [hlen] at hchunks
  rw [hchunks]
  -- first chunk: polarity is inferred correctly
  have hco : chunksOf c src.length src = src.take c :: chunksOf c (src.length - 1) (src.drop c) := by
    cases hsl : src.length with
    | zero => omega
    | succ k => simp [chunksOf, hne]
  rw [hco]
  simp only [encList]
  have hk : (src.take c).length = min c src.length := by simp
  have key := decodeChunk_encodeChunk (fullMask half) (src.take c) pad hm
    (by rw [hp, hk]; apply Nat.mul_le_mul_left; exact Nat.min_le_left _ _)
  rw [chunkMask_zero, ← hk, key]
  simp only
  rw [inferPolarity_replicate _ _ (by rw [hk]; have := Nat.min_le_left c src.length; omega)]
  simp only
  have := decodeFrom_encList (fullMask half) rot c pad hm hp (by omega) src.length src 0 (Nat.le_refl _)
  rw [hco] at this
  simp only [encList, chunkMask_zero] at this
  exact this

/-- Canonicity: the decoder accepts a byte string only if it is exactly what the encoder produces
    for the decoded body with one of the two padding polarities. -/
theorem le_canonical (e : Bytes) (n mode half rot : Nat) (s : Bytes)
    (h : decode e n mode half rot = some s) :
    s.length = n ∧ ∃ pad, encode s mode half rot pad = some e := by
  unfold decode at h
  split at h
  · simp at h
  · rename_i hv
    have hv' : validParams mode half rot = true := by simpa using hv
    split at h
    · rename_i c el hc hel
      obtain ⟨hp, hc1, hc7⟩ := validParams_popcount mode half rot c hv' hc
      split at h
      · simp at h
      · rename_i hlen
        have hlen' : e.length = el := by simpa using hlen
        -- el = ceilDiv n c * 8, n > 0
        have hel' : 0 < n ∧ ceilDiv n c ≤ 8191 ∧ el = ceilDiv n c * 8 := by
          unfold encodedLen at hel
          rw [hc] at hel
          simp only at hel
          split at hel
          · simp at hel
          · split at hel
            · simp at hel
            · simp at hel
              have : 65535 / 8 = 8191 := by decide
              omega
        obtain ⟨hn, hfit, hele⟩ := hel'
        obtain ⟨h8, hflat, hcl⟩ := chunksOf8 (ceilDiv n c) e e.length (by omega) (by omega)
        simp only at h
        split at h
        · simp at h
        · rename_i ch0 rest hchunks
          split at h
          · simp at h
          · rename_i pol hpol
            rw [hchunks] at h8 hflat hcl h
            obtain ⟨hsl, henc⟩ := encList_of_decodeFrom (fullMask half) rot c pol (fullMask_length half) hp (by omega)
              (ch0 :: rest) 0 n s h8 hcl h
            refine ⟨hsl, pol, ?_⟩
            have hs : s ≠ [] := by intro hs; subst hs; simp at hsl; omega
            have hl : s.length ≠ 0 := by omega
            have h8' : ¬ ceilDiv s.length c > 65535 / 8 := by
              have : 65535 / 8 = 8191 := by decide
              rw [hsl]; omega
            simp only [encode, hv', Bool.not_true, Bool.false_eq_true, if_false, hc, encodedLen, hl, h8']
            rw [encodeFrom_eq, henc s.length (by omega), hflat]
    · simp at h

/-- invalid mode, wrong mask weight or invalid rotation: both directions reject -/
theorem le_rejects_invalid_params (b : Bytes) (n mode half rot : Nat) (pad : Bool)
    (h : validParams mode half rot = false) :
    encode b mode half rot pad = none ∧ decode b n mode half rot = none := by
  simp [encode, decode, h]

/-- inconsistent lengths: an encoded body whose length is not ceil(n/C)·8 is rejected -/
theorem le_rejects_wrong_length (e : Bytes) (n mode half rot el : Nat)
    (hel : encodedLen n mode = some el) (h : e.length ≠ el) :
    decode e n mode half rot = none := by
  unfold decode
  split
  · rfl
  · split
    · rename_i c el' hc hel'
      rw [hel] at hel'; cases hel'
      simp [h]
    · rfl

/-- an empty body or one needing more than 8191 chunks has no encoding -/
theorem le_rejects_unencodable (b : Bytes) (mode half rot : Nat) (pad : Bool)
    (h : encodedLen b.length mode = none) : encode b mode half rot pad = none := by
  unfold encode
  split
  · rfl
  · split
    · rename_i c el hc hel; rw [h] at hel; cases hel
    · rfl

/-- the code rotates by `(i mod 64)·R`, the document by `i·R`: the same rotation of a 64-bit mask -/
theorem rotation_mod64 (i r : Nat) : ((i % 64) * r) % 64 = (i * r) % 64 := by
  rw [Nat.mul_mod, Nat.mod_mod, ← Nat.mul_mod]

/-- rotation keeps the mask's length and weight, so every chunk has exactly 8·C data positions -/
theorem chunk_mask_weight (half rot i : Nat) :
    (chunkMask (fullMask half) rot i).length = 64 ∧
    Bits.popcount (chunkMask (fullMask half) rot i) = Bits.popcount (fullMask half) := by
  exact ⟨by rw [chunkMask_length, fullMask_length], chunkMask_popcount _ _ _⟩

/-- what metadata validation guarantees about an accepted low-entropy data segment -/
theorem le_meta_validation_sound (proto mode half rot pl el : Nat)
    (h : metaValid proto mode half rot pl el = true) :
    (proto = 10 ∨ proto = 11) ∧ el ≤ 32768 ∧ validParams mode half rot = true ∧
    (el = 0 → pl = 0) ∧ (0 < el → encodedLen el mode = some pl) := by
  unfold metaValid at h
  simp only [Bool.and_eq_true, Bool.or_eq_true, beq_iff_eq, decide_eq_true_eq] at h
  obtain ⟨⟨⟨⟨hp, he⟩, _⟩, hv⟩, hl⟩ := h
  refine ⟨hp, he, hv, ?_, ?_⟩
  · intro h0; subst h0; simpa using hl
  · intro hpos
    have : ¬ el = 0 := by omega
    simp only [this, if_false] at hl
    cases hel' : encodedLen el mode with
    | none => rw [hel'] at hl; simp at hl
    | some el' => rw [hel'] at hl; simp at hl; rw [hl]

/-! ## The portable Go loops compute the bit-by-bit PDEP / PEXT specification

(This closes the "not proved (partial)" item of the header for the portable path: `pdepGo` / `pextGo`
are the line-by-line transcription of the loops of pkg/mathext/bit.go — `mask & -mask`,
`mask &= mask - 1`, `srcBit <<= 1` on 64-bit words — and `pdep` / `pext` the bit-list specification.
Loop invariants in `Mieru.Proofs.PdepLoop`.  The BMI2 instructions remain differential only.) -/

/-- the portable PDEP loop equals the specification on all 64-bit words -/
theorem pdepGo_eq_spec (x mask : Nat) (hx : x < 2^64) (hm : mask < 2^64) : pdepGo x mask = some (pdep x mask) :=
  have _ := hx
  pdepGo_eq_pdep x mask hm

/-- the portable PEXT loop equals the specification on all 64-bit words -/
theorem pextGo_eq_spec (x mask : Nat) (hx : x < 2^64) (hm : mask < 2^64) : pextGo x mask = some (pext x mask) :=
  have _ := hx
  pextGo_eq_pext x mask hm


/-! ## Round 3: the REGENERATED code (`Mieru.Gen.LE`, translated from the Go source on every run) -/

section Regenerated
open Mieru.Gen.LE Mieru.GenDriver.LE Mieru.GoWord

/-- The regenerated portable PDEP (pkg/mathext/bit.go `pdepGeneric`, a `UInt64` loop) terminates within its
    fuel and equals the bit-by-bit specification — for ALL 2^128 input pairs. -/
theorem gen_pdep_eq_spec (x mask : UInt64) :
    pdepGeneric x mask = some (UInt64.ofNat (pdep x.toNat mask.toNat)) := pdepGeneric_eq x mask

/-- …and the regenerated portable PEXT. -/
theorem gen_pext_eq_spec (x mask : UInt64) :
    pextGeneric x mask = some (UInt64.ofNat (pext x.toNat mask.toNat)) := pextGeneric_eq x mask

/-- consequently the two regenerated routines are mutually inverse on the mask's positions:
    `PEXT(PDEP(x, m), m) = x` restricted to `popcount m` bits is the model's `split_deposit`; stated here as
    the agreement of both with the same bit-list semantics for every pair. -/
theorem gen_pdep_pext_same_mask_semantics (x mask : UInt64) :
    ∃ d e, pdepGeneric x mask = some d ∧ pextGeneric x mask = some e ∧
      d.toNat = pdep x.toNat mask.toNat ∧ e.toNat = pext x.toNat mask.toNat := by
  refine ⟨_, _, pdepGeneric_eq x mask, pextGeneric_eq x mask, ?_, ?_⟩
  · rw [UInt64.toNat_ofNat', Nat.mod_eq_of_lt (pdep_lt _ _)]
  · rw [UInt64.toNat_ofNat', Nat.mod_eq_of_lt (pext_lt _ _)]

/-- The regenerated `rotateLowEntropyMask` (with Go's `bits.RotateLeft64` and its `(chunkIndex % 64) * R`
    arithmetic) is the model's chunk mask — for every initial mask, rotation byte and chunk index. -/
theorem gen_rotate_eq_model (initialMask : UInt64) (rotation chunkIndex : Nat) :
    Bits.ofNat 64 (rotateLowEntropyMask initialMask rotation chunkIndex).toNat
      = chunkMask (Bits.ofNat 64 initialMask.toNat) rotation chunkIndex :=
  chunkMask_eq_gen initialMask rotation chunkIndex

/-- `mathext.RepeatUint32` is the model's 64-bit mask -/
theorem gen_repeat_eq_model (half : UInt32) : Bits.ofNat 64 (repeatUint32 half).toNat = fullMask half.toNat :=
  fullMask_eq_gen half

/-- The regenerated `validateLowEntropyCodecParams` accepts exactly the model's `validParams` (mode, mask
    weight, rotation) and returns the mode's (C, weight). -/
theorem gen_validate_eq_model (mode : Nat) (half : UInt32) (rot : Nat) :
    (validateLowEntropyCodecParams mode half rot).isSome = validParams mode half.toNat rot ∧
    (∀ c k, validateLowEntropyCodecParams mode half rot = some (c, k) →
      sourceBytes mode = some c.toNat ∧ halfOnes mode = some k.toNat ∧ 0 ≤ c ∧ 0 ≤ k) := by
  rw [validate_eq]
  by_cases hv : validParams mode half.toNat rot = true
  · obtain ⟨c, k, hc, hk⟩ := validParams_modes _ _ _ hv
    rw [if_pos hv, hc, hk, hv]
    refine ⟨rfl, ?_⟩
    intro c' k' h
    simp only [Option.some.injEq, Prod.mk.injEq] at h
    obtain ⟨rfl, rfl⟩ := h
    simp
  · rw [if_neg hv]
    have : validParams mode half.toNat rot = false := by simpa using hv
    rw [this]
    exact ⟨rfl, fun _ _ h => by simp at h⟩

/-- The regenerated length law `lowEntropyEncodedPayloadLen` is the model's `encodedLen`. -/
theorem gen_encodedLen_eq_model (n mode : Nat) :
    Mieru.Gen.Arith.lowEntropyEncodedPayloadLen n mode = (encodedLen n mode).map Int.ofNat :=
  encodedLen_eq n mode

/-- The regenerated `validateLowEntropyDataAckMetadata` (pkg/protocol/metadata.go) is the model's `metaValid`,
    for every protocol type, mode, mask, rotation and pair of length fields. -/
theorem gen_meta_eq_model (proto mode : Nat) (half : UInt32) (rot pl el : Nat) :
    validateLowEntropyDataAckMetadata proto mode half rot pl el = metaValid proto mode half.toNat rot pl el :=
  metaValid_eq_gen proto mode half rot pl el

/-- Metadata validation, both directions: accepted ⇔ low-entropy type ∧ extracted length ≤ 32768 ∧ valid
    (mode, mask weight, rotation) ∧ the two length fields are tied by the length law (0 ↦ 0). -/
theorem le_meta_validation_iff (proto mode half rot pl el : Nat) :
    metaValid proto mode half rot pl el = true ↔
      ((proto = 10 ∨ proto = 11) ∧ el ≤ 32768 ∧ validParams mode half rot = true ∧
       (el = 0 → pl = 0) ∧ (0 < el → encodedLen el mode = some pl)) := by
  constructor
  · exact le_meta_validation_sound proto mode half rot pl el
  · rintro ⟨hp, he, hv, h0, h1⟩
    unfold metaValid
    have hp' : (proto == 10 || proto == 11) = true := by rcases hp with h | h <;> simp [h]
    by_cases hz : el = 0
    · have := h0 hz; subst hz; subst this; simp [hp', hv]
    · have hl := h1 (by omega)
      have h8 : pl % 8 = 0 := by
        unfold encodedLen at hl
        split at hl
        · simp at hl
        · split at hl
          · simp at hl
          · split at hl
            · simp at hl
            · simp at hl; omega
      simp [hp', he, hv, hz, hl, h8]

/-- what the SENDER writes validates at the receiver: for a body the encoder accepts, the metadata
    (type 10/11, the encoder's mode / mask / rotation, payloadLen = |encoded|, extractedLen = |body| ≤ 32768) pass
    `validateLowEntropyDataAckMetadata`, and the decoder's own parameter checks are subsumed by it. -/
theorem le_meta_valid_of_encode (src : Bytes) (proto mode half rot : Nat) (pad : Bool) (e : Bytes)
    (hproto : proto = 10 ∨ proto = 11) (hlen : src.length ≤ 32768)
    (h : encode src mode half rot pad = some e) :
    metaValid proto mode half rot e.length src.length = true := by
  rw [le_meta_validation_iff]
  obtain ⟨c, el, hv, hc, hel, rfl⟩ := encode_eq src mode half rot pad e h
  obtain ⟨c', hc', hl⟩ := le_length src mode half rot pad _ h
  rw [hc] at hc'; cases hc'
  have hne : src.length ≠ 0 := by
    intro h0; simp [encodedLen, hc, h0] at hel
  refine ⟨hproto, hlen, hv, fun h0 => absurd h0 hne, fun _ => ?_⟩
  rw [hl, hel]
  unfold encodedLen at hel
  rw [hc] at hel
  simp only at hel
  split at hel
  · simp at hel
  · split at hel
    · simp at hel
    · simp at hel; rw [← hel]

/-- The Go encoder's word formula is the bit-by-bit chunk encoding:
    `chunk = PDEP(source, mask) | (pad ? ^PDEP(lowBits(8·len), mask) : 0)`, stored big-endian. -/
theorem encodeChunk_is_pdep (mask : List Bool) (hm : mask.length = 64) (src : Bytes) (hs : src.length ≤ 8) (pad : Bool) :
    encodeChunk mask src pad = natBytes 8 (encodeChunkW (Bits.toNat mask) src pad) :=
  encodeChunk_eq_pdep mask hm src hs pad

/-- The Go decoder's word formulas are the bit-by-bit chunk decoding: the data is the low `n` bytes of
    `PEXT(chunk, mask)`; all padding positions are 0 iff `chunk & ^dataMask == 0`, all 1 iff `== ^dataMask`. -/
theorem decodeChunk_is_pext (mask : List Bool) (hm : mask.length = 64) (ch : Bytes) (hch : ch.length = 8) (n : Nat)
    (hn : 8 * n ≤ Bits.popcount mask) :
    let w := decodeChunkW (Bits.toNat mask) (beNat ch) n
    (decodeChunk mask ch n).1 = natBytes n w.1 ∧
    ((decodeChunk mask ch n).2.all (· == false) = true ↔ w.2.1 = 0) ∧
    ((decodeChunk mask ch n).2.all (· == true) = true ↔ w.2.1 = w.2.2) :=
  decodeChunk_eq_pext mask hm ch hch n hn

/-- **The encoder assembled from the regenerated Go statements equals the specification**, for every body,
    mode, half mask, rotation and padding bit ≤ 1 (a padding bit > 1 is rejected by both: see the example). -/
theorem gen_encode_eq_spec (src : Bytes) (mode : Nat) (half : UInt32) (rot : Nat) (pad : UInt8) (hpad : pad ≤ 1) :
    genEncode src mode half rot pad = encode src mode half.toNat rot (pad == 1) :=
  genEncode_eq src mode half rot pad hpad

/-- **The decoder assembled from the regenerated Go statements equals the specification**, for every byte
    string and every metadata combination. -/
theorem gen_decode_eq_spec (enc : Bytes) (n mode : Nat) (half : UInt32) (rot : Nat) :
    genDecode enc n mode half rot = decode enc n mode half.toNat rot :=
  genDecode_eq enc n mode half rot

/-- Composed: round trip, length law and canonicity OF THE REGENERATED CODE (the property's sentence with the
    Go statements inside it). -/
theorem gen_roundtrip (src : Bytes) (mode : Nat) (half : UInt32) (rot : Nat) (pad : UInt8) (hpad : pad ≤ 1) (e : Bytes)
    (h : genEncode src mode half rot pad = some e) :
    genDecode e src.length mode half rot = some src ∧
    ∃ c, sourceBytes mode = some c ∧ e.length = ceilDiv src.length c * 8 := by
  rw [gen_encode_eq_spec _ _ _ _ _ hpad] at h
  rw [gen_decode_eq_spec]
  exact ⟨le_roundtrip _ _ _ _ _ _ h, le_length _ _ _ _ _ _ h⟩

theorem gen_canonical (e : Bytes) (n mode : Nat) (half : UInt32) (rot : Nat) (s : Bytes)
    (h : genDecode e n mode half rot = some s) :
    s.length = n ∧ ∃ pad : UInt8, pad ≤ 1 ∧ genEncode s mode half rot pad = some e := by
  rw [gen_decode_eq_spec] at h
  obtain ⟨hl, pad, hp⟩ := le_canonical _ _ _ _ _ _ h
  refine ⟨hl, if pad then 1 else 0, ?_, ?_⟩
  · cases pad <;> decide
  · rw [gen_encode_eq_spec _ _ _ _ _ (by cases pad <;> decide)]
    cases pad <;> simpa using hp

/-- the regenerated code rejects an invalid mode, a wrong mask weight and an invalid rotation, in both directions -/
theorem gen_rejects_invalid_params (b : Bytes) (n mode : Nat) (half : UInt32) (rot : Nat) (pad : UInt8) (hpad : pad ≤ 1)
    (h : validParams mode half.toNat rot = false) :
    genEncode b mode half rot pad = none ∧ genDecode b n mode half rot = none := by
  rw [gen_encode_eq_spec _ _ _ _ _ hpad, gen_decode_eq_spec]
  exact le_rejects_invalid_params _ _ _ _ _ _ h

/-- The statements of the two Go functions that are NOT translated (allocation, loop header, byte moves, final
    return) are verbatim the ones the loop skeleton `GenDriver.LE.encLoop / decLoop` was written for. -/
theorem byte_statements_as_expected :
    encByteStatements = [
      "encoded := make([]byte, int(encodedLen))",
      "for chunkIndex, srcOffset := 0, 0; srcOffset < len(src); chunkIndex, srcOffset = chunkIndex+1, srcOffset+params.sourceBytesPerChunk",
      "var scratch [lowEntropyChunkLen]byte",
      "copy(scratch[lowEntropyChunkLen-sourceLen:], src[srcOffset:srcOffset+sourceLen])",
      "source := binary.BigEndian.Uint64(scratch[:])",
      "binary.BigEndian.PutUint64(encoded[chunkIndex*lowEntropyChunkLen:], chunk)",
      "return encoded, nil"] ∧
    decByteStatements = [
      "decoded := make([]byte, extractedPayloadLen)",
      "for chunkIndex, dstOffset := 0, 0; dstOffset < extractedPayloadLen; chunkIndex, dstOffset = chunkIndex+1, dstOffset+params.sourceBytesPerChunk",
      "chunk := binary.BigEndian.Uint64(encoded[chunkIndex*lowEntropyChunkLen:])",
      "var scratch [lowEntropyChunkLen]byte",
      "binary.BigEndian.PutUint64(scratch[:], source)",
      "copy(decoded[dstOffset:dstOffset+sourceLen], scratch[lowEntropyChunkLen-sourceLen:])",
      "return decoded, nil"] ∧
    Mieru.Gen.lowEntropyChunkLen = 8 := ⟨rfl, rfl, rfl⟩

/-- What is TRUSTED about the hardware path, made explicit and regenerated: `PDEP`/`PEXT` call `pdepImpl` /
    `pextImpl`, which are the portable routines unless `init` (amd64, `cpu.X86.HasBMI2`) installs the two
    assembly routines, each of which is exactly `MOVQ x,AX; MOVQ mask,CX; PDEPQ|PEXTQ CX, AX, AX; MOVQ AX,ret; RET`
    (Go assembler operand order: `PDEPQ mask, src, dst`).  The semantics of the two BMI2 instructions is the
    only assumption; the harness compares them with the portable routine on every run. -/
theorem bmi2_dispatch_and_assembly_as_expected :
    dispatchDefaults = ["pdepImpl = pdepGeneric", "pextImpl = pextGeneric"] ∧
    dispatchBodies = ["PDEP: { return pdepImpl(x, mask) }", "PEXT: { return pextImpl(x, mask) }"] ∧
    dispatchAssignments = [
      "bit_amd64.go init: if cpu.X86.HasBMI2: pdepImpl = pdepBMI2",
      "bit_amd64.go init: if cpu.X86.HasBMI2: pextImpl = pextBMI2"] ∧
    asmLines = [
      "TEXT ·pdepBMI2(SB), NOSPLIT, $0-24", "MOVQ x+0(FP), AX", "MOVQ mask+8(FP), CX", "PDEPQ CX, AX, AX",
      "MOVQ AX, ret+16(FP)", "RET",
      "TEXT ·pextBMI2(SB), NOSPLIT, $0-24", "MOVQ x+0(FP), AX", "MOVQ mask+8(FP), CX", "PEXTQ CX, AX, AX",
      "MOVQ AX, ret+16(FP)", "RET"] := ⟨rfl, rfl, rfl, rfl⟩

end Regenerated

/-! ## Non-vacuity: the document's worked example, both polarities, and a rotated multi-chunk body -/
example : encode [0x12, 0x34, 0x56, 0x78] 1 0x0f0f0f0f 0 false = some [1, 2, 3, 4, 5, 6, 7, 8] := by decide
example : encode [0x12, 0x34, 0x56, 0x78] 1 0x0f0f0f0f 0 true
    = some [0xf1, 0xf2, 0xf3, 0xf4, 0xf5, 0xf6, 0xf7, 0xf8] := by decide
example : decode [0xf1, 0xf2, 0xf3, 0xf4, 0xf5, 0xf6, 0xf7, 0xf8] 4 1 0x0f0f0f0f 0 = some [0x12, 0x34, 0x56, 0x78] := by decide
example : validParams 1 0x0f0f0f0f 0 = true ∧ validParams 4 0x7ffeeffe 240 = true ∧ validParams 1 0x0f0f0f0f 17 = false := by decide
example : metaValid 10 1 0x0f0f0f0f 3 16 5 = true := by decide
/-- mixed padding is rejected -/
example : decode [0x01, 0x02, 0x03, 0x04, 0x05, 0x06, 0x07, 0xf8] 4 1 0x0f0f0f0f 0 = none := by decide

/-- PDEP / PEXT: loop transcription and specification on concrete 64-bit words -/
example : pdepGo 0x12345678 0x0f0f0f0f0f0f0f0f = some 0x0102030405060708 ∧
    pdep 0x12345678 0x0f0f0f0f0f0f0f0f = 0x0102030405060708 := by decide
example : pextGo 0x0102030405060708 0x0f0f0f0f0f0f0f0f = some 0x12345678 ∧
    pext 0x0102030405060708 0x0f0f0f0f0f0f0f0f = 0x12345678 := by decide
set_option maxRecDepth 4096 in
example : pdepGo 0xffffffffffffffff 0xffffffffffffffff = some 0xffffffffffffffff ∧
    pdep 0xffffffffffffffff 0xffffffffffffffff = 0xffffffffffffffff ∧
    pextGo 0xffffffffffffffff 0xffffffffffffffff = some 0xffffffffffffffff ∧
    pext 0xffffffffffffffff 0xffffffffffffffff = 0xffffffffffffffff := by decide
example : pdepGo 0xdeadbeefcafef00d 0x8000000000000001 = some 1 ∧
    pdep 0xdeadbeefcafef00d 0x8000000000000001 = 1 ∧
    pextGo 0xdeadbeefcafef00d 0x8000000000000001 = some 3 ∧
    pext 0xdeadbeefcafef00d 0x8000000000000001 = 3 := by decide
example : pdepGo 0xdeadbeefcafef00d 0 = some 0 ∧ pdep 0xdeadbeefcafef00d 0 = 0 ∧
    pextGo 0xdeadbeefcafef00d 0 = some 0 ∧ pext 0xdeadbeefcafef00d 0 = 0 := by decide
example : pdepGo 0xdeadbeefcafef00d 0xf0f0aa5533cc0ff0 = some (pdep 0xdeadbeefcafef00d 0xf0f0aa5533cc0ff0) ∧
    pextGo 0xdeadbeefcafef00d 0xf0f0aa5533cc0ff0 = some (pext 0xdeadbeefcafef00d 0xf0f0aa5533cc0ff0) := by decide

/-- the regenerated code on the document's worked example, both polarities; a padding bit > 1, a heavier mask and
    rotation 17 are rejected; rotation 15 rotates (chunk 1 differs from chunk 0) -/
example : Mieru.GenDriver.LE.genEncode [0x12, 0x34, 0x56, 0x78] 1 0x0f0f0f0f 0 0 = some [1, 2, 3, 4, 5, 6, 7, 8] := by decide
example : Mieru.GenDriver.LE.genEncode [0x12, 0x34, 0x56, 0x78] 1 0x0f0f0f0f 0 1
    = some [0xf1, 0xf2, 0xf3, 0xf4, 0xf5, 0xf6, 0xf7, 0xf8] := by decide
example : Mieru.GenDriver.LE.genDecode [0xf1, 0xf2, 0xf3, 0xf4, 0xf5, 0xf6, 0xf7, 0xf8] 4 1 0x0f0f0f0f 0 = some [0x12, 0x34, 0x56, 0x78] := by decide
example : Mieru.GenDriver.LE.genEncode [0x12] 1 0x0f0f0f0f 0 2 = none := by decide
example : Mieru.GenDriver.LE.genEncode [0x12] 1 0x0f0f0f1f 0 0 = none ∧ Mieru.GenDriver.LE.genEncode [0x12] 1 0x0f0f0f0f 17 0 = none := by decide
example : Mieru.Gen.LE.pdepGeneric 0x12345678 0x0f0f0f0f0f0f0f0f = some 0x0102030405060708 ∧
    Mieru.Gen.LE.pextGeneric 0x0102030405060708 0x0f0f0f0f0f0f0f0f = some 0x12345678 := by decide
example : Mieru.Gen.LE.rotateLowEntropyMask 0x0f0f0f0f0f0f0f0f 15 1 = 0x1e1e1e1e1e1e1e1e ∧
    Mieru.Gen.LE.rotateLowEntropyMask 0x0f0f0f0f0f0f0f0f 16 1 = 0x1e1e1e1e1e1e1e1e ∧
    Mieru.Gen.LE.rotateLowEntropyMask 0x0f0f0f0f0f0f0f0f 1 1 = 0x8787878787878787 := by decide

/-! ## The wire-level wrappers (ciphertext body ‖ tag) -/

/-- Wire-level wrappers: what `encodeLowEntropyEncryptedPayload` emits for `ciphertext ‖ tag` is accepted by
    `decodeLowEntropyEncryptedPayload` under the same (valid) metadata and gives back `ciphertext ‖ tag`;
    the tag bytes are untouched, and the encoded body has the length the metadata announces. -/
theorem wrap_roundtrip (ct : Bytes) (proto mode half rot pl el : Nat) (pad : Bool) (w : Bytes)
    (hproto : proto = 10 ∨ proto = 11) (hel : el ≤ 32768)
    (h : wrapEncode ct mode half rot pl el pad = some w) :
    wrapDecode w proto mode half rot pl el = some ct ∧
    w.length = pl + tagLen ∧ w.drop pl = ct.drop el ∧ (ct.drop el).length = tagLen := by
  unfold wrapEncode at h
  split at h
  · simp at h
  · rename_i hlen
    have hlen' : ct.length = el + tagLen := by simpa using hlen
    split at h
    · simp at h
    · rename_i body henc
      split at h
      · simp at h
      · rename_i hbl
        have hbl' : body.length = pl := by simpa using hbl
        simp only [Option.some.injEq] at h
        subst h
        have htl : (ct.take el).length = el := by rw [List.length_take]; omega
        have hrt := le_roundtrip _ _ _ _ _ _ henc
        rw [htl] at hrt
        obtain ⟨c, hc, hlenlaw⟩ := le_length _ _ _ _ _ _ henc
        rw [htl, hbl'] at hlenlaw
        obtain ⟨c', el', hv, hc', hel', _⟩ := encode_eq _ _ _ _ _ _ henc
        rw [htl] at hel'
        have hmeta : metaValid proto mode half rot pl el = true := by
          unfold metaValid
          have hne : el ≠ 0 := by
            intro h0; subst h0
            simp [encodedLen, hc'] at hel'
          have hel'' : encodedLen el mode = some pl := by
            rw [hel']
            unfold encodedLen at hel'
            rw [hc'] at hel'
            rw [hc] at hc'; cases hc'
            simp only at hel'
            split at hel'
            · simp at hel'
            · split at hel'
              · simp at hel'
              · simp at hel'; rw [← hel', hlenlaw]
          have h8 : pl % 8 = 0 := by rw [hlenlaw]; omega
          simp only [hv, hel'', Bool.and_true]
          rcases hproto with rfl | rfl <;> simp [hel, h8, hne]
        refine ⟨?_, ?_, ?_, ?_⟩
        · unfold wrapDecode
          simp only [hmeta, Bool.not_true, Bool.false_eq_true, if_false, List.length_append, hbl', List.length_drop, hlen']
          have e1 : ¬ (pl + (el + tagLen - el) ≠ pl + tagLen) := by omega
          rw [if_neg e1, ← hbl', List.take_left, List.drop_left, hrt]
          simp only [List.take_append_drop]
        · simp [hbl', hlen']
        · rw [← hbl', List.drop_left]
        · simp [hlen']

example : wrapEncode ([0x12, 0x34, 0x56, 0x78] ++ List.replicate 16 0xaa) 1 0x0f0f0f0f 0 8 4 false
    = some ([1, 2, 3, 4, 5, 6, 7, 8] ++ List.replicate 16 0xaa) := by decide
example : wrapDecode ([1, 2, 3, 4, 5, 6, 7, 8] ++ List.replicate 16 0xaa) 10 1 0x0f0f0f0f 0 8 4
    = some ([0x12, 0x34, 0x56, 0x78] ++ List.replicate 16 0xaa) := by decide
/-- an empty ciphertext body has no low-entropy form; metadata that do not validate are refused before decoding -/
example : wrapEncode (List.replicate 16 0xaa) 1 0x0f0f0f0f 0 0 0 false = none := by decide
example : wrapDecode ([1, 2, 3, 4, 5, 6, 7, 8] ++ List.replicate 16 0xaa) 6 1 0x0f0f0f0f 0 8 4 = none := by decide

end Mieru.C17
