import Mieru.Proofs.LowEntropyCanon
import Mieru.Proofs.PdepLoop
/-!
# C17 — low-entropy encoding is lossless, canonical, and identical on every CPU path

Theorems about `Mieru.Model.LowEntropy` (the bit-by-bit reference written from docs/protocol.md).
The model is tied to pkg/protocol/low_entropy.go, pkg/protocol/metadata.go and pkg/mathext/bit*.go
by the correspondence run of harness/props/c17.go (encoder, decoder, metadata validation, PDEP/PEXT
portable and BMI2) on every check.

Proved here, for ALL bodies, modes, masks, rotations and both polarities:
* length law, round trip, canonicity (the decoder accepts only the encoder's output), rejection of
  invalid parameters and inconsistent lengths, the rotation law `((i mod 64)·R) mod 64 = (i·R) mod 64`.
Also proved: the portable Go loop (`mask & -mask` / `mask &= mask-1`), transcribed on 64-bit naturals,
equals the bit-by-bit PDEP/PEXT spec for ALL 2^128 pairs (`pdepGo_eq_spec`, `pextGo_eq_spec`).
Not proved (partial): the BMI2 instructions are hardware — differential only (see DESIGN.md).
-/
namespace Mieru.C17
open Mieru Mieru.LowEntropy

/-- what `encode` computes when it accepts -/
theorem encode_eq (src : Bytes) (mode half rot : Nat) (pad : Bool) (e : Bytes)
    (h : encode src mode half rot pad = some e) :
    ∃ c el, validParams mode half rot = true ∧ sourceBytes mode = some c ∧ encodedLen src.length mode = some el ∧
      e = encodeFrom (fullMask half) rot pad 0 (chunksOf c src.length src) := by
  unfold encode at h
  split at h
  · simp at h
  · rename_i hv
    split at h
    · rename_i c el hc hel
      exact ⟨c, el, by simpa using hv, hc, hel, by simpa using h.symm⟩
    · simp at h

/-- Length law: the encoded body of an N-byte source is ceil(N / C) · 8 bytes. -/
theorem le_length (src : Bytes) (mode half rot : Nat) (pad : Bool) (e : Bytes)
    (h : encode src mode half rot pad = some e) :
    ∃ c, sourceBytes mode = some c ∧ e.length = ceilDiv src.length c * 8 := by
  obtain ⟨c, el, hv, hc, _, rfl⟩ := encode_eq src mode half rot pad e h
  obtain ⟨_, hc1, _⟩ := validParams_popcount mode half rot c hv hc
  refine ⟨c, hc, ?_⟩
  rw [encodeFrom_eq, flatten_length_all8 _ (encList_all8 _ _ _ _ _), encList_length,
    chunksOf_length c (by omega) _ _ (Nat.le_refl _), Nat.mul_comm]

/-- The encoder accepts every non-empty body whose chunk count fits the 16-bit length field, for
    every valid (mode, mask, rotation). -/
theorem le_encode_defined (src : Bytes) (mode half rot c : Nat) (pad : Bool)
    (hv : validParams mode half rot = true) (hc : sourceBytes mode = some c)
    (hne : src ≠ []) (hfit : ceilDiv src.length c ≤ 8191) :
    ∃ e, encode src mode half rot pad = some e := by
  have hl : src.length ≠ 0 := fun h => hne (List.eq_nil_of_length_eq_zero h)
  have h8 : ¬ ceilDiv src.length c > 65535 / 8 := by
    have : 65535 / 8 = 8191 := by decide
    omega
  simp [encode, hv, hc, encodedLen, hl, h8]

/-- Round trip: decoding what the encoder produced returns the original bytes — for every body,
    mode, half-mask of the mode's weight, rotation and padding polarity. -/
theorem le_roundtrip (src : Bytes) (mode half rot : Nat) (pad : Bool) (e : Bytes)
    (h : encode src mode half rot pad = some e) :
    decode e src.length mode half rot = some src := by
  obtain ⟨c, el, hv, hc, hel, rfl⟩ := encode_eq src mode half rot pad e h
  obtain ⟨hp, hc1, hc7⟩ := validParams_popcount mode half rot c hv hc
  have hm := fullMask_length half
  have hne : src ≠ [] := by
    intro hs; subst hs
    simp [encodedLen, hc] at hel
  have hpos : 0 < src.length := List.length_pos_iff.mpr hne
  -- the encoded length is the expected one
  have hlen : (encodeFrom (fullMask half) rot pad 0 (chunksOf c src.length src)).length = el := by
    have := le_length src mode half rot pad _ h
    obtain ⟨c', hc', hl⟩ := this
    rw [hc] at hc'; cases hc'
    unfold encodedLen at hel
    rw [hc] at hel
    simp only at hel
    split at hel
    · simp at hel
    · split at hel
      · simp at hel
      · simp at hel; omega
  -- cut back into the list of encoded chunks
  have hchunks : chunksOf 8 (encodeFrom (fullMask half) rot pad 0 (chunksOf c src.length src)).length
      (encodeFrom (fullMask half) rot pad 0 (chunksOf c src.length src))
      = encList (fullMask half) rot pad 0 (chunksOf c src.length src) := by
    rw [encodeFrom_eq]
    apply chunksOf_flatten _ (encList_all8 _ _ _ _ _)
    rw [flatten_length_all8 _ (encList_all8 _ _ _ _ _)]; omega
  unfold decode
  simp only [hv, Bool.not_true, Bool.false_eq_true, if_false, hc, hel, hlen, ne_eq, not_true_eq_false]
  rw [hlen] at hchunks
  rw [hchunks]
  -- first chunk: polarity is inferred correctly
  have hco : chunksOf c src.length src = src.take c :: chunksOf c (src.length - 1) (src.drop c) := by
    cases hsl : src.length with
    | zero => omega
    | succ k => simp [chunksOf, hne]
  rw [hco]
  simp only [encList]
  have hk : (src.take c).length = min c src.length := by simp
  have key := decodeChunk_encodeChunk (fullMask half) (src.take c) pad hm
    (by rw [hp, hk]; apply Nat.mul_le_mul_left; exact Nat.min_le_left _ _)
  rw [chunkMask_zero, ← hk, key]
  simp only
  rw [inferPolarity_replicate _ _ (by rw [hk]; have := Nat.min_le_left c src.length; omega)]
  simp only
  have := decodeFrom_encList (fullMask half) rot c pad hm hp (by omega) src.length src 0 (Nat.le_refl _)
  rw [hco] at this
  simp only [encList, chunkMask_zero] at this
  exact this

/-- Canonicity: the decoder accepts a byte string only if it is exactly what the encoder produces
    for the decoded body with one of the two padding polarities. -/
theorem le_canonical (e : Bytes) (n mode half rot : Nat) (s : Bytes)
    (h : decode e n mode half rot = some s) :
    s.length = n ∧ ∃ pad, encode s mode half rot pad = some e := by
  unfold decode at h
  split at h
  · simp at h
  · rename_i hv
    have hv' : validParams mode half rot = true := by simpa using hv
    split at h
    · rename_i c el hc hel
      obtain ⟨hp, hc1, hc7⟩ := validParams_popcount mode half rot c hv' hc
      split at h
      · simp at h
      · rename_i hlen
        have hlen' : e.length = el := by simpa using hlen
        -- el = ceilDiv n c * 8, n > 0
        have hel' : 0 < n ∧ ceilDiv n c ≤ 8191 ∧ el = ceilDiv n c * 8 := by
          unfold encodedLen at hel
          rw [hc] at hel
          simp only at hel
          split at hel
          · simp at hel
          · split at hel
            · simp at hel
            · simp at hel
              have : 65535 / 8 = 8191 := by decide
              omega
        obtain ⟨hn, hfit, hele⟩ := hel'
        obtain ⟨h8, hflat, hcl⟩ := chunksOf8 (ceilDiv n c) e e.length (by omega) (by omega)
        simp only at h
        split at h
        · simp at h
        · rename_i ch0 rest hchunks
          split at h
          · simp at h
          · rename_i pol hpol
            rw [hchunks] at h8 hflat hcl h
            obtain ⟨hsl, henc⟩ := encList_of_decodeFrom (fullMask half) rot c pol (fullMask_length half) hp (by omega)
              (ch0 :: rest) 0 n s h8 hcl h
            refine ⟨hsl, pol, ?_⟩
            have hs : s ≠ [] := by intro hs; subst hs; simp at hsl; omega
            have hl : s.length ≠ 0 := by omega
            have h8' : ¬ ceilDiv s.length c > 65535 / 8 := by
              have : 65535 / 8 = 8191 := by decide
              rw [hsl]; omega
            simp only [encode, hv', Bool.not_true, Bool.false_eq_true, if_false, hc, encodedLen, hl, h8']
            rw [encodeFrom_eq, henc s.length (by omega), hflat]
    · simp at h

/-- invalid mode, wrong mask weight or invalid rotation: both directions reject -/
theorem le_rejects_invalid_params (b : Bytes) (n mode half rot : Nat) (pad : Bool)
    (h : validParams mode half rot = false) :
    encode b mode half rot pad = none ∧ decode b n mode half rot = none := by
  simp [encode, decode, h]

/-- inconsistent lengths: an encoded body whose length is not ceil(n/C)·8 is rejected -/
theorem le_rejects_wrong_length (e : Bytes) (n mode half rot el : Nat)
    (hel : encodedLen n mode = some el) (h : e.length ≠ el) :
    decode e n mode half rot = none := by
  unfold decode
  split
  · rfl
  · split
    · rename_i c el' hc hel'
      rw [hel] at hel'; cases hel'
      simp [h]
    · rfl

/-- an empty body or one needing more than 8191 chunks has no encoding -/
theorem le_rejects_unencodable (b : Bytes) (mode half rot : Nat) (pad : Bool)
    (h : encodedLen b.length mode = none) : encode b mode half rot pad = none := by
  unfold encode
  split
  · rfl
  · split
    · rename_i c el hc hel; rw [h] at hel; cases hel
    · rfl

/-- the code rotates by `(i mod 64)·R`, the document by `i·R`: the same rotation of a 64-bit mask -/
theorem rotation_mod64 (i r : Nat) : ((i % 64) * r) % 64 = (i * r) % 64 := by
  rw [Nat.mul_mod, Nat.mod_mod, ← Nat.mul_mod]

/-- rotation keeps the mask's length and weight, so every chunk has exactly 8·C data positions -/
theorem chunk_mask_weight (half rot i : Nat) :
    (chunkMask (fullMask half) rot i).length = 64 ∧
    Bits.popcount (chunkMask (fullMask half) rot i) = Bits.popcount (fullMask half) := by
  exact ⟨by rw [chunkMask_length, fullMask_length], chunkMask_popcount _ _ _⟩

/-- what metadata validation guarantees about an accepted low-entropy data segment -/
theorem le_meta_validation_sound (proto mode half rot pl el : Nat)
    (h : metaValid proto mode half rot pl el = true) :
    (proto = 10 ∨ proto = 11) ∧ el ≤ 32768 ∧ validParams mode half rot = true ∧
    (el = 0 → pl = 0) ∧ (0 < el → encodedLen el mode = some pl) := by
  unfold metaValid at h
  simp only [Bool.and_eq_true, Bool.or_eq_true, beq_iff_eq, decide_eq_true_eq] at h
  obtain ⟨⟨⟨⟨hp, he⟩, _⟩, hv⟩, hl⟩ := h
  refine ⟨hp, he, hv, ?_, ?_⟩
  · intro h0; subst h0; simpa using hl
  · intro hpos
    have : ¬ el = 0 := by omega
    simp only [this, if_false] at hl
    cases hel' : encodedLen el mode with
    | none => rw [hel'] at hl; simp at hl
    | some el' => rw [hel'] at hl; simp at hl; rw [hl]

/-! ## The portable Go loops compute the bit-by-bit PDEP / PEXT specification

(This closes the "not proved (partial)" item of the header for the portable path: `pdepGo` / `pextGo`
are the line-by-line transcription of the loops of pkg/mathext/bit.go — `mask & -mask`,
`mask &= mask - 1`, `srcBit <<= 1` on 64-bit words — and `pdep` / `pext` the bit-list specification.
Loop invariants in `Mieru.Proofs.PdepLoop`.  The BMI2 instructions remain differential only.) -/

/-- the portable PDEP loop equals the specification on all 64-bit words -/
theorem pdepGo_eq_spec (x mask : Nat) (hx : x < 2^64) (hm : mask < 2^64) : pdepGo x mask = pdep x mask :=
  have _ := hx
  pdepGo_eq_pdep x mask hm

/-- the portable PEXT loop equals the specification on all 64-bit words -/
theorem pextGo_eq_spec (x mask : Nat) (hx : x < 2^64) (hm : mask < 2^64) : pextGo x mask = pext x mask :=
  have _ := hx
  pextGo_eq_pext x mask hm

/-! ## Non-vacuity: the document's worked example, both polarities, and a rotated multi-chunk body -/
example : encode [0x12, 0x34, 0x56, 0x78] 1 0x0f0f0f0f 0 false = some [1, 2, 3, 4, 5, 6, 7, 8] := by decide
example : encode [0x12, 0x34, 0x56, 0x78] 1 0x0f0f0f0f 0 true
    = some [0xf1, 0xf2, 0xf3, 0xf4, 0xf5, 0xf6, 0xf7, 0xf8] := by decide
example : decode [0xf1, 0xf2, 0xf3, 0xf4, 0xf5, 0xf6, 0xf7, 0xf8] 4 1 0x0f0f0f0f 0 = some [0x12, 0x34, 0x56, 0x78] := by decide
example : validParams 1 0x0f0f0f0f 0 = true ∧ validParams 4 0x7ffeeffe 240 = true ∧ validParams 1 0x0f0f0f0f 17 = false := by decide
example : metaValid 10 1 0x0f0f0f0f 3 16 5 = true := by decide
/-- mixed padding is rejected -/
example : decode [0x01, 0x02, 0x03, 0x04, 0x05, 0x06, 0x07, 0xf8] 4 1 0x0f0f0f0f 0 = none := by decide

/-- PDEP / PEXT: loop transcription and specification on concrete 64-bit words -/
example : pdepGo 0x12345678 0x0f0f0f0f0f0f0f0f = 0x0102030405060708 ∧
    pdep 0x12345678 0x0f0f0f0f0f0f0f0f = 0x0102030405060708 := by decide
example : pextGo 0x0102030405060708 0x0f0f0f0f0f0f0f0f = 0x12345678 ∧
    pext 0x0102030405060708 0x0f0f0f0f0f0f0f0f = 0x12345678 := by decide
set_option maxRecDepth 4096 in
example : pdepGo 0xffffffffffffffff 0xffffffffffffffff = 0xffffffffffffffff ∧
    pdep 0xffffffffffffffff 0xffffffffffffffff = 0xffffffffffffffff ∧
    pextGo 0xffffffffffffffff 0xffffffffffffffff = 0xffffffffffffffff ∧
    pext 0xffffffffffffffff 0xffffffffffffffff = 0xffffffffffffffff := by decide
example : pdepGo 0xdeadbeefcafef00d 0x8000000000000001 = 1 ∧
    pdep 0xdeadbeefcafef00d 0x8000000000000001 = 1 ∧
    pextGo 0xdeadbeefcafef00d 0x8000000000000001 = 3 ∧
    pext 0xdeadbeefcafef00d 0x8000000000000001 = 3 := by decide
example : pdepGo 0xdeadbeefcafef00d 0 = 0 ∧ pdep 0xdeadbeefcafef00d 0 = 0 ∧
    pextGo 0xdeadbeefcafef00d 0 = 0 ∧ pext 0xdeadbeefcafef00d 0 = 0 := by decide
example : pdepGo 0xdeadbeefcafef00d 0xf0f0aa5533cc0ff0 = pdep 0xdeadbeefcafef00d 0xf0f0aa5533cc0ff0 ∧
    pextGo 0xdeadbeefcafef00d 0xf0f0aa5533cc0ff0 = pext 0xdeadbeefcafef00d 0xf0f0aa5533cc0ff0 := by decide

end Mieru.C17
