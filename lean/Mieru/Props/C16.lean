import Mieru.Model.Pattern
import Mieru.Model.Padding
import Mieru.Proofs.Pattern
import Mieru.Proofs.Base64
import Mieru.Gen.Arith
/-!
# C16 — traffic-pattern settings are honoured; implicit ones are stable and valid

Configuration part.  The theorems are about `Mieru.Pattern` (hand-written model of
apis/trafficpattern/config.go, the nonce-rewrite decision of pkg/cipher/cipher.go and
`lowEntropySendConfig` of pkg/protocol/session.go), tied to the code by the correspondence in
harness/props/c16.go, and about `Mieru.Padding.maxPadTP` (model of `maxPaddingSizeWithTrafficPattern`).
`rng.FixedInt` is a parameter `fi`; the only assumption is `FixedIntOK fi : 0 < n → fi n h < n`.

The model follows the code after `fix: clamp implicit nonce minLen to an explicit maxLen`.  Before
that repair `effective_valid_full` was false: see `unclamped_minLen_counterexample` (a regression
`example` below keeps the witness).
-/
namespace Mieru.C16
open Mieru.Pattern Mieru.Padding

/-- `e` keeps an explicitly set value -/
def Keeps {α} (o e : Option α) : Prop := ∀ v, o = some v → e = some v

/-- The effective pattern agrees with the input on EVERY explicitly set field — whatever subset of
    fields is set (the statement quantifies over all patterns), whatever `FixedInt` returns. -/
theorem explicit_preserved (fi : Nat → String → Nat) (host : Int) (p : TrafficPattern) :
    let e := effective fi host p
    Keeps p.seed e.seed ∧ Keeps p.unlockAll e.unlockAll ∧
    Keeps (p.tcpFragment.bind (·.enable)) (e.tcpFragment.bind (·.enable)) ∧
    Keeps (p.tcpFragment.bind (·.maxSleepMs)) (e.tcpFragment.bind (·.maxSleepMs)) ∧
    Keeps (p.nonce.bind (·.type)) (e.nonce.bind (·.type)) ∧
    Keeps (p.nonce.bind (·.applyToAll)) (e.nonce.bind (·.applyToAll)) ∧
    Keeps (p.nonce.bind (·.minLen)) (e.nonce.bind (·.minLen)) ∧
    Keeps (p.nonce.bind (·.maxLen)) (e.nonce.bind (·.maxLen)) ∧
    (e.nonce.map (·.customHex)).getD [] = (p.nonce.map (·.customHex)).getD [] ∧
    Keeps (p.padding.bind (·.maxMiddle)) (e.padding.bind (·.maxMiddle)) ∧
    Keeps (p.padding.bind (·.maxEnd)) (e.padding.bind (·.maxEnd)) ∧
    Keeps (p.lowEntropy.bind (·.mode)) (e.lowEntropy.bind (·.mode)) ∧
    Keeps (p.lowEntropy.bind (·.maskRotation)) (e.lowEntropy.bind (·.maskRotation)) := by
  simp only [Keeps, effective, genTcpFragment, genNonce, genPadding, genLowEntropy, Option.bind_some, Option.map_some]
  refine ⟨fun _ h => h, fun _ h => h, ?_, ?_, ?_, ?_, ?_, ?_, ?_, ?_, ?_, ?_, ?_⟩
  · intro v h; cases hp : p.tcpFragment <;> simp_all [orElse]
  · intro v h; cases hp : p.tcpFragment <;> simp_all [orElse]
  · intro v h; cases hp : p.nonce <;> simp_all [orElse]
  · intro v h; cases hp : p.nonce <;> simp_all [orElse]
  · intro v h; cases hp : p.nonce <;> simp_all [orElse]
  · intro v h; cases hp : p.nonce <;> simp_all [orElse]
  · cases hp : p.nonce <;> simp
  · intro v h; cases hp : p.padding <;> simp_all [orElse]
  · intro v h; cases hp : p.padding <;> simp_all [orElse]
  · intro v h; cases hp : p.lowEntropy <;> simp_all [orElse]
  · intro v h; cases hp : p.lowEntropy <;> simp_all [orElse]

/-- Generation never leaves a field unset: the runtime reads every field of the effective pattern. -/
theorem effective_all_set (fi : Nat → String → Nat) (host : Int) (p : TrafficPattern) :
    let e := effective fi host p
    (e.tcpFragment.bind (·.enable)).isSome ∧ (e.tcpFragment.bind (·.maxSleepMs)).isSome ∧
    (e.nonce.bind (·.type)).isSome ∧ (e.nonce.bind (·.applyToAll)).isSome ∧
    (e.nonce.bind (·.minLen)).isSome ∧ (e.nonce.bind (·.maxLen)).isSome ∧
    (e.padding.bind (·.maxMiddle)).isSome ∧ (e.padding.bind (·.maxEnd)).isSome ∧
    (e.lowEntropy.bind (·.mode)).isSome ∧ (e.lowEntropy.bind (·.maskRotation)).isSome := by
  simp only [effective, genTcpFragment, genNonce, genPadding, genLowEntropy, Option.bind_some]
  refine ⟨?_, ?_, ?_, ?_, ?_, ?_, ?_, ?_, ?_, ?_⟩ <;> (unfold orElse; split <;> rfl)

/-- The effective pattern is a function of (pattern, seed-or-host, unlockAll) and of `FixedInt` at the
    ten seed-scoped hints only: two `FixedInt` functions that agree on those hints, and two host
    seeds that agree when the pattern has no explicit seed, give the same effective pattern. -/
theorem effective_deterministic (fi fi' : Nat → String → Nat) (host host' : Int) (p : TrafficPattern)
    (hs : p.seed = none → host = host')
    (hfi : ∀ n name, name ∈ hintNames → fi n (hint (seedOf p host) name) = fi' n (hint (seedOf p host) name)) :
    effective fi host p = effective fi' host' p := by
  have hseed : seedOf p host = seedOf p host' := by
    unfold seedOf; cases h : p.seed with
    | none => simp [hs h]
    | some s => rfl
  have hgo : ∀ n name, name ∈ hintNames →
      fixedIntGo fi n (hint (seedOf p host) name) = fixedIntGo fi' n (hint (seedOf p host) name) := by
    intro n name hn; unfold fixedIntGo; rw [hfi _ _ hn]
  unfold effective
  rw [← hseed]
  simp only [genTcpFragment, genNonce, genMinLen, genMinLenRaw, genPadding, genLowEntropy]
  simp only [hgo _ _ (by decide : "tcpFragment.enable" ∈ hintNames), hgo _ _ (by decide : "tcpFragment.maxSleepMs" ∈ hintNames),
    hgo _ _ (by decide : "nonce.type" ∈ hintNames), hgo _ _ (by decide : "nonce.applyToAllUDPPacket" ∈ hintNames),
    hgo _ _ (by decide : "nonce.minLen" ∈ hintNames), hgo _ _ (by decide : "nonce.maxLen" ∈ hintNames),
    hgo _ _ (by decide : "padding.maxMiddlePaddingLen" ∈ hintNames), hgo _ _ (by decide : "padding.maxEndPaddingLen" ∈ hintNames),
    hgo _ _ (by decide : "lowEntropy.mode" ∈ hintNames), hgo _ _ (by decide : "lowEntropy.maskRotation" ∈ hintNames)]
  rfl

/-- `Validate(Effective())` succeeds for every pattern `Validate` accepts (full strength; true for the
    repaired code). -/
theorem effective_valid_full (fi : Nat → String → Nat) (hfi : FixedIntOK fi) (host : Int) (p : TrafficPattern)
    (hv : validate p = .ok ()) : validate (effective fi host p) = .ok () := by
  rw [validate_iff] at *
  exact effective_valid fi hfi host p hv

/-- `NewConfig` succeeds exactly on the patterns `Validate` accepts, and its result validates. -/
theorem newConfig_ok (fi : Nat → String → Nat) (hfi : FixedIntOK fi) (host : Int) (p : TrafficPattern)
    (hv : validate p = .ok ()) :
    ∃ e, newConfig fi host p = .ok e ∧ validate e = .ok () := by
  refine ⟨effective fi host p, ?_, effective_valid_full fi hfi host p hv⟩
  unfold newConfig; rw [hv]

/-- The implicit rotation index (0..30) always maps to a member of `LowEntropyMaskRotation`, and to a
    value the data path accepts (`isValidLowEntropyRotation`, REGENERATED from pkg/protocol/low_entropy.go). -/
theorem rotation_index_maps_to_valid_enum (i : Int) (h0 : 0 ≤ i) (h1 : i < rotationCount) :
    validRotation (rotationOfIndex i) ∧ Mieru.Gen.Arith.isValidLowEntropyRotation (rotationOfIndex i) = true := by
  have hv := rotationOfIndex_valid i h0 (by simpa [rotationCount] using h1)
  refine ⟨hv, ?_⟩
  unfold validRotation at hv
  unfold Mieru.Gen.Arith.isValidLowEntropyRotation
  have : 0 ≤ rotationOfIndex i := by omega
  rw [Int.tmod_eq_emod_of_nonneg this]
  simp only [decide_eq_true_eq]
  omega

/-- the implicitly generated rotation of any effective pattern is valid in both senses -/
theorem implicit_rotation_valid (fi : Nat → String → Nat) (hfi : FixedIntOK fi) (seed : Int) (ua : Bool) (r : Int)
    (h : (genLowEntropy fi seed ua none).maskRotation = some r) :
    validRotation r ∧ Mieru.Gen.Arith.isValidLowEntropyRotation r = true := by
  simp only [genLowEntropy, orElse, Option.getD_none, Option.some.injEq] at h
  subst h
  exact rotation_index_maps_to_valid_enum _ (fixedIntGo_nonneg ..) (fixedIntGo_lt fi hfi _ _ (by decide))

/-- A configured maximum caps the padding budget (`0` ⇒ no padding), whatever the MTU arithmetic
    (`base`) says; an unset maximum leaves the budget alone. -/
theorem padding_le_configured (base c : Int) (hc : 0 ≤ c) :
    maxPadTP base (some c) ≤ c ∧ maxPadTP base (some c) ≤ base ∧ (c = 0 → 0 ≤ base → maxPadTP base (some c) = 0) ∧
    maxPadTP base none = base := by
  unfold maxPadTP
  refine ⟨by grind, by grind, by grind, rfl⟩

/-- …and that cap is the EXPLICIT value whenever one was configured: generation does not override it. -/
theorem padding_le_explicit (fi : Nat → String → Nat) (host : Int) (p : TrafficPattern) (base c : Int) (hc : 0 ≤ c)
    (h : p.padding.bind (·.maxMiddle) = some c) :
    maxPadTP base ((effective fi host p).padding.bind (·.maxMiddle)) ≤ c := by
  have := (explicit_preserved fi host p).2.2.2.2.2.2.2.2.2.1 c h
  rw [this]
  exact (padding_le_configured base c hc).1

/-- The server encodes with low entropy only after the client did; the client follows its own
    setting; when enabled, mode and rotation are the configured ones. -/
theorem server_le_only_after_client (p : Option TrafficPattern) (isClient used : Bool) :
    let cfg := extractLowEntropyConfig p
    let r := lowEntropySendConfig p isClient used
    (r.2.2 = true ↔ cfg.2.2 = true ∧ (isClient = true ∨ used = true)) ∧
    (r.2.2 = true → r.1 = cfg.1 ∧ r.2.1 = cfg.2.1 ∧ r.1 ≠ 0) ∧
    (r.2.2 = false → r.1 = 0 ∧ r.2.1 = 0) := by
  simp only [lowEntropySendConfig]
  rcases hcfg : extractLowEntropyConfig p with ⟨m, r, en⟩
  have hm : en = true → m ≠ 0 := by
    unfold extractLowEntropyConfig at hcfg
    cases p with
    | none => simp at hcfg; simp [hcfg]
    | some tp =>
      simp only at hcfg
      cases hl : tp.lowEntropy with
      | none => simp [hl] at hcfg; simp [hcfg]
      | some l =>
        simp only [hl] at hcfg
        by_cases h0 : l.mode.getD 0 = 0
        · simp [h0] at hcfg; simp [hcfg]
        · simp [h0] at hcfg; intro _; rw [← hcfg.1]; exact h0
  cases en <;> cases isClient <;> cases used <;> simp_all

/-- in particular: a server that has not seen low-entropy data from the client never sends it -/
theorem server_never_first (p : Option TrafficPattern) : (lowEntropySendConfig p false false).2.2 = false := by
  have := (server_le_only_after_client p false false).1
  cases h : (lowEntropySendConfig p false false).2.2 <;> simp_all

/-- the rewrite length is always inside the configured range (clamped to the nonce size), and every
    length of the range occurs for some draw -/
theorem nonce_rewrite_len_in_range (minLen maxLen size : Int) (r : Nat)
    (hv : 0 ≤ minLen ∧ minLen ≤ maxLen ∧ maxLen ≤ size) :
    minLen ≤ nonceRewriteLen minLen maxLen size r ∧ nonceRewriteLen minLen maxLen size r ≤ maxLen ∧
    (∀ l, minLen ≤ l → l ≤ maxLen → ∃ r', nonceRewriteLen minLen maxLen size r' = l) := by
  have hr : nonceRewriteRange minLen maxLen size = (minLen, maxLen) := by
    unfold nonceRewriteRange; simp only
    rw [if_neg (by omega), if_neg (by omega)]
  unfold nonceRewriteLen
  rw [hr]; simp only
  refine ⟨?_, ?_, ?_⟩
  · split
    · omega
    · have := Int.emod_nonneg (r : Int) (b := maxLen - minLen + 1) (by omega); omega
  · split
    · omega
    · have := Int.emod_lt_of_pos (r : Int) (b := maxLen - minLen + 1) (by omega); omega
  · intro l h1 h2
    refine ⟨(l - minLen).toNat, ?_⟩
    split
    · omega
    · rw [Int.toNat_of_nonneg (by omega), Int.emod_eq_of_lt (by omega) (by omega)]; omega

/-- for every valid effective nonce pattern the range is the configured one (size 24 ≥ 12) -/
theorem nonce_rewrite_range_of_valid (minLen maxLen : Int) (h : 0 ≤ minLen ∧ minLen ≤ maxLen ∧ maxLen ≤ 12) :
    nonceRewriteRange minLen maxLen 24 = (minLen, maxLen) := by
  unfold nonceRewriteRange; simp only
  rw [if_neg (by omega), if_neg (by omega)]

/-- UDP (stateless cipher) without `applyToAllUDPPacket`: only the first nonce is rewritten;
    otherwise every nonce is. -/
theorem nonce_rewrite_once_for_udp (n : Nat) :
    rewriteFlags true false (n + 1) false = true :: List.replicate n false ∧
    rewriteFlags true true n false = List.replicate n true ∧
    (∀ a, rewriteFlags false a n false = List.replicate n true) := by
  have h1 : ∀ k, rewriteFlags true false k true = List.replicate k false := by
    intro k; induction k with
    | zero => rfl
    | succ k ih => simp [rewriteFlags, nonceApplies, ih, List.replicate_succ]
  have h2 : ∀ k b, rewriteFlags true true k b = List.replicate k true := by
    intro k; induction k with
    | zero => intro b; rfl
    | succ k ih => intro b; simp [rewriteFlags, nonceApplies, ih, List.replicate_succ]
  have h3 : ∀ k a b, rewriteFlags false a k b = List.replicate k true := by
    intro k; induction k with
    | zero => intro a b; rfl
    | succ k ih => intro a b; simp [rewriteFlags, nonceApplies, ih, List.replicate_succ]
  exact ⟨by simp [rewriteFlags, nonceApplies, h1], h2 n false, fun a => h3 n a false⟩

/-- `Decode (Encode p) = p`.  `Encode` = base64(proto.Marshal p).  The base64 layer is the executable
    model `Mieru.Base64` (proved to round-trip for all byte strings); protobuf (un)marshalling is
    library code, abstracted as any pair with `unmarshal (marshal p) = some p` (hypothesis). -/
theorem encode_decode_roundtrip {P : Type} (marshal : P → List UInt8) (unmarshal : List UInt8 → Option P)
    (hpb : ∀ p, unmarshal (marshal p) = some p) (p : P) :
    (Mieru.Base64.decode (Mieru.Base64.encode (marshal p))).bind unmarshal = some p := by
  rw [Mieru.Base64.decode_encode]; exact hpb p

end Mieru.C16

/-! ## Non-vacuity and the regression witness -/
namespace Mieru.C16
open Mieru.Pattern

/-- a concrete `FixedInt` satisfying the hypothesis (constant residue) -/
def fiConst (k : Nat) : Nat → String → Nat := fun n _ => k % n
theorem fiConst_ok (k : Nat) : FixedIntOK (fiConst k) := fun _ _ hn => Nat.mod_lt _ hn

/-- the witness of the repaired defect: explicit `maxLen = 3`, `minLen` implicit -/
def witness : TrafficPattern := { seed := some 0, nonce := some { maxLen := some 3 } }

example : validate witness = .ok () := by rfl
/-- regression: on the repaired model the effective pattern validates and keeps maxLen = 3 … -/
example : validate (effective (fiConst 5) 0 witness) = .ok () := by rfl
example : ((effective (fiConst 5) 0 witness).nonce.bind (·.maxLen)) = some 3 := by decide
example : ((effective (fiConst 5) 0 witness).nonce.bind (·.minLen)) = some 3 := by decide

/-- … whereas the UNCLAMPED generator (the code before the repair) yields `minLen = 11 > maxLen = 3`,
    which `Validate` rejects: the full-strength theorem was false for the old code. -/
theorem unclamped_minLen_counterexample :
    let n : NoncePattern := { maxLen := some 3, minLen := some (genMinLenRaw (fiConst 5) 0 false) }
    validateNonce (some n) = .error .nonceMinGtMax := by rfl

example : rotationOfIndex 30 = 240 := by decide
example : rotationOfIndex 16 = 16 := by decide
example : lowEntropySendConfig (some { lowEntropy := some { mode := some 3, maskRotation := some 32 } }) false true = (3, 32, true) := by decide
example : lowEntropySendConfig (some { lowEntropy := some { mode := some 3, maskRotation := some 32 } }) false false = (0, 0, false) := by decide
example : nonceRewriteLen 6 9 24 7 = 9 := by decide
example : rewriteFlags true false 4 false = [true, false, false, false] := by decide

end Mieru.C16
