import Mieru.Model.Pattern
import Mieru.Model.Padding
import Mieru.Proofs.Pattern
import Mieru.Proofs.Base64
import Mieru.Gen.Arith
import Mieru.Gen.PatternGen
import Mieru.Model.FixedInt
import Mieru.Model.PatternWire
import Mieru.Proofs.PatternWire
/-!
# C16 — traffic-pattern settings are honoured; implicit ones are stable and valid

Configuration part.  The theorems are about `Mieru.Pattern` (hand-written model of
apis/trafficpattern/config.go, the nonce-rewrite decision of pkg/cipher/cipher.go and
`lowEntropySendConfig` of pkg/protocol/session.go), tied to the code by the correspondence in
harness/props/c16.go, and about `Mieru.Padding.maxPadTP` (model of `maxPaddingSizeWithTrafficPattern`).
`rng.FixedInt` is a parameter `fi`; the only assumption is `FixedIntOK fi : 0 < n → fi n h < n`.

The model follows the code after `fix: clamp implicit nonce minLen to an explicit maxLen`.  Before
that repair `effective_valid_full` was false: see `unclamped_minLen_counterexample` (a regression
`example` below keeps the witness).
-/
namespace Mieru.C16
open Mieru.Pattern Mieru.Padding

/-- `e` keeps an explicitly set value -/
def Keeps {α} (o e : Option α) : Prop := ∀ v, o = some v → e = some v

/-- The effective pattern agrees with the input on EVERY explicitly set field — whatever subset of
    fields is set (the statement quantifies over all patterns), whatever `FixedInt` returns. -/
theorem explicit_preserved (fi : Nat → String → Nat) (host : Int) (p : TrafficPattern) :
    let e := effective fi host p
    Keeps p.seed e.seed ∧ Keeps p.unlockAll e.unlockAll ∧
    Keeps (p.tcpFragment.bind (·.enable)) (e.tcpFragment.bind (·.enable)) ∧
    Keeps (p.tcpFragment.bind (·.maxSleepMs)) (e.tcpFragment.bind (·.maxSleepMs)) ∧
    Keeps (p.nonce.bind (·.type)) (e.nonce.bind (·.type)) ∧
    Keeps (p.nonce.bind (·.applyToAll)) (e.nonce.bind (·.applyToAll)) ∧
    Keeps (p.nonce.bind (·.minLen)) (e.nonce.bind (·.minLen)) ∧
    Keeps (p.nonce.bind (·.maxLen)) (e.nonce.bind (·.maxLen)) ∧
    (e.nonce.map (·.customHex)).getD [] = (p.nonce.map (·.customHex)).getD [] ∧
    Keeps (p.padding.bind (·.maxMiddle)) (e.padding.bind (·.maxMiddle)) ∧
    Keeps (p.padding.bind (·.maxEnd)) (e.padding.bind (·.maxEnd)) ∧
    Keeps (p.lowEntropy.bind (·.mode)) (e.lowEntropy.bind (·.mode)) ∧
    Keeps (p.lowEntropy.bind (·.maskRotation)) (e.lowEntropy.bind (·.maskRotation)) := by
  simp only [Keeps, effective, genTcpFragment, genNonce, genPadding, genLowEntropy, Option.bind_some, Option.map_some]
  refine ⟨fun _ h => h, fun _ h => h, ?_, ?_, ?_, ?_, ?_, ?_, ?_, ?_, ?_, ?_, ?_⟩
  · intro v h; cases hp : p.tcpFragment <;> simp_all [orElse]
  · intro v h; cases hp : p.tcpFragment <;> simp_all [orElse]
  · intro v h; cases hp : p.nonce <;> simp_all [orElse]
  · intro v h; cases hp : p.nonce <;> simp_all [orElse]
  · intro v h; cases hp : p.nonce <;> simp_all [orElse]
  · intro v h; cases hp : p.nonce <;> simp_all [orElse]
  · cases hp : p.nonce <;> simp
  · intro v h; cases hp : p.padding <;> simp_all [orElse]
  · intro v h; cases hp : p.padding <;> simp_all [orElse]
  · intro v h; cases hp : p.lowEntropy <;> simp_all [orElse]
  · intro v h; cases hp : p.lowEntropy <;> simp_all [orElse]

/-- Generation never leaves a field unset: the runtime reads every field of the effective pattern. -/
theorem effective_all_set (fi : Nat → String → Nat) (host : Int) (p : TrafficPattern) :
    let e := effective fi host p
    (e.tcpFragment.bind (·.enable)).isSome ∧ (e.tcpFragment.bind (·.maxSleepMs)).isSome ∧
    (e.nonce.bind (·.type)).isSome ∧ (e.nonce.bind (·.applyToAll)).isSome ∧
    (e.nonce.bind (·.minLen)).isSome ∧ (e.nonce.bind (·.maxLen)).isSome ∧
    (e.padding.bind (·.maxMiddle)).isSome ∧ (e.padding.bind (·.maxEnd)).isSome ∧
    (e.lowEntropy.bind (·.mode)).isSome ∧ (e.lowEntropy.bind (·.maskRotation)).isSome := by
  simp only [effective, genTcpFragment, genNonce, genPadding, genLowEntropy, Option.bind_some]
  refine ⟨?_, ?_, ?_, ?_, ?_, ?_, ?_, ?_, ?_, ?_⟩ <;> (unfold orElse; split <;> rfl)

/-- The effective pattern is a function of (pattern, seed-or-host, unlockAll) and of `FixedInt` at the
    ten seed-scoped hints only: two `FixedInt` functions that agree on those hints, and two host
    seeds that agree when the pattern has no explicit seed, give the same effective pattern. -/
theorem effective_deterministic (fi fi' : Nat → String → Nat) (host host' : Int) (p : TrafficPattern)
    (hs : p.seed = none → host = host')
    (hfi : ∀ n name, name ∈ hintNames → fi n (hint (seedOf p host) name) = fi' n (hint (seedOf p host) name)) :
    effective fi host p = effective fi' host' p := by
  have hseed : seedOf p host = seedOf p host' := by
    unfold seedOf; cases h : p.seed with
    | none => simp [hs h]
    | some s => rfl
  have hgo : ∀ n name, name ∈ hintNames →
      fixedIntGo fi n (hint (seedOf p host) name) = fixedIntGo fi' n (hint (seedOf p host) name) := by
    intro n name hn; unfold fixedIntGo; rw [hfi _ _ hn]
  unfold effective
  rw [← hseed]
  simp only [genTcpFragment, genNonce, genMinLen, genMinLenRaw, genPadding, genLowEntropy]
  simp only [hgo _ _ (by decide : "tcpFragment.enable" ∈ hintNames), hgo _ _ (by decide : "tcpFragment.maxSleepMs" ∈ hintNames),
    hgo _ _ (by decide : "nonce.type" ∈ hintNames), hgo _ _ (by decide : "nonce.applyToAllUDPPacket" ∈ hintNames),
    hgo _ _ (by decide : "nonce.minLen" ∈ hintNames), hgo _ _ (by decide : "nonce.maxLen" ∈ hintNames),
    hgo _ _ (by decide : "padding.maxMiddlePaddingLen" ∈ hintNames), hgo _ _ (by decide : "padding.maxEndPaddingLen" ∈ hintNames),
    hgo _ _ (by decide : "lowEntropy.mode" ∈ hintNames), hgo _ _ (by decide : "lowEntropy.maskRotation" ∈ hintNames)]
  rfl

/-- `Validate(Effective())` succeeds for every pattern `Validate` accepts (full strength; true for the
    repaired code). -/
theorem effective_valid_full (fi : Nat → String → Nat) (hfi : FixedIntOK fi) (host : Int) (p : TrafficPattern)
    (hv : validate p = .ok ()) : validate (effective fi host p) = .ok () := by
  rw [validate_iff] at *
  exact effective_valid fi hfi host p hv

/-- `NewConfig` succeeds exactly on the patterns `Validate` accepts, and its result validates. -/
theorem newConfig_ok (fi : Nat → String → Nat) (hfi : FixedIntOK fi) (host : Int) (p : TrafficPattern)
    (hv : validate p = .ok ()) :
    ∃ e, newConfig fi host p = .ok e ∧ validate e = .ok () := by
  refine ⟨effective fi host p, ?_, effective_valid_full fi hfi host p hv⟩
  unfold newConfig; rw [hv]

/-- The implicit rotation index (0..30) always maps to a member of `LowEntropyMaskRotation`, and to a
    value the data path accepts (`isValidLowEntropyRotation`, REGENERATED from pkg/protocol/low_entropy.go). -/
theorem rotation_index_maps_to_valid_enum (i : Int) (h0 : 0 ≤ i) (h1 : i < rotationCount) :
    validRotation (rotationOfIndex i) ∧ Mieru.Gen.Arith.isValidLowEntropyRotation (rotationOfIndex i) = true := by
  have hv := rotationOfIndex_valid i h0 (by simpa [rotationCount] using h1)
  refine ⟨hv, ?_⟩
  unfold validRotation at hv
  unfold Mieru.Gen.Arith.isValidLowEntropyRotation
  have : 0 ≤ rotationOfIndex i := by omega
  rw [Int.tmod_eq_emod_of_nonneg this]
  simp only [decide_eq_true_eq]
  omega

/-- the implicitly generated rotation of any effective pattern is valid in both senses -/
theorem implicit_rotation_valid (fi : Nat → String → Nat) (hfi : FixedIntOK fi) (seed : Int) (ua : Bool) (r : Int)
    (h : (genLowEntropy fi seed ua none).maskRotation = some r) :
    validRotation r ∧ Mieru.Gen.Arith.isValidLowEntropyRotation r = true := by
  simp only [genLowEntropy, orElse, Option.getD_none, Option.some.injEq] at h
  subst h
  exact rotation_index_maps_to_valid_enum _ (fixedIntGo_nonneg ..) (fixedIntGo_lt fi hfi _ _ (by decide))

/-- A configured maximum caps the padding budget (`0` ⇒ no padding), whatever the MTU arithmetic
    (`base`) says; an unset maximum leaves the budget alone. -/
theorem padding_le_configured (base c : Int) (hc : 0 ≤ c) :
    maxPadTP base (some c) ≤ c ∧ maxPadTP base (some c) ≤ base ∧ (c = 0 → 0 ≤ base → maxPadTP base (some c) = 0) ∧
    maxPadTP base none = base := by
  unfold maxPadTP
  refine ⟨by grind, by grind, by grind, rfl⟩

/-- …and that cap is the EXPLICIT value whenever one was configured: generation does not override it. -/
theorem padding_le_explicit (fi : Nat → String → Nat) (host : Int) (p : TrafficPattern) (base c : Int) (hc : 0 ≤ c)
    (h : p.padding.bind (·.maxMiddle) = some c) :
    maxPadTP base ((effective fi host p).padding.bind (·.maxMiddle)) ≤ c := by
  have := (explicit_preserved fi host p).2.2.2.2.2.2.2.2.2.1 c h
  rw [this]
  exact (padding_le_configured base c hc).1

/-- The server encodes with low entropy only after the client did; the client follows its own
    setting; when enabled, mode and rotation are the configured ones. -/
theorem server_le_only_after_client (p : Option TrafficPattern) (isClient used : Bool) :
    let cfg := extractLowEntropyConfig p
    let r := lowEntropySendConfig p isClient used
    (r.2.2 = true ↔ cfg.2.2 = true ∧ (isClient = true ∨ used = true)) ∧
    (r.2.2 = true → r.1 = cfg.1 ∧ r.2.1 = cfg.2.1 ∧ r.1 ≠ 0) ∧
    (r.2.2 = false → r.1 = 0 ∧ r.2.1 = 0) := by
  simp only [lowEntropySendConfig]
  rcases hcfg : extractLowEntropyConfig p with ⟨m, r, en⟩
  have hm : en = true → m ≠ 0 := by
    unfold extractLowEntropyConfig at hcfg
    cases p with
    | none => simp at hcfg; simp [hcfg]
    | some tp =>
      simp only at hcfg
      cases hl : tp.lowEntropy with
      | none => simp [hl] at hcfg; simp [hcfg]
      | some l =>
        simp only [hl] at hcfg
        by_cases h0 : l.mode.getD 0 = 0
        · simp [h0] at hcfg; simp [hcfg]
        · simp [h0] at hcfg; intro _; rw [← hcfg.1]; exact h0
  cases en <;> cases isClient <;> cases used <;> simp_all

/-- in particular: a server that has not seen low-entropy data from the client never sends it -/
theorem server_never_first (p : Option TrafficPattern) : (lowEntropySendConfig p false false).2.2 = false := by
  have := (server_le_only_after_client p false false).1
  cases h : (lowEntropySendConfig p false false).2.2 <;> simp_all

/-- the rewrite length is always inside the configured range (clamped to the nonce size), and every
    length of the range occurs for some draw -/
theorem nonce_rewrite_len_in_range (minLen maxLen size : Int) (r : Nat)
    (hv : 0 ≤ minLen ∧ minLen ≤ maxLen ∧ maxLen ≤ size) :
    minLen ≤ nonceRewriteLen minLen maxLen size r ∧ nonceRewriteLen minLen maxLen size r ≤ maxLen ∧
    (∀ l, minLen ≤ l → l ≤ maxLen → ∃ r', nonceRewriteLen minLen maxLen size r' = l) := by
  have hr : nonceRewriteRange minLen maxLen size = (minLen, maxLen) := by
    unfold nonceRewriteRange; simp only
    rw [if_neg (by omega), if_neg (by omega)]
  unfold nonceRewriteLen
  rw [hr]; simp only
  refine ⟨?_, ?_, ?_⟩
  · split
    · omega
    · have := Int.emod_nonneg (r : Int) (b := maxLen - minLen + 1) (by omega); omega
  · split
    · omega
    · have := Int.emod_lt_of_pos (r : Int) (b := maxLen - minLen + 1) (by omega); omega
  · intro l h1 h2
    refine ⟨(l - minLen).toNat, ?_⟩
    split
    · omega
    · rw [Int.toNat_of_nonneg (by omega), Int.emod_eq_of_lt (by omega) (by omega)]; omega

/-- for every valid effective nonce pattern the range is the configured one (size 24 ≥ 12) -/
theorem nonce_rewrite_range_of_valid (minLen maxLen : Int) (h : 0 ≤ minLen ∧ minLen ≤ maxLen ∧ maxLen ≤ 12) :
    nonceRewriteRange minLen maxLen 24 = (minLen, maxLen) := by
  unfold nonceRewriteRange; simp only
  rw [if_neg (by omega), if_neg (by omega)]

/-- UDP (stateless cipher) without `applyToAllUDPPacket`: only the first nonce is rewritten;
    otherwise every nonce is. -/
theorem nonce_rewrite_once_for_udp (n : Nat) :
    rewriteFlags true false (n + 1) false = true :: List.replicate n false ∧
    rewriteFlags true true n false = List.replicate n true ∧
    (∀ a, rewriteFlags false a n false = List.replicate n true) := by
  have h1 : ∀ k, rewriteFlags true false k true = List.replicate k false := by
    intro k; induction k with
    | zero => rfl
    | succ k ih => simp [rewriteFlags, nonceApplies, ih, List.replicate_succ]
  have h2 : ∀ k b, rewriteFlags true true k b = List.replicate k true := by
    intro k; induction k with
    | zero => intro b; rfl
    | succ k ih => intro b; simp [rewriteFlags, nonceApplies, ih, List.replicate_succ]
  have h3 : ∀ k a b, rewriteFlags false a k b = List.replicate k true := by
    intro k; induction k with
    | zero => intro a b; rfl
    | succ k ih => intro a b; simp [rewriteFlags, nonceApplies, ih, List.replicate_succ]
  exact ⟨by simp [rewriteFlags, nonceApplies, h1], h2 n false, fun a => h3 n a false⟩

/-- `Decode (Encode p) = p`.  `Encode` = base64(proto.Marshal p).  The base64 layer is the executable
    model `Mieru.Base64` (proved to round-trip for all byte strings); protobuf (un)marshalling is
    library code, abstracted as any pair with `unmarshal (marshal p) = some p` (hypothesis). -/
theorem encode_decode_roundtrip {P : Type} (marshal : P → List UInt8) (unmarshal : List UInt8 → Option P)
    (hpb : ∀ p, unmarshal (marshal p) = some p) (p : P) :
    (Mieru.Base64.decode (Mieru.Base64.encode (marshal p))).bind unmarshal = some p := by
  rw [Mieru.Base64.decode_encode]; exact hpb p

end Mieru.C16

/-! ## Non-vacuity and the regression witness -/
namespace Mieru.C16
open Mieru.Pattern

/-- a concrete `FixedInt` satisfying the hypothesis (constant residue) -/
def fiConst (k : Nat) : Nat → String → Nat := fun n _ => k % n
theorem fiConst_ok (k : Nat) : FixedIntOK (fiConst k) := fun _ _ hn => Nat.mod_lt _ hn

/-- the witness of the repaired defect: explicit `maxLen = 3`, `minLen` implicit -/
def witness : TrafficPattern := { seed := some 0, nonce := some { maxLen := some 3 } }

example : validate witness = .ok () := by rfl
/-- regression: on the repaired model the effective pattern validates and keeps maxLen = 3 … -/
example : validate (effective (fiConst 5) 0 witness) = .ok () := by rfl
example : ((effective (fiConst 5) 0 witness).nonce.bind (·.maxLen)) = some 3 := by decide
example : ((effective (fiConst 5) 0 witness).nonce.bind (·.minLen)) = some 3 := by decide

/-- … whereas the UNCLAMPED generator (the code before the repair) yields `minLen = 11 > maxLen = 3`,
    which `Validate` rejects: the full-strength theorem was false for the old code. -/
theorem unclamped_minLen_counterexample :
    let n : NoncePattern := { maxLen := some 3, minLen := some (genMinLenRaw (fiConst 5) 0 false) }
    validateNonce (some n) = .error .nonceMinGtMax := by rfl

example : rotationOfIndex 30 = 240 := by decide
example : rotationOfIndex 16 = 16 := by decide
example : lowEntropySendConfig (some { lowEntropy := some { mode := some 3, maskRotation := some 32 } }) false true = (3, 32, true) := by decide
example : lowEntropySendConfig (some { lowEntropy := some { mode := some 3, maskRotation := some 32 } }) false false = (0, 0, false) := by decide
example : nonceRewriteLen 6 9 24 7 = 9 := by decide
example : rewriteFlags true false 4 false = [true, false, false, false] := by decide

end Mieru.C16

/-! # Round 3 -/

/-! ## `rng.FixedInt` instantiated: the theorems above for the REAL function

`Mieru.FixedInt.fixedIntSha n hint = BE32(SHA-256(hint) with the top bit cleared) % n` (0 for n = 0) is the
code's `rng.FixedInt` (driver ops `pat-fixedint`, `pat-eff-sha`; compared with the real function and with
`Effective()` on every configuration case).  Nothing below assumes anything about SHA-256. -/
namespace Mieru.C16
open Mieru.Pattern Mieru.Padding Mieru.FixedInt

theorem fixedIntSha_ok : FixedIntOK fixedIntSha := fun n h hn => fixedIntSha_lt n h hn

/-- the explicit-field clause as a predicate on (input, effective) -/
def ExplicitKept (p e : TrafficPattern) : Prop :=
    Keeps p.seed e.seed ∧ Keeps p.unlockAll e.unlockAll ∧
    Keeps (p.tcpFragment.bind (·.enable)) (e.tcpFragment.bind (·.enable)) ∧
    Keeps (p.tcpFragment.bind (·.maxSleepMs)) (e.tcpFragment.bind (·.maxSleepMs)) ∧
    Keeps (p.nonce.bind (·.type)) (e.nonce.bind (·.type)) ∧
    Keeps (p.nonce.bind (·.applyToAll)) (e.nonce.bind (·.applyToAll)) ∧
    Keeps (p.nonce.bind (·.minLen)) (e.nonce.bind (·.minLen)) ∧
    Keeps (p.nonce.bind (·.maxLen)) (e.nonce.bind (·.maxLen)) ∧
    (e.nonce.map (·.customHex)).getD [] = (p.nonce.map (·.customHex)).getD [] ∧
    Keeps (p.padding.bind (·.maxMiddle)) (e.padding.bind (·.maxMiddle)) ∧
    Keeps (p.padding.bind (·.maxEnd)) (e.padding.bind (·.maxEnd)) ∧
    Keeps (p.lowEntropy.bind (·.mode)) (e.lowEntropy.bind (·.mode)) ∧
    Keeps (p.lowEntropy.bind (·.maskRotation)) (e.lowEntropy.bind (·.maskRotation))

/-- `Effective()` of the real generator keeps every explicit field -/
theorem explicit_preserved_sha (host : Int) (p : TrafficPattern) : ExplicitKept p (effective fixedIntSha host p) :=
  explicit_preserved fixedIntSha host p

/-- `Validate(Effective())` succeeds for the real generator, for every pattern `Validate` accepts -/
theorem effective_sha_valid (host : Int) (p : TrafficPattern) (hv : validate p = .ok ()) :
    validate (effective fixedIntSha host p) = .ok () :=
  effective_valid_full fixedIntSha fixedIntSha_ok host p hv

/-- `NewConfig` with the real generator succeeds on every valid pattern; its result is `effective …` and validates -/
theorem newConfig_sha_ok (host : Int) (p : TrafficPattern) (hv : validate p = .ok ()) :
    newConfig fixedIntSha host p = .ok (effective fixedIntSha host p) ∧
    validate (effective fixedIntSha host p) = .ok () := by
  refine ⟨?_, effective_sha_valid host p hv⟩
  unfold newConfig; rw [hv]

/-- The effective pattern is a function of (pattern, seed-or-host) alone — `unlockAll` is a field of the
    pattern —: the host-derived seed matters only through `seedOf`, i.e. only when the pattern has no
    explicit seed.  (For every `fi`, in particular the real one.) -/
theorem effective_function_of_seedOf (fi : Nat → String → Nat) (host host' : Int) (p : TrafficPattern)
    (h : seedOf p host = seedOf p host') : effective fi host p = effective fi host' p := by
  unfold effective; simp only [h]

theorem effective_sha_deterministic (host host' : Int) (p : TrafficPattern) (hs : p.seed = none → host = host') :
    effective fixedIntSha host p = effective fixedIntSha host' p :=
  effective_deterministic fixedIntSha fixedIntSha host host' p hs (fun _ _ _ => rfl)

/-! ### what the implicit values depend on (audit WEAK-1)

Not "seed and unlockAll" alone: because of the clamp, the implicit `nonce.minLen` also depends on an
explicit `nonce.maxLen`, and the implicit `nonce.maxLen` on an explicit `nonce.minLen`.  Exactly that: -/

def fEnable (p : TrafficPattern) := p.tcpFragment.bind (·.enable)
def fSleep (p : TrafficPattern) := p.tcpFragment.bind (·.maxSleepMs)
def fType (p : TrafficPattern) := p.nonce.bind (·.type)
def fApplyAll (p : TrafficPattern) := p.nonce.bind (·.applyToAll)
def fMinLen (p : TrafficPattern) := p.nonce.bind (·.minLen)
def fMaxLen (p : TrafficPattern) := p.nonce.bind (·.maxLen)
def fMid (p : TrafficPattern) := p.padding.bind (·.maxMiddle)
def fEnd (p : TrafficPattern) := p.padding.bind (·.maxEnd)
def fMode (p : TrafficPattern) := p.lowEntropy.bind (·.mode)
def fRot (p : TrafficPattern) := p.lowEntropy.bind (·.maskRotation)

/-- Two patterns with the same seed-or-host and the same `unlockAll` get the SAME implicit value in every
    field both leave unset — for `nonce.minLen` provided they agree on the explicit `nonce.maxLen` (set or
    not), for `nonce.maxLen` provided they agree on the explicit `nonce.minLen`.  Whatever else they set. -/
theorem implicit_values_depend_only_on (fi : Nat → String → Nat) (host host' : Int) (p q : TrafficPattern)
    (hseed : seedOf p host = seedOf q host') (hua : p.unlockAll.getD false = q.unlockAll.getD false) :
    let e := effective fi host p
    let e' := effective fi host' q
    (fEnable p = none → fEnable q = none → fEnable e = fEnable e') ∧
    (fSleep p = none → fSleep q = none → fSleep e = fSleep e') ∧
    (fType p = none → fType q = none → fType e = fType e') ∧
    (fApplyAll p = none → fApplyAll q = none → fApplyAll e = fApplyAll e') ∧
    (fMinLen p = none → fMinLen q = none → fMaxLen p = fMaxLen q → fMinLen e = fMinLen e') ∧
    (fMaxLen p = none → fMaxLen q = none → fMinLen p = fMinLen q → fMaxLen e = fMaxLen e') ∧
    (fMid p = none → fMid q = none → fMid e = fMid e') ∧
    (fEnd p = none → fEnd q = none → fEnd e = fEnd e') ∧
    (fMode p = none → fMode q = none → fMode e = fMode e') ∧
    (fRot p = none → fRot q = none → fRot e = fRot e') := by
  simp only [fEnable, fSleep, fType, fApplyAll, fMinLen, fMaxLen, fMid, fEnd, fMode, fRot, effective,
    genTcpFragment, genNonce, genPadding, genLowEntropy, Option.bind_some, hseed, hua]
  refine ⟨?_, ?_, ?_, ?_, ?_, ?_, ?_, ?_, ?_, ?_⟩
  · intro h1 h2; cases hp : p.tcpFragment <;> cases hq : q.tcpFragment <;> simp_all [orElse]
  · intro h1 h2; cases hp : p.tcpFragment <;> cases hq : q.tcpFragment <;> simp_all [orElse]
  · intro h1 h2; cases hp : p.nonce <;> cases hq : q.nonce <;> simp_all [orElse]
  · intro h1 h2; cases hp : p.nonce <;> cases hq : q.nonce <;> simp_all [orElse]
  · intro h1 h2 h3; cases hp : p.nonce <;> cases hq : q.nonce <;> simp_all [orElse]
  · intro h1 h2 h3; cases hp : p.nonce <;> cases hq : q.nonce <;> simp_all [orElse]
  · intro h1 h2; cases hp : p.padding <;> cases hq : q.padding <;> simp_all [orElse]
  · intro h1 h2; cases hp : p.padding <;> cases hq : q.padding <;> simp_all [orElse]
  · intro h1 h2; cases hp : p.lowEntropy <;> cases hq : q.lowEntropy <;> simp_all [orElse]
  · intro h1 h2; cases hp : p.lowEntropy <;> cases hq : q.lowEntropy <;> simp_all [orElse]

/-- … and the extra dependence is real: same seed, same unlockAll, `minLen` unset in both — the implicit
    `minLen` differs because one pattern sets `maxLen = 3` explicitly (so "implicit values are a function of
    seed and unlockAll" is FALSE for this code; the clamp is the repair of the defect found in round 1). -/
theorem implicit_minLen_depends_on_explicit_maxLen :
    ∃ fi, FixedIntOK fi ∧ ∃ p q : TrafficPattern, seedOf p 0 = seedOf q 0 ∧ p.unlockAll = q.unlockAll ∧
      fMinLen p = none ∧ fMinLen q = none ∧ fMinLen (effective fi 0 p) ≠ fMinLen (effective fi 0 q) :=
  ⟨fiConst 5, fiConst_ok 5, { seed := some 0, nonce := some { maxLen := some 3 } }, { seed := some 0 }, by decide⟩

end Mieru.C16

/-! ## Tie T: the hand-written model equals the definitions REGENERATED from the Go source

`Mieru.Gen.PatternGen` is produced by tools/goextract/pattern.go from the repository's current working
tree on every run.  A change of the Go function changes the generated definition and the equality below
stops proving (or the `decide`d expectation becomes false); `mieru-gen` evaluates the same definitions
against the real functions (harness/props/c16_gen.go). -/
namespace Mieru.C16
open Mieru.Pattern Mieru.Padding Mieru.PatternWire

/-- `nonceRewriteLen` (pkg/cipher/cipher.go), every input — both clamp branches included —, every draw -/
theorem nonceRewriteLen_eq_gen (minLen maxLen size : Int) (r : Nat) :
    nonceRewriteLen minLen maxLen size r = Mieru.Gen.PatternGen.nonceRewriteLen minLen maxLen size r := by
  unfold nonceRewriteLen nonceRewriteRange Mieru.Gen.PatternGen.nonceRewriteLen
  simp only
  repeat' split
  all_goals first | rfl | omega | simp_all

/-- FULL range statement (no validity hypothesis): whatever `minLen`, `maxLen`, nonce size — `maxLen` above the
    nonce size is clamped to it, `minLen` above that to it — the length lies in the clamped range and every
    length of the clamped range occurs for some draw.  Stated for the regenerated function. -/
theorem nonce_rewrite_len_in_clamped_range (minLen maxLen size : Int) (r : Nat) :
    let lo := (nonceRewriteRange minLen maxLen size).1
    let hi := (nonceRewriteRange minLen maxLen size).2
    hi = min maxLen size ∧ lo = min minLen hi ∧
    lo ≤ Mieru.Gen.PatternGen.nonceRewriteLen minLen maxLen size r ∧
    Mieru.Gen.PatternGen.nonceRewriteLen minLen maxLen size r ≤ hi ∧
    (∀ l, lo ≤ l → l ≤ hi → ∃ r' : Nat, Mieru.Gen.PatternGen.nonceRewriteLen minLen maxLen size r' = l) := by
  simp only [← nonceRewriteLen_eq_gen]
  unfold nonceRewriteLen nonceRewriteRange
  simp only
  have hlo : (if minLen > (if maxLen > size then size else maxLen) then (if maxLen > size then size else maxLen) else minLen)
      ≤ (if maxLen > size then size else maxLen) := by split <;> omega
  refine ⟨by split <;> omega, by split <;> omega, ?_⟩
  generalize (if maxLen > size then size else maxLen) = hi at *
  generalize hL : (if minLen > hi then hi else minLen) = lo at *
  refine ⟨?_, ?_, ?_⟩
  · split
    · omega
    · have := Int.emod_nonneg (r : Int) (b := hi - lo + 1) (by omega); omega
  · split
    · omega
    · have := Int.emod_lt_of_pos (r : Int) (b := hi - lo + 1) (by omega); omega
  · intro l h1 h2
    refine ⟨(l - lo).toNat, ?_⟩
    split
    · omega
    · rw [Int.toNat_of_nonneg (by omega), Int.emod_eq_of_lt (by omega) (by omega)]; omega

/-- `maxPaddingSize` never returns a negative budget (regenerated function) -/
theorem maxPaddingSize_nonneg (mtu transport frag existing : Int) :
    0 ≤ Mieru.Gen.Arith.maxPaddingSize mtu transport frag existing := by
  unfold Mieru.Gen.Arith.maxPaddingSize
  split
  · omega
  · simp only; split <;> omega

/-- the configured maximum `maxPaddingSizeWithTrafficPattern` looks at, by position: `none` for a nil pattern,
    a nil `Padding` or an unknown position -/
def configuredFor (tpNil padNil : Bool) (maxMiddle maxEnd : Option Int) (position : Int) : Option Int :=
  if tpNil || padNil then none else if position = 0 then maxMiddle else if position = 1 then maxEnd else none

/-- `maxPaddingSizeWithTrafficPattern` (pkg/protocol/padding.go) = `maxPadTP` over the regenerated
    `maxPaddingSize`, for BOTH positions, nil pattern / nil padding / unset field included -/
theorem maxPadTP_eq_gen (mtu transport frag existing : Int) (tpNil padNil : Bool) (maxMiddle maxEnd : Option Int) (position : Int) :
    Mieru.Gen.PatternGen.maxPaddingSizeWithTrafficPattern mtu transport frag existing tpNil padNil maxMiddle maxEnd position =
      maxPadTP (Mieru.Gen.Arith.maxPaddingSize mtu transport frag existing) (configuredFor tpNil padNil maxMiddle maxEnd position) := by
  unfold Mieru.Gen.PatternGen.maxPaddingSizeWithTrafficPattern configuredFor maxPadTP
  simp only [Mieru.Gen.PatternGen.middlePadding, Mieru.Gen.PatternGen.endPadding]
  cases tpNil <;> cases padNil <;> simp
  by_cases h0 : position = 0 <;> by_cases h1 : position = 1 <;> cases maxMiddle <;> cases maxEnd <;> simp_all

/-- "0 means none", about the REGENERATED function: a configured maximum of 0 gives a budget of 0, at
    either position, whatever the MTU arithmetic says; a configured `c ≥ 0` caps the budget -/
theorem padding_zero_means_none_gen (mtu transport frag existing : Int) (other : Option Int) (c : Int) (hc : 0 ≤ c) :
    Mieru.Gen.PatternGen.maxPaddingSizeWithTrafficPattern mtu transport frag existing false false (some c) other 0 ≤ c ∧
    Mieru.Gen.PatternGen.maxPaddingSizeWithTrafficPattern mtu transport frag existing false false other (some c) 1 ≤ c ∧
    Mieru.Gen.PatternGen.maxPaddingSizeWithTrafficPattern mtu transport frag existing false false (some 0) other 0 = 0 ∧
    Mieru.Gen.PatternGen.maxPaddingSizeWithTrafficPattern mtu transport frag existing false false other (some 0) 1 = 0 := by
  have hb := maxPaddingSize_nonneg mtu transport frag existing
  simp only [maxPadTP_eq_gen, configuredFor, maxPadTP]
  simp
  omega

/-- the arguments the regenerated low-entropy functions take, read off a model pattern -/
def leNil (p : Option TrafficPattern) : Bool := (p.bind (·.lowEntropy)).isNone
def leMode0 (p : Option TrafficPattern) : Int := ((p.bind (·.lowEntropy)).bind (·.mode)).getD 0
def leRot0 (p : Option TrafficPattern) : Int := ((p.bind (·.lowEntropy)).bind (·.maskRotation)).getD 0

/-- `extractLowEntropyConfig` (pkg/protocol/low_entropy.go) -/
theorem extractLowEntropyConfig_eq_gen (p : Option TrafficPattern) :
    extractLowEntropyConfig p = Mieru.Gen.PatternGen.extractLowEntropyConfig p.isNone (leNil p) (leMode0 p) (leRot0 p) := by
  unfold extractLowEntropyConfig Mieru.Gen.PatternGen.extractLowEntropyConfig leNil leMode0 leRot0
  cases p with
  | none => simp
  | some tp =>
    cases h : tp.lowEntropy with
    | none => simp [h]
    | some l => simp [h]; split <;> simp_all

/-- `Session.lowEntropySendConfig` (pkg/protocol/session.go) -/
theorem lowEntropySendConfig_eq_gen (p : Option TrafficPattern) (isClient used : Bool) :
    lowEntropySendConfig p isClient used =
      Mieru.Gen.PatternGen.lowEntropySendConfig p.isNone (leNil p) (leMode0 p) (leRot0 p) isClient used := by
  unfold lowEntropySendConfig Mieru.Gen.PatternGen.lowEntropySendConfig
  rw [← extractLowEntropyConfig_eq_gen]
  rcases extractLowEntropyConfig p with ⟨m, r, en⟩
  cases en <;> cases isClient <;> cases used <;> simp

/-- the protocol type `writeChunk` stamps on the data segments of a chunk, and the protocol numbers -/
theorem dataProtocolOf_eq_gen (isClient le : Bool) :
    dataProtocolOf isClient le = Mieru.Gen.PatternGen.dataProtocolOf isClient le := by
  cases isClient <;> cases le <;> rfl

/-- the flag `clientUseLowEntropy` is written at ONE place — `Session.input`, under
    `!s.isClient && protocol == dataClientToServerLowEntropy` — and read at one place,
    `lowEntropySendConfig`, whose snapshot `writeChunk` takes once, before its fragment loop -/
theorem le_flag_sites :
    Mieru.Gen.PatternGen.clientUseLowEntropyStores =
      [("Session.input", "s.clientUseLowEntropy.Store(true)", "!s.isClient && protocol == dataClientToServerLowEntropy")] ∧
    Mieru.Gen.PatternGen.clientUseLowEntropyLoads = [("Session.lowEntropySendConfig", "s.clientUseLowEntropy.Load()", "")] ∧
    Mieru.Gen.PatternGen.lowEntropySnapshot =
      [(1, "lowEntropyMode, lowEntropyRotation, sendLowEntropy := s.lowEntropySendConfig()")] := ⟨rfl, rfl, rfl⟩

/-- which rewrite the calls of a `newNonceTo` switch case amount to -/
def actionOfCalls (calls : List String) : NonceAction :=
  if calls.contains "common.ToPrintableChar" then .printable
  else if calls.contains "common.ToCommon64Set" then .subset
  else if calls.contains "copy" then .fixed
  else .none

/-- `newNonceTo` (pkg/cipher/cipher.go) as a decision function: nil pattern ⇒ early return, flag untouched
    (the audit's MODEL-MISMATCH, now in the model); the skip test; which types call `nonceRewriteLen` and which
    class function; the flag set after the switch.  For the four `NonceType` values and every other number. -/
theorem newNonceStep_eq_gen (pat : Option (Int × Bool)) (stateless applied : Bool) :
    let g := Mieru.Gen.PatternGen.newNonceTo pat.isNone (!stateless) applied ((pat.map (·.2)).getD false) ((pat.map (·.1)).getD 0)
    let m := newNonceStep pat stateless applied
    g.2 = m.applied ∧ actionOfCalls g.1 = m.action ∧
    (g.1.contains "c.nonceRewriteLen" = decide (m.action = .printable ∨ m.action = .subset)) ∧
    (m.reached = false → g.1 = []) := by
  unfold Mieru.Gen.PatternGen.newNonceTo newNonceStep nonceApplies
  cases pat with
  | none => simp [actionOfCalls]
  | some v =>
    obtain ⟨ty, all⟩ := v
    cases stateless <;> cases applied <;> cases all <;> simp [actionOfType]
    all_goals
      by_cases h0 : ty = 0
      · subst h0; decide
      · by_cases h1 : ty = 1
        · subst h1; decide
        · by_cases h2 : ty = 2
          · subst h2; decide
          · by_cases h3 : ty = 3
            · subst h3; decide
            · simp [h0, h1, h2, h3, actionOfCalls]

/-- what precedes the nil test in `newNonceTo`: the length check, the truncation to `NonceSize()`, `crand.Read` -/
theorem newNonceTo_preamble :
    Mieru.Gen.PatternGen.newNonceToPreamble =
      ["if len(nonce) < c.NonceSize() { return errDestinationTooSmall }", "nonce = nonce[:c.NonceSize()]",
       "if _, err := crand.Read(nonce); err != nil { return err }"] := rfl

/-- the guard and the piece-length arithmetic of `writeWithPossibleFragment` (pkg/protocol/underlay_stream.go) -/
theorem fragment_eq_gen (tpNil fragNil enable : Bool) (total remaining sq draw : Nat) :
    Mieru.Gen.PatternGen.fragmentDisabled tpNil fragNil enable = (tpNil || fragNil || !enable) ∧
    (fragLen total remaining sq draw : Int) = Mieru.Gen.PatternGen.fragmentLen total remaining sq draw := by
  constructor
  · cases tpNil <;> cases fragNil <;> cases enable <;> rfl
  · unfold fragLen Mieru.Gen.PatternGen.fragmentLen
    simp only
    have hd : Int.tdiv (total : Int) 2 = ((total / 2 : Nat) : Int) := by
      rw [Int.tdiv_eq_ediv_of_nonneg (by omega)]; omega
    rw [hd]
    have hm : ((max (sq + 1) (total / 2) : Nat) : Int) = max ((sq : Int) + 1) ((total / 2 : Nat) : Int) := by omega
    rw [← hm]
    have hhi : sq + 1 ≤ max (sq + 1) (total / 2) := Nat.le_max_left ..
    generalize max (sq + 1) (total / 2) = hi at *
    have hk : ((draw % (hi - (sq + 1) + 1) : Nat) : Int) = (draw : Int) % ((hi : Int) - ((sq : Int) + 1) + 1) := by
      rw [Int.natCast_emod]; congr 1; omega
    generalize ((draw : Int) % ((hi : Int) - ((sq : Int) + 1) + 1)) = m at *
    generalize (draw % (hi - (sq + 1) + 1)) = mn at *
    split <;> omega

/-- … and the shape around that arithmetic: the loop runs while bytes remain, each iteration writes
    `remaining[:lenToSend]`, sleeps only if `maxSleepMs > 0`, advances; the disabled branch is ONE `conn.Write` -/
theorem fragment_loop_shape :
    Mieru.Gen.PatternGen.fragmentLoopShape =
      ["remaining := dataToSend", "len(remaining) > 0", "if _, err := t.conn.Write(remaining[:lenToSend]); err != nil",
       "if t.trafficPattern.GetTcpFragment().GetMaxSleepMs() > 0", "remaining = remaining[lenToSend:]", "return nil"] ∧
    Mieru.Gen.PatternGen.fragmentDisabledCalls = ["t.conn.Write", "fmt.Errorf"] := ⟨rfl, rfl⟩

end Mieru.C16

/-! ### `Validate` (apis/trafficpattern/config.go): order, bounds, error sites -/
namespace Mieru.C16
open Mieru.Pattern Mieru.Padding Mieru.PatternWire

/-- the k-th error return of a translated validator ↔ the model's error (`none` = `nil`) -/
def tcpErr : Except VErr Unit → Option Nat
  | .ok _ => none
  | .error .tcpSleepNegative => some 0
  | .error .tcpSleepTooBig => some 1
  | .error _ => some 99

def padErr : Except VErr Unit → Option Nat
  | .ok _ => none
  | .error .padMiddleNegative => some 0
  | .error .padMiddleTooBig => some 1
  | .error .padEndNegative => some 2
  | .error .padEndTooBig => some 3
  | .error _ => some 99

/-- `validateTCPFragment`: same checks, same order, same bounds (0..100), nil and unset handled alike -/
theorem validateTcp_eq_gen (o : Option TcpFragment) :
    Mieru.Gen.PatternGen.validateTCPFragment o.isNone (o.bind (·.maxSleepMs)) = tcpErr (validateTcpFragment o) := by
  unfold Mieru.Gen.PatternGen.validateTCPFragment validateTcpFragment
  cases o with
  | none => rfl
  | some f =>
    cases h : f.maxSleepMs with
    | none => simp [h, tcpErr]
    | some v =>
      simp [h]
      split
      · rfl
      · split <;> rfl

/-- `validatePaddingPattern`: same checks, same order, bounds 0..`maxPaddingLen` = 255 -/
theorem validatePadding_eq_gen (o : Option PaddingPattern) :
    Mieru.Gen.PatternGen.validatePaddingPattern o.isNone (o.bind (·.maxMiddle)) (o.bind (·.maxEnd)) = padErr (validatePadding o) ∧
    Mieru.Gen.PatternGen.maxPaddingLen = maxPaddingLen := by
  refine ⟨?_, rfl⟩
  unfold Mieru.Gen.PatternGen.validatePaddingPattern validatePadding
  cases o with
  | none => rfl
  | some f =>
    cases h1 : f.maxMiddle <;> cases h2 : f.maxEnd <;>
      simp [h1, h2, padErr, bind, Except.bind, throw, throwThe, MonadExceptOf.throw, pure, Except.pure,
        Mieru.Gen.PatternGen.maxPaddingLen, maxPaddingLen]
    all_goals (repeat' split)
    all_goals first | rfl | omega | simp_all [padErr]

/-- the error the k-th error return of `validateNoncePattern` stands for -/
def nonceErrOfCode : Nat → VErr
  | 0 => .nonceMinNegative
  | 1 => .nonceMinTooBig
  | 2 => .nonceMaxNegative
  | 3 => .nonceMaxTooBig
  | _ => .nonceMinGtMax

/-- the integer part of `validateNoncePattern` (everything before the loop over the hex strings): the same five
    checks in the same order with the bound 12 (error return k ↦ the model's k-th error); when they pass, what
    remains is the hex-string loop -/
theorem validateNonceInts_eq_gen (o : Option NoncePattern) :
    (validateNonce o = match Mieru.Gen.PatternGen.validateNoncePatternInts o.isNone (o.bind (·.minLen)) (o.bind (·.maxLen)) with
      | none => validateHexList ((o.map (·.customHex)).getD []) 0
      | some k => .error (nonceErrOfCode k)) ∧
    (∀ k, Mieru.Gen.PatternGen.validateNoncePatternInts o.isNone (o.bind (·.minLen)) (o.bind (·.maxLen)) = some k → k ≤ 4) := by
  unfold Mieru.Gen.PatternGen.validateNoncePatternInts validateNonce
  cases o with
  | none => simp [validateHexList]
  | some f =>
    cases h1 : f.minLen with
    | none =>
      cases h2 : f.maxLen with
      | none => simp [h1, h2, bind, Except.bind, pure, Except.pure]
      | some b =>
        by_cases c3 : b < 0 <;> by_cases c4 : 12 < b <;>
          simp [h1, h2, c3, c4, bind, Except.bind, throw, throwThe, MonadExceptOf.throw, pure, Except.pure, maxNonceLen, nonceErrOfCode]
    | some a =>
      cases h2 : f.maxLen with
      | none =>
        by_cases c1 : a < 0 <;> by_cases c2 : 12 < a <;>
          simp [h1, h2, c1, c2, bind, Except.bind, throw, throwThe, MonadExceptOf.throw, pure, Except.pure, maxNonceLen, nonceErrOfCode]
      | some b =>
        by_cases c1 : a < 0 <;> by_cases c2 : 12 < a <;> by_cases c3 : b < 0 <;> by_cases c4 : 12 < b <;> by_cases c5 : b < a <;>
          simp [h1, h2, c1, c2, c3, c4, c5, bind, Except.bind, throw, throwThe, MonadExceptOf.throw, pure, Except.pure, maxNonceLen, nonceErrOfCode]

/-- `Validate` calls the four validators in the model's order; the rest of `validateNoncePattern` is the hex
    loop (decode error, then decoded length > 12); `validateLowEntropyPattern` tests membership in the two
    generated name maps (whose key sets are compared with `validMode` / `validRotation` by the harness) -/
theorem validate_shape :
    Mieru.Gen.PatternGen.validateOrder =
      [("if pattern == nil", "{ return nil }"), ("validateTCPFragment", "pattern.GetTcpFragment()"),
       ("validateNoncePattern", "pattern.GetNonce()"), ("validatePaddingPattern", "pattern.GetPadding()"),
       ("validateLowEntropyPattern", "pattern.GetLowEntropy()"), ("return nil", "")] ∧
    Mieru.Gen.PatternGen.validateNonceTail =
      ["for i, hexStr := range nonce.GetCustomHexStrings()", "decoded, err := hex.DecodeString(hexStr)", "if err != nil",
       "if len(decoded) > 12", "return nil"] ∧
    Mieru.Gen.PatternGen.validateLowEntropyShape =
      ["if lowEntropy == nil", "  return nil", "if lowEntropy.Mode != nil",
       "  if _, ok := appctlpb.LowEntropyMode_name[int32(lowEntropy.GetMode())]; !ok", "    return error",
       "if lowEntropy.MaskRotation != nil",
       "  if _, ok := appctlpb.LowEntropyMaskRotation_name[int32(lowEntropy.GetMaskRotation())]; !ok", "    return error",
       "return nil"] := ⟨rfl, rfl, rfl⟩

/-! ### the implicit generator (apis/trafficpattern/config.go `generate*`): every `rng.FixedInt` call site -/

/-- the model's view of one call site: (function, hint name, range as the source writes it, only in the
    `unlockAll` / `!unlockAll` branch?, guard field) -/
def expectedSites : List (String × List String × String × String) :=
  [("Config.generateTCPFragment", ["c.original.TcpFragment == nil || c.original.TcpFragment.Enable == nil", "unlockAll"], "2", "tcpFragment.enable"),
   ("Config.generateTCPFragment", ["c.original.TcpFragment == nil || c.original.TcpFragment.MaxSleepMs == nil", "unlockAll"], "100", "tcpFragment.maxSleepMs"),
   ("Config.generateNoncePattern", ["c.original.Nonce == nil || c.original.Nonce.Type == nil", "unlockAll"], "3", "nonce.type"),
   ("Config.generateNoncePattern", ["c.original.Nonce == nil || c.original.Nonce.Type == nil", "!(unlockAll)"], "2", "nonce.type"),
   ("Config.generateNoncePattern", ["c.original.Nonce == nil || c.original.Nonce.ApplyToAllUDPPacket == nil"], "2", "nonce.applyToAllUDPPacket"),
   ("Config.generateNoncePattern", ["c.original.Nonce == nil || c.original.Nonce.MinLen == nil", "unlockAll"], "13", "nonce.minLen"),
   ("Config.generateNoncePattern", ["c.original.Nonce == nil || c.original.Nonce.MinLen == nil", "!(unlockAll)"], "7", "nonce.minLen"),
   ("Config.generateNoncePattern", ["c.original.Nonce == nil || c.original.Nonce.MaxLen == nil"], "13 - minLen", "nonce.maxLen"),
   ("Config.generatePaddingPattern", ["c.original.Padding == nil || c.original.Padding.MaxMiddlePaddingLen == nil"], "maxPaddingLen + 1", "padding.maxMiddlePaddingLen"),
   ("Config.generatePaddingPattern", ["c.original.Padding == nil || c.original.Padding.MaxEndPaddingLen == nil", "unlockAll"], "maxPaddingLen + 1", "padding.maxEndPaddingLen"),
   ("Config.generateLowEntropyPattern", ["c.original.LowEntropy == nil || c.original.LowEntropy.Mode == nil", "unlockAll"], "len(appctlpb.LowEntropyMode_name)", "lowEntropy.mode"),
   ("Config.generateLowEntropyPattern", ["c.original.LowEntropy == nil || c.original.LowEntropy.MaskRotation == nil"], "len(appctlpb.LowEntropyMaskRotation_name)", "lowEntropy.maskRotation")]

/-- EVERY `rng.FixedInt` call of config.go: enclosing function, nil-guard (`original.X == nil || original.X.F == nil`:
    only unset fields are generated), `unlockAll` branch, range expression and hint `"%d:<name>"` are the
    model's (`gen*` in Model/Pattern.lean: ranges 2, 100, 3 / 2, 2, 13 / 7, 13 − minLen, 256, 256, |modes|, |rotations|);
    the hint names, duplicates removed, are exactly `Pattern.hintNames` in the model's order; the only other use
    of package rng is the host-derived seed `rng.FixedIntVH(math.MaxInt32)` taken iff `Seed == nil`. -/
theorem fixedInt_call_sites :
    Mieru.Gen.PatternGen.fixedIntSites.map (fun x => (x.1, x.2.1, x.2.2.1, x.2.2.2.1)) =
      expectedSites.map (fun x => (x.1, x.2.1, x.2.2.1, "%d:" ++ x.2.2.2)) ∧
    (expectedSites.map (·.2.2.2)).eraseDups = hintNames ∧
    Mieru.Gen.PatternGen.otherRngCalls = [("Config.generateImplicitTrafficPattern", "rng.FixedIntVH(math.MaxInt32)")] ∧
    Mieru.Gen.PatternGen.generateImplicitShape =
      ["seed := int(c.original.GetSeed())", "if c.original.Seed == nil { seed = rng.FixedIntVH(math.MaxInt32) }",
       "unlockAll := c.original.GetUnlockAll()", "c.generateTCPFragment(seed, unlockAll)", "c.generateNoncePattern(seed, unlockAll)",
       "c.generatePaddingPattern(seed, unlockAll)", "c.generateLowEntropyPattern(seed, unlockAll)"] := ⟨rfl, by decide, rfl, rfl⟩

/-- what surrounds the draws (post-processing, the clamp, the floor, the rotation mapping), statement by
    statement: the `+ 1`, `+ 6`, `== 1`, `- 128` / `<= 0 ⇒ 0`, `minLen + …`, the clamp of the implicit minLen to an
    explicit maxLen, `rotationIndex <= 15 ? index : (index − 15) * 16`, the non-unlockAll defaults
    (false, 0, OFF, 255) — the text the model's `gen*` functions were written from -/
theorem generator_statements :
    Mieru.Gen.PatternGen.generatorShape = [
      ("Config.generateTCPFragment", [
        "if c.effective.TcpFragment == nil",
        "  c.effective.TcpFragment = &appctlpb.TCPFragment{}",
        "f := c.effective.TcpFragment",
        "if c.original.TcpFragment == nil || c.original.TcpFragment.Enable == nil",
        "  if unlockAll",
        "    f.Enable = proto.Bool(rng.FixedInt(2, fmt.Sprintf(\"%d:tcpFragment.enable\", seed)) == 1)",
        "  else",
        "    f.Enable = proto.Bool(false)",
        "if c.original.TcpFragment == nil || c.original.TcpFragment.MaxSleepMs == nil",
        "  if unlockAll",
        "    maxRange := 100",
        "    f.MaxSleepMs = proto.Int32(int32(rng.FixedInt(maxRange, fmt.Sprintf(\"%d:tcpFragment.maxSleepMs\", seed))) + 1)",
        "  else",
        "    f.MaxSleepMs = proto.Int32(0)"]),
      ("Config.generateNoncePattern", [
        "if c.effective.Nonce == nil",
        "  c.effective.Nonce = &appctlpb.NoncePattern{}",
        "n := c.effective.Nonce",
        "if c.original.Nonce == nil || c.original.Nonce.Type == nil",
        "  if unlockAll",
        "    typeRange := 3",
        "    n.Type = appctlpb.NonceType(rng.FixedInt(typeRange, fmt.Sprintf(\"%d:nonce.type\", seed))).Enum()",
        "  else",
        "    typeRange := 2",
        "    n.Type = appctlpb.NonceType(rng.FixedInt(typeRange, fmt.Sprintf(\"%d:nonce.type\", seed)) + 1).Enum()",
        "if c.original.Nonce == nil || c.original.Nonce.ApplyToAllUDPPacket == nil",
        "  n.ApplyToAllUDPPacket = proto.Bool(rng.FixedInt(2, fmt.Sprintf(\"%d:nonce.applyToAllUDPPacket\", seed)) == 1)",
        "if c.original.Nonce == nil || c.original.Nonce.MinLen == nil",
        "  if unlockAll",
        "    minRange := 13",
        "    n.MinLen = proto.Int32(int32(rng.FixedInt(minRange, fmt.Sprintf(\"%d:nonce.minLen\", seed))))",
        "  else",
        "    minRange := 7",
        "    n.MinLen = proto.Int32(int32(rng.FixedInt(minRange, fmt.Sprintf(\"%d:nonce.minLen\", seed))) + 6)",
        "  if c.original.Nonce != nil && c.original.Nonce.MaxLen != nil && n.GetMinLen() > n.GetMaxLen()",
        "    n.MinLen = proto.Int32(n.GetMaxLen())",
        "if c.original.Nonce == nil || c.original.Nonce.MaxLen == nil",
        "  minLen := int(n.GetMinLen())",
        "  n.MaxLen = proto.Int32(int32(minLen + rng.FixedInt(13-minLen, fmt.Sprintf(\"%d:nonce.maxLen\", seed))))"]),
      ("Config.generatePaddingPattern", [
        "if c.effective.Padding == nil",
        "  c.effective.Padding = &appctlpb.PaddingPattern{}",
        "p := c.effective.Padding",
        "if c.original.Padding == nil || c.original.Padding.MaxMiddlePaddingLen == nil",
        "  maxMiddlePaddingLen := rng.FixedInt(maxPaddingLen+1, fmt.Sprintf(\"%d:padding.maxMiddlePaddingLen\", seed)) - 128",
        "  if maxMiddlePaddingLen <= 0",
        "    maxMiddlePaddingLen = 0",
        "  p.MaxMiddlePaddingLen = proto.Int32(int32(maxMiddlePaddingLen))",
        "if c.original.Padding == nil || c.original.Padding.MaxEndPaddingLen == nil",
        "  if unlockAll",
        "    p.MaxEndPaddingLen = proto.Int32(int32(rng.FixedInt(maxPaddingLen+1, fmt.Sprintf(\"%d:padding.maxEndPaddingLen\", seed))))",
        "  else",
        "    p.MaxEndPaddingLen = proto.Int32(maxPaddingLen)"]),
      ("Config.generateLowEntropyPattern", [
        "if c.effective.LowEntropy == nil",
        "  c.effective.LowEntropy = &appctlpb.LowEntropyPattern{}",
        "lowEntropy := c.effective.LowEntropy",
        "if c.original.LowEntropy == nil || c.original.LowEntropy.Mode == nil",
        "  if unlockAll",
        "    modeCount := len(appctlpb.LowEntropyMode_name)",
        "    lowEntropy.Mode = appctlpb.LowEntropyMode(rng.FixedInt(modeCount, fmt.Sprintf(\"%d:lowEntropy.mode\", seed))).Enum()",
        "  else",
        "    lowEntropy.Mode = appctlpb.LowEntropyMode_LOW_ENTROPY_MODE_OFF.Enum()",
        "if c.original.LowEntropy == nil || c.original.LowEntropy.MaskRotation == nil",
        "  rotationIndex := rng.FixedInt(len(appctlpb.LowEntropyMaskRotation_name), fmt.Sprintf(\"%d:lowEntropy.maskRotation\", seed))",
        "  var rotation appctlpb.LowEntropyMaskRotation",
        "  if rotationIndex <= 15",
        "    rotation = appctlpb.LowEntropyMaskRotation(rotationIndex)",
        "  else",
        "    rotation = appctlpb.LowEntropyMaskRotation((rotationIndex - 15) * 16)",
        "  lowEntropy.MaskRotation = rotation.Enum()"])
    ] := rfl

/-- the byte classes of pkg/common/ascii.go: the printable bounds and the 64 bytes of `Common64Set` are the
    model's; `ToCommon64Set` indexes the set with `b & 0x3f` -/
theorem ascii_constants :
    Mieru.Gen.PatternGen.common64Set = common64Set.map (·.toNat) ∧
    Mieru.Gen.PatternGen.printableCharSub = 0x20 ∧ Mieru.Gen.PatternGen.printableCharSup = 0x7e ∧
    Mieru.Gen.PatternGen.loopOfToCommon64Set =
      ["for i := beginIdx; i < endIdx; i++ { setIdx := b[i] & 0x3f b[i] = Common64Set[setIdx] }"] ∧
    Mieru.Gen.PatternGen.loopOfToPrintableChar =
      ["for i := beginIdx; i < endIdx; i++ { if b[i] < PrintableCharSub || b[i] > PrintableCharSup { if b[i]&0x80 > 0 { lowBits := b[i] & 0x7F if lowBits >= PrintableCharSub && lowBits <= PrintableCharSup { b[i] = lowBits continue } } randCount++ } }"] ∧
    Mieru.Gen.PatternGen.enumConsts.lookup "NonceType_NONCE_TYPE_RANDOM" = some 0 ∧
    Mieru.Gen.PatternGen.enumConsts.lookup "NonceType_NONCE_TYPE_PRINTABLE" = some 1 ∧
    Mieru.Gen.PatternGen.enumConsts.lookup "NonceType_NONCE_TYPE_PRINTABLE_SUBSET" = some 2 ∧
    Mieru.Gen.PatternGen.enumConsts.lookup "NonceType_NONCE_TYPE_FIXED" = some 3 :=
  ⟨by decide, rfl, rfl, rfl, rfl, by decide, by decide, by decide, by decide⟩

end Mieru.C16

/-! ## Wire clauses as theorems over the emission models (`Mieru.Model.PatternWire`) -/
namespace Mieru.C16
open Mieru.Pattern Mieru.Padding Mieru.PatternWire

/-- **Server uses low entropy only toward a client that used it first** — temporal statement, per session.
    In EVERY history of a server-side session that starts with the flag clear (as `Session` is created), every
    low-entropy data segment the server emits comes from a `writeChunk` that is preceded, in that session's own
    history, by the receipt of a `dataClientToServerLowEntropy` segment. -/
theorem server_low_entropy_preceded_by_client (s : LESession) (hs : s.isClient = false) (h0 : s.clientUsedLE = false)
    (evs : List LEEvent) (e : Emit) (he : e ∈ runEmits s evs) (hle : e.isLE = true) :
    ∃ pre n post, evs = pre ++ LEEvent.sendChunk n :: post ∧ e ∈ (step (runState s pre) (.sendChunk n)).2 ∧
      LEEvent.recv dataClientToServerLowEntropy ∈ pre := by
  obtain ⟨pre, n, post, h1, h2⟩ := mem_runEmits s evs e he
  refine ⟨pre, n, post, h1, h2, ?_⟩
  have h3 := mem_step_sendChunk _ n e h2
  rw [h3, isLE_dataProtocolOf] at hle
  have h4 := ((server_le_only_after_client (runState s pre).pattern (runState s pre).isClient (runState s pre).clientUsedLE).1.mp hle).2
  rw [runState_isClient, hs] at h4
  rcases h4 with h4 | h4
  · cases h4
  · rcases runState_flag s pre h4 with h5 | ⟨_, h5⟩
    · rw [h0] at h5; cases h5
    · exact h5

/-- **Clients follow their own setting from the first data segment; mode and rotation on the wire are the
    configured ones** (either role): a data segment is low-entropy-typed iff the sender's decision said so, its
    protocol number is the role's (6/10 client, 7/11 server), and a low-entropy segment carries exactly the
    configured mode (≠ OFF) and rotation; a client's decision is its own configuration, in every history. -/
theorem emitted_low_entropy_is_configured (s : LESession) (evs : List LEEvent) (e : Emit) (he : e ∈ runEmits s evs) :
    let cfg := extractLowEntropyConfig s.pattern
    (e.isLE = true → cfg.2.2 = true ∧ e.mode = cfg.1 ∧ e.rotation = cfg.2.1 ∧ e.mode ≠ 0) ∧
    (e.isLE = false → e.mode = 0 ∧ e.rotation = 0) ∧
    (s.isClient = true → e.isLE = cfg.2.2 ∧ (e.protocol = dataClientToServer ∨ e.protocol = dataClientToServerLowEntropy)) ∧
    (s.isClient = false → (e.protocol = dataServerToClient ∨ e.protocol = dataServerToClientLowEntropy)) := by
  obtain ⟨pre, n, post, _, h2⟩ := mem_runEmits s evs e he
  have h3 := mem_step_sendChunk _ n e h2
  rw [runState_isClient, runState_pattern] at h3
  have hd := server_le_only_after_client s.pattern s.isClient (runState s pre).clientUsedLE
  simp only at hd
  generalize lowEntropySendConfig s.pattern s.isClient (runState s pre).clientUsedLE = r at *
  subst h3
  simp only [isLE_dataProtocolOf]
  refine ⟨fun h => ⟨(hd.1.mp h).1, (hd.2.1 h).1, (hd.2.1 h).2.1, by rw [(hd.2.1 h).1]; exact (hd.2.1 h).2.2 |> fun x => by rwa [(hd.2.1 h).1] at x⟩,
    fun h => hd.2.2 h, ?_, ?_⟩
  · intro hc
    refine ⟨?_, ?_⟩
    · cases hr : r.2.2 with
      | true => exact ((hd.1.mp hr).1).symm
      | false =>
        cases hcfg : (extractLowEntropyConfig s.pattern).2.2 with
        | false => rfl
        | true => have := hd.1.mpr ⟨hcfg, Or.inl hc⟩; rw [hr] at this; cases this
    · rw [hc]; cases r.2.2 <;> simp [dataProtocolOf]
  · intro hc; rw [hc]; cases r.2.2 <;> simp [dataProtocolOf]

/-- **Nonce pattern on UDP: every packet iff `applyToAllUDPPacket`, else exactly the first — per cipher object.**
    `ids` = for each datagram of a socket, in emission order, the identity of the (stateless) cipher object that
    encrypted it.  With a pattern, packet i carries it iff applyToAll or no earlier packet used the same object;
    with NO pattern (`noncePattern == nil`) no packet does.  Corollary: ONE object (a client's packet underlay
    uses its single `u.block` for everything it sends) ⇒ the first datagram only, or all of them. -/
theorem udp_nonce_pattern_emission (ty : Int) (all : Bool) (ids : List Nat) (id n : Nat) :
    wireFlags (some (ty, all)) ids [] = (firstUse ids []).map (all || ·) ∧
    wireFlags none ids [] = List.replicate ids.length false ∧
    wireFlags (some (ty, all)) (List.replicate (n + 1) id) [] = true :: List.replicate n all := by
  refine ⟨wireFlags_some .., wireFlags_none .., ?_⟩
  rw [wireFlags_some]
  simp only [List.replicate_succ, firstUse, List.contains_nil, Bool.not_false, List.map_cons, Bool.or_true]
  rw [firstUse_replicate n id [id] (by simp)]
  simp

/-- **One cipher object**: `n` Encrypt calls.  Stateless (UDP): each call sends a nonce; those carrying the
    pattern are `stepFlags` — none for a nil pattern, all for applyToAll, else exactly the first.  Implicit-nonce
    mode (TCP): ONLY the first call puts a nonce on the wire (later calls increment the implicit nonce), and that
    one nonce went through `newNonceTo` with the skip test off: it carries the pattern iff there is one.
    `Clone()` (how TCP underlays obtain `send`/`recv`) does not copy `noncePatternApplied`. -/
theorem cipher_object_nonce_emission (pat : Option (Int × Bool)) (ty : Int) (n : Nat) (c : CipherObj) :
    (encryptN pat n { implicitMode := false }).map (·.sentNonce) = List.replicate n true ∧
    (encryptN none n { implicitMode := false }).map (·.patterned) = List.replicate n false ∧
    (encryptN (some (ty, true)) n { implicitMode := false }).map (·.patterned) = List.replicate n true ∧
    (encryptN (some (ty, false)) (n + 1) { implicitMode := false }).map (·.patterned) = true :: List.replicate n false ∧
    (encryptN pat (n + 1) { implicitMode := true }).map (·.sentNonce) = true :: List.replicate n false ∧
    (encryptN pat (n + 1) { implicitMode := true }).map (·.patterned) = pat.isSome :: List.replicate n false ∧
    (clone c).applied = false := by
  have hu := fun p => encryptN_udp p n false
  have hu1 := encryptN_udp (some (ty, false)) (n + 1) false
  have h1 := (nonce_rewrite_once_for_udp n)
  refine ⟨(hu pat).1, ?_, ?_, ?_, ?_, ?_, rfl⟩
  · rw [(hu none).2, stepFlags_none]
  · rw [(hu _).2, stepFlags_some]; exact h1.2.1
  · rw [hu1.2, stepFlags_some]; exact h1.1
  · rw [encryptN_tcp]; simp
  · rw [encryptN_tcp]
    cases pat with
    | none => simp [EncOut.patterned, newNonceStep]
    | some v => obtain ⟨t, a⟩ := v; simp [EncOut.patterned, newNonceStep, nonceApplies]

/-- **Nonce prefix of the configured class and length**: after the type switch of `newNonceTo`, for a rewrite
    length `n ≤ len` — PRINTABLE: the first `n` bytes are printable ASCII (0x20..0x7e) whatever the random draws,
    bytes that were printable stay; PRINTABLE_SUBSET: the first `n` bytes are members of `Common64Set`; both: the
    remaining bytes are untouched; FIXED: the first `min(len prefix, NonceSize)` bytes are the chosen decoded
    prefix, the rest untouched (no prefix configured: untouched); RANDOM: untouched.  The length never changes.
    The user hint, written afterwards, overwrites only the last 4 bytes: a prefix of ≤ len − 4 bytes survives. -/
theorem nonce_prefix_in_class (nonce : PatternWire.Bytes) (n : Nat) (hn : n ≤ nonce.length) (draws : List Nat) (pre hint4 : PatternWire.Bytes) :
    let p := rewriteNonce .printable nonce n draws none
    let s := rewriteNonce .subset nonce n draws none
    let f := rewriteNonce .fixed nonce n draws (some pre)
    let k := min pre.length nonce.length
    (p.length = nonce.length ∧ (∀ x ∈ p.take n, isPrintable x = true) ∧ p.drop n = nonce.drop n ∧
      ((∀ x ∈ nonce.take n, isPrintable x = true) → p = nonce)) ∧
    (s.length = nonce.length ∧ (∀ x ∈ s.take n, x ∈ common64Set) ∧ s.drop n = nonce.drop n) ∧
    (f.length = nonce.length ∧ f.take k = pre.take k ∧ f.drop k = nonce.drop k) ∧
    rewriteNonce .fixed nonce n draws none = nonce ∧ rewriteNonce .none nonce n draws (some pre) = nonce ∧
    (n ≤ nonce.length - 4 → (withHint p hint4).take n = p.take n ∧ (withHint s hint4).take n = s.take n) := by
  have hl1 : (toPrintable (nonce.take n) draws).length = n := by rw [toPrintable_length, List.length_take]; omega
  have hl2 : ((nonce.take n).map toCommon64).length = n := by rw [List.length_map, List.length_take]; omega
  have hf := applyFixed_spec nonce pre nonce.length rfl
  intro p s f k
  refine ⟨⟨?_, ?_, ?_, ?_⟩, ⟨?_, ?_, ?_⟩, hf, rfl, rfl, ?_⟩ <;> simp only [p, s, rewriteNonce]
  · simp only [List.length_append, hl1, List.length_drop]; omega
  · rw [List.take_append_of_le_length (by omega), List.take_of_length_le (by omega)]
    exact toPrintable_all _ _
  · rw [List.drop_append_of_le_length (by omega), List.drop_of_length_le (by omega)]; rfl
  · intro h; rw [toPrintable_of_all_printable _ _ h]; exact List.take_append_drop _ _
  · simp only [List.length_append, hl2, List.length_drop]; omega
  · rw [List.take_append_of_le_length (by omega), List.take_of_length_le (by omega)]
    intro x hx
    obtain ⟨b, _, rfl⟩ := List.mem_map.mp hx
    exact toCommon64_mem b
  · rw [List.drop_append_of_le_length (by omega), List.drop_of_length_le (by omega)]; rfl
  · intro h4
    constructor
    · exact withHint_take _ _ _ (by simp only [List.length_append, hl1, List.length_drop]; omega)
    · exact withHint_take _ _ _ (by simp only [List.length_append, hl2, List.length_drop]; omega)

/-- **TCP fragmentation only when enabled and content-preserving**: whatever the random draws, the
    concatenation of the `Write` calls is the data; not enabled (nil pattern, nil `tcpFragment`, or
    `enable = false`) ⇒ exactly ONE `Write` with the whole data; enabled ⇒ no empty `Write`, every piece at most
    `max(⌊√len⌋+1, len/2)` bytes and — except the last — at least `⌊√len⌋+1` (so ≥ 2 writes from 4 bytes on). -/
theorem tcp_fragment_content_preserved {α} (disabled : Bool) (data : List α) (draws : Nat → Nat) :
    (writes disabled data draws).flatten = data ∧
    (disabled = true → writes disabled data draws = [data]) ∧
    (disabled = false → ∀ p ∈ writes disabled data draws, p ≠ []) ∧
    writeSizesOK disabled data.length ((writes disabled data draws).map List.length) = true := by
  cases disabled with
  | true => simp [writes, writeSizesOK]
  | false =>
    simp only [writes, writeSizesOK, Bool.false_eq_true, ↓reduceIte, false_implies, true_implies, true_and]
    exact ⟨pieces_flatten _ _ _ _ _ _ (Nat.le_refl _), pieces_nonempty _ _ _ _ _ _, pieces_sizesOK _ _ _ _ _ _ (Nat.le_refl _)⟩

/-- the `maxEnd` twin of `padding_le_explicit` -/
theorem padding_le_explicit_end (fi : Nat → String → Nat) (host : Int) (p : TrafficPattern) (base c : Int) (hc : 0 ≤ c)
    (h : p.padding.bind (·.maxEnd) = some c) :
    maxPadTP base ((effective fi host p).padding.bind (·.maxEnd)) ≤ c := by
  have := (explicit_preserved fi host p).2.2.2.2.2.2.2.2.2.2.1 c h
  rw [this]
  exact (padding_le_configured base c hc).1

/-- composed with the regenerated function: the budget the REAL `maxPaddingSizeWithTrafficPattern` computes from
    the EFFECTIVE pattern (never nil, `Padding` never nil after `NewConfig`) is at most the explicitly configured
    maximum, for the middle and for the end padding, at every MTU / transport / fragment size -/
theorem padding_budget_le_explicit_gen (fi : Nat → String → Nat) (host : Int) (p : TrafficPattern)
    (mtu transport frag existing c : Int) (hc : 0 ≤ c) :
    let e := effective fi host p
    (p.padding.bind (·.maxMiddle) = some c →
      Mieru.Gen.PatternGen.maxPaddingSizeWithTrafficPattern mtu transport frag existing false e.padding.isNone
        (e.padding.bind (·.maxMiddle)) (e.padding.bind (·.maxEnd)) 0 ≤ c) ∧
    (p.padding.bind (·.maxEnd) = some c →
      Mieru.Gen.PatternGen.maxPaddingSizeWithTrafficPattern mtu transport frag existing false e.padding.isNone
        (e.padding.bind (·.maxMiddle)) (e.padding.bind (·.maxEnd)) 1 ≤ c) := by
  have hnil : (effective fi host p).padding.isNone = false := rfl
  simp only [maxPadTP_eq_gen, configuredFor, hnil, Bool.or_self, Bool.false_eq_true, ↓reduceIte]
  exact ⟨padding_le_explicit fi host p _ c hc, by simpa using padding_le_explicit_end fi host p _ c hc⟩

/-- **"… and runs without error"** (audit GAP-1): for every valid pattern, every seed / host / FixedInt, the
    EFFECTIVE pattern meets the preconditions of every runtime consumer, for every MTU 1280..1500 and both
    transports: `buildLowEntropyParams(mode)` succeeds when the mode is on; `maxFragmentSize` (regenerated) succeeds
    with a positive size (so `writeChunk` neither fails nor divides by zero); the rotation passes
    `isValidLowEntropyRotation`; the nonce rewrite length lies in 0..12 ⊆ 0..24 (no `ToPrintableChar` /
    `ToCommon64Set` panic: `begin ≤ end ≤ len`); every custom hex string decodes to ≤ 12 bytes (the FIXED branch's
    `panic` is unreachable and `copy` stays inside the nonce); tcpFragment.maxSleepMs ∈ 0..100. -/
theorem effective_runs_without_error (fi : Nat → String → Nat) (hfi : FixedIntOK fi) (host : Int) (p : TrafficPattern)
    (hv : validate p = .ok ()) (mtu : Int) (hm : 1280 ≤ mtu ∧ mtu ≤ 1500) (r : Nat) :
    let e := effective fi host p
    ∃ tcp non pad le mode rot minLen maxLen sleep,
      e.tcpFragment = some tcp ∧ e.nonce = some non ∧ e.padding = some pad ∧ e.lowEntropy = some le ∧
      le.mode = some mode ∧ le.maskRotation = some rot ∧ non.minLen = some minLen ∧ non.maxLen = some maxLen ∧
      tcp.maxSleepMs = some sleep ∧ 0 ≤ sleep ∧ sleep ≤ 100 ∧
      (mode ≠ 0 → (Mieru.Gen.Arith.buildLowEntropyParams_sourceBytesPerChunk mode).isSome ∧
                   (Mieru.Gen.Arith.buildLowEntropyParams_halfMaskOnes mode).isSome) ∧
      (∃ f, Mieru.Gen.Arith.maxFragmentSize mtu Mieru.Gen.streamTransport mode = some f ∧ 0 < f) ∧
      (∃ f, Mieru.Gen.Arith.maxFragmentSize mtu Mieru.Gen.packetTransport mode = some f ∧ 0 < f) ∧
      Mieru.Gen.Arith.isValidLowEntropyRotation rot = true ∧
      0 ≤ Mieru.Gen.PatternGen.nonceRewriteLen minLen maxLen 24 r ∧
      Mieru.Gen.PatternGen.nonceRewriteLen minLen maxLen 24 r ≤ 12 ∧
      (∀ s ∈ non.customHex, validHex s = true ∧ s.length / 2 ≤ 12) := by
  have hval := effective_valid fi hfi host p ((validate_iff p).mp hv)
  obtain ⟨h1, h2, h3, h4⟩ := hval
  simp only [effective] at h1 h2 h3 h4 ⊢
  -- every leaf is set
  have hs := effective_all_set fi host p
  simp only [effective, Option.bind_some] at hs
  obtain ⟨_, hs2, _, _, hs5, hs6, _, _, hs9, hs10⟩ := hs
  obtain ⟨sleep, hsleep⟩ := Option.isSome_iff_exists.mp hs2
  obtain ⟨minLen, hmin⟩ := Option.isSome_iff_exists.mp hs5
  obtain ⟨maxLen, hmax⟩ := Option.isSome_iff_exists.mp hs6
  obtain ⟨mode, hmode⟩ := Option.isSome_iff_exists.mp hs9
  obtain ⟨rot, hrot⟩ := Option.isSome_iff_exists.mp hs10
  have ht := h1 _ rfl sleep hsleep
  have hn := h2 _ rfl
  have hl := h4 _ rfl
  have hmv : validMode mode := hl.1 mode hmode
  have hrv : validRotation rot := hl.2 rot hrot
  have hmn := hn.1 minLen hmin
  have hmx := hn.2.1 maxLen hmax
  have hle := hn.2.2.1 minLen maxLen hmin hmax
  refine ⟨_, _, _, _, mode, rot, minLen, maxLen, sleep, rfl, rfl, rfl, rfl, hmode, hrot, hmin, hmax, hsleep, ht.1, ht.2, ?_, ?_, ?_, ?_, ?_, ?_, hn.2.2.2⟩
  · intro h0
    unfold validMode at hmv
    have : mode = 1 ∨ mode = 2 ∨ mode = 3 ∨ mode = 4 := by omega
    rcases this with rfl | rfl | rfl | rfl <;> decide
  · unfold validMode at hmv
    have : mode = 0 ∨ mode = 1 ∨ mode = 2 ∨ mode = 3 ∨ mode = 4 := by omega
    have hI : Mieru.Gen.Arith.maxFragmentSizeInternal mtu Mieru.Gen.streamTransport = 32768 := rfl
    rcases this with rfl | rfl | rfl | rfl | rfl <;> exact ⟨_, rfl, by rw [hI]; decide⟩
  · unfold validMode at hmv
    have h88 : (0:Int) ≤ mtu - 88 := by omega
    have : mode = 0 ∨ mode = 1 ∨ mode = 2 ∨ mode = 3 ∨ mode = 4 := by omega
    rcases this with rfl | rfl | rfl | rfl | rfl
    · exact ⟨mtu - 88, by simp [Mieru.Gen.Arith.maxFragmentSize, Mieru.Gen.Arith.maxFragmentSizeInternal, Mieru.Gen.packetTransport, Mieru.Gen.streamTransport, Mieru.Gen.packetOverhead]; omega, by omega⟩
    all_goals
      simp [Mieru.Gen.Arith.maxFragmentSize, Mieru.Gen.Arith.buildLowEntropyParams_sourceBytesPerChunk,
        Mieru.Gen.Arith.buildLowEntropyParams_halfMaskOnes, Mieru.Gen.packetTransport, Mieru.Gen.streamTransport,
        Mieru.Gen.packetOverhead, Mieru.Gen.lowEntropyChunkLen, Int.tdiv_eq_ediv_of_nonneg h88]
      exact ⟨_, ⟨by omega, rfl⟩, by omega⟩
  · have h0 : 0 ≤ rot := by unfold validRotation at hrv; omega
    unfold validRotation at hrv
    unfold Mieru.Gen.Arith.isValidLowEntropyRotation
    rw [Int.tmod_eq_emod_of_nonneg h0]
    simp only [decide_eq_true_eq]
    omega
  · have := nonce_rewrite_len_in_clamped_range minLen maxLen 24 r
    simp only [nonceRewriteRange] at this
    obtain ⟨_, _, h5, _, _⟩ := this
    have : (if minLen > (if maxLen > 24 then 24 else maxLen) then (if maxLen > 24 then 24 else maxLen) else minLen) = minLen := by
      rw [if_neg (by omega : ¬ maxLen > 24), if_neg (by omega)]
    omega
  · have := nonce_rewrite_len_in_clamped_range minLen maxLen 24 r
    simp only [nonceRewriteRange] at this
    obtain ⟨_, _, _, h6, _⟩ := this
    have : (if maxLen > 24 then (24 : Int) else maxLen) = maxLen := by rw [if_neg (by omega)]
    omega

end Mieru.C16

/-! ## Non-vacuity of the round-3 families -/
namespace Mieru.C16
open Mieru.Pattern Mieru.Padding Mieru.PatternWire

/-- the server of a session whose pattern is mode 3 / rotation 32 -/
def srv : LESession := { isClient := false, pattern := some { lowEntropy := some { mode := some 3, maskRotation := some 32 } } }

-- before the client used low entropy the server emits plain type 7; after a received type 10, type 11 with the configured mode / rotation
example : runEmits srv [.recv 6, .sendChunk 1, .recv 10, .sendChunk 2] = [⟨7, 0, 0⟩, ⟨11, 3, 32⟩, ⟨11, 3, 32⟩] := by decide
-- a low-entropy ack-less client: type 10 from its first data segment
example : runEmits { srv with isClient := true } [.sendChunk 1] = [⟨10, 3, 32⟩] := by decide
-- a type-10 segment received by a CLIENT session (wrong direction) does not set the flag
example : (runState { srv with isClient := true } [.recv 10]).clientUsedLE = false := by decide
example : wireFlags (some (1, false)) [7, 7, 9, 7, 9] [] = [true, false, true, false, false] := by decide
example : wireFlags (some (1, true)) [7, 7, 9] [] = [true, true, true] := by decide
example : wireFlags none [7, 7, 9] [] = [false, false, false] := by decide
example : (encryptN (some (2, false)) 3 { implicitMode := true }).map (·.sentNonce) = [true, false, false] := by decide
example : rewriteNonce .subset [0x00, 0xff, 0x41, 0x80] 2 [] none = [65, 106, 0x41, 0x80] := by decide
example : rewriteNonce .printable [0x00, 0xc1, 0x41, 0x80] 3 [5] none = [0x25, 0x41, 0x41, 0x80] := by decide
example : rewriteNonce .fixed [1, 2, 3, 4] 0 [] (some [9, 8]) = [9, 8, 3, 4] := by decide
-- 10 bytes, ⌊√10⌋ = 3: pieces of 4..5 bytes, the last one what remains
example : pieces 10 3 (fun k => k) 10 0 [1, 2, 3, 4, 5, 6, 7, 8, 9, 10] = [[1, 2, 3, 4], [5, 6, 7, 8, 9], [10]] := by decide
example : writes true [1, 2, 3] (fun k => k) = [[1, 2, 3]] := by decide
example : maxPadTP 200 (some 0) = 0 ∧ maxPadTP 200 (some 7) = 7 ∧ maxPadTP 5 (some 7) = 5 ∧ maxPadTP 200 none = 200 ∧ maxPadTP 200 (some (-1)) = 0 := by decide
example : Mieru.Gen.PatternGen.nonceRewriteLen 30 40 24 5 = 24 ∧ Mieru.Gen.PatternGen.nonceRewriteLen 9 3 24 5 = 3 ∧
    Mieru.Gen.PatternGen.nonceRewriteLen 6 9 24 7 = 9 := by decide
example : Mieru.Gen.PatternGen.maxPaddingSizeWithTrafficPattern 1400 2 100 0 false false (some 0) none 0 = 0 := by decide
example : validate witness = .ok () ∧ FixedIntOK Mieru.FixedInt.fixedIntSha := ⟨rfl, fixedIntSha_ok⟩

end Mieru.C16
